#!/usr/bin/env python3
"""Prints the markdown table of /verif/seeded/*/meta.json (used for DESIGN.md section 9.5)."""
import json, glob, re
print("| seed | file(s) changed | needs, in order to manifest | detected by (quick tier) | first run |")
print("|------|-----------------|-----------------------------|--------------------------|-----------|")
for f in sorted(glob.glob('/verif/seeded/*/meta.json')):
    m = json.load(open(f)); d = f.rsplit('/', 1)[0]
    files = sorted({l[6:].strip().split('/')[-1] for l in open(d + '/patch.diff') if l.startswith('+++ b/')})
    c = m.get('check', {})
    by = c.get('detected_by', '')
    tests = sorted(set(re.findall(r'(Test\w+|Fuzz\w+|process-crash|bubble-hang)', by)))
    first = 'missed; check strengthened' if c.get('first_run') else 'detected'
    if not c.get('detected'):
        first = 'NOT DETECTED'
        other = c.get('detected_by_other_property')
        if other:
            first += ' by this property\'s check; caught by ' + other.split(' (')[0]
        elif c.get('why_missed'):
            first += ' (see meta.json: why_missed)'
    needs = m.get('needs_to_manifest', '').replace('|', '/').replace('\n', ' ')
    if len(needs) > 230: needs = needs[:227] + '...'
    print("| %s | %s | %s | %s | %s |" % (m['id'], ', '.join(files), needs, ', '.join(tests) or by[:60], first))
