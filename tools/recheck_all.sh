#!/bin/bash
# usage: recheck_all.sh <lanes> [filter-regex]   -> /tmp/recheck/<seed>.txt, summary on stdout
# Re-runs the quick tier against every stored seeded change (scratch worktrees, removed afterwards).
lanes=${1:-3}; filt=${2:-.}
mkdir -p /tmp/recheck
ls -d /verif/seeded/C*-* | grep -E "$filt" > /tmp/recheck/list.txt
lane() {
  k=$1; i=0
  while read -r d; do
    i=$((i+1)); [ $((i % lanes)) -eq $k ] || continue
    id=$(basename $d); pid=${id%-*}
    /verif/tools/check_seed.sh $pid $d quick > /tmp/recheck/$id.txt 2>&1
  done < /tmp/recheck/list.txt
}
for k in $(seq 0 $((lanes-1))); do lane $k & done
wait
for f in /tmp/recheck/C*.txt; do echo "$(basename $f .txt) $(grep -E '^RESULT' $f | cut -c1-40)"; done
