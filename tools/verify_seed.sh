#!/bin/bash
# usage: verify_seed.sh <srcdir with patch.diff demo_test.go> <pkgdir relative to repo> <demo -run regex> [extra go test flags]
# Confirms: patch applies, touched package's existing tests pass with it, demo fails with / passes without.
set -u
src=$1; pkg=$2; rx=$3; shift 3
export GOFLAGS=-mod=mod GOPROXY=off
wt=$(mktemp -d /tmp/seedver.XXXXXX)
git -C /repo worktree add --detach "$wt" HEAD >/dev/null 2>&1 || { echo "worktree failed"; exit 9; }
cleanup() { git -C /repo worktree remove --force "$wt" >/dev/null 2>&1; }
trap cleanup EXIT
cd "$wt"
cp "$src"/demo_test.go "$pkg"/zz_seed_demo_test.go
out=$(go test -count=1 -run "$rx" "$@" ./"$pkg"/ 2>&1); rc=$?
echo "demo WITHOUT change: rc=$rc $(echo "$out" | grep -E '^(--- FAIL|ok|FAIL|panic)' | head -3 | tr '\n' ' ')"
git apply "$src/patch.diff" || { echo "PATCH DOES NOT APPLY"; exit 9; }
go build ./"$pkg"/... 2>&1 | head -3
out=$(go test -count=1 -run "$rx" "$@" ./"$pkg"/ 2>&1); rc=$?
echo "demo WITH change:    rc=$rc $(echo "$out" | grep -E '^(--- FAIL|ok|FAIL|panic)' | head -4 | tr '\n' ' ')"
rm "$pkg"/zz_seed_demo_test.go
out=$(go test -count=1 ./"$pkg"/... 2>&1); rc=$?
echo "existing tests WITH change: rc=$rc failing: $(echo "$out" | grep -E '^(--- FAIL|panic)' | tr '\n' ' ')"
