#!/bin/bash
# Runs the repository's own test suite (hooks off: no build tag) on /repo's working tree and reports
# which of the baseline's stable tests did not pass. usage: baseline_check.sh [outfile.json]
out=${1:-/tmp/baseline_run.json}
export GOFLAGS=-mod=mod GOPROXY=off
(cd /repo && go test -json -vet=off -count=1 -timeout 25m ./... > $out 2>/tmp/baseline_run.err)
python3 - "$out" <<'PY'
import json,sys,ast
b=json.load(open('/root/.vp/BASELINE.json'))
stable=set(ast.literal_eval(b['stable_pass']) if isinstance(b['stable_pass'],str) else b['stable_pass'])
res={}
for l in open(sys.argv[1]):
    try: e=json.loads(l)
    except Exception: continue
    if e.get('Test') and e.get('Action') in ('pass','fail','skip'):
        res[e['Package']+'::'+e['Test']]=e['Action']
bad=[t for t in sorted(stable) if res.get(t)!='pass']
print("stable tests:",len(stable),"passed:",len(stable)-len(bad),"not passed:",len(bad))
for t in bad[:40]: print("  ",t,res.get(t))
PY
