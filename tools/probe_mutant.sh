#!/bin/bash
# usage: probe_mutant.sh <Cxx> <tier> <relative-file> <sed-expr> [<file> <sed-expr> ...]
# Applies sed edits in a scratch worktree of /repo, runs the check against it, removes the worktree.
set -u
pid=$1; tier=$2; shift 2
wt=$(mktemp -d /tmp/mut.XXXXXX)
git -C /repo worktree add --detach "$wt" HEAD >/dev/null 2>&1 || { echo "worktree failed"; exit 9; }
while [ $# -ge 2 ]; do
  f=$1; e=$2; shift 2
  sed -i -E "$e" "$wt/$f"
done
if git -C "$wt" diff --quiet; then echo "MUTANT DID NOT CHANGE ANYTHING"; git -C /repo worktree remove --force "$wt"; exit 9; fi
git -C "$wt" diff | grep '^[+-]' | grep -v '^+++\|^---' | head -20
(cd /verif && VERIF_REPO=$wt ./run $pid $tier 2>&1 | grep -v "^VIOLATION\|^failing test" | tail -3; 
 cd /verif && ls .build/alt-*/replays/$pid 2>/dev/null | head -0)
rc=${PIPESTATUS[0]}
tag=$(python3 -c "import hashlib,os,sys;print('alt-'+hashlib.sha1(os.path.abspath('$wt').encode()).hexdigest()[:10])")
if ls /verif/.build/$tag/replays/$pid >/dev/null 2>&1; then echo "RESULT: DETECTED ($(find /verif/.build/$tag/replays/$pid -type f | sed 's|.*/replays/||' | cut -d/ -f2-3 | sort -u | tr '\n' ' '))"; else echo "RESULT: not detected"; fi
git -C /repo worktree remove --force "$wt"
rm -rf /verif/.build/$tag
