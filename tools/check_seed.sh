#!/bin/bash
# usage: check_seed.sh <Cxx> <seed-dir with patch.diff> [tier]
# Applies the seeded change in a scratch worktree and runs our check against it.
set -u
pid=$1; dir=$2; tier=${3:-quick}
wt=$(mktemp -d /tmp/seedrun.XXXXXX)
git -C /repo worktree add --detach "$wt" HEAD >/dev/null 2>&1 || { echo "worktree failed"; exit 9; }
if ! git -C "$wt" apply "$dir/patch.diff"; then echo "PATCH DOES NOT APPLY"; git -C /repo worktree remove --force "$wt"; exit 9; fi
(cd /verif && VERIF_REPO=$wt ./run $pid $tier 2>&1 | grep -v "^KNOWN-FINDING" | tail -6)
tag=$(python3 -c "import hashlib,os;print('alt-'+hashlib.sha1(os.path.abspath('$wt').encode()).hexdigest()[:10])")
if ls /verif/.build/$tag/replays/$pid >/dev/null 2>&1; then echo "RESULT: DETECTED ($(find /verif/.build/$tag/replays/$pid -type f | sed 's|.*/replays/||' | cut -d/ -f2-3 | sort -u | head -5 | tr '\n' ' '))"; else echo "RESULT: not detected"; fi
git -C /repo worktree remove --force "$wt"
rm -rf /verif/.build/$tag
