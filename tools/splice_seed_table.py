#!/usr/bin/env python3
import subprocess
p='/verif/DESIGN.md'
s=open(p).read()
t=subprocess.run(['/verif/tools/seed_table.py'],capture_output=True,text=True).stdout
i=s.index('<!-- SEED-TABLE-BEGIN -->')+len('<!-- SEED-TABLE-BEGIN -->\n'); j=s.index('<!-- SEED-TABLE-END -->')
open(p,'w').write(s[:i]+t+s[j:])
