#!/usr/bin/env python3
"""usage: ingest_seed.py <Cxx> <letter> <pkgdir> <demo regex> "<what it needs to manifest>" [--flags "<extra go test flags>"] [--tier quick|thorough]
Verifies a seeded change from /tmp/seed/<Cxx>/_seed/<letter>, runs our check against it and stores it as /verif/seeded/<Cxx>-<letter>/."""
import sys, os, subprocess, json, shutil, re
pid, letter, pkg, rx, needs = sys.argv[1:6]
flags = ""; tier = "quick"
a = sys.argv[6:]
while a:
    if a[0] == "--flags": flags = a[1]; a = a[2:]
    elif a[0] == "--tier": tier = a[1]; a = a[2:]
    else: a = a[1:]
src = "/tmp/seed/%s/_seed/%s" % (pid, letter)
v = subprocess.run(["/verif/tools/verify_seed.sh", src, pkg, rx] + flags.split(), capture_output=True, text=True).stdout
print(v.strip())
c = subprocess.run(["/verif/tools/check_seed.sh", pid, src, tier], capture_output=True, text=True).stdout
res = [l for l in c.splitlines() if l.startswith("RESULT:")]
print(res[-1] if res else c[-500:])
dst = "/verif/seeded/%s-%s" % (pid, letter)
os.makedirs(dst, exist_ok=True)
for f in ("patch.diff", "demo_test.go", "notes.md"):
    if os.path.exists(os.path.join(src, f)): shutil.copy(os.path.join(src, f), dst)
ok_without = "demo WITHOUT change: rc=0" in v
fail_with = re.search(r"demo WITH change:\s+rc=[1-9]", v) is not None
existing = re.search(r"existing tests WITH change: rc=\d+ failing: (.*)", v)
detected = bool(res) and "DETECTED" in res[-1]
meta = {
    "id": "%s-%s" % (pid, letter), "property": pid, "origin": "fresh sub-agent given only the property text and a scratch worktree",
    "needs_to_manifest": needs,
    "demo": {"file": "demo_test.go", "place_in": pkg, "run": "go test -count=1 -run '%s' %s ./%s/" % (rx, flags, pkg)},
    "confirmed": {"demo_passes_without_change": ok_without, "demo_fails_with_change": fail_with,
                  "existing_package_tests_failing_with_change": (existing.group(1).strip() if existing else "?"),
                  "note": "failures listed there are the baseline's known always-fail / flaky / port-clash tests unless stated otherwise"},
    "check": {"command": "tools/check_seed.sh %s seeded/%s-%s %s" % (pid, pid, letter, tier), "tier": tier, "detected": detected,
              "detected_by": (res[-1][len("RESULT: DETECTED ("):-1].strip() if detected else "")},
}
json.dump(meta, open(os.path.join(dst, "meta.json"), "w"), indent=1)
print("stored", dst, "verified=%s/%s detected=%s" % (ok_without, fail_with, detected))
