# Per-property driver configuration. pkg = Go test package under harness/.
# shards: number of parallel processes per tier; race: -run regex for the -race pass
# (thorough); fuzz: [(target, seconds)] native campaigns (thorough);
# timeout: {"quick": s, "thorough": s} per shard process.
def _p(n, **kw):
    d = {"pkg": "c%02d" % n, "level": "exploration", "shards": {"quick": 4, "thorough": 16}}
    d.update(kw)
    return d

PROPS = {"C%02d" % n: _p(n) for n in range(1, 21)}
PROPS["C04"]["level"] = "fault_enumeration"

# Optional per-package overrides live next to the check: harness/cXX/driver.json
import json as _json, os as _os
_H = _os.path.join(_os.path.dirname(_os.path.dirname(_os.path.abspath(__file__))), "harness")
for _pid, _cfg in PROPS.items():
    _f = _os.path.join(_H, _cfg["pkg"], "driver.json")
    if _os.path.exists(_f):
        _cfg.update(_json.load(open(_f)))
BUILT = [p for p, c in PROPS.items() if _os.path.isdir(_os.path.join(_H, c["pkg"]))]
