# Per-property driver configuration. pkg = Go test package under harness/.
# shards: number of parallel processes per tier; race: -run regex for the -race pass
# (thorough); fuzz: [(target, seconds)] native campaigns (thorough).
PROPS = {
    "C20": {"pkg": "c20", "level": "exploration", "shards": {"quick": 4, "thorough": 16}},
}
