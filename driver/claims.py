# What each claimed check asserts about itself (copied into MANIFEST.json by gen_manifest.py).
HOOK_COMMITS = ["60bdaa0", "64099f4", "7349612", "942f497", "7ee450a", "8054de0"]
NOT_APPLICABLE = {}
CLAIMS = {
    "C20": {
        "technique": "bounded-exhaustive enumeration + rapid property-based testing against a history-derived oracle",
        "design_ref": "DESIGN.md section 3, C20",
        "text": "Every request/success/failure sequence up to depth 3N+4 for N<=3 (quick) / N<=4 (thorough) and every MinSuccesses is run against the exported "
                "success counter and judged by an oracle recomputed from the history alone; random long sequences for N<=100; the address filter is exercised "
                "through a real swarm (CanDial/DialPeer over scripted transports) in normal and read-only mode. Exploration: finds violations, does not prove absence beyond the enumerated bound.",
        "note": "Trusted: multiaddr classification (manet.IsPublicAddr); the scripted transport stands in for real dials. Under-blocking is not asserted.",
    },
}

CLAIMS["C09"] = {
    "technique": "model-based stateful property testing (rapid state machine, differential against a reference model and between the two stores) on virtual time",
    "design_ref": "DESIGN.md section 3, C09",
    "text": "Generated histories of every address-book operation, clock advances, GC runs and close/reopen are applied to the in-memory book, the datastore book "
            "(cache on/off, purge and lookahead GC) and a continuous-time reference model inside one synctest bubble; Addrs/GetPeerRecord/ConsumePeerRecord results must "
            "agree exactly, PeersWithAddrs within one GC period and exactly at the end. A second property enables the per-peer cap (1-3) and compares both books with an exact model of the documented eviction rule "
            "(nearest-expiry unconnected entry, connected entries exempt) over Add/Set/Update/remove batches; cases in which the rule leaves the victim open (equal expiries) are not compared further and counted. "
            "Shrunk failures found on the pinned tree (eleven, all repaired by fix: commits) are replayed as witnesses. Exploration: does not prove absence of further divergences.",
    "note": "Clock steps are whole seconds; per-peer caps are disabled in the full-history configuration and covered by the separate cap property (single peer, no signed records); the datastore double applies each write atomically (crash = close/reopen).",
}

CLAIMS["C03"] = {
    "technique": "model-based stateful property testing (rapid state machine vs. an independent reference model), plus a concurrent bounds/quiescent-sum property under the race detector",
    "design_ref": "DESIGN.md section 3, C03",
    "text": "Generated histories of every resource-manager operation (incl. allow-listed endpoints, IPv6/v4-mapped/no-IP endpoints, nested spans, View* reservations, Done in any order, scope GC) "
            "run against the real manager built from a generated limit table and are audited after every step: each scope's reported usage must equal the sum of the model's holders charged to it, "
            "stay within [0, limit], acceptance must match the model in both directions, limit refusals must wrap the sentinel and change nothing, refused re-parenting must leave the holder in a legal "
            "scope set, per-subnet/prefix caps are recounted from the open connections, and everything reads zero at the end. A second property runs the operations from 2-8 goroutines and checks bounds "
            "continuously and the exact sum at quiescence (also under -race in the thorough tier). Exploration; one genuine defect repaired, one listed as known finding (excluded by construction, counted).",
    "note": "Hidden scopes (allow-listed system/transient, per-peer sub-scopes) are observed through the public trace reporter; connection rate limiter disabled; SetPeer/SetProtocol/SetService are not issued on closed holders; "
            "the concurrent property samples interleavings produced by the Go scheduler.",
}
CLAIMS["C17"] = {
    "technique": "model-based property testing of observation/close histories (rapid, one synctest bubble per case) plus deterministic boundary / top-3 / ineligible-class sweeps against a model recomputed from the history",
    "design_ref": "DESIGN.md section 3, C17",
    "text": "The real observedaddrs.Manager is driven through its public API on a real event bus with generated histories of observe / re-observe / change report / close / observe-after-close / clock advance over "
            "populations with shared IPv4s, shared IPv6 /56s, TCP and QUIC/WebTransport listen addresses sharing a thin waist and reported addresses of every class; after every event AddrsFor (every listen and non-listen "
            "address), Addrs(0) and Addrs(k) are compared with a model that counts distinct observer groups on currently open connections: only addresses with >= threshold groups, at most three per local address, "
            "most-observed first, no strictly better address omitted, ineligible reports never count, closes and changed reports are withdrawn at once. 32 seeded faults were all detected in the quick tier. Exploration.",
    "note": "A connection's credited report is its latest eligible one (a later ineligible report does not withdraw it); transport consistency is read at thin-waist level; listen addresses fixed per history; "
            "one event per quiescence point so the 16-slot queue never drops; ties at the cut are free.",
}

CLAIMS["C05"] = {
    "technique": "schedule-generating property-based testing (rapid) of a real swarm over scripted transports on virtual time; history oracles O1-O7",
    "design_ref": "DESIGN.md section 3, C05",
    "text": "A real swarm with scripted TCP/QUIC/WebTransport/WebSocket/relay transports runs generated dial schedules inside a synctest bubble: 1-3 peers, address sets with duplicates, shadowed, undialable, DNS and relay "
            "entries, per-address outcome scripts (succeed/fail/hang/handshake progress, virtual delays), 1-4 callers per peer with start offsets, cancellations, deadlines, force-direct and simultaneous-connect flags, "
            "caps {1,2,8}x{1,2,160}, two rounds with back-off carry-over. Recorded histories are judged: every caller returns by the horizon; success means an open connection to that very peer (direct when demanded); "
            "an error means own context / dial timeout ended or every candidate failed, was refused or in back-off (never while a candidate is pending, unattempted or succeeded); each address reaches a transport at most once "
            "per waiting interval; concurrency measured inside the transport never exceeds the per-peer and FD caps; successes are propagated at once; shared attempts are not cancelled while callers wait; nothing runs after "
            "the last caller left; token-leak probes (fresh peer and every target peer) find the full caps available again. One genuine defect (FD cap overshoot) was found, shrunk to a witness and repaired. Exploration.",
    "note": "Scripted transports stand in for real ones; black-hole detection disabled; ranking delays are not asserted; events at one virtual instant race for real and the oracles accept either order.",
}
CLAIMS["C08"] = {
    "technique": "rapid property-based testing with metamorphic mutation of serialized forms, constructed pre-image collisions, every-position sweeps and an independent peer-ID definition; 4 native Go fuzz targets with the same oracle (thorough)",
    "design_ref": "DESIGN.md section 3, C08",
    "text": "For all four key types: marshal/unmarshal through every exported path yields an equal key (judged by Equals, byte identity and signature behaviour); signatures verify only under the signer and the signed message; "
            "IDFromPublicKey equals an independently computed definition (threshold swept with synthetic key lengths) and IDs round-trip through binary, base58, JSON, CIDv1 (7 multibases) and AddrInfo forms. Mutated, spliced, "
            "foreign-key, foreign-domain and field-edited envelopes, PeerRecords and relay vouchers plus colliding (domain,type,payload) triples for 8 weaker encodings are presented to every receiver: every acceptance must decode to "
            "exactly a sealed (key,type,payload,requested domain) tuple; both address books accept a peer record only when its PeerID is the signer's ID. 20 of 21 probe mutants detected in the quick tier (the 21st is not a violation). Exploration.",
    "note": "Trusted: Go crypto, decred secp256k1, protobuf-go, go-cid/multibase/multihash as oracles of their own formats; signature malleability that leaves content, signer and domain unchanged is not a violation; "
            "RSA/ECDSA key bytes and ECDSA signatures are randomised by Go (verdicts do not depend on them).",
}
CLAIMS["C14"] = {
    "technique": "model-based stateful property testing (rapid state machine vs reference model) on virtual time + bounded-exhaustive enumeration of trim configurations + concurrent histories with an interval-relaxed oracle (race detector in thorough)",
    "design_ref": "DESIGN.md section 3, C14",
    "text": "A real BasicConnMgr runs in a synctest bubble with fake connections recording CloseWithError. Generated histories of Connected/Disconnected (several conns per peer, duplicates, unknown conns), tag operations, "
            "decaying tags, Protect/Unprotect with several tags, clock advances across grace/silence/decay periods (split at every ticker instant), TrimOpenConns and ForceTrim are mirrored into a reference model; after every step "
            "counts, per-peer connection sets, Value==sum(Tags) and static/decaying values are compared and every batch of closes is judged (no protected/in-grace peer closed by a regular trim, nothing closed at or below low, "
            "no closed peer outranks a kept eligible peer, eligible peers keep <= low conns, ForceTrim touches protected peers only when every unprotected conn is in the batch). Every multiset of <=3 (thorough <=4) peers over "
            "value x conns x protected x in-grace x low x trim kind is enumerated. A concurrent property checks interleaving-independent final state and interval-relaxed eligibility. 28/30 probe mutants detected (2 are not violations). Exploration.",
    "note": "A peer whose age equals the grace period exactly may be treated either way; ForceTrim ignores the grace period as documented; ties, over-trimming, the decay schedule and the timing of background trims are not asserted; watermarks >= 1.",
}
CLAIMS["C18"] = {
    "technique": "rapid property-based testing of generated timelines on virtual time against statement-derived invariants and metamorphic relations (long-running vs restarted vs twin manager); reference-predicate differential for the verifier; loopback end-to-end cases (thorough)",
    "design_ref": "DESIGN.md section 3, C18",
    "text": "The real WebTransport certificate manager (build-tag hook) is driven through generated timelines over host keys of all four types (incl. extreme rotation offsets), start instants within ns/ms/skew of the rotation and "
            "validity boundaries, 0..7+ rollovers, restarts and same-instant twins; at every sample the served certificate must have been valid for >= skew and stay valid >= skew, live <= 14 days, match its key, have its SHA-256 in "
            "SerializedCertHashes and AddrComponent; every advertisement of the current or previous period must verify it through the real verifyRawCerts; managers with one key serve identical bytes. verifyRawCerts is compared with "
            "the statement's predicate over generated chains (0/1/2 certs; ECDSA/Ed25519/RSA-PKCS1/RSA-PSS/cross-signed/unparsable; lifetimes around 14 d; validity edges) and hash lists. Thorough: real listener/dialer over loopback "
            "UDP incl. the Noise early-data confirmation. Two genuine verifier defects found (wrong certificate of the chain pinned; RSA-PSS accepted), repaired, kept as witnesses. 24/25 probe mutants detected (1 not a violation). Exploration.",
    "note": "Trusted: crypto/x509, sha256, go-multihash, synctest's virtual clock; 'server certificate' = rawCerts[0]; the rotation-offset formula is not asserted; the early-data confirmation is exercised only in the thorough tier.",
}

CLAIMS["C19"] = {
    "technique": "rapid property-based testing in synctest bubbles with a provenance oracle, plus native coverage-guided fuzzing of header templates (thorough)",
    "design_ref": "DESIGN.md section 3, C19",
    "text": "Real ServerPeerIDAuth instances (driven through ServeHTTP) and the real ClientPeerIDAuth (against a malicious RoundTripper) are attacked with headers derived from captured honest handshakes: four key types, "
            "client- and server-initiated flows, two hostnames, two server secrets, 12 mutation/swap/re-sign/forge operators and virtual time around both TTL boundaries. Every identity reported through Next or returned by the "
            "client must be backed by an unexpired token this instance issued to that peer, or by a signature verifying under that peer's key over this instance's unexpired challenge, its public key and the request's Host "
            "(client: over the client's own challenge of that call, its key and the hostname). 19/22 probe mutants detected in the quick tier (3 are not violations). Exploration.",
    "note": "Trusted: core/crypto Sign/Verify (C08), synctest virtual time, the 5 min challenge TTL constant. Not asserted: token/hostname binding, opaque-host equality when the signature covers the request Host, completeness "
            "(honest material accepted is a harness precondition). Handler panics (one found for oversized public keys) report no identity and are counted, not judged.",
}

CLAIMS["C06"] = {
    "technique": "schedule-generating property-based testing (rapid) of a real swarm with scripted connections on virtual time; history invariants over recorded callbacks and events",
    "design_ref": "DESIGN.md section 3, C06",
    "text": "A real swarm in a synctest bubble admits 1-5 generated connections (two peers, direct/limited, inbound through a scripted listener or outbound through scripted dials) and removes them locally "
            "(Close/CloseWithError/ClosePeer), remotely or never, before/at/inside/after the window of their Connected callbacks; two recording notifiees return at once, block for a generated virtual time, close the "
            "connection from inside Connected or call Close from inside Disconnected; inbound streams and an optional Swarm.Close land at generated instants (same-instant events race for real). At quiescence and after "
            "Swarm.Close the recorded history must satisfy: Connected exactly once per notifiee and admitted connection, Disconnected exactly once after close and never before every Connected returned, no stream handler "
            "before Connected returned, no notification callback running after Swarm.Close returned, connectedness events never repeat a state (except NotConnected), the last event equals Connectedness(), which equals what "
            "the open connections imply, and ConnsToPeer lists exactly the admitted open connections. Exploration.",
    "note": "Scripted transport connections stand in for real ones; stream handlers are by design not waited for by Swarm.Close; interleavings inside one virtual instant are sampled by repetition.",
}

CLAIMS["C15"] = {
    "technique": "property-based schedule exploration (rapid) of the real event bus inside synctest bubbles with history oracles over a stamped emission log; bounded-exhaustive enumeration of stall shapes; -race pass; bubble-exit / hang detection as deadlock detector",
    "design_ref": "DESIGN.md section 3, C15",
    "text": "Generated multi-step schedules (typed / multi-type / wildcard subscriptions, buffers 0/1/2/16/default, 1-4 emitters on 1-3 goroutines, slow and eager readers, stalls shorter and longer than the 1 s warning, "
            "Close of subscriptions and emitters before, during and after blocked and in-flight emits; actions of one step race for real) are judged at every quiescence point: every event emitted inside a subscription's life "
            "is delivered exactly once and in per-emitter order, reads before Close are gap-free, stateful types deliver the most recent earlier event first, wildcard subscribers see all types, Emit blocks rather than drops and "
            "resumes on read or Close, nothing reaches a closed subscription, no panic, and the bubble can always exit. One genuine deadlock (multi-type Subscribe vs a concurrent bus-lock holder) was found, shrunk to a witness and "
            "repaired. 19/19 probe mutants detected in the quick tier. Exploration.",
    "note": "Interleavings within one instant are sampled by the Go scheduler; schedules that would leave a goroutine waiting on a bus mutex behind an emit stalled past the end of a step are not run (invisible to synctest); "
            "a bubble that does not finish within the 120 s watchdog counts as a violation for this property (mutex deadlocks can only show up that way).",
}

CLAIMS["C04"] = {
    "technique": "fault enumeration (every I/O operation index x fault kind, every cancellation / close instant, every gater hook and resource-manager refusal) plus rapid-generated fault pairs and two-swarm scenarios, on virtual time with residual-usage, raw-close and goroutine-leak audits",
    "design_ref": "DESIGN.md section 3, C04",
    "text": "For each configuration {Noise,TLS} x {PSK,none} a fault-free dry run of one connection attempt plus a stream round trip (real tcp.TcpTransport dial path and real upgrader listener over in-memory connections, real "
            "resource managers on both sides) counts the raw I/O operations of each end; then every single fault is enumerated: read/write error, EOF, peer close, stall and concurrent Close at every operation index of either end, "
            "context cancellation / listener Close / connection Close between every two operations, each gater hook rejecting, the n-th OpenConnection/SetPeer/BeginSpan/ReserveMemory refused on either side, nobody accepting until the "
            "accept timeout, the peer hanging up in the accept queue (quick: two configurations completely and every third fault of the others; thorough: all). rapid adds fault pairs and two real swarms (stream open, protocol/service "
            "scope and memory refusals, ClosePeer and Swarm.Close racing). After quiescence every scope of both real managers must read zero, both raw ends must have seen Close, a clean attempt must succeed with a working stream, "
            "closed swarms list no connections or listen addresses, and the bubble must exit (no goroutine left). One genuine leak (accept queue) found, repaired, kept as witness. 6/6 probe mutants detected.",
    "note": "WebSocket, QUIC, WebTransport and WebRTC call sites are not driven; FD leaks are observed as 'raw connection not closed'; a stalled operation reports its timeout at once instead of consuming virtual time; "
            "bubbles frozen by a mutex wait across virtual time (substrate limitation) are abandoned and counted as inconclusive cases.",
}
CLAIMS["C07"] = {
    "technique": "property-based testing (rapid) of generated handler histories, knowledge states and request lists against a reference model on real host pairs in synctest bubbles, plus bounded-exhaustive enumeration of a small domain; -race pass (thorough)",
    "design_ref": "DESIGN.md section 3, C07",
    "text": "Two real hosts (BasicHost / BlankHost pairings) on real swarms with real Noise, yamux, identify and resource managers over in-memory connections run generated listener handler histories (exact IDs, prefix/path/semver/alias "
            "matchers, removals, replacements), dialer knowledge states set through the peerstore (unknown, accurate, stale, over-optimistic), ordered request lists, 1-4 concurrent opens, direct and limited connections. A returned "
            "stream is bound to a requested ID; exactly one installed handler registered for or matching that ID runs on a stream reporting the same ID and echoes this stream's nonce; with no common protocol the open fails at NewStream "
            "or on first use and no handler runs; removed or replaced handlers never run; first-use failures occur only for protocols chosen from wrong knowledge; both hosts' protocol scopes count the stream while open and return to "
            "baseline after close. 17/18 probe mutants detected (1 equivalent). Exploration.",
    "note": "go-multistream is trusted; handler changes occur between batches at quiescence; infinite resource limits; no QUIC substrate; interleavings inside one virtual instant are picked by the scheduler.",
}

CLAIMS["C01"] = {
    "technique": "bounded-exhaustive enumeration plus rapid sampling of handshake configurations, man-in-the-middle wire edits, active-attacker payload and certificate forgeries and dial scripts inside synctest bubbles over in-memory connections; native fuzz target on the Noise peer stream (thorough)",
    "design_ref": "DESIGN.md section 3, C01",
    "text": "For every identity key type on either side, both roles, every expected-peer setting and prologue pairing (3024 cases, exhaustive) a completed Noise/TLS handshake must report exactly the identity whose private key the "
            "remote used and respect the local expectation. A frame-aware man in the middle flips every byte position of every handshake frame (quick: 3 Noise / 1 TLS key-type pairs; thorough: all 16 / 4) and truncates, extends, "
            "drops, duplicates, swaps with a concurrent session and replays frames: the receiver of edited handshake data never completes. An active attacker speaking Noise XX presents 27 forged payload variants, plain crypto/tls "
            "presents 30 forged certificate variants (incl. every cut point and byte flip of the libp2p extension): never accepted as anyone but the key holder. Dials for P through a real swarm (scripted transports, real upgrader, "
            "QUIC over simnet) never yield a connection, notification or swarm entry for another peer and the foreign connection is closed. 16/16 probe mutants detected in the quick tier. Exploration.",
    "note": "Trusted: the cryptographic primitives, flynn/noise, crypto/tls, crypto/x509. TLS plaintext record headers and the ChangeCipherSpec record are judged by the identity oracle only (unauthenticated by TLS 1.3); bytes after a "
            "side's last handshake frame are post-handshake data; a stalled handshake (virtual 10 s) counts as a rejection; QUIC only for expected-peer mismatch; WebTransport/WebRTC not exercised.",
}

CLAIMS["C11"] = {
    "technique": "model-based property testing of operation histories with fault injection, concurrent batches and virtual time (rapid + synctest); mutation-based testing of the client's reply validation; real-stack smoke test (thorough)",
    "design_ref": "DESIGN.md section 3, C11",
    "text": "The real relay service runs on a fake host (real peerstore, event bus, resource manager, BasicConnMgr; scripted stop streams) inside a bubble and is compared with a reference model over generated histories of RESERVE / "
            "CONNECT / refresh (incl. cross-IP over a second connection) / disconnect / expiry / collection for populations with direct and relayed sources, shared IPs, IPv6 ASNs and multi-connection peers, with a fault at every "
            "step of the hop/stop handshake, resource refusals, payloads around Limit.Data in both directions, idle circuits past Limit.Duration and batches of requests at one instant: no circuit without a live reservation, direct "
            "source, ACL permission and room under MaxCircuits; no reservation beyond total/per-IP/per-ASN caps; vouchers signed by the relay for exactly the reserving peer with the reply's expiry; forwarded bytes a prefix and "
            "<= Limit.Data; circuits end by Limit.Duration; after every outcome tags, service-scope memory and stream counts match the model and MaxCircuits circuits can be opened again. client.Reserve accepts only valid, unexpired, "
            "correctly signed vouchers for the caller (40 reply mutations). Two genuine defects found and repaired. 29/31 probe mutants detected. Exploration.",
    "note": "Trusted: the fake host's fidelity to swarm/basic host, asnutil, record.ConsumeEnvelope (C08). Between expiry and collection, after lost replies and with only limited connections left either answer is accepted; "
            "interleavings inside a batch come from the scheduler (a lock window of only Unlock/Lock is missed); the real circuit transport is smoke-tested only.",
}

CLAIMS["C02"] = {
    "technique": "property-based testing (rapid) inside synctest bubbles over in-memory pipes with generated short-read/short-write chunking and a frame-aware man in the middle; bounded-exhaustive sweep of frame-size x buffer-size relations for the Noise reader; native fuzzing of the Noise read/write plan and loopback end-to-end runs (thorough); round-trip oracle on position-dependent payloads",
    "design_ref": "DESIGN.md section 3, C02",
    "text": "Bytes written to a Noise session, TLS conn, pnet conn, yamux streams, the real upgrader stack (Noise/TLS, optional PSK, both muxer-negotiation modes) and two BasicHosts (eager and lazy negotiation) must arrive exactly once, in "
            "order and unmodified, with EOF exactly after the last byte following CloseWrite: lengths 0 to just above 3 Noise frames concentrated at 65519/65535/65536/k*65519+-1 and yamux's 65524/256 KiB, every kind of write split, read buffers "
            "from 1 byte to larger than a frame and +-17 around the pending frame, short reads/writes of the connection underneath, bounded pipes, up to 5 interleaved streams from both sides, half-close followed by further reads; the three "
            "Noise read paths are enumerated on a grid. Every generated alteration, drop, duplication, reordering, truncation or forged insertion of a post-handshake Noise frame or TLS record must give the reader an error and never a byte the "
            "writer did not send at that position. Thorough: real hosts over TCP, WS, QUIC, WebTransport, WebRTC-direct and the shared TCP listener (sampledconn). 17/18 probe mutants detected (1 equivalent). Exploration.",
    "note": "internal/memnet and the chunking wrapper are checked by the same oracle in the pnet layer; EOF after whole-frame truncation counts as the error; accept order is assumed at the muxer level; L6 and fuzzing run in the thorough tier only "
            "(stalls on real sockets are inconclusive, never violations).",
}
CLAIMS["C13"] = {
    "technique": "property-based state-machine testing with a reference model (rapid + synctest virtual time, injected scheduling point inside the address update) + native coverage-guided fuzzing of the identify stream (thorough) + race-detector pass",
    "design_ref": "DESIGN.md section 3, C13",
    "text": "A real identify service on a fake host (real pstoremem, event bus, multistream) is driven by generated histories of open/push/close/sleep/IdentifyWait on up to four connections to one authenticated peer with structured messages "
            "(0-3000 protocols, 0-1500 addresses of every class, own/foreign/garbage keys, ten kinds of signed record, 1-12 chunks, malformed/oversized/truncated streams); deliveries race with disconnects, including a disconnect forced inside the "
            "address update. After every step every other peer's entry is unchanged, the stored key equals the peer's key, stored addresses are a subset of listen addresses plus records that validate, are signed by and name the peer (filtered by "
            "connection class, no foreign /p2p, <= 500), protocols <= 1024, addresses do not expire while a connection exists, at most 20 survive a clean last disconnect and all are gone after RecentlyConnectedAddrTTL, every IdentifyWait channel "
            "closes within timeout + epsilon. 21 probe mutants detected in the quick tier. Exploration.",
    "note": "Network, connections and streams are fakes following the swarm's Connectedness and notification order; the peerstore is pstoremem, in some cases with a key book that trusts its caller and an enlarged protocol book; one speaking remote "
            "peer per case; no loopback remotes; same-instant events race under the Go scheduler and the oracle accepts every order.",
}

CLAIMS["C10"] = {
    "technique": "property-based state-machine testing (rapid) against a reference model with write-fault and crash-point injection on a datastore double, composed with history audits of a real swarm, "
                 "the real upgrader and the QUIC transport over scripted, in-memory and simnet substrates in synctest bubbles",
    "design_ref": "DESIGN.md section 3, C10",
    "text": "Generated Block/Unblock histories (peers, 4-/16-byte/IPv4-mapped IPs, v4/v6 subnets in every IPNet encoding, overlapping, /0 to /128, rarely non-prefix masks) are compared step by step with a model "
            "of 'rules whose call returned success' while the datastore fails writes on demand and snapshots itself after every write: ListBlocked* and every Intercept* hook, for remotes in every address spelling "
            "including subnet edges and IP-less addresses, on the live gater, on a gater reopened on every write's snapshot (must lie between the model before and after the call in flight) and on the final datastore (exact). "
            "Outbound cases put the real gater into a real swarm over scripted transports with a fake DNS resolver and audit every transport dial, DialPeer result, ConnsToPeer and Connected notification "
            "(no dial to a blocked peer or to any blocked post-resolution IP; positive controls). Inbound cases run the real upgrader (Noise/TLS, yamux) on an in-memory listener inside a real swarm "
            "(address/subnet match: closed with zero bytes exchanged; blocked peer: closed after the handshake; never returned by Accept nor admitted). QUIC cases drive the QUIC transport's own gating call sites over simnet, "
            "both directions. Two genuine defects in conngater were found, shrunk to witnesses and repaired. 24 of 24 probe mutants detected in the quick tier. Exploration.",
    "note": "Trusted: go-multiaddr parsing, go-datastore MapDatastore and namespace wrapper, memnet, scripted transports, simnet, synctest. The datastore double applies or fails each write atomically; reads never fail. "
            "WebTransport and WebRTC listener call sites are not driven. Unspecified and not asserted: an IPv6 subnet shorter than /96 covering IPv4-mapped remotes; relay-via-IP addresses whose relay IP is blocked.",
}
CLAIMS["C16"] = {
    "technique": "property-based testing (rapid generators, shrinking, replay) over generated requests, dial-data streams, arrival schedules and same-instant races in synctest virtual time against the real AutoNAT v2 server "
                 "between fake hosts, judged by an invariant oracle over the recorded history; thorough tier adds a native coverage-guided fuzz target and a -race pass",
    "design_ref": "DESIGN.md section 3, C16",
    "text": "For 20 000 (quick) / 1 000 000 (thorough) generated histories every dial-back attempt observed on the dialer host targeted the requesting peer and a public, dialable address byte-identical to one of its own "
            "request entries; foreign-IP and DNS targets were dialled only after a DialDataRequest of 30-100 kB had been sent and at least that many dial-data bytes consumed (11 client dial-data behaviours: exact, short by k, "
            "dribbled, oversized, garbage, early close, silence, fragmented...); requests with nothing eligible got E_DIAL_REFUSED and no dial; no sliding 60 s window exceeded the global, per-peer or dial-data limit "
            "(arrival gaps incl. 60 s +- 1 ns) and no peer had more than the configured number of requests in service at any quiescence point. 40 probe mutants in server.go, autonat.go and msg_reader.go all detected in the quick tier. Exploration.",
    "note": "Both hosts are doubles (real pstoremem and event bus; scripted Connect/NewStream/CanDial; null resource scopes): the real swarm, rcmgr and transports are not exercised. 'public' is manet.IsPublicAddr. "
            "'Accepted' is 'not answered E_REQUEST_REJECTED' (may undercount; only upper bounds are asserted). Garbage and misaligned dial-data streams are credited at wire level. The server's own math/rand is not seedable, "
            "so evidence counts vary slightly between runs while verdicts do not.",
}

CLAIMS["C12"] = {
    "technique": "property-based schedule and protocol exploration (rapid) in synctest bubbles: a real swarm, a real BasicHost and a real holepunch.Service over scripted transports; generated connection timelines, "
                 "caller option sets, cancel instants and DCUtR dialogues judged by validity predicates over the harness's own connection history plus a reference Connectedness model at every quiescence point",
    "design_ref": "DESIGN.md section 3, C12",
    "text": "Across ~30 k (quick) / ~1 M (thorough) generated schedules: a stream is returned on a Stat().Limited conn only to callers that passed WithAllowLimitedConn; callers certainly waiting for a direct connection "
            "are released exactly when a non-limited conn appears (with a stream on it) or exactly at their context or dial-peer timeout (with an error), independently of other waiters' cancels; force-direct DialPeer/Connect "
            "never yield a proxy-transport conn and relay addresses reach the proxy transport only on behalf of callers that did not demand a direct connection; Connectedness and EvtPeerConnectednessChanged distinguish "
            "Limited from Connected; the hole punching service never answers DCUtR on a non-relayed conn, issues only force-direct Connect calls without relay addresses, never lets a relay address from ObsAddrs reach a transport, "
            "sends CONNECT only over a relayed conn and returns nil from DirectConnect only with a direct conn in place. One genuine defect (initiator coordinating over a direct conn that arrived during the direct dial) was found, "
            "shrunk to a witness and repaired. 21 probe mutants in swarm, basic host and holepunch detected in the quick tier. Exploration.",
    "note": "Scripted transports, relays and identify responders stand in for real ones; Limited and Proxy flags are set by the harness (limited implies proxy). Events at the same virtual instant race for real and only callers "
            "whose stage is certain from the recorded history get exact expectations. Dial orchestration itself is C05's subject. Flapping direct connections (closed in the instant they appear) are not judged; "
            "the only-if direction (an allowed caller gets its limited stream) is not asserted.",
}

CLAIMS['C13']["text"] += ' The schedule of a disconnect relative to message handling is owned by the harness: identify sees its host through a view in which every Connectedness answer and every peerstore call about the peer is a scheduling point, and a generated fault closes one connection (often the last) and lets its Disconnected notification run to completion, if it can, right after the k-th such call or inside the connected-lifetime address update; afterwards the addresses of a peer without connection must be gone once RecentlyConnectedAddrTTL has passed.'
CLAIMS['C13']["note"] += " The wait for the injected Disconnected is bounded by scheduler yields (a mutex wait is not durably blocking under synctest), so whether it completes before the caller continues is scheduler-dependent and either order is accepted by the oracle; the dual race (a new connection opening between Disconnected's connectedness check and its downgrade) is not generated."

CLAIMS['C18']["text"] += " Timelines also generate dialers that learn the listener's address at arbitrary instants and dial at instants defined relative to the learn instant across 0..n rollovers of the same running manager: while that instance keeps running through the learn period and the following one, the real verifier must accept the served leaf and the manager's confirmed hash list (SerializedCertHashes, i.e. the Noise early data) must contain every hash of the learnt address; a few real loopback dials (1..3 rollovers, addresses learnt before and after each) run in the quick tier."
CLAIMS['C18']["note"] += " The across-rollover promise is asserted only against the instance the address was learnt from; a restarted listener forgets the previous period's hash (lastConfig is nil after init), which is recorded as a label, not reported. Inside the bubble the early-data confirmation is modelled from SerializedCertHashes; the real Noise handshake runs only in the loopback cases."

CLAIMS['C19']["text"] += ' Client side also covers header-level tampering: the finished WWW-Authenticate / Authentication-Info value gets add / drop / duplicate / swap operators over every parameter name, including ones an honest server never sends (challenge-server, challenge-client, opaque, hostname, client-public-key); donors come from earlier sessions of the same client key, and signatures made for a stale or foreign context are accompanied by the challenge / client key / hostname they were really made for (impostor replay). The oracle reads signatures and keys from the final bytes on the wire and accepts a reported server ID only when one of them verifies under that ID over a challenge the client sent in that call, its key and the Host.'
CLAIMS['C19']["note"] += ' Challenge freshness is judged per call: any challenge the client sent within the same call counts as its own, which includes the one from a refused client-initiated attempt.'

CLAIMS["C01"]["text"] += " The real upgrader is additionally driven in both roles with match / other / empty expectations per side (a named peer in the server role is what a simultaneous-open dial uses): a side that names the peer it expects never gets a connection to anyone else."
CLAIMS["C02"]["text"] += " The connection under every layer also delivers io.EOF together with the last bytes in a third of the cases."

CLAIMS["C06"]["text"] += (" Every connection DialPeer hands to a caller must have been announced. Half of the cases also carry a schedule plan for four schedule points inside the swarm "
    "(hook under build tag verif: after a connection is registered, after it is announced, after it is removed, before Swarm.Close waits): the goroutine reaching a point gives way (Gosched n times, or a virtual "
    "sleep of 1 us - 5 ms at the two admission points, where no lock is held), so that admission, removal and shutdown racing at one instant are explored in both orders.")
CLAIMS["C04"]["text"] += (" The swarm pairs also generate a fault that closes the node's connections while the n-th resource-manager call of a kind (OpenStream, SetProtocol, SetService, SetPeer, OpenConnection) is in progress.")
CLAIMS["C07"]["text"] += (" Every open additionally draws the application's first operation on the fresh stream (Write, empty Write, Read with the handler speaking first, empty Read, CloseWrite with nothing sent, Close at once, Write+CloseWrite) on eager and on lazily negotiated "
    "(known, stale, over-optimistic knowledge) streams; a stream bound to an accepted protocol must reach exactly one right handler and the bytes (or 'nothing, then EOF') must arrive there whatever the first operation is; the small domain of 12 handler configs x 4 requests x 5 knowledge states x 4 host pairings x 7 first operations is enumerated exhaustively.")
CLAIMS["C07"]["note"] += (" Handlers greet before reading and hold their stream until the per-side resource-scope audit is done; for a stream closed at once only the listener side is checked; Reset, CloseRead and never-used streams are not generated as first operations (statement silent).")

CLAIMS["C01"]["text"] += (" Short session histories inside one verifying process are checked as well: after 1-3 honest Noise/TLS sessions of a verifier with the victim and others, in both roles, an attacker re-presents the certificate / libp2p extension / Noise payload "
    "actually observed from those peers under a key of its own (whole, re-wrapped, or mixed field by field); the verifier never completes, or completes only as the attacker's real identity. The QUIC transport's own Dial is driven over simulated UDP in all three roles, "
    "including the hole-punch server role with another peer connecting from exactly the punched ip:port, and never returns a connection whose RemotePeer/RemotePublicKey is not P's.")
CLAIMS["C01"]["note"] += (" Histories are at most 3 sessions (caches whose misbehaviour needs eviction or more entries are out of reach); QUIC is covered for the dial-identity clause only, without wire edits. A frame cut short without length fix is judged by the byte stream the receiver consumed.")
CLAIMS["C16"]["text"] += (" TestPeerConcurrency builds, by construction, episodes of 3-9 concurrent and mostly long-lived requests of one peer against a concurrency limit of 1-4 combined with a second exhausted limit (dial-data / per-peer / global window), "
    "so that requests of a peer are rejected at every limiter stage - including the dial-data window, after admission - while others of its requests are in flight and more follow.")
CLAIMS["C19"]["text"] += (" Server side covers 2-4 server instances per case whose secrets are application-provided (own, or one key shared by replicas) or left unset (each instance must draw its own), incl. instances sharing a private key: tokens and challenge opaques "
    "minted by one instance are presented to every other instance under the same and the other hostname, and tokens/challenges forged offline under guessable secrets (no key, zeros, hostname, server public key / peer ID, another instance's key) naming arbitrary peer IDs must never reach the application.")
CLAIMS["C19"]["note"] += (" Instances given the same HmacKey by the application are treated as one server (acceptance across them allowed, not required); the harness never learns a self-drawn secret, so it cannot forge under it.")
CLAIMS["C17"]["text"] += (" Listen sets are generated per local IP as arbitrary subsets of tcp/ws/tls+ws/tls+sni+ws on one TCP port and QUIC/WebTransport/WebRTC-direct on one UDP port (shared thin waist, rests that are prefixes of each other or differ at an overlapping position); "
    "the listen addresses are asked in generated orders and repeatedly, every answer must be the observed thin waist followed by exactly the asked listen address's own rest whatever was asked before, and answers already handed to the caller must keep their value "
    "(a deterministic sweep enumerates every >=2-member same-port listen set x reporting member x asking order).")
CLAIMS["C07"]["text"] += (" Streams are also opened in both directions between the same two hosts (asymmetric handler sets, handler changes and identify pushes on either side, delivered or still in flight) with the opener's protocol knowledge produced by the library alone: "
    "a stream bound to a protocol the remote never served or announced must not be handed out when a requested protocol is common, and no handler may run on the opener (random history search plus a complete enumeration over two protocol IDs).")

CLAIMS["C02"]["text"] += (" Stream layers (yamux adapter, upgrader stack, hosts) are also driven with deadlines under virtual time: write deadlines with a writer that resumes at p[n:] after (n, timeout) against slow readers with payloads above the flow-control window, "
    "and readers that poll with past or short read deadlines and keep buf[:n]; delivery stays byte-exact, in order, once.")
CLAIMS["C02"]["note"] += (" Polling readers get at most the initial 256 KiB window of payload, because go-yamux drops a window update whose deadline has expired (a liveness matter of the dependency, outside the statement). No deadlines are generated on the opener end of lazily negotiated streams; "
    "no write deadlines, and on Noise/pnet no read deadlines, are generated on bare secured connections, because a timed-out frame cannot be resumed there.")

CLAIMS["C08"]["text"] += (" Private keys: families of serialized private keys derived from one fresh key of every type (bit/byte edits at drawn positions of every named part incl. the Ed25519 seed and public halves, parts spliced from another key, cuts, legacy/alias/DER/protobuf re-encodings) "
    "are unmarshalled and every pair of accepted keys is held to the rule 'Equals (both directions) and KeyEqual agree; Equal => same type, public key, peer ID, interchangeable signatures and identical Raw bytes; identical bytes => Equal; unequal keys with different public keys never cross-verify'.")
CLAIMS["C08"]["note"] += (" RSA is exempt from the 'identical Raw' clause only: one RSA key has several accepted PKCS#1 encodings (prime order, d+lambda, and Go >= 1.24 does not validate the unused d field), so 'Equal with other bytes' is allowed there when public key, ID and cross-signatures agree.")
CLAIMS["C06"]["text"] += (" Notifiees that sign off from inside their first callback, or sign on / off at generated instants, are registered before, between or after the two permanent notifiees: the permanent ones keep the exactly-once rules, the transient ones observe every event at most once.")
CLAIMS["C06"]["note"] += (" In cases with transient notifiees callbacks do not linger (a callback sleeping in virtual time while Notify/StopNotify waits for the swarm's registry lock would stall the bubble).")
CLAIMS["C09"]["text"] += (" A third, focused property (four single-address peers, refreshes in the three finite TTL classes overtaking each other's expiries, clock advances in GC-period slices) checks PeersWithAddrs of both books after every slice: live => listed, expired for two GC periods => gone.")

CLAIMS["C04"]["text"] += (" In the swarm pairs the dialling side may finish failed streams with Close() only while the echo handler resets every k-th stream first; a third of the cases schedule no Swarm.Close and a mid-life audit, 100 s after the last stream, demands that no stream is charged or listed any more while connections are still up.")
CLAIMS["C14"]["text"] += (" Overlapping tag operations on one peer are generated with a harness-owned schedule: an UpsertTag whose callback starts a second operation on the same peer on another goroutine (TagPeer/UntagPeer/UpsertTag of the same tag, a decaying bump, Connected, the peer's last Disconnected, "
    "a trim that may prune the peer's buffered entry, ForceTrim) and yields before returning; after both return, the peer's tags and cached total must be the result of one of the two serial orders, and an overlapping trim must be right for the peer's value before or after the upsert.")
CLAIMS["C14"]["note"] += (" The overlap window is the upsert callback, bounded by 300 scheduler yields rather than time (a mutex waiter keeps a synctest bubble busy); both serial orders are accepted.")
CLAIMS["C10"]["text"] += (" The QUIC and WebTransport transports' own gating call sites (listener and dialer) are driven with the real transports over simnet, WebTransport alone or sharing ConnManager and UDP port with QUIC, under both quicreuse.ConnManager configurations (bare, and with libp2p.New's ConnContext option that opens the resource-manager scope at QUIC accept): "
    "a refused remote never appears in ConnsToPeer/Connected, never sees a dial from the gated node, and holds no open connection shortly after its own dial.")
CLAIMS["C10"]["note"] = CLAIMS["C10"]["note"].replace("WebTransport and WebRTC listener call sites are not driven.", "The WebRTC listener's own call site is not driven; the scope-at-accept configuration copies the ConnContext function of config/config.go over a NullResourceManager (no full libp2p.New host).")
CLAIMS["C18"]["text"] += (" Dialer side, end to end: 2000 (quick) / 40000 (thorough) generated dialled addresses - certhash sequences of 0-5 multihashes mixing SHA-256 with 16 other codes, genuine and foreign digests, in every position - are dialled through the real transport against real loopback listeners: "
    "the dial completes only if the served certificate's SHA-256 is in the address and the server confirmed every certhash of the address in its Noise handshake payload, as observed by an independent quic-go/webtransport-go/noise reference client.")
CLAIMS["C18"]["note"] += (" The end-to-end dials use loopback UDP and real time for I/O only (a 15 s dial timeout makes the case inconclusive); listeners sit on a pinned mock clock.")
CLAIMS["C19"]["text"] += (" Client side, origin dimension: one ClientPeerIDAuth is used, within and beyond its TokenTTL, against 2-4 origins whose Host strings differ only in port, letter case or a trailing dot, each served by an independent auth server, a replica sharing the HMAC secret under another identity key, "
    "the same instance under another spelling or behind a Host-rewriting proxy, an unauthenticated endpoint answering 2xx-5xx, or an endpoint replaying another origin's auth headers: a reported server ID must be backed by a signature of that call over the client's challenge, its key and that request's exact Host, or be the replay of that origin's own token to it; a bearer token is never sent to an origin that did not issue it.")

CLAIMS["C15"]["text"] += (" Histories also contain calls the bus must refuse: Subscribe with a non-pointer or the wildcard at any position of a multi-type list, option errors, Emitter for a non-pointer or the wildcard, and a second Emitter.Close; these race with ordinary traffic and their shape space is additionally enumerated completely. "
    "A refused call creates no subscriber, so it may never be the reason an Emit waits, and every real subscriber keeps receiving each event exactly once and in order.")
CLAIMS["C15"]["note"] += (" Refused calls are the documented error cases only; nil elements (the bus panics) and lists naming one type twice (accepted by the bus with double delivery; with a retained stateful event and BufSize(0) that call never returns) are not generated: observed, outside the statement's domain.")

CLAIMS["C05"]["text"] += (" Address sets also contain DNS names with several records and /dnsaddr names whose TXT entries carry a /p2p suffix (optionally duplicating a plainly known address). An eighth oracle (no starvation) demands that a caller that ran into its own deadline or the dial timeout was not left with nothing in flight "
    "during its last two seconds while one of its candidates - never failed anywhere in the case, no cap binding - had never been handed to a transport.")

CLAIMS["C01"]["text"] += (" Also generated: a correctly signing remote that presents its identity key in non-canonical but valid encodings (unknown protobuf fields, reordered/repeated fields, over-long varints, high enum bits, uncompressed/hybrid secp256k1 points, BER lengths) inside the Noise payload and the TLS certificate extension, "
    "for all four key types, both verifying roles and every expected-peer setting; whatever completes must report the canonical peer ID of the key that signed.")
CLAIMS["C10"]["text"] += (" Outbound gating is checked for every entry point that can start a dial, not only DialPeer: Network.NewStream's implicit dial and Connect/NewStream of a real BasicHost on that swarm, with the same audit.")
CLAIMS["C11"]["text"] += (" The connection set between the relay host and a reserving peer is generated: direct and limited connections to the same peer coexist and close one or several at a time in generated orders; once a peer has no non-limited connection left its reservation is gone whatever limited connections remain "
    "(tag removed, slot no longer counted, a well-formed CONNECT to it answered NO_RESERVATION).")
CLAIMS["C12"]["text"] += (" Connectedness and the published events are also checked with connections in the closing state (transport reports IsClosed while the swarm still lists the conn): a closing direct conn next to a live limited one must read Limited, only-closing conns NotConnected, at every quiescence point.")
CLAIMS["C12"]["note"] += (" After a silent closing the last event may lag until the swarm next adds or removes a conn of that peer; the closing state is modelled by the harness' conn wrapper.")
CLAIMS["C15"]["text"] += (" Emitters of one event type may disagree on Stateful (stateful then plain, plain then stateful, closed in between, opened mid-history): a type is stateful once any emitter opened with Stateful was returned and stays so while the type is in use; a later subscriber first receives the most recent earlier event whoever emitted it.")
CLAIMS["C06"]["text"] += (" A second Swarm.Close call may race with or follow the first: whichever Close call returns first must not return before the notifications.")
CLAIMS["C06"]["note"] += (" In cases with a second Close call or transient notifiees callbacks linger by yielding instead of sleeping and schedule points do not sleep.")

CLAIMS["C04"]["text"] += (" A host layer (TestHostPair) drives BasicHost.NewStream/identify between two BasicHosts (or a host and a mute peer) over the in-memory transport with generated context end instants incl. during the identify wait of a fresh connection, lazy/eager/failed protocol negotiation and stream-scope refusals: "
    "every stream of a failed or finished NewStream must be gone from the connection and from all rcmgr scopes while the connection is still up, and all usage zero after Host.Close. The shared TCP listener (tcpreuse.ConnMgr) is driven over real loopback sockets behind the real upgrader gate and resource manager "
    "(1-3 demultiplexed listeners on one port, inbound connections of every classification and first-byte timing, consumers that accept none/some/all and race Close, staggered Close, gate refusals): after the last Close has returned every connection scope the gate opened is Done, the manager reads zero, every raw connection is closed as seen by its remote end and no listener goroutine is left.")
CLAIMS["C04"]["note"] += (" The tcpreuse layer runs in real time on loopback (not in a synctest bubble): interleavings are not exactly reproducible; the verdict is taken only after Close returned, plus a 5 s bound for the remote end to observe EOF/reset; harness timeouts count as inconclusive. WebSocket and QUIC transports' own dial/accept paths are not fault-enumerated.")
CLAIMS["C07"]["text"] += (" The request list is treated as the caller's own slice object: private slices and lists the application keeps (with spare capacity or clipped) are passed to several NewStream calls of one history; every open is judged against the list the caller intended, and the caller's backing array must be unchanged after every call.")
CLAIMS["C03"]["text"] += (" In the concurrent property the harness' limiter may give way to other goroutines before answering a limit lookup, stretching the moment at which a scope is created on first use.")

CLAIMS["C05"]["text"] += (" Successful outcomes may complete although the attempt was cancelled meanwhile (the handshake finishes at or after the cancel): a ninth oracle demands that every connection a transport produced is either admitted to the swarm or closed once every caller has returned. "
    "A reported back-off must be explained by a failed dial whose back-off (BackoffBase + BackoffCoef*(k-1)^2) was still running when the caller started.")
CLAIMS["C13"]["text"] += (" Messages can be held so that they are read from a connection and handled only after that (often the last) connection is gone (also in a late mode of the fuzz target): from every point at which the peer has no connection until one is opened again, the number of addresses retained may not rise above "
    "the address book's documented per-peer cap for unconnected peers (64), nor above what was there already.")
CLAIMS["C13"]["note"] += (" Assumes pstoremem's default per-peer cap (64); what a message handled between the close of the last connection and its Disconnected notification leaves behind (up to 500 on the unchanged tree) is observed and labelled, not asserted.")
CLAIMS["C18"]["text"] += (" TestTransportListenHistory runs the real WebTransport transport inside a virtual-time bubble over an in-memory UDP stack and generates the history of Listen calls of one transport - successful, failing at generated instants (address in use, not available, second listener on the same port, malformed addresses) and closes - around 0-6 rollovers; "
    "every live listener is observed by a reference QUIC/TLS handshake at every sampled instant and must serve a valid-with-allowance, advertised, deterministic certificate under which addresses learnt in the current or previous period still verify, whatever Listen calls failed in between.")
CLAIMS["C19"]["text"] += (" Server secrets are exercised over their shape: application-provided HmacKeys of 1-200 bytes, pairs that differ in one byte at any position class or extend/truncate each other, rotation of one server's key, and forgeries under secrets close to the target's, randomly and by a complete enumeration of 142 key pairs. "
    "Header syntax around values is exercised too (bytes after the closing quote, missing/doubled/inner quotes, whitespace, unquoted; random operator + 768-request enumeration + fuzz corpus): a value counts as carried only in a parameter whose quoting is intact.")
CLAIMS["C19"]["note"] += (" HMAC keys contain no zero bytes (HMAC zero-pads short keys); for unquoted values, single quotes, blanks around '=' and a backslash before the closing quote either outcome is allowed.")

CLAIMS["C08"]["text"] += (" Keys are generated over their size/curve classes: ECDSA on every curve the API takes (P-224/256/384/521, via Generate...WithCurve, ECDSAKeyPairFromKey and x509 wire forms) and RSA at and one step inside/outside the documented bounds (2047/2048/2049 and 8191/8192/8193 bits). "
    "Every supported class must round-trip, sign/verify and seal envelopes that all receivers accept (TestKeySizesAndCurves; the same classes flow through the round-trip, sign/verify, mutation, envelope and peerstore tests, label class:*).")
CLAIMS["C08"]["note"] += (" 8191-8193-bit RSA keys are fixed fixtures (openssl primes assembled with math/big); the library's own 8192-bit generation is not run, its size check is probed with a failing reader; RSA sizes strictly between 2049 and 8191 are not sampled; "
    "out-of-bounds keys may be refused and those wrapped by KeyPairFromStdKey are not judged.")

CLAIMS["C09"]["text"] += (" The per-peer cap property also consumes signed records (seq 1-4, address order preserved in the envelope) between the plain operations: acceptance must follow the seq rule, superseded unconnected addresses go, the record's addresses enter under the eviction rule, "
    "and both books must keep returning the last accepted record for as long as the peer has had a live address ever since, also when the cap evicts the peer's only entry to make room (labels signed-record-under-cap, record-kept-across-eviction).")
CLAIMS["C03"]["text"] += (" Memory limits include finite values whose product with (1+priority) overflows int64 (MaxInt64-1, MaxInt64-255, 2^62+77, 2^56+129, 2^55+1) and a quarter of the reservations are sized at the model's admission threshold "
    "(largest admitted size found by bisection on the big-integer model, then -1/0/+1; label reserve:at-threshold).")
CLAIMS["C03"]["note"] += (" No scope is driven past MaxInt64 bytes in total (the roots' headroom bounds every generated size): what the manager does when an unlimited scope's counter would wrap is not part of the statement.")

CLAIMS["C06"]["text"] += (" A third of the schedules build the swarm with a metrics tracer (connections are wrapped on admission) and a quarter of the transport connections report an error from Close/CloseWithError while shutting down all the same; "
    "whether a connection is limited is taken from what the scripted transport produced: the swarm's Stat().Limited must agree and Connectedness and events are judged against the transport's truth (labels limited-conn-under-metrics-tracer, transport-close-reports-error).")

CLAIMS["C15"]["text"] += (" Bus construction is a generated dimension: half of all schedules, and every shape of both enumerations, run on a bus built with WithMetricsTracer (a tracer that only counts), combined with every BufSize including 0 and typed, multi-type and wildcard subscriptions; all delivery, blocking, no-panic and no-deadlock oracles apply unchanged to such buses.")
CLAIMS["C15"]["note"] += (" The tracer's values are not judged (metrics are outside the statement). A panic inside Emit is reported as a process crash of the shard, because the panicking emit keeps its node lock.")
CLAIMS["C14"]["text"] += (" Tag values are generated over the whole int range (TagPeer, UpsertTag and decaying bumps near MaxInt, MinInt, +-MaxInt/2 or any int) and a bounded-exhaustive sweep covers totals {MinInt .. MaxInt}; peers whose totals differ by more than MaxInt must still be pruned in plain numeric order.")
CLAIMS["C14"]["note"] += (" A peer whose int tag values sum outside the int range has no reportable total: its rank in a trim is not judged (labelled, about 2 % of cases).")

CLAIMS["C13"]["text"] += (" Service lifecycle and address-book capacity are generated dimensions: the identify service may be closed (IDService.Close) at any point of the history while connections and the peerstore live on, and in 40 % of the cases the in-memory address book runs at or near a small global limit of unconnected addresses (WithMaxAddresses 4/16/64). "
    "In both, the peer's addresses must still lose the connected lifetime after the last connection closes, and the per-peer caps must hold across pushes.")
CLAIMS["C13"]["note"] += (" At its global limit the address book may drop or refuse addresses; the oracle only forbids keeping them at the connected lifetime without a connection. After Close the harness keeps using IdentifyWait and the installed stream handlers, as a host's other components may.")

CLAIMS["C10"]["text"] += (" Outbound candidates include circuit addresses (<relay IP or DNS name>/<transport>/p2p/<relay>/p2p-circuit, handled by a scripted proxy transport) next to direct ones: while the relay's IP matches an address/subnet rule, the swarm never hands such an address to the relay transport, never admits a connection made through it, and Network.CanDial reports it undialable; InterceptAddrDial refuses it.")
CLAIMS["C10"]["note"] += (" A circuit address is judged by the relay's IP only as an outbound candidate (the dial opens or re-uses a connection with that IP); as the remote address of an inbound relayed connection no verdict is demanded. The real relay client transport is not driven.")

CLAIMS["C03"]["text"] += (" Scope collection is an operation of the concurrent properties too (hook rcmgr.VerifGC = one pass of the once-a-minute background collection): TestConcurrentBoundsAndQuiescentSum mixes collections into the goroutines' scripts and now accounts the per-peer sub-scopes of protocols and services; "
    "TestCollectionRacesFirstUse owns the schedule as far as the API allows: after a generated prefix that leaves idle peers with sub-scopes in protocols/services other peers keep alive, a first-use limit lookup (made by the manager under that protocol's/service's lock) is held inside the harness' limiter, a collection is started, a user re-opens streams for the collected peers, then the lookup is released; "
    "at quiescence every scope incl. the sub-scopes must equal the sum of the streams still open, no sub-scope limit may be exceeded by the holders' own count, and everything reads zero after release.")
CLAIMS["C03"]["note"] += (" TestCollectionRacesFirstUse runs in real time; which interleaving a case explores is not exactly reproducible (rapid may report 'flaky' for a seeded defect), its verdict does not depend on timing.")

CLAIMS["C02"]["text"] += (" The same length, write-size and read-buffer plans also run, in the quick tier, over connections made by the real WebSocket transport on loopback: every Write there is one message, so each layer's largest single Write (a full 65537-byte Noise frame, 64 KiB yamux and pnet writes) is exercised on a message-framed wire, bare (Noise/TLS/pnet) and through the full upgrader stack. "
    "In virtual time, streams at the yamux, upgrader and host layers also stay idle for 1.5-130 s, longer than every timeout the library arms itself; the host layer additionally draws a NegotiationTimeout (1 s, 3 s, the 10 s default, 30 s, none) and handlers that keep the inbound stream for its whole lifetime.")
CLAIMS["C02"]["note"] += (" WebSocket cases use real loopback sockets outside bubbles and assume 127.0.0.1 is loss-free; a stall or set-up failure there is inconclusive, labels come from the plan only, and the tests are skipped and labelled if the transport cannot listen.")
CLAIMS["C07"]["text"] += (" The connection kind is generated (direct; limited = flagged pipe; limited = real circuit-v2 relay host as the only route between the two hosts). Where an opener's knowledge is the library's own (two BasicHosts, no harness peerstore write) and the system is quiescent after a handler change, "
    "a protocol the responder has stopped announcing and accepting is no longer an excuse for a first-use failure when a requested protocol is common: stale-after-removal is tolerated while the identify push is in flight, not after it was delivered, on limited as on direct connections.")
CLAIMS["C07"]["note"] += (" That rule relies on documented identify-push behaviour (a BasicHost pushes every change of its announced set, the receiver replaces its knowledge); quiescence (synctest.Wait) is taken to mean delivered. Relay limits (30 min, 4 MiB) are far above what a case uses.")
CLAIMS["C18"]["text"] += (" Dialled addresses are generated over (0..5 certhashes) x (no name | /sni, the shape Resolve produces | /dns4 | /dns4+/sni) x (the dialling transport's own TLS client configuration: none, InsecureSkipVerify, private root pool with and without name check, accepting VerifyConnection hook): whatever the names and the client configuration, a real dial completes only if the served certificate's SHA-256 is pinned by the address and every certhash is confirmed. "
    "In the timeline model every hash list handed out by the certificate manager (the listener's Noise early data) is kept by reference and re-read within the 10 s handshake timeout, including across the 1st..nth rollover: it must still decode, hold the hash served at fetch time, and confirm every address that instance advertised in the current or previous period.")
CLAIMS["C18"]["note"] += (" Assumes a handshake is in flight for at most 10 s; unresolved /dns4 addresses are judged on 'must not complete' only.")
CLAIMS["C01"]["text"] += (" The expected-peer setting is generated as an arbitrary byte string: empty, the genuine ID, another key's ID, or a non-empty non-ID (the genuine ID truncated, with stray bytes, with a corrupted multihash header or a flipped bit, a free-form label, arbitrary bytes). A side that names any non-empty ID completes only if the authenticated remote ID is byte-identical: "
    "checked on Noise and TLS SecureOutbound/SecureInbound (enumerated representatives for every key-type pair plus drawn members), on the upgrader in both directions, on Identity.ConfigForPeer under plain crypto/tls as QUIC and WebTransport use it, on the QUIC transport's Dial in its three roles, and on swarm DialPeer.")
CLAIMS["C01"]["note"] += (" Non-ID names are derived from the genuine remote's ID (near misses) or drawn freely; through swarm.DialPeer such names are additionally screened by ID.Validate.")
CLAIMS["C19"]["text"] += (" A public key is also sent in 15 non-canonical but valid encodings (unknown protobuf fields, field order, over-long varints, duplicated fields, other point / DER forms) by honest and attacking clients and by the harness server, for all four key types and both flows; the identity a key proves is computed by the harness from the key material per the peer-ID spec, so an ID derived from the bytes as sent is a violation. "
    "Every server instance is served by ServeHTTP or by the handshake state machine driven directly, fresh per request or ONE value re-used through Reset() (pooled use), all under the same provenance oracle, so state of an earlier request leaking into a later challenge or report is caught.")
CLAIMS["C19"]["note"] += (" The re-used state machine is reached through the add-only hook p2p/http/auth/export_verif.go (type alias, build tag verif); the direct engines re-implement ServeHTTP's glue and recognise the three re-challenge errors by their text; re-use without Reset() is not exercised; x509.MarshalPKIXPublicKey and the standard-library keys behind libp2p keys are trusted as the key material.")
CLAIMS["C08"]["text"] += (" Peer-ID checks run under both values of the process-wide option peer.AdvancedEnableInlining: the locally derived ID equals the reference definition for the setting (identity multihash iff inlining is on and the key is <= 42 bytes, else sha2-256), and both IDs of a key (as derived by a peer with inlining on or off, received through any serialized form) round-trip in every form and yield the key exactly when they embed it, independent of the local setting.")
CLAIMS["C08"]["note"] += (" MatchesPublicKey is judged against the ID for the current setting only (the library re-derives the ID; the statement does not require an ID derived under the other setting to match). Envelope, peerstore and key tests run under the default setting only.")

CLAIMS["C11"]["text"] += (" After a granted refresh from the same address the generator often moves the clock just past the reservation's ORIGINAL expiry (while the refreshed one is still live) and lets other peers ask from that address, so that the per-IP/ASN caps are probed against a refreshed reservation (labels clock-passes-original-expiry-of-a-refreshed-reservation, reserve-from-the-address-...).")

CLAIMS["C04"]["text"] += (" A WebSocket-listener layer (TestWebSocketListener) drives the real /ws and /tls/ws listener over loopback behind the real gate and a counting resource manager, with every shape of inbound HTTP exchange: a valid upgrade; upgrades refused with 4xx before the hijack or closed after it; plain, partial and non-HTTP requests; TLS or plaintext mismatch; each followed by hang-up, half-close, stall or more data. "
    "A connection which never became a WebSocket connection must have its scope Done and raw socket closed once the handshake timeout has passed, and after Close the manager reads zero and every connection is closed as seen from the remote end.")
CLAIMS["C04"]["note"] += (" The WebSocket layer uses real sockets and real time: the verdict depends on time only through 5 s upper bounds. The consumer of Accept is the harness; the outbound ws dial and the libp2p upgrade on top of ws are not driven; connections served by the fallback handler are audited after Close only.")

CLAIMS["C05"]["text"] += (" Callers may arrive with a context that is already over (cancelled or expired); O10: once every caller has returned no dial-worker goroutine is alive (goroutine dump). A dial worker may linger (yields, or 1 us - 50 ms of virtual time) between noticing that its last caller left and cleaning up after itself (schedule point dialWorker:exiting, build tag verif), so that a new worker for the same peer is at work meanwhile. "
    "Address kinds include ws/wss on the IP and port number of a quic-v1 entry and webtransport on those of a tcp entry (nothing shadows them across layer-4 protocols: they must be attempted).")

CLAIMS["C17"]["text"] += (" Connections are drawn from {direct, relayed} (remote address <relay>/p2p/<relay id>/p2p-circuit, observer = relay's IPv4 address or IPv6 /56): reports on relayed connections are held to the same count, replace and withdraw-on-close oracle as direct ones, in the generated histories and in the boundary and ineligible sweeps.")
CLAIMS["C17"]["note"] += (" 'Relayed reports never count' is read on the observed address; a plain observed address reported over a relayed connection counts with the relay's IP as observer and must be withdrawn on change or close.")

CLAIMS["C09"]["text"] += (" TestMemGlobalCap: the in-memory book's global cap on unconnected addresses (WithMaxAddresses 1-6) under add / set / TTL-class updates with lifetimes far above the case's duration, against an exact model of the documented rule: entries in a connected class never count and are never refused or dropped, an unconnected address is admitted whenever fewer than cap are stored, incl. after finite->connected and connected->finite transitions.")
CLAIMS["C09"]["note"] += (" In TestMemGlobalCap nothing expires (the count of unconnected addresses is then exact without modelling GC timing); when a connected->finite update fits only some of several entries under the cap the choice is open and the case is not compared further (labelled). The datastore book has no global cap.")
CLAIMS["C14"]["text"] += (" Decaying-tag lifecycle is part of the history: Close() and RegisterDecayingTag under a closed tag's name at any distance from the Close, including while the closure is still queued behind a bump the decayer is applying (schedule pinned through the bump callback), plus Bump/Remove/Close on closed handles. A re-registered tag must follow its documented decay schedule exactly, and a closed tag's values must count for no peer, in totals and in trim order.")
CLAIMS["C14"]["note"] += (" Whether a registration under a just-closed name is refused is not asserted. Lifecycle operations are not generated in TestConcurrent.")
CLAIMS["C19"]["text"] += (" Time is generated at nanosecond granularity: issue instants with arbitrary sub-second/sub-millisecond parts and uses at lifetime +1 ns / +0.4 ms / +0.6 ms / +0.4 s / +1 s (tokens: TokenTTL; challenge answers: 5 min), both randomly (TestServerProvenance, TestServerReuse) and exhaustively over key type x flow x 16 issue fractions x 9 use offsets (TestServerExpiryInstants); expiry is judged on full-precision time.Time values.")
CLAIMS["C19"]["note"] += (" Acceptance exactly at the TTL instant and refusal before expiry are not judged; the issue instant is the virtual instant at which the harness saw the value handed out.")

CLAIMS["C20"]["text"] += (" The swarm-level part also draws public UDP/IPv6 addresses no transport of the swarm can dial (QUIC draft-29, bare /udp): they are dropped before the detector is consulted, so the history-derived oracle counts no request for them (a query the detector never sees uses up no probe), CanDial must be false and they are never handed to a transport.")

CLAIMS["C06"]["text"] += (" TestUpgradedConnKeepsLimitedFlag covers the stretch before the swarm: connections built by the repository's own upgrader (private-network wrapping on or off, Noise or TLS, yamux) out of raw connections that say whether they are limited (as the relay client's do), dialled through a real swarm with and without a metrics tracer: Stat().Limited on both ends, ConnsToPeer, Connectedness, the published event and NewStream without WithAllowLimitedConn must follow what the raw connection said.")
CLAIMS["C15"]["text"] += (" Read-only queries (Bus.GetAllEventTypes, Subscription.Name/Out) are generated as concurrent operations at every instant, including next to Subscribe / Close / Emitter calls while an Emit stays stalled on a slow subscriber, and enumerated during every basic stall shape, alone and racing the Close / creation of an unrelated type: each query must have returned at the next quiescence point and must not keep any other call from returning.")
CLAIMS["C15"]["note"] += (" Query answers are not judged. A query is planned as a call that never waits for a subscriber, so a query that waits behind a stalled Emit freezes the bubble and is reported through the 120 s watchdog.")

CLAIMS["C10"]["text"] += (" Rules are checked as values: after any Block*/Unblock* call the generated caller overwrites or re-uses the net.IP/*net.IPNet it passed, and overwrites everything ListBlocked* returned; enforcement, lists and restart state must still equal the calls that returned success. "
    "The WebRTC-direct listener's own accept-time and post-handshake gating is driven with the real transport over loopback UDP behind an address translator that gives every attempt an arbitrary source IP (v4 as 4 or 16 bytes, or v6).")
CLAIMS["C10"]["note"] += (" WebRTC-direct cases run in real time on loopback sockets (few cases; verdicts come from events such as a Connected notification or a recorded refusal, never from timeouts; 20 s without an event counts as inconclusive). The datastore double copies values on Put. The WebRTC dialer's InterceptSecured call site and outbound WebRTC dials are not driven.")

CLAIMS["C01"]["text"] += (" Forged identity proofs are also generated over signature encodings: for every key type a signature over the correct message made with a key that is not the named identity key is presented in the usual and in alternative encodings (Secp256k1: compact/recoverable, raw r||s, BER / trailing-byte / high-S DER; ECDSA: P1363 and BER / trailing / high-S DER; Ed25519: non-canonical S, appended bytes, ph and ctx; RSA: PSS, PKCS#1 v1.5 over SHA-512, no DigestInfo, padded), on Noise, TLS, ConfigForPeer (QUIC use) and PubKeyFromCertChain. None may authenticate the remote as the named identity.")
CLAIMS["C01"]["note"] += (" Each forged signature is confirmed by a reference verifier (stdlib / dcrd) to be a genuine signature by the substituted key in that form. Whether the named key's own signature in an alternative encoding is accepted is recorded but not judged.")
CLAIMS["C08"]["text"] += (" Envelopes are also checked as in-memory objects: an envelope taken straight from Seal keeps reporting (Record/TypedRecord/address-book acceptance and stored addresses) exactly the content its signature covers while the sealer modifies and re-seals the same record value, and the peer-ID-matches-signer rule is judged on the signed bytes. "
    "ConsumeTypedEnvelope is exercised with pre-filled caller destinations (a refused envelope leaves them untouched) and with a record type whose Domain() depends on its decoded content (the domain verified is the one the destination named before the call).")
CLAIMS["C08"]["note"] += (" Destination-untouched is not demanded of ReservationVoucher when the refused payload is authentic (its UnmarshalRecord fills field by field); ConsumeTypedEnvelope re-using one destination across calls (e.cached = destRecord aliasing, by design) is not judged.")
CLAIMS["C12"]["text"] += (" Addresses of the peer are generated in every form the node can know them: stored literally, or only behind /dnsaddr names (own, shared, nested, with or without a peer suffix) or /dns4 names resolved by a mock resolver; the force-direct rules (no relay address dialled, no relayed connection returned) are checked however the relay address became known. "
    "A second, real-stack configuration (TestRealStackRelay) is three real BasicHosts in one bubble: real swarms, real upgrader with private network/PSK on or off, Noise or TLS, the real circuit-v2 relay and client, in-memory sockets. It checks on both ends that a connection made through a limited relay is marked Limited, that Connectedness and its events report Limited, that streams need explicit permission, that waiters end at their deadline or on a direct connection arriving, and that force-direct dials never return the relayed connection.")
CLAIMS["C12"]["note"] += (" 'Limited' ground truth is configuration (a /p2p-circuit connection through a relay configured with limits). All nodes share the PSK or none has one. With link latency a settled point is 50 latencies after quiescence. Outcomes of events at the same virtual instant race for real and either is accepted.")
CLAIMS["C16"]["text"] += (" TestDialBackSockets runs the server with the real dialer stack (swarm + TCP, QUIC, WebSocket transports on loopback sockets) over dial-back address shapes (tcp, quic-v1, ws, wss, tls/ws, tls/sni/<name>/ws; ports incl. the scheme defaults 80/443; /sni names that are literals of, or resolve via an in-process DNS server to, another/the same/no IP) and checks at the sockets (accept loops on every IP of the case x requested ports + 80 + 443; recorder on the dialer's UDP sockets) that every connection/datagram goes to an (IP, port) named in the request, to a foreign IP only after the requested dial data was consumed, and to one endpoint at most.")
CLAIMS["C16"]["note"] += (" TestDialBackSockets: IPv4 loopback with AllowPrivateAddrs (public-ness is not exercised there); TCP is observed only at the listening endpoints, UDP at the dialer's socket; real time, few cases (128 quick / 2400 thorough); bind failures and timeouts are counted as skipped, not violations.")

CLAIMS["C02"]["text"] += (" Truncation is a generated cut position: the byte stream under a Noise or TLS session ends with a FIN between frames, inside the length prefix or record header, after a complete prefix, or anywhere inside a frame body or tag; a cut strictly inside a frame must end the reader's Read sequence with an error other than io.EOF (only a cut exactly between frames over a byte pipe may look like a clean end). "
    "The same is checked over the real WebSocket transport through a frame-parsing TCP proxy that delivers k messages of one direction and then ends the TCP stream without a close frame, at or inside a message boundary: there io.EOF is never acceptable, and the reader receives at most the plaintext of the messages that arrived whole.")
CLAIMS["C02"]["note"] += (" The WebSocket cut test uses loopback sockets (a stall is inconclusive) and assumes one security-layer frame is one WebSocket message, with sizes measured by the proxy. pnet is not truncated (no framing, not an authenticated channel).")

CLAIMS["C07"]["text"] += (" The resource-scope clause is also checked over generated histories in which the resource manager itself changes (TestScopes, TestScopesSmall): on 2-4 hosts, with streams that stay open across steps, the application changes protocol, peer and service scope limits at run time, unused scopes are collected (on-demand hook or a virtual minute), and peers disconnect and return. "
    "After every step every scope's Stat() equals the harness' own count of open streams on that host, opens are refused only where a limit the harness set is full, and a returning peer's stream reaches its handler and is charged again.")
CLAIMS["C07"]["note"] += (" In TestScopes 'charged' is read as counted by Stat() and against the scope's stream limit; memory, connection and FD limits and the system, transient and per-peer sub-scopes stay unlimited; only BasicHost is used (BlankHost ignores scope refusals); one open at a time, steps applied at quiescence; rcmgr.VerifGC (verif build tag) is trusted to run exactly the once-a-minute job.")
CLAIMS["C13"]["text"] += (" Histories include other components' use of the peerstore's address streams (AddrStream subscribers on the remote peer or a bystander, subscribing at any point incl. right after the recently-connected lifetime expired and before the address book collects the entry; consumers idle, eager or reading at steps; cancel). "
    "Identify-waits must still be released by their deadlines, streams may carry only correctly attributed addresses, and a case in which identify or the address book waits for a lock that can never be released fails.")
CLAIMS["C13"]["note"] += (" A frozen case is recognised from outside the bubble by goroutine states (TestWatcherSelfCheck guards the runtime dump format; if that broke, a freeze would end as an inconclusive hang, not a pass). The harness never waits for virtual time under a lock of identify or the peerstore, so a freeze is a stall of the code under test.")

CLAIMS["C20"]["text"] += (" The counter's reported State() is compared with the state the history implies after every event (no full window: Probing; full window with too few successes: Blocked; else Allowed), and the read-only expectations of the swarm-level part are computed from that history-derived state, not from the counter's own answer.")

CLAIMS["C05"]["text"] += (" Two cases in seven run a swarm that lacks the TCP or the QUIC transport: addresses of the missing transport cannot be dialled (never handed to a transport), and a ws / webtransport address on the ip:port of such an address is then not shadowed and must be attempted.")

CLAIMS["C03"]["text"] += (" A third of the sequential histories give the manager the library's own fixed limiter (NewFixedLimiter over a limit configuration built from the drawn table, with explicit per-protocol and per-service per-peer overrides) instead of the harness' table-driven Limiter, so the stock limit lookup is part of what is checked.")

CLAIMS["C04"]["text"] += (" The host layer also opens bare swarm streams that the opener ends (half-close then close, or close at once) before sending a single byte of protocol negotiation while the connection stays up: the accepting host must dispose of the inbound stream, which must be gone from the connection and from every scope at the mid-life and final audits.")
CLAIMS["C04"]["note"] += (" The QUIC transport's hole-punch dial path (seeded change C04-K) is not driven by any C04 layer.")

CLAIMS["C01"]["text"] += (" Wire edits include frame/record INSERTION by the man in the middle: 1-3 attacker frames in front of every Noise XX message / TLS 1.3 handshake record and behind the last one, of every length class including the empty frame (Noise 00 00, TLS zero-length record), 1-2 bytes, the displaced frame's length +-1 and the framing maximum, enumerated per position and sampled; the receiver of such extended handshake data must not complete.")
CLAIMS["C01"]["note"] += (" Inserted TLS ChangeCipherSpec/alert records (outside the TLS 1.3 transcript) and frames behind a side's last handshake frame are judged by the identity + no-garbage oracles only.")

CLAIMS["C14"]["text"] += (" Overlapping trim calls (TrimOpenConns/ForceTrim in every order, 2-3 calls, the first one pinned inside its first CloseWithError or all pinned inside an UpsertTag callback) are each judged at their own return: own closes obey the rules of the call's kind, and when the count exceeded the low watermark at most low-watermark connections remain open among the peers eligible for that kind (for ForceTrim: all unprotected peers, grace ignored), whoever of the overlapping trims closed them.")
CLAIMS["C14"]["note"] += (" The overlap window is pinned by harness callbacks plus a bounded number of scheduler yields; closes are attributed to a call by goroutine id (trims close on the caller's goroutine); a regular trim that joins a running trim and closes nothing itself is accepted.")
CLAIMS["C18"]["text"] += (" TestTransportListenHistory also obtains the running transport's advertised address through Transport.AddCertHashes(bare /webtransport address) - the path used for observed, NAT-mapped and user-provided addresses - at every sampled instant, the first call before the first Listen, at the first listener, or after k rollovers; the address is held to the listener's own rules (it contains the hash of the certificate served now, and every address so obtained in the current or previous period verifies the certificate served now).")
CLAIMS["C18"]["note"] += (" Only the transport-level AddCertHashes is exercised; the swarm and basic-host callers above it are not run.")

CLAIMS["C04"]["text"] += (" A QUIC listener layer (TestQUICListenerLayer) runs the real QUIC transport over simnet in virtual time: a listener whose gater rejects every k-th InterceptAccept / InterceptSecured call after the QUIC handshake and whose resource manager refuses the k-th OpenConnection / SetPeer, a consumer that accepts some connections and closes them at once or late, 1-4 dialling transports that connect, open a stream or not and hang up or stay; after listener, connections and transports are closed both sides' real managers must read zero everywhere.")

CLAIMS["C11"]["text"] += (" The connection-manager view of every peer (Tags map and total Value, with generated pre-existing tags of other subsystems as the 'previous values') is snapshotted before its first request and must be restored exactly whenever the model says the peer holds neither a reservation nor a circuit: after disconnect, expiry plus collection, any number of granted refreshes and repeated circuits, and after the relay is Closed at the end of every history.")
CLAIMS["C11"]["note"] += (" Assumes the BasicConnMgr forgets a peer (foreign tags included) when its last connection closes; tag values are not judged while a peer still holds a reservation or circuit.")
