# What each claimed check asserts about itself (copied into MANIFEST.json by gen_manifest.py).
HOOK_COMMITS = []
NOT_APPLICABLE = {}
CLAIMS = {
    "C20": {
        "technique": "bounded-exhaustive enumeration + rapid property-based testing against a history-derived oracle",
        "design_ref": "DESIGN.md section 3, C20",
        "text": "Every request/success/failure sequence up to depth 3N+4 for N<=3 (quick) / N<=4 (thorough) and every MinSuccesses is run against the exported "
                "success counter and judged by an oracle recomputed from the history alone; random long sequences for N<=100; the address filter is exercised "
                "through a real swarm (CanDial/DialPeer over scripted transports) in normal and read-only mode. Exploration: finds violations, does not prove absence beyond the enumerated bound.",
        "note": "Trusted: multiaddr classification (manet.IsPublicAddr); the scripted transport stands in for real dials. Under-blocking is not asserted.",
    },
}
