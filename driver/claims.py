# What each claimed check asserts about itself (copied into MANIFEST.json by gen_manifest.py).
HOOK_COMMITS = []
NOT_APPLICABLE = {}
CLAIMS = {
    "C20": {
        "technique": "bounded-exhaustive enumeration + rapid property-based testing against a history-derived oracle",
        "design_ref": "DESIGN.md section 3, C20",
        "text": "Every request/success/failure sequence up to depth 3N+4 for N<=3 (quick) / N<=4 (thorough) and every MinSuccesses is run against the exported "
                "success counter and judged by an oracle recomputed from the history alone; random long sequences for N<=100; the address filter is exercised "
                "through a real swarm (CanDial/DialPeer over scripted transports) in normal and read-only mode. Exploration: finds violations, does not prove absence beyond the enumerated bound.",
        "note": "Trusted: multiaddr classification (manet.IsPublicAddr); the scripted transport stands in for real dials. Under-blocking is not asserted.",
    },
}

CLAIMS["C09"] = {
    "technique": "model-based stateful property testing (rapid state machine, differential against a reference model and between the two stores) on virtual time",
    "design_ref": "DESIGN.md section 3, C09",
    "text": "Generated histories of every address-book operation, clock advances, GC runs and close/reopen are applied to the in-memory book, the datastore book "
            "(cache on/off, purge and lookahead GC) and a continuous-time reference model inside one synctest bubble; Addrs/GetPeerRecord/ConsumePeerRecord results must "
            "agree exactly, PeersWithAddrs within one GC period and exactly at the end. Shrunk failures found on the pinned tree (six, all repaired by fix: commits) are replayed as witnesses. "
            "Exploration: does not prove absence of further divergences.",
    "note": "Clock steps are whole seconds; batches never name one address twice; per-peer caps disabled in the exact-oracle configuration; the datastore double applies each write atomically (crash = close/reopen).",
}
