# What each claimed check asserts about itself (copied into MANIFEST.json by gen_manifest.py).
HOOK_COMMITS = []
NOT_APPLICABLE = {}
CLAIMS = {
    "C20": {
        "technique": "bounded-exhaustive enumeration + rapid property-based testing against a history-derived oracle",
        "design_ref": "DESIGN.md section 3, C20",
        "text": "Every request/success/failure sequence up to depth 3N+4 for N<=3 (quick) / N<=4 (thorough) and every MinSuccesses is run against the exported "
                "success counter and judged by an oracle recomputed from the history alone; random long sequences for N<=100; the address filter is exercised "
                "through a real swarm (CanDial/DialPeer over scripted transports) in normal and read-only mode. Exploration: finds violations, does not prove absence beyond the enumerated bound.",
        "note": "Trusted: multiaddr classification (manet.IsPublicAddr); the scripted transport stands in for real dials. Under-blocking is not asserted.",
    },
}

CLAIMS["C09"] = {
    "technique": "model-based stateful property testing (rapid state machine, differential against a reference model and between the two stores) on virtual time",
    "design_ref": "DESIGN.md section 3, C09",
    "text": "Generated histories of every address-book operation, clock advances, GC runs and close/reopen are applied to the in-memory book, the datastore book "
            "(cache on/off, purge and lookahead GC) and a continuous-time reference model inside one synctest bubble; Addrs/GetPeerRecord/ConsumePeerRecord results must "
            "agree exactly, PeersWithAddrs within one GC period and exactly at the end. Shrunk failures found on the pinned tree (six, all repaired by fix: commits) are replayed as witnesses. "
            "Exploration: does not prove absence of further divergences.",
    "note": "Clock steps are whole seconds; batches never name one address twice; per-peer caps disabled in the exact-oracle configuration; the datastore double applies each write atomically (crash = close/reopen).",
}

CLAIMS["C03"] = {
    "technique": "model-based stateful property testing (rapid state machine vs. an independent reference model), plus a concurrent bounds/quiescent-sum property under the race detector",
    "design_ref": "DESIGN.md section 3, C03",
    "text": "Generated histories of every resource-manager operation (incl. allow-listed endpoints, IPv6/v4-mapped/no-IP endpoints, nested spans, View* reservations, Done in any order, scope GC) "
            "run against the real manager built from a generated limit table and are audited after every step: each scope's reported usage must equal the sum of the model's holders charged to it, "
            "stay within [0, limit], acceptance must match the model in both directions, limit refusals must wrap the sentinel and change nothing, refused re-parenting must leave the holder in a legal "
            "scope set, per-subnet/prefix caps are recounted from the open connections, and everything reads zero at the end. A second property runs the operations from 2-8 goroutines and checks bounds "
            "continuously and the exact sum at quiescence (also under -race in the thorough tier). Exploration; one genuine defect repaired, one listed as known finding (excluded by construction, counted).",
    "note": "Hidden scopes (allow-listed system/transient, per-peer sub-scopes) are observed through the public trace reporter; connection rate limiter disabled; SetPeer/SetProtocol/SetService are not issued on closed holders; "
            "the concurrent property samples interleavings produced by the Go scheduler.",
}
CLAIMS["C17"] = {
    "technique": "model-based property testing of observation/close histories (rapid, one synctest bubble per case) plus deterministic boundary / top-3 / ineligible-class sweeps against a model recomputed from the history",
    "design_ref": "DESIGN.md section 3, C17",
    "text": "The real observedaddrs.Manager is driven through its public API on a real event bus with generated histories of observe / re-observe / change report / close / observe-after-close / clock advance over "
            "populations with shared IPv4s, shared IPv6 /56s, TCP and QUIC/WebTransport listen addresses sharing a thin waist and reported addresses of every class; after every event AddrsFor (every listen and non-listen "
            "address), Addrs(0) and Addrs(k) are compared with a model that counts distinct observer groups on currently open connections: only addresses with >= threshold groups, at most three per local address, "
            "most-observed first, no strictly better address omitted, ineligible reports never count, closes and changed reports are withdrawn at once. 32 seeded faults were all detected in the quick tier. Exploration.",
    "note": "A connection's credited report is its latest eligible one (a later ineligible report does not withdraw it); transport consistency is read at thin-waist level; listen addresses fixed per history; "
            "one event per quiescence point so the 16-slot queue never drops; ties at the cut are free.",
}
