#!/usr/bin/env python3
"""Regenerates /verif/MANIFEST.json from driver/props.py + driver/claims.py."""
import json, os, sys
ROOT = os.path.dirname(os.path.dirname(os.path.abspath(__file__)))
sys.path.insert(0, os.path.join(ROOT, "driver"))
from props import PROPS
from claims import CLAIMS, NOT_APPLICABLE, HOOK_COMMITS

ids = [json.loads(l)["id"] for l in open(os.path.join(ROOT, "properties.jsonl"))]
checks = []
for pid in ids:
    if pid not in CLAIMS:
        continue
    c = CLAIMS[pid]
    checks.append({
        "property_id": pid,
        "quick_cmd": "./run %s quick" % pid,
        "thorough_cmd": "./run %s thorough" % pid,
        "evidence_file": "/verif/evidence/%s.json" % pid,
        "replay_cmd_template": "./run %s --replay {path}" % pid,
        "engine": "rapid+synctest harness",
        "level_claimed": {"category": PROPS[pid].get("level", "exploration"), "text": c["text"], "design_ref": c["design_ref"]},
        "level_note": c["note"],
        "technique": c["technique"],
    })
na = [{"property_id": pid, "reason": NOT_APPLICABLE.get(pid, "check not built yet in this session; see DESIGN.md section 3 for the plan")}
      for pid in ids if pid not in CLAIMS]
m = {
    "version": 1,
    "setup_cmd": "./run setup",
    "hooks": {
        "guard": "verif",
        "enable": "go build tag: every harness build passes -tags verif (GOFLAGS=-mod=mod, replace github.com/libp2p/go-libp2p => /repo)",
        "baseline_off_cmd": "cd /repo && GOFLAGS=-mod=mod go test -vet=off -count=1 -timeout 25m ./...",
        "source_commits": HOOK_COMMITS,
        "add_only": True,
    },
    "engines": [{
        "name": "rapid+synctest harness", "path": "/verif/harness",
        "serves_properties": [c["property_id"] for c in checks],
        "kind_free_text": "Go test packages (one per property) using pgregory.net/rapid v1.3.0 for generation/shrinking, testing/synctest bubbles for virtual time and quiescence, native go fuzzing in the thorough tier; python driver ./run shards, merges statistics, writes evidence",
    }],
    "checks": checks,
    "notes": "Exit 2 from a check means inconclusive (build failure, timeout), never a violation. known_findings.json lists genuine defects (fixed / known).",
    "not_applicable": na,
}
json.dump(m, open(os.path.join(ROOT, "MANIFEST.json"), "w"), indent=1)
open(os.path.join(ROOT, "MANIFEST.json"), "a").write("\n")
print("claimed:", [c["property_id"] for c in checks])
