// Package c05 checks property C05: every dial request completes exactly once; dials are
// deduplicated and capped.
package c05

import (
	"context"
	"errors"
	"fmt"
	"os"
	"sort"
	"runtime"
	"strings"
	"sync"
	"sync/atomic"
	"testing"
	"testing/synctest"
	"time"

	"github.com/libp2p/go-libp2p/core/network"
	"github.com/libp2p/go-libp2p/core/peer"
	"github.com/libp2p/go-libp2p/p2p/host/eventbus"
	"github.com/libp2p/go-libp2p/p2p/host/peerstore/pstoremem"
	"github.com/libp2p/go-libp2p/p2p/net/swarm"
	ma "github.com/multiformats/go-multiaddr"
	"pgregory.net/rapid"

	"verif/internal/hx"
	"verif/internal/keys"
	"verif/internal/kf"
	"verif/internal/scripted"
	"verif/internal/stats"
)

func TestMain(m *testing.M) {
	stats.Describe("exploration",
		"rapid schedules for a real swarm over scripted transports in a synctest bubble: 1-3 target peers, 0-7 addresses each (private/public TCP, QUIC, WebTransport, "+
			"WebSocket, relay, DNS, duplicates, undialable and shadowed entries), a per-address outcome script per round (succeed/fail/hang/handshake-progress, virtual delays), "+
			"1-4 callers per peer with start offsets, cancel times, deadlines, force-direct / simultaneous-connect flags, per-peer cap in {1,2,8}, FD cap in {1,2,160}, two rounds "+
			"(back-off carry-over); oracles O1-O7 over the recorded history (termination by the horizon, validity of every result, at most one transport dial per address per waiting "+
			"interval, completeness, concurrency caps measured inside the transport, isolation of cancelled callers, no residue) plus a token-leak probe. "+
			"Non-trivial = two callers overlap on one peer, or a cancel lands while attempts are in flight, or a cap is binding; distinct = distinct abstract schedule.",
		"the scripted transport stands in for real transports; black-hole detection disabled (C20 covers it)",
		"events at the same virtual instant race for real; oracles are validity predicates that accept either order",
	)
	hx.Main(m)
}

// ---------------------------------------------------------------------------
// scenario

type addrKind int

const (
	kPrivTCP addrKind = iota
	kPubTCP
	kPubQUIC
	kPrivQUIC
	kPubWT
	kWTShadow // webtransport on the ip:port of a quic-v1 entry: filtered
	kWS
	kWSShadow // ws on the ip:port of a tcp entry: filtered
	kRelay
	kDNS
	kNoTransport
	kUnspecified
	kLinkLocal
	kPubTCP6
	kDNSAddr // /dnsaddr name whose TXT record carries the address with a /p2p/<peer> suffix
	// the shadowing rules are per transport family: the same IP and port NUMBER on the other layer-4
	// protocol shadows nothing
	kWSOnQUICPort // ws on the ip and port number of a quic-v1 (udp) entry, no tcp entry there: dialled
	kWTOnTCPPort  // webtransport on the ip and port number of a tcp entry, no quic-v1 entry there: dialled
	nKinds
)

var kindNames = [...]string{"priv-tcp", "pub-tcp", "pub-quic", "priv-quic", "pub-wt", "wt-shadow", "ws", "ws-shadow", "relay", "dns", "no-transport", "unspecified", "link-local", "pub-tcp6", "dnsaddr", "ws-on-quic-port", "wt-on-tcp-port"}

type outcome struct {
	O        scripted.Outcome
	Delay    time.Duration
	Progress bool
	// IgnoreCancel (successes only): the transport's handshake completes after Delay even if
	// every caller has left meanwhile
	IgnoreCancel bool
}

type addrSpec struct {
	kind     addrKind
	stored   ma.Multiaddr // as put into the peerstore
	dialled  ma.Multiaddr // as it reaches a transport (after DNS resolution)
	filtered bool         // the swarm must never hand it to a transport
	relay    bool
	fd       bool
	// p2pSuffix (dnsaddr): the resolved form carries /p2p/<peer>, as TXT records do
	p2pSuffix bool
	script    [2]outcome // per round
}

type callerSpec struct {
	peer        int
	start       time.Duration // offset within the round
	cancelAt    time.Duration // 0: never
	deadline    time.Duration // 0: none (relative to start)
	// preEnded: the caller's context is already over when it calls DialPeer ("cancelled" or "expired")
	preEnded string
	forceDirect bool
	simConnect  bool
	peerTimeout time.Duration // 0: default 60s
}

type scenario struct {
	perPeer, fdCap int
	addrs          [][]*addrSpec // per peer
	callers        [2][]callerSpec
	gap            time.Duration // between rounds
	closeBetween   bool
	closes         [2][]closeSpec // connections to a peer killed while a round is running
	// workerExit: what a dial worker does between noticing that its last caller left and cleaning up
	// after itself (schedule point dialWorker:exiting, build tag verif): 0 nothing, < 0 that many
	// yields, > 0 a pause in virtual time. A new worker for the same peer can be at work meanwhile.
	workerExit time.Duration
	// missing: a transport the swarm does not have ("" = it has all of them): its addresses cannot be
	// dialled, and a lower-priority form on the same ip:port (ws next to tcp, webtransport next to
	// quic-v1) is then the only way in and must be attempted
	missing string
}

// workerExitDelay is what the installed schedule-point function does for the running case.
var workerExitDelay atomic.Int64

func init() {
	swarm.VerifSetYield(func(point string) {
		if point != "dialWorker:exiting" {
			return
		}
		switch d := workerExitDelay.Load(); {
		case d > 0:
			time.Sleep(time.Duration(d))
		case d < 0:
			for i := d; i < 0; i++ {
				runtime.Gosched()
			}
		}
	})
}

// probeSuffix: the token probes need file-descriptor consuming addresses of a transport the swarm has
func (sc *scenario) probeSuffix() string {
	if sc.missing == "tcp" {
		return "/ws"
	}
	return ""
}

type closeSpec struct {
	peer int
	at   time.Duration
}

var relayID = keys.Ed(99).ID

func drawAddrs(rt *rapid.T, pi int) []*addrSpec {
	n := rapid.IntRange(0, 7).Draw(rt, "naddrs")
	var out []*addrSpec
	for k := 0; k < n; k++ {
		kind := addrKind(rapid.SampledFrom([]int{0, 1, 1, 2, 2, 3, 4, 5, 6, 7, 8, 8, 9, 10, 11, 12, 13, 14, 14, 15, 16}).Draw(rt, "kind"))
		a := &addrSpec{kind: kind}
		mk := func(s string) ma.Multiaddr { return ma.StringCast(s) }
		switch kind {
		case kPrivTCP:
			a.stored, a.fd = mk(fmt.Sprintf("/ip4/192.168.%d.%d/tcp/4001", pi, k+1)), true
		case kPubTCP:
			a.stored, a.fd = mk(fmt.Sprintf("/ip4/1.%d.0.%d/tcp/4001", pi, k+1)), true
		case kPubQUIC:
			a.stored = mk(fmt.Sprintf("/ip4/1.%d.1.%d/udp/4001/quic-v1", pi, k+1))
		case kPrivQUIC:
			a.stored = mk(fmt.Sprintf("/ip4/10.%d.1.%d/udp/4001/quic-v1", pi, k+1))
		case kPubWT:
			a.stored = mk(fmt.Sprintf("/ip4/1.%d.4.%d/udp/4001/quic-v1/webtransport", pi, k+1))
		case kWTShadow:
			var q *addrSpec
			for _, o := range out {
				if o.kind == kPubQUIC || o.kind == kPrivQUIC {
					q = o
				}
			}
			if q == nil {
				a.kind = kPubWT
				a.stored = mk(fmt.Sprintf("/ip4/1.%d.4.%d/udp/4001/quic-v1/webtransport", pi, k+1))
			} else {
				a.stored, a.filtered = q.stored.Encapsulate(mk("/webtransport")), true
			}
		case kWS:
			a.stored, a.fd = mk(fmt.Sprintf("/ip4/1.%d.2.%d/tcp/4001/ws", pi, k+1)), true
		case kWSShadow:
			var q *addrSpec
			for _, o := range out {
				if o.kind == kPubTCP || o.kind == kPrivTCP {
					q = o
				}
			}
			if q == nil {
				a.kind = kWS
				a.stored, a.fd = mk(fmt.Sprintf("/ip4/1.%d.2.%d/tcp/4001/ws", pi, k+1)), true
			} else {
				a.stored, a.filtered = q.stored.Encapsulate(mk("/ws")), true
			}
		case kWSOnQUICPort:
			a.kind = kWS
			a.stored, a.fd = mk(fmt.Sprintf("/ip4/1.%d.2.%d/tcp/4001/ws", pi, k+1)), true
			for _, o := range out {
				if o.kind == kPubQUIC || o.kind == kPrivQUIC {
					ip, _ := o.stored.ValueForProtocol(ma.P_IP4)
					a.kind = kWSOnQUICPort
					a.stored = mk(fmt.Sprintf("/ip4/%s/tcp/4001/%s", ip, rapid.SampledFrom([]string{"ws", "wss"}).Draw(rt, "wsform")))
				}
			}
		case kWTOnTCPPort:
			a.kind = kPubWT
			a.stored = mk(fmt.Sprintf("/ip4/1.%d.4.%d/udp/4001/quic-v1/webtransport", pi, k+1))
			for _, o := range out {
				if o.kind == kPubTCP || o.kind == kPrivTCP {
					ip, _ := o.stored.ValueForProtocol(ma.P_IP4)
					a.kind = kWTOnTCPPort
					a.stored = mk(fmt.Sprintf("/ip4/%s/udp/4001/quic-v1/webtransport", ip))
				}
			}
		case kRelay:
			a.stored, a.relay = mk(fmt.Sprintf("/ip4/2.%d.0.%d/tcp/4001/p2p/%s/p2p-circuit", pi, k+1, relayID)), true
		case kDNS:
			a.stored, a.fd = mk(fmt.Sprintf("/dns4/h%d-%d.example/tcp/4001", pi, k+1)), true
			a.dialled = mk(fmt.Sprintf("/ip4/3.%d.0.%d/tcp/4001", pi, k+1))
		case kNoTransport:
			a.stored, a.filtered = mk(fmt.Sprintf("/ip4/1.%d.3.%d/udp/4001", pi, k+1)), true
		case kUnspecified:
			a.stored, a.filtered = mk("/ip4/0.0.0.0/tcp/4001"), true
		case kLinkLocal:
			a.stored, a.filtered = mk(fmt.Sprintf("/ip6/fe80::%d/tcp/4001", k+1)), true
		case kPubTCP6:
			a.stored, a.fd = mk(fmt.Sprintf("/ip6/2600:%d::%d/tcp/4001", pi+1, k+1)), true
		case kDNSAddr:
			a.stored, a.fd = mk(fmt.Sprintf("/dnsaddr/d%d-%d.example", pi, k+1)), true
			a.dialled = mk(fmt.Sprintf("/ip4/3.%d.9.%d/tcp/4001", pi, k+1))
			a.p2pSuffix = rapid.IntRange(0, 3).Draw(rt, "txtHasP2P") != 0
		}
		if a.dialled == nil {
			a.dialled = a.stored
		}
		drawScripts := func(a *addrSpec) {
			for r := 0; r < 2; r++ {
				o := outcome{
					O:     scripted.Outcome(rapid.SampledFrom([]int{0, 1, 1, 1, 2}).Draw(rt, "outcome")),
					Delay: time.Duration(rapid.SampledFrom([]int{0, 5, 10, 20, 50, 100, 300, 600, 2000, 7000, 20000}).Draw(rt, "delay")) * time.Millisecond,
				}
				if a.fd && rapid.IntRange(0, 4).Draw(rt, "progress") == 0 {
					o.Progress = true
				}
				if o.O == scripted.Succeed && o.Delay > 0 && rapid.IntRange(0, 3).Draw(rt, "ignoreCancel") == 0 {
					o.IgnoreCancel = true
				}
				a.script[r] = o
			}
		}
		drawScripts(a)
		out = append(out, a)
		if a.kind == kDNSAddr && rapid.Bool().Draw(rt, "alsoKnownPlainly") {
			// the peer is also known by the very address the name resolves to
			b := *a
			b.kind, b.stored, b.p2pSuffix = kPubTCP, a.dialled, false
			out = append(out, &b)
		}
		if a.kind == kDNS {
			// a name with several records: every record is an address of its own (same stored form)
			for x, extra := 1, rapid.SampledFrom([]int{0, 0, 1, 2}).Draw(rt, "dnsRecords"); x <= extra; x++ {
				b := *a
				b.dialled = mk(fmt.Sprintf("/ip4/3.%d.%d.%d/tcp/4001", pi, x, k+1))
				drawScripts(&b)
				out = append(out, &b)
			}
		}
		if rapid.IntRange(0, 9).Draw(rt, "dup") == 0 {
			d := *a
			out = append(out, &d)
		}
	}
	return out
}

func drawScenario(rt *rapid.T) *scenario {
	sc := &scenario{
		perPeer: rapid.SampledFrom([]int{1, 2, 8}).Draw(rt, "perPeer"),
		fdCap:   rapid.SampledFrom([]int{1, 2, 160}).Draw(rt, "fdCap"),
	}
	sc.workerExit = rapid.SampledFrom([]time.Duration{0, 0, 0, -3, -40, time.Microsecond, time.Millisecond, 50 * time.Millisecond}).Draw(rt, "workerExit")
	np := rapid.IntRange(1, 3).Draw(rt, "npeers")
	for pi := 0; pi < np; pi++ {
		sc.addrs = append(sc.addrs, drawAddrs(rt, pi))
	}
	sc.missing = rapid.SampledFrom([]string{"", "", "", "", "", "tcp", "quic"}).Draw(rt, "missingTransport")
	for _, as := range sc.addrs {
		for _, a := range as {
			ps := a.dialled.Protocols()
			lastCode := -1
			if len(ps) > 0 {
				lastCode = ps[len(ps)-1].Code
			}
			switch {
			case sc.missing == "tcp" && lastCode == ma.P_TCP:
				a.filtered = true
			case sc.missing == "quic" && lastCode == ma.P_QUIC_V1:
				a.filtered = true
			case sc.missing == "tcp" && a.kind == kWSShadow, sc.missing == "quic" && a.kind == kWTShadow:
				a.filtered = false
				if a.kind == kWSShadow {
					a.fd = true
				}
			}
		}
	}
	for r := 0; r < 2; r++ {
		for pi := 0; pi < np; pi++ {
			nc := rapid.IntRange(0, 4).Draw(rt, "ncallers")
			if r == 0 && pi == 0 && nc == 0 {
				nc = 1
			}
			for c := 0; c < nc; c++ {
				cs := callerSpec{peer: pi}
				cs.start = time.Duration(rapid.SampledFrom([]int{0, 0, 5, 40, 300, 1000, 6000}).Draw(rt, "start")) * time.Millisecond
				switch rapid.IntRange(0, 5).Draw(rt, "ctl") {
				case 0:
					cs.cancelAt = cs.start + time.Duration(rapid.SampledFrom([]int{0, 2, 7, 35, 120, 320, 1500, 9000}).Draw(rt, "cancel"))*time.Millisecond + 2500*time.Microsecond
				case 1:
					cs.deadline = time.Duration(rapid.SampledFrom([]int{1, 30, 250, 1000, 8000}).Draw(rt, "deadline"))*time.Millisecond + 2500*time.Microsecond
				case 2:
					if rapid.IntRange(0, 1).Draw(rt, "preEnded?") == 0 {
						cs.preEnded = rapid.SampledFrom([]string{"cancelled", "expired"}).Draw(rt, "preEnded")
					}
				}
				cs.forceDirect = rapid.IntRange(0, 4).Draw(rt, "forceDirect") == 0
				for _, a := range sc.addrs[pi] {
					if a.relay && !cs.forceDirect {
						// callers that can and callers that cannot use a relayed connection share a worker more often
						cs.forceDirect = rapid.IntRange(0, 2).Draw(rt, "forceDirectWithRelay") == 0
						break
					}
				}
				cs.simConnect = rapid.IntRange(0, 7).Draw(rt, "simConnect") == 0
				if rapid.IntRange(0, 5).Draw(rt, "peerTimeout") == 0 {
					cs.peerTimeout = time.Duration(rapid.SampledFrom([]int{100, 3000, 10000}).Draw(rt, "pt")) * time.Millisecond
				}
				sc.callers[r] = append(sc.callers[r], cs)
			}
		}
	}
	for r := 0; r < 2; r++ {
		if rapid.IntRange(0, 2).Draw(rt, "closes?") == 0 {
			n := rapid.IntRange(1, 2).Draw(rt, "ncloses")
			for i := 0; i < n; i++ {
				sc.closes[r] = append(sc.closes[r], closeSpec{
					peer: rapid.IntRange(0, np-1).Draw(rt, "closePeer"),
					at:   time.Duration(rapid.SampledFrom([]int{7, 25, 60, 150, 320, 700, 1200, 2500, 6500}).Draw(rt, "closeAt"))*time.Millisecond + 1250*time.Microsecond,
				})
			}
		}
	}
	sc.gap = time.Duration(rapid.SampledFrom([]int{0, 1, 4, 6, 30, 400}).Draw(rt, "gap")) * time.Second
	sc.closeBetween = rapid.Bool().Draw(rt, "closeBetween")
	return sc
}

// ---------------------------------------------------------------------------

type resolver struct {
	m   map[string][]ma.Multiaddr
	txt map[string][]ma.Multiaddr // dnsaddr name -> TXT entries
}

func (r resolver) ResolveDNSAddr(_ context.Context, _ peer.ID, a ma.Multiaddr, _, _ int) ([]ma.Multiaddr, error) {
	name, _ := ma.SplitLast(a) // the stored form may carry a /p2p suffix of its own
	for _, k := range []string{a.String(), name.String()} {
		if x, ok := r.txt[k]; ok {
			return append([]ma.Multiaddr(nil), x...), nil
		}
	}
	return nil, errors.New("no dnsaddr")
}
func (r resolver) ResolveDNSComponent(_ context.Context, a ma.Multiaddr, _ int) ([]ma.Multiaddr, error) {
	if x, ok := r.m[a.String()]; ok {
		return append([]ma.Multiaddr(nil), x...), nil
	}
	return nil, errors.New("nxdomain")
}

type callResult struct {
	spec       callerSpec
	round      int
	start, end time.Time
	returned   bool
	conn       network.Conn
	err        error
	ctxDone    bool
	connClosed bool
	viaProxy   bool
}

const horizon = 75 * time.Second // > default DialPeerTimeout (60 s) + largest start offset

const kfFDOvershoot = "C05-fd-cap-overshoot"

func peerID(i int) peer.ID { return keys.Ed(40 + i).ID }

func runScenario(t *testing.T, rt *rapid.T, name string, sc *scenario) {
	var (
		labels     = map[string]bool{}
		nontrivial bool
		abstract   []string
	)
	hx.Bubble(t, rt, func() {
		oldPP := swarm.DefaultPerPeerRateLimit
		swarm.DefaultPerPeerRateLimit = sc.perPeer
		os.Setenv("LIBP2P_SWARM_FD_LIMIT", fmt.Sprint(sc.fdCap))
		defer func() { swarm.DefaultPerPeerRateLimit = oldPP; os.Unsetenv("LIBP2P_SWARM_FD_LIMIT") }()
		workerExitDelay.Store(int64(sc.workerExit))
		defer workerExitDelay.Store(0)
		if sc.workerExit != 0 {
			labels["dial-worker-lingers-before-cleaning-up"] = true
		}

		local := keys.Ed(0)
		ps, err := pstoremem.NewPeerstore()
		if err != nil {
			rt.Fatalf("peerstore: %v", err)
		}
		defer ps.Close()
		round := 0
		byDialled := map[string]*addrSpec{}
		res := resolver{m: map[string][]ma.Multiaddr{}, txt: map[string][]ma.Multiaddr{}}
		for pi, as := range sc.addrs {
			for _, a := range as {
				byDialled[string(peerID(pi))+a.dialled.String()] = a
				if a.kind == kDNSAddr {
					e := a.dialled
					if a.p2pSuffix {
						e = e.Encapsulate(ma.StringCast("/p2p/" + peerID(pi).String()))
					}
					if len(res.txt[a.stored.String()]) == 0 {
						res.txt[a.stored.String()] = []ma.Multiaddr{e}
					}
				}
				if a.kind == kDNS {
					dup := false
					for _, x := range res.m[a.stored.String()] {
						dup = dup || x.Equal(a.dialled)
					}
					if !dup {
						res.m[a.stored.String()] = append(res.m[a.stored.String()], a.dialled)
					}
				}
			}
		}
		w := scripted.NewWorld()
		set := scripted.NewSet(w, local.ID, func(addr ma.Multiaddr, p peer.ID, n int) scripted.Script {
			if a, ok := byDialled[string(p)+addr.String()]; ok {
				o := a.script[round]
				return scripted.Script{Outcome: o.O, Delay: o.Delay, Progress: o.Progress, ProgressDelay: o.Delay / 2, IgnoreCancel: o.IgnoreCancel}
			}
			if strings.HasPrefix(addr.String(), "/ip4/9.") { // token-leak probe addresses
				return scripted.Script{Outcome: scripted.Hang}
			}
			return scripted.Script{Outcome: scripted.Fail}
		})
		sw, err := swarm.NewSwarm(local.ID, ps, eventbus.NewBus(),
			swarm.WithUDPBlackHoleSuccessCounter(nil), swarm.WithIPv6BlackHoleSuccessCounter(nil), swarm.WithMultiaddrResolver(res))
		if err != nil {
			rt.Fatalf("swarm: %v", err)
		}
		if sc.missing != "" {
			labels["swarm-without-"+sc.missing+"-transport"] = true
		}
		for _, tr := range set.All() {
			if (sc.missing == "tcp" && tr == set.TCP) || (sc.missing == "quic" && tr == set.QUIC) {
				continue
			}
			var tt interface {
				Protocols() []int
			} = tr
			_ = tt
			if tr.FD { // tcp-like transports report handshake progress
				if err := sw.AddTransport(scripted.Updater{Transport: tr}); err != nil {
					rt.Fatalf("add transport: %v", err)
				}
			} else if err := sw.AddTransport(tr); err != nil {
				rt.Fatalf("add transport: %v", err)
			}
		}
		for pi, as := range sc.addrs {
			for _, a := range as {
				ps.AddAddr(peerID(pi), a.stored, time.Hour)
			}
		}

		var all []*callResult
		roundStart := [2]time.Time{}
		for round = 0; round < 2; round++ {
			if len(sc.callers[round]) == 0 {
				continue
			}
			t0 := time.Now()
			roundStart[round] = t0
			var wg sync.WaitGroup
			var results []*callResult
			for _, cs := range sc.callers[round] {
				cr := &callResult{spec: cs, round: round}
				results = append(results, cr)
				wg.Add(1)
				go func() {
					defer wg.Done()
					time.Sleep(cs.start)
					ctx, cancel := context.WithCancel(context.Background())
					defer cancel()
					if cs.deadline > 0 {
						var c2 context.CancelFunc
						ctx, c2 = context.WithTimeout(ctx, cs.deadline)
						defer c2()
					}
					if cs.cancelAt > 0 {
						tm := time.AfterFunc(cs.cancelAt-cs.start, cancel)
						defer tm.Stop()
					}
					switch cs.preEnded {
					case "cancelled":
						cancel()
					case "expired":
						var c3 context.CancelFunc
						ctx, c3 = context.WithDeadline(ctx, time.Now().Add(-time.Second))
						defer c3()
					}
					if cs.forceDirect {
						ctx = network.WithForceDirectDial(ctx, "test")
					}
					if cs.simConnect {
						ctx = network.WithSimultaneousConnect(ctx, true, "test")
					}
					if cs.peerTimeout > 0 {
						ctx = network.WithDialPeerTimeout(ctx, cs.peerTimeout)
					}
					cr.start = time.Now()
					c, err := sw.DialPeer(ctx, peerID(cs.peer))
					cr.end = time.Now()
					cr.conn, cr.err, cr.ctxDone = c, err, ctx.Err() != nil
					if c != nil {
						cr.connClosed = c.IsClosed()
						if sc, ok := c.(*swarm.Conn); ok {
							_ = sc
						}
					}
					cr.returned = true
				}()
			}
			for _, cl := range sc.closes[round] {
				wg.Add(1)
				go func() {
					defer wg.Done()
					time.Sleep(cl.at)
					sw.ClosePeer(peerID(cl.peer))
				}()
				labels["conn-killed-during-round"] = true
			}
			// O1: everything has returned by the horizon
			time.Sleep(horizon)
			synctest.Wait()
			for i, cr := range results {
				if !cr.returned {
					rt.Fatalf("round %d: caller %d (%+v) has not returned %v after the round started", round, i, cr.spec, horizon)
				}
			}
			wg.Wait()
			all = append(all, results...)
			// handshakes that complete regardless of cancellation get the time they need
			for _, as := range sc.addrs {
				for _, a := range as {
					if a.script[round].IgnoreCancel {
						time.Sleep(21 * time.Second)
						synctest.Wait()
						labels["handshake-completes-despite-cancel"] = true
						break
					}
				}
			}
			// O9: every connection a transport produced was either admitted to the swarm or closed
			admittedLocal := map[string]bool{}
			for _, c := range sw.Conns() {
				admittedLocal[c.LocalMultiaddr().String()] = true
			}
			for _, d := range w.Snapshot() {
				if d.Conn != nil && !d.Conn.IsClosed() && !admittedLocal[d.Conn.LAddr.String()] {
					rt.Fatalf("round %d: the connection produced by the dial of %s (peer %s, finished at %v) is neither in the swarm nor closed although every caller has returned:\n%s",
						round, d.Addr, d.Peer.ShortString(), d.End.Sub(t0), dumpDials(w, t0))
				}
			}
			// O7: no attempt is left running once all callers returned
			if n := w.InFlight(); n != 0 {
				rt.Fatalf("round %d: %d transport dials still running although every caller has returned:\n%s", round, n, dumpDials(w, t0))
			}
			// O10: no dial worker is left once all callers returned (a worker that survives its callers keeps
			// their address bookkeeping and serves later callers from it)
			time.Sleep(200 * time.Millisecond) // a worker told to linger at its exit gets the time
			synctest.Wait()
			if n, where := dialWorkersAlive(); n != 0 {
				rt.Fatalf("round %d: %d dial worker goroutine(s) still alive although every caller has returned:\n%s\n%s", round, n, dumpDials(w, t0), where)
			}
			checkRound(rt, sc, round, results, w, t0, labels, &nontrivial)
			probeTokens(rt, sc, sw, ps, w, round)
			if round == 0 {
				if sc.closeBetween {
					for pi := range sc.addrs {
						sw.ClosePeer(peerID(pi))
					}
					labels["closed-between-rounds"] = true
				}
				time.Sleep(sc.gap)
				synctest.Wait()
			}
		}
		// O7: no per-peer token is left over either: every target peer can again have
		// min(perPeer, fd) concurrent attempts
		for pi := range sc.addrs {
			p := peerID(pi)
			sw.ClosePeer(p)
			synctest.Wait()
			ps.ClearAddrs(p)
			n := 10
			for k := 0; k < n; k++ {
				ps.AddAddr(p, ma.StringCast(fmt.Sprintf("/ip4/9.1.%d.%d/tcp/4001%s", pi, k+1, sc.probeSuffix())), time.Hour)
			}
			ctx, cancel := context.WithCancel(context.Background())
			done := make(chan struct{})
			go func() { defer close(done); sw.DialPeer(ctx, p) }()
			time.Sleep(2 * time.Second)
			synctest.Wait()
			want := min(sc.perPeer, sc.fdCap, n)
			got := w.InFlight()
			cancel()
			<-done
			synctest.Wait()
			if got != want {
				rt.Fatalf("final token probe: %d concurrent attempts to target peer %d with %d fresh hanging TCP addresses, expected min(perPeer=%d, fd=%d) = %d -- a per-peer token leaked or was duplicated\naddrs %s", got, pi, n, sc.perPeer, sc.fdCap, want, describeAddrs(sc))
			}
		}
		sw.Close()
		time.Sleep(200 * time.Millisecond) // workers told to linger at their exit finish inside the bubble
		synctest.Wait()
		for _, cr := range all {
			abstract = append(abstract, fmt.Sprintf("r%d p%d s%v c%v d%v fd%v -> %s", cr.round, cr.spec.peer, cr.spec.start, cr.spec.cancelAt, cr.spec.deadline, cr.spec.forceDirect, outcomeOf(cr)))
		}
	})
	var ls []string
	for l := range labels {
		ls = append(ls, l)
	}
	sort.Strings(ls)
	fp := fmt.Sprintf("%d/%d|%s|%s", sc.perPeer, sc.fdCap, describeAddrs(sc), strings.Join(abstract, ";"))
	stats.Case(name, fp, nontrivial, ls...)
	if stats.WantSample(name) {
		stats.Sample(name, map[string]any{"perPeerCap": sc.perPeer, "fdCap": sc.fdCap, "addrs": describeAddrs(sc), "calls": abstract})
	}
}

func outcomeOf(cr *callResult) string {
	if cr.err == nil {
		return "conn"
	}
	if cr.ctxDone {
		return "ctx"
	}
	return "err"
}

func describeAddrs(sc *scenario) string {
	var b strings.Builder
	for pi, as := range sc.addrs {
		fmt.Fprintf(&b, "p%d[", pi)
		for _, a := range as {
			fmt.Fprintf(&b, "%s:%s/%v,%s/%v ", kindNames[a.kind], a.script[0].O, a.script[0].Delay, a.script[1].O, a.script[1].Delay)
		}
		b.WriteString("] ")
	}
	return b.String()
}

func dumpDials(w *scripted.World, t0 time.Time) string {
	var b strings.Builder
	for _, d := range w.Snapshot() {
		fmt.Fprintf(&b, "  #%d %s %s start=%v end=%v done=%v err=%v\n", d.Seq, d.Peer.ShortString(), d.Addr, d.Start.Sub(t0), d.End.Sub(t0), d.Done, d.Err)
	}
	return b.String()
}

// checkRound applies oracles O2-O6 to one round.
func checkRound(rt *rapid.T, sc *scenario, round int, results []*callResult, w *scripted.World, t0 time.Time, labels map[string]bool, nontrivial *bool) {
	dials := w.Snapshot()
	rawDials := w.Snapshot() // as the transports saw them (a lingering handshake holds its tokens until it returns)
	for i := range dials {
		// a handshake that completed although its attempt had been cancelled is no success for
		// anybody: the swarm has to close that connection (O9), the callers see a cancelled attempt
		if dials[i].Err == nil && dials[i].CtxDone {
			dials[i].Err = context.Canceled
			if !dials[i].CancelAt.IsZero() {
				// how it was cancelled (by the last caller leaving: Canceled; by the per-attempt dial
				// timeout: DeadlineExceeded); the worker learns of it when the transport returns (End),
				// the cancellation itself happened at CancelAt
				dials[i].Err = dials[i].CancelErr
			}
		}
	}
	fail := func(format string, args ...any) {
		rt.Fatalf("round %d: %s\ncaps perPeer=%d fd=%d workerExit=%v missing=%q\naddrs %s\ncallers %s\ndials:\n%s", round, fmt.Sprintf(format, args...), sc.perPeer, sc.fdCap, sc.workerExit, sc.missing,
			describeAddrs(sc), describeCallers(results, t0), dumpDials(w, t0))
	}
	// O5: concurrency caps, measured inside the transport
	for p, m := range w.MaxPerPeer {
		if m > sc.perPeer {
			fail("%d concurrent transport dials to peer %s, per-peer cap %d", m, p.ShortString(), sc.perPeer)
		}
		if m == sc.perPeer && sc.perPeer < 8 {
			*nontrivial = true
			labels["per-peer-cap-binding"] = true
		}
	}
	if w.MaxFD > sc.fdCap {
		if kf.Known(kfFDOvershoot) {
			stats.Excluded("TestDialSchedules")
		} else {
			fail("%d concurrent file-descriptor consuming transport dials, FD cap %d", w.MaxFD, sc.fdCap)
		}
	}
	if w.MaxFD == sc.fdCap && sc.fdCap < 160 {
		*nontrivial = true
		labels["fd-cap-binding"] = true
	}

	for pi := range sc.addrs {
		p := peerID(pi)
		var mine []*callResult
		for _, cr := range results {
			if cr.spec.peer == pi {
				mine = append(mine, cr)
			}
		}
		if len(mine) == 0 {
			continue
		}
		// candidate sets
		cand := func(cr *callResult) map[string]*addrSpec {
			m := map[string]*addrSpec{}
			for _, a := range sc.addrs[pi] {
				if a.filtered || (a.relay && cr.spec.forceDirect) {
					continue
				}
				m[a.dialled.String()] = a
			}
			return m
		}
		// never hand a filtered address to a transport; never dial another peer's address
		known := map[string]*addrSpec{}
		for _, a := range sc.addrs[pi] {
			if !a.filtered {
				known[a.dialled.String()] = a
			}
		}
		var pd []scripted.DialRecord
		for _, d := range dials {
			if d.Peer != p || d.Start.Before(t0) {
				continue
			}
			if strings.HasPrefix(d.Addr.String(), "/ip4/9.") {
				continue
			}
			pd = append(pd, d)
			if _, ok := known[d.Addr.String()]; !ok {
				fail("address %s was handed to a transport for peer %d although it is not a dialable address of that peer", d.Addr, pi)
			}
		}
		// waiting intervals: callers that certainly overlapped (strictly, in both directions) share a
		// worker; callers that merely touch at one virtual instant may or may not have
		type iv struct{ s, e time.Time }
		sort.Slice(mine, func(i, j int) bool { return mine[i].start.Before(mine[j].start) })
		parent := make([]int, len(mine))
		for i := range parent {
			parent[i] = i
		}
		var find func(int) int
		find = func(x int) int {
			if parent[x] != x {
				parent[x] = find(parent[x])
			}
			return parent[x]
		}
		for i := range mine {
			for j := i + 1; j < len(mine); j++ {
				if mine[i].start.Before(mine[j].end) && mine[j].start.Before(mine[i].end) {
					parent[find(i)] = find(j)
					*nontrivial = true
					labels["callers-overlap"] = true
				}
			}
		}
		comp := map[int]*iv{}
		for i, cr := range mine {
			r := find(i)
			if v, ok := comp[r]; !ok {
				comp[r] = &iv{cr.start, cr.end}
			} else {
				if cr.start.Before(v.s) {
					v.s = cr.start
				}
				if cr.end.After(v.e) {
					v.e = cr.end
				}
			}
		}
		var ivs []iv
		for _, v := range comp {
			ivs = append(ivs, *v)
		}
		sort.Slice(ivs, func(i, j int) bool {
			if !ivs[i].e.Equal(ivs[j].e) {
				return ivs[i].e.Before(ivs[j].e)
			}
			return ivs[i].s.Before(ivs[j].s)
		})
		// loose intervals (touching callers merged too): used where merging is the permissive direction
		var loose []iv
		for _, cr := range mine {
			if n := len(loose); n > 0 && !cr.start.After(loose[n-1].e) {
				if cr.end.After(loose[n-1].e) {
					loose[n-1].e = cr.end
				}
				continue
			}
			loose = append(loose, iv{cr.start, cr.end})
		}
		// O3: at most one transport dial per address within one waiting interval: the dials of an
		// address must be assignable to distinct waiting intervals containing their start (greedy
		// matching, intervals sorted by end)
		byAddr := map[string][]scripted.DialRecord{}
		for _, d := range pd {
			byAddr[d.Addr.String()] = append(byAddr[d.Addr.String()], d)
		}
		for a, ds := range byAddr {
			sort.Slice(ds, func(i, j int) bool { return ds[i].Start.Before(ds[j].Start) })
			used := make([]bool, len(ivs))
			for _, d := range ds {
				ok := false
				for k, v := range ivs {
					if !used[k] && !d.Start.Before(v.s) && !d.Start.After(v.e) {
						used[k], ok = true, true
						break
					}
				}
				if !ok {
					fail("address %s of peer %d was handed to a transport %d times, more often than once per interval in which callers were waiting (intervals %v)", a, pi, len(ds), fmtIvs(ivs, t0))
				}
			}
		}
		// a transport dial outside every waiting interval means an attempt outlived its callers
		for _, d := range pd {
			inside := false
			for _, v := range ivs {
				if !d.Start.Before(v.s) && !d.Start.After(v.e) {
					inside = true
				}
			}
			if !inside {
				fail("transport dial of %s for peer %d started at %v while no caller was waiting", d.Addr, pi, d.Start.Sub(t0))
			}
		}
		for ci, cr := range mine {
			cs := cand(cr)
			// O6 (others keep the shared attempts and obtain their result): while this caller is
			// strictly waiting, a successful attempt on one of its candidates releases it at once
			// with the connection, and no attempt on its candidates is cancelled.
			for _, d := range pd {
				if _, ok := cs[d.Addr.String()]; !ok || !d.Done {
					continue
				}
				if d.Err == nil && d.End.After(cr.start) && d.End.Before(cr.end) {
					fail("caller %d kept waiting until %v although the attempt on its candidate %s succeeded at %v", ci, cr.end.Sub(t0), d.Addr, d.End.Sub(t0))
				}
				cancelled := d.End // the instant the attempt's context was cancelled
				if !d.CancelAt.IsZero() {
					cancelled = d.CancelAt
				}
				if errors.Is(d.Err, context.Canceled) && cancelled.After(cr.start) && cancelled.Before(cr.end) {
					fail("the shared attempt on %s was cancelled at %v while caller %d, which had it as a candidate, was still waiting (until %v)", d.Addr, cancelled.Sub(t0), ci, cr.end.Sub(t0))
				}
			}
			// a caller that gave up (own context or dial timeout) must not have been kept waiting after
			// every one of its candidates had been attempted and had failed
			if cr.err != nil && len(cs) > 0 {
				var de0 *swarm.DialError
				if !errors.As(cr.err, &de0) {
					lastFail, all := time.Time{}, true
					for as := range cs {
						found := false
						for _, d := range pd {
							if d.Addr.String() == as && d.Done && d.Err != nil && !errors.Is(d.Err, context.Canceled) && d.Start.After(cr.start) && d.End.Before(cr.end) {
								found = true
								if d.End.After(lastFail) {
									lastFail = d.End
								}
							}
						}
						if !found {
							all = false
						}
					}
					if all {
						fail("caller %d was kept waiting until %v (%v) although every one of its candidates had been attempted after it started and had failed by %v", ci, cr.end.Sub(t0), cr.err, lastFail.Sub(t0))
					}
				}
			}
			if cr.err == nil {
				// O2 success: usable connection to that very peer
				if cr.conn == nil {
					fail("caller %d: nil connection and nil error", ci)
				}
				if cr.conn.RemotePeer() != p {
					fail("caller %d dialled peer %d but got a connection to %s", ci, pi, cr.conn.RemotePeer())
				}
				if cr.connClosed {
					fail("caller %d got a connection that was already closed when the call returned", ci)
				}
				if cr.spec.forceDirect {
					if _, err := cr.conn.RemoteMultiaddr().ValueForProtocol(ma.P_CIRCUIT); err == nil {
						fail("caller %d demanded a direct connection and got the relayed one %s", ci, cr.conn.RemoteMultiaddr())
					}
				}
				continue
			}
			if cr.conn != nil {
				fail("caller %d got both a connection and an error", ci)
			}
			pt := cr.spec.peerTimeout
			if pt == 0 {
				pt = network.DialPeerTimeout
			}
			// O8 (no starvation): a caller that ran into its own deadline or the dial timeout was not
			// left sitting with nothing in flight while one of its candidates had never been handed to
			// a transport. Judged only where nothing else can explain the silence: the caller waited
			// at least 3 s (every ranking delay is long over), during its last 2 s no dial to the peer
			// and no FD-consuming dial to anybody was in flight (so no cap was binding), and the
			// candidate has not failed anywhere in the case (so it cannot be in back-off).
			starved := func() {
				if cr.end.Sub(cr.start) < 3*time.Second || (cr.spec.cancelAt > 0 && !t0.Add(cr.spec.cancelAt).After(cr.end)) {
					return
				}
				from := cr.end.Add(-2 * time.Second)
				for _, d := range rawDials {
					inWindow := d.Start.Before(cr.end) && (!d.Done || d.End.After(from))
					if inWindow && (d.Peer == p || !strings.Contains(d.Addr.String(), "/udp/")) {
						return
					}
				}
				for as, a := range cs {
					touched := false
					for _, d := range dials {
						if d.Peer == p && d.Addr.String() == as && (d.Start.After(cr.start) || d.Start.Equal(cr.start) || !d.Done || d.End.After(cr.start) || d.Err != nil) {
							touched = true
						}
					}
					if !touched {
						fail("caller %d waited from %v to %v (%v) and during its last 2 s nothing was in flight, yet its candidate %s (%s) was never handed to a transport", ci, cr.start.Sub(t0), cr.end.Sub(t0), cr.err, as, kindNames[a.kind])
					}
				}
			}
			if cr.ctxDone {
				starved()
				// O6: a cancelled caller is released promptly (the same virtual instant)
				want := time.Time{}
				if cr.spec.cancelAt > 0 {
					want = t0.Add(cr.spec.cancelAt)
				}
				if cr.spec.preEnded != "" {
					want = cr.start
					labels["caller-ctx-over-before-the-call"] = true
				}
				if cr.spec.deadline > 0 {
					if d := cr.start.Add(cr.spec.deadline); want.IsZero() || d.Before(want) {
						want = d
					}
				}
				if !want.IsZero() && cr.end.After(want) {
					fail("caller %d's context ended at %v but the call returned only at %v", ci, want.Sub(t0), cr.end.Sub(t0))
				}
				labels["caller-ctx-ended"] = true
				for _, d := range pd {
					if d.Start.Before(cr.end) && (!d.Done || d.End.After(cr.end)) {
						*nontrivial = true
						labels["cancel-with-attempts-in-flight"] = true
					}
				}
				continue
			}
			if !cr.end.Before(cr.start.Add(pt)) {
				labels["dial-peer-timeout"] = true
				starved()
				continue // the dial timeout ended
			}
			// O2/O4 error: every candidate must have failed, been refused or be in back-off by now
			var de *swarm.DialError
			if !errors.As(cr.err, &de) {
				fail("caller %d: error is not a *DialError and no context ended: %v", ci, cr.err)
			}
			causes := map[string]error{}
			for _, te := range de.DialErrors {
				causes[te.Address.String()] = te.Cause
			}
			if len(cs) == 0 {
				labels["no-dialable-address"] = true
				continue
			}
			for as, a := range cs {
				// a completed, failed transport dial inside this caller's waiting interval
				var v iv
				for _, x := range loose {
					if !cr.start.Before(x.s) && !cr.start.After(x.e) {
						v = x
					}
				}
				// refused for back-off (left by an earlier failed dial): counts as refused, whatever other
				// callers (force-direct ones ignore back-off) do with the address afterwards
				if errors.Is(causes[as], swarm.ErrDialBackoff) {
					// the k-th consecutive failure of an address backs it off for BackoffBase (k = 1) or
					// BackoffBase + BackoffCoef*(k-1)^2; k is at most the number of failures so far. The
					// refusal happened at or after the caller's start, so a back-off that had run out
					// before that cannot explain it.
					earlier := false
					for _, d := range dials {
						if d.Peer != p || d.Addr.String() != as || !d.Done || d.Err == nil || d.End.After(cr.end) {
							continue
						}
						k := 0
						for _, e := range dials {
							if e.Peer == p && e.Addr.String() == as && e.Done && e.Err != nil && !e.End.After(d.End) {
								k++
							}
						}
						dur := swarm.BackoffBase
						if k > 1 {
							dur = min(swarm.BackoffBase+swarm.BackoffCoef*time.Duration((k-1)*(k-1)), swarm.BackoffMax)
						}
						if d.End.Add(dur).After(cr.start) {
							earlier = true
						}
					}
					if !earlier {
						fail("caller %d (started at %v): candidate %s reported as in back-off, but no failed dial of it left a back-off that was still running when the caller started", ci, cr.start.Sub(t0), as)
					}
					labels["backoff-skip"] = true
					continue
				}
				// the connection obtained from this address died afterwards (killed by the schedule):
				// the address counts as failed -- it is not dialled a second time
				if errors.Is(causes[as], swarm.ErrConnClosed) {
					excused := false
					for _, d := range pd {
						if d.Addr.String() != as || !d.Done || d.Err != nil || d.End.After(cr.end) {
							continue
						}
						for _, cl := range sc.closes[round] {
							if k := t0.Add(cl.at); cl.peer == pi && !k.Before(d.End) && !k.After(cr.end) {
								excused = true
							}
						}
					}
					if !excused {
						fail("caller %d: candidate %s reported as 'connection closed' but no connection obtained from it was killed before the caller returned", ci, as)
					}
					labels["conn-died-address-counts-as-failed"] = true
					continue
				}
				attempted := false
				for _, d := range pd {
					if d.Addr.String() == as && !d.Start.Before(v.s) && d.Done && !d.End.After(cr.end) {
						if d.Err == nil {
							fail("caller %d returned an error (%v) although the dial of its candidate %s succeeded at %v, before it returned at %v", ci, cr.err, as, d.End.Sub(t0), cr.end.Sub(t0))
						}
						attempted = true
					}
				}
				if attempted {
					continue
				}
				pending := false
				for _, d := range pd {
					if d.Addr.String() == as && !d.Start.Before(v.s) && (!d.Done || d.End.After(cr.end)) && d.Start.Before(cr.end) {
						pending = true
					}
				}
				if pending {
					fail("caller %d returned an error (%v) at %v while the attempt on its candidate %s (%s) was still pending", ci, cr.err, cr.end.Sub(t0), as, kindNames[a.kind])
				}
				fail("caller %d returned an error (%v) at %v although its candidate %s (%s) was never attempted (cause reported: %v)", ci, cr.err, cr.end.Sub(t0), as, kindNames[a.kind], causes[as])
			}
		}
	}
}

func fmtIvs[T any](ivs []T, t0 time.Time) string { return fmt.Sprintf("%d", len(ivs)) }

func describeCallers(results []*callResult, t0 time.Time) string {
	var b strings.Builder
	for i, cr := range results {
		fmt.Fprintf(&b, "\n  #%d p%d start=%v cancelAt=%v deadline=%v forceDirect=%v sim=%v peerTimeout=%v -> [%v..%v] %s err=%v", i, cr.spec.peer, cr.spec.start, cr.spec.cancelAt,
			cr.spec.deadline, cr.spec.forceDirect, cr.spec.simConnect, cr.spec.peerTimeout, cr.start.Sub(t0), cr.end.Sub(t0), outcomeOf(cr), cr.err)
	}
	return b.String()
}

// probeTokens checks behaviourally that no limiter token is left over: a fresh peer with
// more hanging TCP addresses than the caps allow must get exactly min(perPeer, fdCap)
// concurrent attempts.
func probeTokens(rt *rapid.T, sc *scenario, sw *swarm.Swarm, ps interface {
	AddAddr(peer.ID, ma.Multiaddr, time.Duration)
}, w *scripted.World, round int) {
	probe := keys.Ed(60 + round).ID
	n := 10
	for k := 0; k < n; k++ {
		ps.AddAddr(probe, ma.StringCast(fmt.Sprintf("/ip4/9.0.%d.%d/tcp/4001%s", round, k+1, sc.probeSuffix())), time.Hour)
	}
	ctx, cancel := context.WithCancel(context.Background())
	done := make(chan struct{})
	go func() { defer close(done); sw.DialPeer(ctx, probe) }()
	time.Sleep(2 * time.Second)
	synctest.Wait()
	want := min(sc.perPeer, sc.fdCap, n)
	if got := w.InFlight(); got != want {
		cancel()
		<-done
		rt.Fatalf("round %d: token probe: %d concurrent attempts to a fresh peer with %d hanging TCP addresses, expected min(perPeer=%d, fd=%d) = %d -- a token leaked or was duplicated", round, got, n, sc.perPeer, sc.fdCap, want)
	}
	cancel()
	<-done
	synctest.Wait()
	if got := w.InFlight(); got != 0 {
		rt.Fatalf("round %d: token probe: %d attempts still running after the only caller was cancelled", round, got)
	}
}

func TestDialSchedules(t *testing.T) {
	name := t.Name()
	hx.Check(t, 40000, 3000000, 0, func(rt *rapid.T) {
		sc := drawScenario(rt)
		runScenario(t, rt, name, sc)
	})
}

// TestRankerPermutation: the exported rankers return every input address exactly once
// with a non-negative delay.
func TestRankerPermutation(t *testing.T) {
	name := t.Name()
	hx.Check(t, 3000, 600000, 0, func(rt *rapid.T) {
		as := drawAddrs(rt, rapid.IntRange(0, 2).Draw(rt, "pi"))
		var in []ma.Multiaddr
		seen := map[string]bool{}
		for _, a := range as {
			if a.filtered || seen[a.dialled.String()] {
				continue
			}
			seen[a.dialled.String()] = true
			in = append(in, a.dialled)
		}
		for rname, r := range map[string]network.DialRanker{"default": swarm.DefaultDialRanker, "nodelay": swarm.NoDelayDialRanker} {
			cp := append([]ma.Multiaddr(nil), in...)
			out := r(cp)
			got := map[string]int{}
			for _, ad := range out {
				got[ad.Addr.String()]++
				if ad.Delay < 0 {
					rt.Fatalf("%s ranker: negative delay %v for %s", rname, ad.Delay, ad.Addr)
				}
			}
			if len(out) != len(in) {
				rt.Fatalf("%s ranker returned %d addresses for %d inputs: in=%v out=%v", rname, len(out), len(in), in, out)
			}
			for _, a := range in {
				if got[a.String()] != 1 {
					rt.Fatalf("%s ranker: address %s appears %d times in the output", rname, a, got[a.String()])
				}
			}
		}
		var ks []string
		for _, a := range in {
			ks = append(ks, a.String())
		}
		stats.Case(name, strings.Join(ks, ","), len(in) >= 2)
		if stats.WantSample(name) {
			stats.Sample(name, ks)
		}
	})
}

// dialWorkersAlive counts the goroutines running a swarm dial worker loop (from the goroutine dump:
// there is no API for it; one test runs at a time in the process).
func dialWorkersAlive() (int, string) {
	buf := make([]byte, 1<<20)
	for {
		n := runtime.Stack(buf, true)
		if n < len(buf) {
			buf = buf[:n]
			break
		}
		buf = make([]byte, 2*len(buf))
	}
	n, where := 0, ""
	for _, g := range strings.Split(string(buf), "\n\n") {
		if strings.Contains(g, "swarm.(*dialWorker).loop(") {
			n++
			where += g + "\n\n"
		}
	}
	return n, where
}
