package c05

import (
	"context"
	"fmt"
	"os"
	"testing"
	"testing/synctest"
	"time"

	"github.com/libp2p/go-libp2p/core/network"
	"github.com/libp2p/go-libp2p/core/peer"
	"github.com/libp2p/go-libp2p/p2p/host/eventbus"
	"github.com/libp2p/go-libp2p/p2p/host/peerstore/pstoremem"
	"github.com/libp2p/go-libp2p/p2p/net/swarm"
	ma "github.com/multiformats/go-multiaddr"

	"verif/internal/hx"
	"verif/internal/keys"
	"verif/internal/kf"
	"verif/internal/scripted"
)

// FD cap 1, per-peer cap 1. A holds the FD token; B's first caller queues a job for the
// token and is cancelled (the job stays in the queue as a zombie holding B's peer token);
// C queues behind it; B's second caller waits for B's peer token. When A finishes, the
// zombie's peer token starts B's new job with the freed FD token and the loop used to
// start C's job as well: two FD-consuming dials under a cap of 1. Repaired in /repo.
func TestWitness_FDCapOvershoot(t *testing.T) {
	hx.Shard0(t)
	kf.Witness(t, kfFDOvershoot, func() (violated bool, detail string) {
		synctest.Test(t, func(*testing.T) {
			old := swarm.DefaultPerPeerRateLimit
			swarm.DefaultPerPeerRateLimit = 1
			os.Setenv("LIBP2P_SWARM_FD_LIMIT", "1")
			defer func() { swarm.DefaultPerPeerRateLimit = old; os.Unsetenv("LIBP2P_SWARM_FD_LIMIT") }()
			local := keys.Ed(0)
			ps, _ := pstoremem.NewPeerstore()
			defer ps.Close()
			A, B, C := keys.Ed(41).ID, keys.Ed(42).ID, keys.Ed(43).ID
			w := scripted.NewWorld()
			set := scripted.NewSet(w, local.ID, func(_ ma.Multiaddr, p peer.ID, _ int) scripted.Script {
				if p == A {
					return scripted.Script{Outcome: scripted.Fail, Delay: 100 * time.Millisecond}
				}
				return scripted.Script{Outcome: scripted.Hang}
			})
			sw, err := swarm.NewSwarm(local.ID, ps, eventbus.NewBus(), swarm.WithUDPBlackHoleSuccessCounter(nil), swarm.WithIPv6BlackHoleSuccessCounter(nil))
			if err != nil {
				t.Fatal(err)
			}
			defer sw.Close()
			sw.AddTransport(set.TCP)
			for i, p := range []peer.ID{A, B, C} {
				ps.AddAddr(p, ma.StringCast(fmt.Sprintf("/ip4/192.168.7.%d/tcp/4001", i+1)), time.Hour)
			}
			ctx, cancelAll := context.WithCancel(context.Background())
			defer cancelAll()
			dial := func(c context.Context, p peer.ID) { go sw.DialPeer(c, p) }
			dial(ctx, A)
			time.Sleep(10 * time.Millisecond)
			b1, cancelB1 := context.WithCancel(ctx)
			dial(b1, B)
			time.Sleep(10 * time.Millisecond)
			dial(ctx, C)
			time.Sleep(10 * time.Millisecond)
			cancelB1()
			time.Sleep(10 * time.Millisecond)
			dial(ctx, B)
			time.Sleep(time.Second)
			synctest.Wait()
			if w.MaxFD > 1 {
				violated, detail = true, fmt.Sprintf("%d file-descriptor consuming dials ran concurrently under LIBP2P_SWARM_FD_LIMIT=1", w.MaxFD)
			}
			cancelAll()
			time.Sleep(time.Second)
			synctest.Wait()
		})
		return
	})
}

// A force-direct caller keeps the dial worker alive while an ordinary caller obtains a
// relayed connection; that connection dies; the next ordinary caller joins the same worker
// and used to be handed the dead connection it still tracked for the relay address.
func TestWitness_StaleClosedConnFromWorker(t *testing.T) {
	hx.Shard0(t)
	kf.Witness(t, "C05-worker-returns-closed-conn", func() (violated bool, detail string) {
		synctest.Test(t, func(*testing.T) {
			local := keys.Ed(0)
			ps, _ := pstoremem.NewPeerstore()
			defer ps.Close()
			P := keys.Ed(41).ID
			relayAddr := ma.StringCast("/ip4/2.0.0.2/tcp/4001/p2p/" + relayID.String() + "/p2p-circuit")
			tcpAddr := ma.StringCast("/ip4/1.0.0.3/tcp/4001")
			w := scripted.NewWorld()
			set := scripted.NewSet(w, local.ID, func(a ma.Multiaddr, _ peer.ID, _ int) scripted.Script {
				if a.Equal(relayAddr) {
					return scripted.Script{Outcome: scripted.Succeed, Delay: 300 * time.Millisecond}
				}
				return scripted.Script{Outcome: scripted.Hang}
			})
			sw, err := swarm.NewSwarm(local.ID, ps, eventbus.NewBus(), swarm.WithUDPBlackHoleSuccessCounter(nil), swarm.WithIPv6BlackHoleSuccessCounter(nil))
			if err != nil {
				t.Fatal(err)
			}
			defer sw.Close()
			sw.AddTransport(set.TCP)
			sw.AddTransport(set.Circuit)
			ps.AddAddrs(P, []ma.Multiaddr{relayAddr, tcpAddr}, time.Hour)
			go sw.DialPeer(network.WithForceDirectDial(context.Background(), "w"), P) // waits for the hanging TCP dial (15 s)
			time.Sleep(40 * time.Millisecond)
			c1, err := sw.DialPeer(context.Background(), P)
			if err != nil || c1 == nil {
				violated, detail = true, fmt.Sprintf("ordinary caller did not get the relayed connection: %v", err)
				return
			}
			time.Sleep(time.Second)
			sw.ClosePeer(P)
			time.Sleep(4 * time.Second)
			synctest.Wait()
			ctx, cancel := context.WithTimeout(context.Background(), 30*time.Second)
			defer cancel()
			c2, err := sw.DialPeer(ctx, P)
			if err == nil && c2 != nil && c2.IsClosed() {
				violated, detail = true, "DialPeer returned a connection that was already closed (the dial worker's stale entry for the relay address)"
			}
			time.Sleep(20 * time.Second)
			synctest.Wait()
		})
		return
	})
}

// Per-peer cap 1, a peer with two addresses: the first fails after a second, the second would
// succeed. Caller X gives up after 1 ms; its dial worker notices, and before it has cleaned up
// after itself (schedule point dialWorker:exiting, here 50 ms) caller Y arrives: a new worker
// dials the first address and queues the second behind the per-peer cap. The old worker's
// clean-up (clearAllPeerDials) used to drop every queued dial of that PEER, the new worker's
// too: the second address was never dialled and Y waited for the one-minute dial timeout.
// Repaired in /repo (only cancelled jobs are dropped).
func TestWitness_DyingWorkerDropsSuccessorsQueue(t *testing.T) {
	hx.Shard0(t)
	kf.Witness(t, "C05-dying-worker-drops-successors-queue", func() (violated bool, detail string) {
		synctest.Test(t, func(*testing.T) {
			old := swarm.DefaultPerPeerRateLimit
			swarm.DefaultPerPeerRateLimit = 1
			workerExitDelay.Store(int64(50 * time.Millisecond))
			defer func() { swarm.DefaultPerPeerRateLimit = old; workerExitDelay.Store(0) }()
			local := keys.Ed(0)
			ps, _ := pstoremem.NewPeerstore()
			defer ps.Close()
			P := keys.Ed(41).ID
			first, second := ma.StringCast("/ip4/192.168.7.1/tcp/4001"), ma.StringCast("/ip4/192.168.7.2/tcp/4001")
			w := scripted.NewWorld()
			set := scripted.NewSet(w, local.ID, func(a ma.Multiaddr, _ peer.ID, _ int) scripted.Script {
				if a.Equal(second) {
					return scripted.Script{Outcome: scripted.Succeed, Delay: 10 * time.Millisecond}
				}
				return scripted.Script{Outcome: scripted.Fail, Delay: time.Second}
			})
			sw, err := swarm.NewSwarm(local.ID, ps, eventbus.NewBus(), swarm.WithUDPBlackHoleSuccessCounter(nil), swarm.WithIPv6BlackHoleSuccessCounter(nil))
			if err != nil {
				t.Fatal(err)
			}
			defer func() { sw.Close(); time.Sleep(time.Second); synctest.Wait() }()
			sw.AddTransport(set.TCP)
			ps.AddAddrs(P, []ma.Multiaddr{first, second}, time.Hour)
			x, cancelX := context.WithTimeout(context.Background(), time.Millisecond)
			defer cancelX()
			sw.DialPeer(x, P)
			time.Sleep(time.Millisecond)
			start := time.Now()
			c, err := sw.DialPeer(context.Background(), P)
			tried := 0
			for _, d := range w.Snapshot() {
				if d.Addr.Equal(second) {
					tried++
				}
			}
			if err != nil || c == nil || tried == 0 {
				violated, detail = true, fmt.Sprintf("caller Y, arriving 1 ms after caller X gave up, waited %v and got (%v, %v); the peer's second address was handed to a transport %d times (a dial of it would have succeeded)",
					time.Since(start), c, err, tried)
			}
		})
		return
	})
}
