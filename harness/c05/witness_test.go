package c05

import (
	"context"
	"fmt"
	"os"
	"testing"
	"testing/synctest"
	"time"

	"github.com/libp2p/go-libp2p/core/network"
	"github.com/libp2p/go-libp2p/core/peer"
	"github.com/libp2p/go-libp2p/p2p/host/eventbus"
	"github.com/libp2p/go-libp2p/p2p/host/peerstore/pstoremem"
	"github.com/libp2p/go-libp2p/p2p/net/swarm"
	ma "github.com/multiformats/go-multiaddr"

	"verif/internal/hx"
	"verif/internal/keys"
	"verif/internal/kf"
	"verif/internal/scripted"
)

// FD cap 1, per-peer cap 1. A holds the FD token; B's first caller queues a job for the
// token and is cancelled (the job stays in the queue as a zombie holding B's peer token);
// C queues behind it; B's second caller waits for B's peer token. When A finishes, the
// zombie's peer token starts B's new job with the freed FD token and the loop used to
// start C's job as well: two FD-consuming dials under a cap of 1. Repaired in /repo.
func TestWitness_FDCapOvershoot(t *testing.T) {
	hx.Shard0(t)
	kf.Witness(t, kfFDOvershoot, func() (violated bool, detail string) {
		synctest.Test(t, func(*testing.T) {
			old := swarm.DefaultPerPeerRateLimit
			swarm.DefaultPerPeerRateLimit = 1
			os.Setenv("LIBP2P_SWARM_FD_LIMIT", "1")
			defer func() { swarm.DefaultPerPeerRateLimit = old; os.Unsetenv("LIBP2P_SWARM_FD_LIMIT") }()
			local := keys.Ed(0)
			ps, _ := pstoremem.NewPeerstore()
			defer ps.Close()
			A, B, C := keys.Ed(41).ID, keys.Ed(42).ID, keys.Ed(43).ID
			w := scripted.NewWorld()
			set := scripted.NewSet(w, local.ID, func(_ ma.Multiaddr, p peer.ID, _ int) scripted.Script {
				if p == A {
					return scripted.Script{Outcome: scripted.Fail, Delay: 100 * time.Millisecond}
				}
				return scripted.Script{Outcome: scripted.Hang}
			})
			sw, err := swarm.NewSwarm(local.ID, ps, eventbus.NewBus(), swarm.WithUDPBlackHoleSuccessCounter(nil), swarm.WithIPv6BlackHoleSuccessCounter(nil))
			if err != nil {
				t.Fatal(err)
			}
			defer sw.Close()
			sw.AddTransport(set.TCP)
			for i, p := range []peer.ID{A, B, C} {
				ps.AddAddr(p, ma.StringCast(fmt.Sprintf("/ip4/192.168.7.%d/tcp/4001", i+1)), time.Hour)
			}
			ctx, cancelAll := context.WithCancel(context.Background())
			defer cancelAll()
			dial := func(c context.Context, p peer.ID) { go sw.DialPeer(c, p) }
			dial(ctx, A)
			time.Sleep(10 * time.Millisecond)
			b1, cancelB1 := context.WithCancel(ctx)
			dial(b1, B)
			time.Sleep(10 * time.Millisecond)
			dial(ctx, C)
			time.Sleep(10 * time.Millisecond)
			cancelB1()
			time.Sleep(10 * time.Millisecond)
			dial(ctx, B)
			time.Sleep(time.Second)
			synctest.Wait()
			if w.MaxFD > 1 {
				violated, detail = true, fmt.Sprintf("%d file-descriptor consuming dials ran concurrently under LIBP2P_SWARM_FD_LIMIT=1", w.MaxFD)
			}
			cancelAll()
			time.Sleep(time.Second)
			synctest.Wait()
		})
		return
	})
}

// A force-direct caller keeps the dial worker alive while an ordinary caller obtains a
// relayed connection; that connection dies; the next ordinary caller joins the same worker
// and used to be handed the dead connection it still tracked for the relay address.
func TestWitness_StaleClosedConnFromWorker(t *testing.T) {
	hx.Shard0(t)
	kf.Witness(t, "C05-worker-returns-closed-conn", func() (violated bool, detail string) {
		synctest.Test(t, func(*testing.T) {
			local := keys.Ed(0)
			ps, _ := pstoremem.NewPeerstore()
			defer ps.Close()
			P := keys.Ed(41).ID
			relayAddr := ma.StringCast("/ip4/2.0.0.2/tcp/4001/p2p/" + relayID.String() + "/p2p-circuit")
			tcpAddr := ma.StringCast("/ip4/1.0.0.3/tcp/4001")
			w := scripted.NewWorld()
			set := scripted.NewSet(w, local.ID, func(a ma.Multiaddr, _ peer.ID, _ int) scripted.Script {
				if a.Equal(relayAddr) {
					return scripted.Script{Outcome: scripted.Succeed, Delay: 300 * time.Millisecond}
				}
				return scripted.Script{Outcome: scripted.Hang}
			})
			sw, err := swarm.NewSwarm(local.ID, ps, eventbus.NewBus(), swarm.WithUDPBlackHoleSuccessCounter(nil), swarm.WithIPv6BlackHoleSuccessCounter(nil))
			if err != nil {
				t.Fatal(err)
			}
			defer sw.Close()
			sw.AddTransport(set.TCP)
			sw.AddTransport(set.Circuit)
			ps.AddAddrs(P, []ma.Multiaddr{relayAddr, tcpAddr}, time.Hour)
			go sw.DialPeer(network.WithForceDirectDial(context.Background(), "w"), P) // waits for the hanging TCP dial (15 s)
			time.Sleep(40 * time.Millisecond)
			c1, err := sw.DialPeer(context.Background(), P)
			if err != nil || c1 == nil {
				violated, detail = true, fmt.Sprintf("ordinary caller did not get the relayed connection: %v", err)
				return
			}
			time.Sleep(time.Second)
			sw.ClosePeer(P)
			time.Sleep(4 * time.Second)
			synctest.Wait()
			ctx, cancel := context.WithTimeout(context.Background(), 30*time.Second)
			defer cancel()
			c2, err := sw.DialPeer(ctx, P)
			if err == nil && c2 != nil && c2.IsClosed() {
				violated, detail = true, "DialPeer returned a connection that was already closed (the dial worker's stale entry for the relay address)"
			}
			time.Sleep(20 * time.Second)
			synctest.Wait()
		})
		return
	})
}
