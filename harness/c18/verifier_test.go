package c18

import (
	"crypto"
	"crypto/ecdsa"
	"crypto/ed25519"
	"crypto/elliptic"
	"crypto/rand"
	"crypto/rsa"
	"crypto/sha256"
	"crypto/sha3"
	"crypto/sha512"
	"crypto/tls"
	"crypto/x509"
	"crypto/x509/pkix"
	"fmt"
	"math/big"
	"net"
	"strings"
	"sync"
	"testing"
	"testing/synctest"
	"time"

	"filippo.io/keygen"
	ic "github.com/libp2p/go-libp2p/core/crypto"
	wt "github.com/libp2p/go-libp2p/p2p/transport/webtransport"
	"github.com/multiformats/go-multihash"
	"pgregory.net/rapid"

	"verif/internal/hx"
	"verif/internal/keys"
	"verif/internal/kf"
	"verif/internal/stats"
)

// ---------------------------------------------------------------------------
// harness-made certificates

type signerPool struct {
	once    sync.Once
	p256    *ecdsa.PrivateKey
	p384    *ecdsa.PrivateKey
	ed      ed25519.PrivateKey
	rsa     *rsa.PrivateKey
	caEC    *x509.Certificate // ECDSA CA (self-signed, 10 years around 2000..2060)
	caRSA   *x509.Certificate
	caECKey *ecdsa.PrivateKey
}

var pool signerPool

func (p *signerPool) init() {
	p.once.Do(func() {
		var err error
		b := make([]byte, 64)
		keys.Reader("c18/verifier/p256").Read(b)
		if p.p256, err = keygen.ECDSA(elliptic.P256(), b[:32]); err != nil {
			panic(err)
		}
		keys.Reader("c18/verifier/p384").Read(b)
		if p.p384, err = keygen.ECDSA(elliptic.P384(), b[:48]); err != nil {
			panic(err)
		}
		keys.Reader("c18/verifier/ca").Read(b)
		if p.caECKey, err = keygen.ECDSA(elliptic.P256(), b[:32]); err != nil {
			panic(err)
		}
		keys.Reader("c18/verifier/ed").Read(b)
		p.ed = ed25519.NewKeyFromSeed(b[:32])
		std, err := ic.PrivKeyToStdKey(keys.Get("rsa", 0).Priv)
		if err != nil {
			panic(err)
		}
		p.rsa = std.(*rsa.PrivateKey)
		ca := func(pub crypto.PublicKey, priv crypto.Signer) *x509.Certificate {
			tmpl := &x509.Certificate{SerialNumber: big.NewInt(1), Subject: pkix.Name{CommonName: "ca"},
				NotBefore: time.Date(1999, 1, 1, 0, 0, 0, 0, time.UTC), NotAfter: time.Date(2099, 1, 1, 0, 0, 0, 0, time.UTC),
				IsCA: true, BasicConstraintsValid: true, KeyUsage: x509.KeyUsageCertSign}
			der, err := x509.CreateCertificate(rand.Reader, tmpl, tmpl, pub, priv)
			if err != nil {
				panic(err)
			}
			c, err := x509.ParseCertificate(der)
			if err != nil {
				panic(err)
			}
			return c
		}
		p.caEC = ca(p.caECKey.Public(), p.caECKey)
		p.caRSA = ca(p.rsa.Public(), p.rsa)
	})
}

// signer kinds. "mgr" = the package's own generator (VerifGenerateCert) with arbitrary
// start/end; the rest are made here.
var signerKinds = []string{
	"mgr", "mgr", "ecdsa-p256", "ecdsa-p256", "ecdsa-p384", "ed25519",
	"rsa-pkcs1-sha256", "rsa-pkcs1-sha384", "rsa-pkcs1-sha512", "rsa-pss-sha256", "rsa-pss-sha384", "rsa-pss-sha512",
	"rsakey-ecdsa-issuer", "eckey-rsa-issuer", "garbage",
}

type certSpec struct {
	Signer string `json:"signer"`
	Seed   int    `json:"seed"`
	// NotBefore = (whole second of the verification instant) + NBOff ; NotAfter = NotBefore + Life
	NBOff     time.Duration `json:"nb_off"`
	Life      time.Duration `json:"life"`
	LifeClass string        `json:"life_class"`
	ValClass  string        `json:"val_class"`
}

var lifeClasses = []struct {
	name string
	d    time.Duration
}{
	{"1s", time.Second}, {"1h", time.Hour}, {"1d", 24 * time.Hour}, {"13d", 13 * 24 * time.Hour},
	{"14d-1s", maxLifetime - time.Second}, {"14d", maxLifetime}, {"14d", maxLifetime},
	{"14d+1s", maxLifetime + time.Second}, {"14d+1h", maxLifetime + time.Hour}, {"15d", 15 * 24 * time.Hour},
	{"28d", 28 * 24 * time.Hour}, {"365d", 365 * 24 * time.Hour},
}

func drawCertSpec(rt *rapid.T, label string, simple bool) certSpec {
	var c certSpec
	c.Signer = rapid.SampledFrom(signerKinds).Draw(rt, label+"Signer")
	c.Seed = rapid.IntRange(0, 1<<16).Draw(rt, label+"Seed")
	li := rapid.IntRange(0, len(lifeClasses)-1).Draw(rt, label+"Life")
	if simple || rapid.IntRange(0, 2).Draw(rt, label+"LifeOK") > 0 {
		li = li % 7 // mostly admissible lifetimes, so that other conjuncts decide
	}
	c.Life, c.LifeClass = lifeClasses[li].d, lifeClasses[li].name
	sec := time.Second
	vk := rapid.IntRange(0, 11).Draw(rt, label+"Val")
	if simple && vk > 5 {
		vk = 0
	}
	switch vk {
	case 0, 1, 2, 3:
		// interior: NotBefore strictly before, NotAfter strictly after (lifetime >= 2s needed)
		c.ValClass = "valid"
		if c.Life < 2*sec {
			c.NBOff = 0 // 1s lifetime: [now, now+1s]
			c.ValClass = "valid-nb-edge"
		} else {
			c.NBOff = -time.Duration(rapid.Int64Range(1, int64(c.Life/sec)-1).Draw(rt, label+"Age")) * sec
		}
	case 4:
		c.ValClass, c.NBOff = "valid-nb-edge", 0 // NotBefore == whole second of now
	case 5:
		c.ValClass, c.NBOff = "na-edge", -c.Life // NotAfter == whole second of now: valid iff now has no sub-second part
	case 6:
		c.ValClass, c.NBOff = "future+1s", sec
	case 7:
		c.ValClass, c.NBOff = "future", time.Duration(rapid.Int64Range(2, 40*86400).Draw(rt, label+"Future"))*sec
	case 8:
		c.ValClass, c.NBOff = "expired-1s", -c.Life-sec
	case 9:
		c.ValClass, c.NBOff = "expired", -c.Life-time.Duration(rapid.Int64Range(2, 40*86400).Draw(rt, label+"Expired"))*sec
	case 10:
		c.ValClass, c.NBOff = "future+skew", skew
	case 11:
		c.ValClass, c.NBOff = "expired-skew", -c.Life-skew
	}
	return c
}

// make builds the DER bytes. tvs is the verification instant truncated to the second.
func (c certSpec) make(tvs time.Time) []byte {
	pool.init()
	nb := tvs.Add(c.NBOff)
	na := nb.Add(c.Life)
	tmpl := &x509.Certificate{SerialNumber: big.NewInt(int64(c.Seed) + 2), Subject: pkix.Name{}, NotBefore: nb, NotAfter: na,
		KeyUsage: x509.KeyUsageDigitalSignature, ExtKeyUsage: []x509.ExtKeyUsage{x509.ExtKeyUsageServerAuth}}
	self := func(alg x509.SignatureAlgorithm, priv crypto.Signer) []byte {
		tmpl.SignatureAlgorithm = alg
		der, err := x509.CreateCertificate(rand.Reader, tmpl, tmpl, priv.Public(), priv)
		if err != nil {
			panic(fmt.Sprintf("CreateCertificate(%s): %v", c.Signer, err))
		}
		return der
	}
	switch c.Signer {
	case "mgr":
		k, _, err := ic.GenerateEd25519Key(keys.Reader(fmt.Sprintf("c18/verifier/host/%d", c.Seed%64)))
		if err != nil {
			panic(err)
		}
		cert, err := wt.VerifGenerateCert(k, nb, na)
		if err != nil {
			panic(fmt.Sprintf("generateCert: %v", err))
		}
		return cert.Raw
	case "ecdsa-p256":
		return self(x509.ECDSAWithSHA256, pool.p256)
	case "ecdsa-p384":
		return self(x509.ECDSAWithSHA384, pool.p384)
	case "ed25519":
		return self(x509.PureEd25519, pool.ed)
	case "rsa-pkcs1-sha256":
		return self(x509.SHA256WithRSA, pool.rsa)
	case "rsa-pkcs1-sha384":
		return self(x509.SHA384WithRSA, pool.rsa)
	case "rsa-pkcs1-sha512":
		return self(x509.SHA512WithRSA, pool.rsa)
	case "rsa-pss-sha256":
		return self(x509.SHA256WithRSAPSS, pool.rsa)
	case "rsa-pss-sha384":
		return self(x509.SHA384WithRSAPSS, pool.rsa)
	case "rsa-pss-sha512":
		return self(x509.SHA512WithRSAPSS, pool.rsa)
	case "rsakey-ecdsa-issuer":
		der, err := x509.CreateCertificate(rand.Reader, tmpl, pool.caEC, pool.rsa.Public(), pool.caECKey)
		if err != nil {
			panic(err)
		}
		return der
	case "eckey-rsa-issuer":
		tmpl.SignatureAlgorithm = x509.SHA256WithRSA
		der, err := x509.CreateCertificate(rand.Reader, tmpl, pool.caRSA, pool.p256.Public(), pool.rsa)
		if err != nil {
			panic(err)
		}
		return der
	case "garbage":
		b := make([]byte, 40+c.Seed%200)
		keys.Reader(fmt.Sprintf("c18/verifier/garbage/%d", c.Seed)).Read(b)
		return b
	}
	panic("unknown signer " + c.Signer)
}

// ---------------------------------------------------------------------------
// hash lists

var hashKinds = []string{
	"sha256(c0)", "sha256(c0)", "sha256(c0)", "sha256(c1)", "wrong", "bitflip", "truncated", "extended",
	"c0-digest-as-sha3-256", "c0-digest-as-blake2s-256", "c0-digest-as-identity", "c0-digest-as-dbl-sha2-256", "c0-digest-as-keccak-256",
	"sha2-512(c0)", "sha3-256(c0)", "sha2-256-trunc-of-sha512(c0)",
}

func mkHash(rt *rapid.T, kind string, seed int, chain [][]byte) (multihash.DecodedMultihash, bool) {
	var c0, c1 []byte
	if len(chain) > 0 {
		c0 = chain[0]
		c1 = chain[len(chain)-1]
	}
	s0 := sha256.Sum256(c0)
	enc := func(d []byte, code uint64) (multihash.DecodedMultihash, bool) {
		b, err := multihash.Encode(d, code)
		if err != nil {
			rt.Fatalf("harness: multihash.Encode(%x, %#x): %v", d, code, err)
		}
		dh, err := multihash.Decode(b)
		if err != nil {
			rt.Fatalf("harness: multihash.Decode: %v", err)
		}
		return *dh, true
	}
	switch kind {
	case "sha256(c0)":
		return enc(s0[:], multihash.SHA2_256)
	case "sha256(c1)":
		s := sha256.Sum256(c1)
		return enc(s[:], multihash.SHA2_256)
	case "wrong":
		d := make([]byte, 32)
		keys.Reader(fmt.Sprintf("c18/verifier/wrong/%d", seed)).Read(d)
		return enc(d, multihash.SHA2_256)
	case "bitflip":
		d := append([]byte(nil), s0[:]...)
		d[seed%32] ^= 1 << (seed / 32 % 8)
		return enc(d, multihash.SHA2_256)
	case "truncated":
		return enc(s0[:31], multihash.SHA2_256)
	case "extended":
		return enc(append(append([]byte(nil), s0[:]...), 0), multihash.SHA2_256)
	case "c0-digest-as-sha3-256":
		return enc(s0[:], multihash.SHA3_256)
	case "c0-digest-as-blake2s-256":
		return enc(s0[:], multihash.BLAKE2S_MAX)
	case "c0-digest-as-identity":
		return enc(s0[:], multihash.IDENTITY)
	case "c0-digest-as-dbl-sha2-256":
		return enc(s0[:], multihash.DBL_SHA2_256)
	case "c0-digest-as-keccak-256":
		return enc(s0[:], multihash.KECCAK_256)
	case "sha2-512(c0)":
		s := sha512.Sum512(c0)
		return enc(s[:], multihash.SHA2_512)
	case "sha3-256(c0)":
		s := sha3.Sum256(c0)
		return enc(s[:], multihash.SHA3_256)
	case "sha2-256-trunc-of-sha512(c0)":
		s := sha512.Sum512(c0)
		return enc(s[:32], multihash.SHA2_256)
	}
	panic("unknown hash kind " + kind)
}

// ---------------------------------------------------------------------------
// reference predicate (from the statement)

type verdictParts struct {
	parses  bool
	member  bool
	rsa     string // "no" | "yes" | "ambiguous"
	rsaPSS  bool   // self-signed RSA with an RSA-PSS signature
	lifeOK  bool
	validAt bool
}

func isRSASig(a x509.SignatureAlgorithm) (rsaSig, pss bool) {
	switch a {
	case x509.MD2WithRSA, x509.MD5WithRSA, x509.SHA1WithRSA, x509.SHA256WithRSA, x509.SHA384WithRSA, x509.SHA512WithRSA:
		return true, false
	case x509.SHA256WithRSAPSS, x509.SHA384WithRSAPSS, x509.SHA512WithRSAPSS:
		return true, true
	}
	return false, false
}

func judge(der []byte, hashes []multihash.DecodedMultihash, now time.Time) verdictParts {
	var v verdictParts
	sum := sha256.Sum256(der)
	v.member = hashSet(hashes).hasSHA256(sum)
	cert, err := x509.ParseCertificate(der)
	if err != nil {
		return v
	}
	v.parses = true
	rsaKey := cert.PublicKeyAlgorithm == x509.RSA
	rsaSig, pss := isRSASig(cert.SignatureAlgorithm)
	switch {
	case rsaKey && rsaSig:
		v.rsa, v.rsaPSS = "yes", pss
	case !rsaKey && !rsaSig:
		v.rsa = "no"
	default:
		v.rsa = "ambiguous"
	}
	v.lifeOK = cert.NotAfter.Sub(cert.NotBefore) <= maxLifetime
	v.validAt = !now.Before(cert.NotBefore) && !now.After(cert.NotAfter)
	return v
}

// failing conjuncts, counting an ambiguous RSA status as not failing.
func (v verdictParts) failing() []string {
	var f []string
	if !v.member {
		f = append(f, "hash-not-listed")
	}
	if !v.parses {
		return append(f, "unparsable")
	}
	if v.rsa == "yes" {
		f = append(f, "rsa")
	}
	if !v.lifeOK {
		f = append(f, "too-long-lived")
	}
	if !v.validAt {
		f = append(f, "not-currently-valid")
	}
	return f
}

func (v verdictParts) mustReject() bool { return len(v.failing()) > 0 }
func (v verdictParts) mustAccept() bool { return len(v.failing()) == 0 && v.rsa == "no" }

// explainedByKnown reports whether an acceptance that the statement forbids is exactly
// what the listed known findings predict: the verifier looks at the LAST certificate of
// the chain (kfChainLast) and does not recognise RSA-PSS as RSA (kfRSAPSS).
func explainedByKnown(chain [][]byte, hashes []multihash.DecodedMultihash, now time.Time) bool {
	target := chain[0]
	if len(chain) > 1 {
		if !known(kfChainLast) {
			return false
		}
		target = chain[len(chain)-1]
	}
	v := judge(target, hashes, now)
	for _, f := range v.failing() {
		if f == "rsa" && v.rsaPSS && known(kfRSAPSS) {
			continue
		}
		return false
	}
	// something known must actually be needed
	return len(chain) > 1 || v.rsaPSS
}

func TestVerifier(t *testing.T) {
	name := t.Name()
	hx.Check(t, 20000, 1000000, 0, func(rt *rapid.T) {
		// verification instant: 2000-01-01 + days + seconds + sub-second part
		days := rapid.IntRange(0, 400).Draw(rt, "days")
		secs := rapid.IntRange(0, 86399).Draw(rt, "secs")
		sub := rapid.SampledFrom([]time.Duration{0, 0, 1, time.Millisecond, 500 * time.Millisecond, time.Second - 1}).Draw(rt, "subsec")
		nchain := rapid.SampledFrom([]int{0, 1, 1, 1, 1, 1, 1, 2, 2, 2}).Draw(rt, "chainLen")
		var specs []certSpec
		for i := 0; i < nchain; i++ {
			specs = append(specs, drawCertSpec(rt, fmt.Sprintf("c%d", i), false))
		}
		if nchain == 2 && rapid.Bool().Draw(rt, "sameTwice") {
			specs[1] = specs[0]
		}
		nh := rapid.SampledFrom([]int{0, 1, 1, 1, 2, 2, 3}).Draw(rt, "nHashes")
		type hk struct {
			Kind string
			Seed int
		}
		var hks []hk
		for i := 0; i < nh; i++ {
			hks = append(hks, hk{rapid.SampledFrom(hashKinds).Draw(rt, "hashKind"), rapid.IntRange(0, 255).Draw(rt, "hashSeed")})
		}

		var (
			got      error
			parts    verdictParts
			excluded bool
			hashStr  []string
		)
		hx.Bubble(t, rt, func() {
			base := time.Now() // 2000-01-01T00:00:00Z
			tvs := base.Add(time.Duration(days)*24*time.Hour + time.Duration(secs)*time.Second)
			var chain [][]byte
			for _, s := range specs {
				chain = append(chain, s.make(tvs))
			}
			var hashes []multihash.DecodedMultihash
			for _, h := range hks {
				dh, _ := mkHash(rt, h.Kind, h.Seed, chain)
				hashes = append(hashes, dh)
				hashStr = append(hashStr, h.Kind)
			}
			time.Sleep(tvs.Add(sub).Sub(base))
			now := time.Now()
			got = wt.VerifVerifyRawCerts(chain, hashes)
			accepted := got == nil
			if len(chain) == 0 {
				if accepted {
					rt.Fatalf("empty chain accepted (hashes %v)", hashStr)
				}
				return
			}
			parts = judge(chain[0], hashes, now)
			desc := func() string {
				return fmt.Sprintf("now=%s chain=%+v hashes=%v server-cert conjuncts: failing=%v rsa=%s", ts(now), specs, hashStr, parts.failing(), parts.rsa)
			}
			if accepted && parts.mustReject() {
				if explainedByKnown(chain, hashes, now) {
					excluded = true
					return
				}
				rt.Fatalf("verifier ACCEPTED a server certificate the statement forbids: %s", desc())
			}
			if !accepted && parts.mustAccept() && len(chain) == 1 {
				rt.Fatalf("verifier REJECTED (%v) a certificate that is listed, not RSA, <= 14 d and currently valid: %s", got, desc())
			}
		})

		if excluded {
			stats.Excluded(name)
		}
		labels := []string{fmt.Sprintf("chain=%d", nchain), fmt.Sprintf("hashes=%d", nh)}
		fpParts := []string{fmt.Sprint(nchain), fmt.Sprint(sub), strings.Join(hashStr, "+")}
		nontrivial := false
		if nchain > 0 {
			f := parts.failing()
			nontrivial = len(f) <= 1
			labels = append(labels, "signer="+specs[0].Signer, "life="+specs[0].LifeClass, "val="+specs[0].ValClass, fmt.Sprintf("failing-conjuncts=%d", len(f)))
			if len(f) == 1 {
				labels = append(labels, "only:"+f[0])
			}
			if parts.rsa == "ambiguous" && len(f) == 0 {
				labels = append(labels, fmt.Sprintf("ambiguous-rsa-accepted=%v", got == nil))
			}
			if got == nil {
				labels = append(labels, "accepted")
			} else {
				labels = append(labels, "rejected")
			}
			if nchain == 2 && got != nil && parts.mustAccept() {
				labels = append(labels, "note:chain2-valid-first-cert-rejected")
			}
			if specs[0].ValClass == "na-edge" {
				labels = append(labels, fmt.Sprintf("na-edge-subsec0=%v", sub == 0))
			}
			for _, s := range specs {
				fpParts = append(fpParts, s.Signer, s.LifeClass, s.ValClass)
			}
		}
		for _, h := range hashStr {
			labels = append(labels, "hash:"+h)
		}
		if excluded {
			labels = append(labels, "excluded-by-known-finding")
		}
		stats.Case(name, strings.Join(fpParts, "|"), nontrivial, labels...)
		if stats.WantSample(name) {
			stats.Sample(name, map[string]any{"days": days, "secs": secs, "subsec_ns": int64(sub), "chain": specs, "hashes": hks, "accepted": got == nil, "failing": parts.failing()})
		}
	})
}

// ---------------------------------------------------------------------------
// witnesses of the suspected defects

func witness(t *testing.T, id string, run func() (bool, string)) {
	t.Helper()
	if !kf.Known(id) && known(id) { // development override only
		if v, d := run(); v {
			fmt.Printf("KNOWN-FINDING: property=C18 (assumed via VERIF_ASSUME_KNOWN) %s [%s]\n", d, id)
		}
		return
	}
	kf.Witness(t, id, run)
}

// TestWitness_chain_last_cert: verifyRawCerts pins rawCerts[len-1], but crypto/tls
// authenticates the handshake with rawCerts[0]. A server that owns ANY key pair can
// prepend its own certificate (here: RSA, valid for ten years, hash not in the address)
// to the genuine pinned certificate; the verifier accepts and the TLS handshake
// completes with the un-pinned certificate as the peer's leaf.
func TestWitness_chain_last_cert(t *testing.T) {
	hx.Shard0(t)
	witness(t, kfChainLast, func() (violated bool, detail string) {
		synctest.Test(t, func(t *testing.T) {
			pool.init()
			now := time.Now()
			host, _, err := ic.GenerateEd25519Key(keys.Reader("c18/witness/host"))
			if err != nil {
				t.Fatal(err)
			}
			genuine, err := wt.VerifGenerateCert(host, now.Add(-24*time.Hour), now.Add(-24*time.Hour).Add(validity))
			if err != nil {
				t.Fatal(err)
			}
			tmpl := &x509.Certificate{SerialNumber: big.NewInt(7), NotBefore: now.Add(-time.Hour), NotAfter: now.Add(10 * 365 * 24 * time.Hour),
				KeyUsage: x509.KeyUsageDigitalSignature, ExtKeyUsage: []x509.ExtKeyUsage{x509.ExtKeyUsageServerAuth}, SignatureAlgorithm: x509.SHA256WithRSA}
			attackerDER, err := x509.CreateCertificate(rand.Reader, tmpl, tmpl, pool.rsa.Public(), pool.rsa)
			if err != nil {
				t.Fatal(err)
			}
			sum := sha256.Sum256(genuine.Raw)
			mh, _ := multihash.Encode(sum[:], multihash.SHA2_256)
			dh, _ := multihash.Decode(mh)
			pinned := []multihash.DecodedMultihash{*dh}

			if err := wt.VerifVerifyRawCerts([][]byte{attackerDER}, pinned); err == nil {
				t.Fatal("control failed: the attacker's certificate alone is accepted")
			}
			if err := wt.VerifVerifyRawCerts([][]byte{attackerDER, genuine.Raw}, pinned); err != nil {
				return // chain rejected: no defect
			}
			// the same through crypto/tls, configured the way transport.dial configures it
			cEnd, sEnd := net.Pipe()
			defer cEnd.Close()
			defer sEnd.Close()
			srv := tls.Server(sEnd, &tls.Config{
				Certificates: []tls.Certificate{{Certificate: [][]byte{attackerDER, genuine.Raw}, PrivateKey: pool.rsa}},
				NextProtos:   []string{"h3"},
			})
			cli := tls.Client(cEnd, &tls.Config{
				InsecureSkipVerify: true,
				NextProtos:         []string{"h3"},
				VerifyPeerCertificate: func(rawCerts [][]byte, _ [][]*x509.Certificate) error {
					return wt.VerifVerifyRawCerts(rawCerts, pinned)
				},
			})
			errc := make(chan error, 1)
			go func() { errc <- srv.Handshake() }()
			cerr := cli.Handshake()
			serr := <-errc
			if cerr != nil || serr != nil {
				violated = true
				detail = fmt.Sprintf("verifyRawCerts accepts the chain [attacker RSA 10-year cert, pinned cert] although SHA-256(server certificate) is not in the address (TLS handshake in this witness: client=%v server=%v)", cerr, serr)
				return
			}
			leaf := cli.ConnectionState().PeerCertificates[0]
			violated = true
			detail = fmt.Sprintf("dialer-side TLS handshake completed with a server certificate whose SHA-256 is not among the pinned hashes (pinned %x), that is %v-signed and valid for %v: "+
				"verifyRawCerts checks rawCerts[len-1] while TLS authenticates rawCerts[0]", sum[:8], leaf.SignatureAlgorithm, leaf.NotAfter.Sub(leaf.NotBefore))
		})
		return
	})
}

// TestWitness_rsa_pss: a self-signed RSA certificate signed with RSA-PSS is accepted;
// the RSA test in verifyRawCerts lists only the PKCS#1 v1.5 signature algorithms.
func TestWitness_rsa_pss(t *testing.T) {
	hx.Shard0(t)
	witness(t, kfRSAPSS, func() (violated bool, detail string) {
		synctest.Test(t, func(t *testing.T) {
			now := time.Now()
			var accepted []string
			for _, signer := range []string{"rsa-pss-sha256", "rsa-pss-sha384", "rsa-pss-sha512"} {
				der := certSpec{Signer: signer, NBOff: -time.Hour, Life: 24 * time.Hour}.make(now)
				sum := sha256.Sum256(der)
				mh, _ := multihash.Encode(sum[:], multihash.SHA2_256)
				dh, _ := multihash.Decode(mh)
				ctl := certSpec{Signer: strings.Replace(signer, "pss", "pkcs1", 1), NBOff: -time.Hour, Life: 24 * time.Hour}.make(now)
				csum := sha256.Sum256(ctl)
				cmh, _ := multihash.Encode(csum[:], multihash.SHA2_256)
				cdh, _ := multihash.Decode(cmh)
				if err := wt.VerifVerifyRawCerts([][]byte{ctl}, []multihash.DecodedMultihash{*cdh}); err == nil {
					t.Fatalf("control failed: PKCS#1 v1.5 RSA certificate accepted")
				}
				if err := wt.VerifVerifyRawCerts([][]byte{der}, []multihash.DecodedMultihash{*dh}); err == nil {
					accepted = append(accepted, signer)
				}
			}
			if len(accepted) > 0 {
				violated = true
				detail = fmt.Sprintf("verifyRawCerts accepts self-signed RSA-2048 certificates signed with RSA-PSS (%v): the 'not RSA' rule only matches PKCS#1 v1.5 signature algorithms", accepted)
			}
		})
		return
	})
}
