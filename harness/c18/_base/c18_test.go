// Package c18 checks property C18: a WebTransport listener serves a valid, advertised
// certificate at all times; dialers pin it.
//
//   - TestTimeline drives the real certificate manager (hook: export_verif.go) on the
//     virtual clock of a synctest bubble through generated timelines (key, start instant
//     relative to the rotation boundaries, rollovers, restarts, twins) and judges every
//     sampled instant against the statement.
//   - TestVerifier presents generated certificate-chain / hash-list pairs to the real
//     verifier and compares with the reference predicate of the statement.
//   - TestE2E* (thorough tier) dial a real listener over loopback UDP.
//   - TestWitness_* are the deterministic witnesses of the two defects this check found.
package c18

import (
	"bytes"
	"crypto"
	"crypto/ecdsa"
	"crypto/elliptic"
	"crypto/sha256"
	"crypto/x509"
	"encoding/binary"
	"fmt"
	"sort"
	"strings"
	"testing"
	"testing/synctest"
	"time"

	"filippo.io/keygen"
	"github.com/benbjohnson/clock"
	ic "github.com/libp2p/go-libp2p/core/crypto"
	wt "github.com/libp2p/go-libp2p/p2p/transport/webtransport"
	ma "github.com/multiformats/go-multiaddr"
	"github.com/multiformats/go-multibase"
	"github.com/multiformats/go-multihash"
	"pgregory.net/rapid"

	"verif/internal/hx"
	"verif/internal/keys"
	"verif/internal/stats"
)

const (
	skew     = wt.VerifClockSkewAllowance // the clock-skew allowance the statement refers to
	validity = wt.VerifCertValidity
	// period is the distance between two rotation instants. Used by the GENERATOR only
	// (to aim at boundaries several periods ahead); no verdict depends on it.
	period = validity - 2*skew
	// maxLifetime is taken from the statement, not from the code.
	maxLifetime = 14 * 24 * time.Hour
)

// Identifiers of the two defects this check found (see TestWitness_*).
const (
	kfChainLast = "C18-chain-last-cert"
	kfRSAPSS    = "C18-rsa-pss"
)

func TestMain(m *testing.M) {
	stats.Describe("exploration",
		"Timeline: rapid draws a host key (Ed25519 from a seed incl. seeds ground to hit the extreme rotation offsets; occasionally secp256k1/ECDSA/RSA), "+
			"a start instant = rotation boundary (learnt from a probe manager) + j periods + delta with delta concentrated at {0, +-1ns, +-1ms, +-skew, +-skew+-1ms} plus uniform, "+
			"and 1..10 steps (move to just before/at/after the next rotation, a fraction of the way, or a multi-period jump; then restart / close / twin / nothing). "+
			"The real certManager runs on the bubble's virtual clock; a long-running manager A, a restartable manager B and short-lived twins are sampled right after their creation (before their timer goroutine ran), after every step and at every rotation instant passed. "+
			"Oracle per sample: NotBefore+skew <= t <= NotAfter-skew, lifetime <= 14d, key matches, served SHA-256 in SerializedCertHashes and AddrComponent, "+
			"every advertisement recorded in the current or the previous period verifies the served leaf now (verifyRawCerts on virtual time), every manager serves bytes identical to A. "+
			"Non-trivial = some sample lies within 1 ms of a rotation boundary (NotBefore+skew / NotAfter-skew) or follows a restart; distinct = (key kind, offset class, start class, step classes, rollovers). "+
			"Verifier: generated (chain of 0/1/2 certs, hash list, verification instant) against the reference predicate; non-trivial = at most one conjunct of the predicate fails; distinct = class tuple.",
		"crypto/x509 parsing and crypto/sha256 are trusted (used by the oracle)",
		"the clock-skew allowance is the exported constant (1h); the 14-day bound is taken from the statement",
		"the 'server certificate' of a chain is rawCerts[0] (what crypto/tls authenticates the handshake with); 'RSA' = RSA public key or any RSA (PKCS#1 v1.5 / PSS) signature",
		"the Noise early-data confirmation is exercised only by the thorough-tier loopback cases",
	)
	hx.Main(m)
}

// ---------------------------------------------------------------------------
// host keys

// Ed25519 seeds whose public key starts with the given little-endian uint16 (found by a
// one-off search): the rotation offset is (uint16 minutes) mod 14d, so these are the
// extreme / wrapping offsets.
var specialEdSeeds = []struct {
	U16  uint16
	Seed int
}{
	{0, 39325}, {1, 188263}, {59, 65980}, {60, 165756}, {61, 144198}, {120, 5404},
	{20039, 18696}, {20040, 3788}, {20041, 64152}, {20159, 143579}, {20160, 118602}, {20161, 99596},
	{40320, 58631}, {65535, 32362},
}

type hostKeySpec struct {
	Kind string `json:"kind"`
	Seed int    `json:"seed"`
}

func drawHostKey(rt *rapid.T) hostKeySpec {
	switch k := rapid.IntRange(0, 19).Draw(rt, "keyKind"); {
	case k == 0:
		return hostKeySpec{"secp256k1", rapid.IntRange(0, 1<<16).Draw(rt, "keySeed")}
	case k == 1:
		return hostKeySpec{"ecdsa", rapid.IntRange(0, 1<<16).Draw(rt, "keySeed")}
	case k == 2:
		return hostKeySpec{"rsa", rapid.IntRange(0, 1).Draw(rt, "keySeed")}
	case k <= 5:
		return hostKeySpec{"ed25519", specialEdSeeds[rapid.IntRange(0, len(specialEdSeeds)-1).Draw(rt, "special")].Seed}
	default:
		return hostKeySpec{"ed25519", rapid.IntRange(0, 1<<20).Draw(rt, "keySeed")}
	}
}

func (s hostKeySpec) key() ic.PrivKey {
	var (
		k   ic.PrivKey
		err error
	)
	switch s.Kind {
	case "ed25519":
		k, _, err = ic.GenerateEd25519Key(keys.Reader(fmt.Sprintf("c18/ed/%d", s.Seed)))
	case "secp256k1":
		b := make([]byte, 32)
		keys.Reader(fmt.Sprintf("c18/secp/%d", s.Seed)).Read(b)
		b[0] &= 0x7f // below the group order
		k, err = ic.UnmarshalSecp256k1PrivateKey(b)
	case "ecdsa":
		b := make([]byte, 32)
		keys.Reader(fmt.Sprintf("c18/ecdsa/%d", s.Seed)).Read(b)
		var p *ecdsa.PrivateKey
		if p, err = keygen.ECDSA(elliptic.P256(), b); err == nil {
			k, _, err = ic.ECDSAKeyPairFromKey(p)
		}
	case "rsa":
		k = keys.Get("rsa", s.Seed).Priv // bytes differ per process; no verdict depends on them
	default:
		panic("unknown key kind " + s.Kind)
	}
	if err != nil {
		panic(fmt.Sprintf("host key %+v: %v", s, err))
	}
	return k
}

// offsetClass describes the rotation offset the implementation documents
// ((LE uint16 of the public key bytes) minutes mod 14d). Labels only.
func offsetClass(k ic.PrivKey) string {
	raw, err := k.GetPublic().Raw()
	if err != nil || len(raw) < 2 {
		return "off=?"
	}
	u := time.Duration(binary.LittleEndian.Uint16(raw)) * time.Minute
	off := u % validity
	switch {
	case off == 0:
		return "off=0"
	case off <= 2*skew:
		return "off<=2skew"
	case off >= validity-2*skew-time.Minute:
		return "off>=period"
	case u >= validity:
		return "off=wrapped"
	default:
		return "off=mid"
	}
}

// ---------------------------------------------------------------------------
// decoding advertisements (independent of the package's extractCertHashes)

type hashSet []multihash.DecodedMultihash

func decodeSerialized(rt *rapid.T, who string, in [][]byte) hashSet {
	out := make(hashSet, 0, len(in))
	for _, b := range in {
		dh, err := multihash.Decode(b)
		if err != nil {
			rt.Fatalf("%s: SerializedCertHashes() holds an undecodable multihash %x: %v", who, b, err)
		}
		out = append(out, *dh)
	}
	return out
}

func decodeAddr(rt *rapid.T, who string, a ma.Multiaddr) hashSet {
	var out hashSet
	ma.ForEach(a, func(c ma.Component) bool {
		if c.Protocol().Code != ma.P_CERTHASH {
			rt.Fatalf("%s: AddrComponent() %s holds a non-certhash component", who, a)
		}
		_, b, err := multibase.Decode(c.Value())
		if err != nil {
			rt.Fatalf("%s: AddrComponent() %s: multibase: %v", who, a, err)
		}
		dh, err := multihash.Decode(b)
		if err != nil {
			rt.Fatalf("%s: AddrComponent() %s: multihash: %v", who, a, err)
		}
		out = append(out, *dh)
		return true
	})
	return out
}

func (hs hashSet) hasSHA256(sum [32]byte) bool {
	for _, h := range hs {
		if h.Code == multihash.SHA2_256 && bytes.Equal(h.Digest, sum[:]) {
			return true
		}
	}
	return false
}

func (hs hashSet) key() string {
	parts := make([]string, 0, len(hs))
	for _, h := range hs {
		parts = append(parts, fmt.Sprintf("%x:%x", h.Code, h.Digest))
	}
	sort.Strings(parts)
	return strings.Join(parts, ",")
}

func (hs hashSet) String() string {
	parts := make([]string, 0, len(hs))
	for _, h := range hs {
		parts = append(parts, fmt.Sprintf("%s:%x", h.Name, h.Digest[:min(6, len(h.Digest))]))
	}
	return "[" + strings.Join(parts, " ") + "]"
}

// superset reports whether every hash of need is in hs (same code, same digest).
func (hs hashSet) superset(need hashSet) bool {
	for _, n := range need {
		found := false
		for _, h := range hs {
			if h.Code == n.Code && bytes.Equal(h.Digest, n.Digest) {
				found = true
				break
			}
		}
		if !found {
			return false
		}
	}
	return true
}

// ---------------------------------------------------------------------------
// generated timeline

type deltaSpec struct {
	Class string        `json:"class"`
	D     time.Duration `json:"d"`
}

// drawDelta draws an offset relative to a rotation instant R (= NotAfter-skew of the
// certificate being replaced = NotBefore+skew of its successor). R-skew is the bucket
// boundary (successor's NotBefore), R+skew the predecessor's NotAfter.
func drawDelta(rt *rapid.T, label string) deltaSpec {
	ms := time.Millisecond
	switch c := rapid.IntRange(0, 23).Draw(rt, label+"Class"); c {
	case 0, 1:
		return deltaSpec{"R", 0}
	case 2:
		return deltaSpec{"R-1ns", -1}
	case 3:
		return deltaSpec{"R+1ns", 1}
	case 4:
		return deltaSpec{"R-1ms", -ms}
	case 5:
		return deltaSpec{"R+1ms", ms}
	case 6:
		return deltaSpec{"R-500us", -500 * time.Microsecond}
	case 7:
		return deltaSpec{"R+500us", 500 * time.Microsecond}
	case 8:
		return deltaSpec{"B", -skew}
	case 9:
		return deltaSpec{"B-1ms", -skew - ms}
	case 10:
		return deltaSpec{"B+1ms", -skew + ms}
	case 11:
		return deltaSpec{"E", skew}
	case 12:
		return deltaSpec{"E-1ms", skew - ms}
	case 13:
		return deltaSpec{"E+1ms", skew + ms}
	case 14, 15:
		// anywhere within two skews of the boundary, nanosecond granularity
		return deltaSpec{"near", time.Duration(rapid.Int64Range(int64(-2*skew), int64(2*skew)).Draw(rt, label+"Near"))}
	case 16:
		return deltaSpec{"R-1s", -time.Second}
	case 17:
		return deltaSpec{"R+1s", time.Second}
	default:
		// uniform over a whole period, millisecond granularity
		return deltaSpec{"uniform", time.Duration(rapid.Int64Range(int64(-period/2/ms), int64(period/2/ms)).Draw(rt, label+"Uni")) * ms}
	}
}

type stepSpec struct {
	Move  string        `json:"move"` // rot | frac | jump | stay
	Delta deltaSpec     `json:"delta,omitempty"`
	Frac  int           `json:"frac,omitempty"` // permille of the way to the next rotation
	Jump  time.Duration `json:"jump,omitempty"`
	Act   string        `json:"act"` // none | restart | close | twin
}

func (s stepSpec) class() string {
	switch s.Move {
	case "rot":
		return "rot:" + s.Delta.Class + "/" + s.Act
	case "jump":
		return fmt.Sprintf("jump%d/%s", int(s.Jump/period), s.Act)
	case "frac":
		return fmt.Sprintf("frac%d/%s", s.Frac/250, s.Act)
	}
	return s.Move + "/" + s.Act
}

func drawStep(rt *rapid.T) stepSpec {
	var s stepSpec
	switch m := rapid.IntRange(0, 9).Draw(rt, "move"); {
	case m <= 5:
		s.Move, s.Delta = "rot", drawDelta(rt, "step")
	case m <= 7:
		s.Move, s.Frac = "frac", rapid.IntRange(0, 999).Draw(rt, "frac")
	case m == 8:
		s.Move = "jump"
		s.Jump = time.Duration(rapid.Int64Range(0, int64(5*period/2/time.Millisecond)).Draw(rt, "jump")) * time.Millisecond
	default:
		s.Move = "stay"
	}
	s.Act = rapid.SampledFrom([]string{"none", "none", "restart", "restart", "restart", "close", "twin", "twin"}).Draw(rt, "act")
	return s
}

type timelineSpec struct {
	Key      hostKeySpec `json:"key"`
	ShiftDay int         `json:"shift_days"` // coarse position of the whole timeline after 2000-01-01
	J        int         `json:"j"`
	Start    deltaSpec   `json:"start"`
	BAtStart bool        `json:"b_at_start"`
	Steps    []stepSpec  `json:"steps"`
	Epilogue bool        `json:"epilogue"` // finally run into the next rotation, so that the last "next" hash is put to the test
}

func drawTimeline(rt *rapid.T) timelineSpec {
	var s timelineSpec
	s.Key = drawHostKey(rt)
	if rapid.IntRange(0, 3).Draw(rt, "shiftKind") == 0 {
		s.ShiftDay = rapid.IntRange(0, 20000).Draw(rt, "shiftDays") // up to ~2054 (UTCTime/GeneralizedTime switch at 2050)
	}
	s.J = rapid.IntRange(0, 3).Draw(rt, "j")
	s.Start = drawDelta(rt, "start")
	s.BAtStart = rapid.Bool().Draw(rt, "bAtStart")
	n := rapid.IntRange(1, 10).Draw(rt, "nsteps")
	for i := 0; i < n; i++ {
		s.Steps = append(s.Steps, drawStep(rt))
	}
	s.Epilogue = rapid.Bool().Draw(rt, "epilogue")
	return s
}

// ---------------------------------------------------------------------------
// the world of one timeline

type periodRec struct {
	idx    int
	raw    []byte
	sum    [32]byte
	nb, na time.Time
}

type advert struct {
	idx  int // period in which it was taken
	at   time.Time
	who  string
	kind string // "addr" | "serialized"
	hs   hashSet
}

type mgr struct {
	name    string
	h       *wt.VerifCertManager
	created time.Time
	lastSum [32]byte
	rolled  bool
	probe   bool // throw-away manager used to learn the boundaries: judged on its own only
}

type world struct {
	rt      *rapid.T
	key     ic.PrivKey
	a, b    *mgr
	open    []*mgr
	periods []*periodRec
	adverts map[string]*advert // deduplicated by (period, kind, hash set)

	// evidence
	rollovers      int
	restarts       int
	twins          int
	samples        int
	nearBoundary   bool
	afterRestart   bool
	exactRot       int
	confirmMissing int // informational: adverts whose hashes a manager could not all confirm (fresh managers, by design)
	confirmChecked int
	labels         map[string]bool
}

func (w *world) label(l string) { w.labels[l] = true }

// newMgr creates a manager at the current instant and judges it at once, BEFORE its
// timer goroutine had a chance to run: a listener can be asked for its certificate as
// soon as the constructor returns. (With the unchanged code the first timer is strictly
// in the future, so nothing races with this sample.)
func (w *world) newMgr(name string) *mgr {
	h, err := wt.VerifNewCertManager(w.key, clock.New())
	if err != nil {
		w.rt.Fatalf("%s: newCertManager at %s: %v", name, time.Now().UTC().Format(time.RFC3339Nano), err)
	}
	m := &mgr{name: name, h: h, created: time.Now(), probe: name == "probe"}
	w.open = append(w.open, m)
	if name == "A" {
		w.a = m
	}
	w.sample(m, "right after creation")
	return m
}

func (w *world) closeMgr(m *mgr) {
	m.h.Close()
	for i, o := range w.open {
		if o == m {
			w.open = append(w.open[:i], w.open[i+1:]...)
			break
		}
	}
}

func (w *world) closeAll() {
	for _, m := range w.open {
		m.h.Close()
	}
	w.open = nil
}

func ts(t time.Time) string { return t.UTC().Format("2006-01-02T15:04:05.000000000Z") }

// served returns the bytes a TLS handshake would present right now, parsed.
func (w *world) served(m *mgr) ([]byte, *x509.Certificate, crypto.PrivateKey) {
	conf := m.h.GetConfig()
	if conf == nil || len(conf.Certificates) == 0 || len(conf.Certificates[0].Certificate) == 0 {
		w.rt.Fatalf("%s at %s: GetConfig() offers no certificate", m.name, ts(time.Now()))
	}
	tc := conf.Certificates[0]
	raw := tc.Certificate[0]
	cert, err := x509.ParseCertificate(raw)
	if err != nil {
		w.rt.Fatalf("%s at %s: served certificate does not parse: %v", m.name, ts(time.Now()), err)
	}
	if tc.Leaf != nil && !bytes.Equal(tc.Leaf.Raw, raw) {
		w.rt.Fatalf("%s at %s: Certificates[0].Leaf is not the certificate that is served", m.name, ts(time.Now()))
	}
	return raw, cert, tc.PrivateKey
}

// sample judges manager m at the current (quiescent) instant.
func (w *world) sample(m *mgr, why string) {
	rt := w.rt
	now := time.Now()
	w.samples++
	raw, cert, priv := w.served(m)
	sum := sha256.Sum256(raw)
	at := fmt.Sprintf("%s at %s (%s)", m.name, ts(now), why)

	// served certificate: valid for at least the skew allowance on both sides, <= 14 days
	from, until := cert.NotBefore.Add(skew), cert.NotAfter.Add(-skew)
	if now.Before(from) {
		rt.Fatalf("%s: served certificate [%s, %s] has been valid for only %v (< clock-skew allowance %v)", at, ts(cert.NotBefore), ts(cert.NotAfter), now.Sub(cert.NotBefore), skew)
	}
	if now.After(until) {
		rt.Fatalf("%s: served certificate [%s, %s] stays valid for only %v (< clock-skew allowance %v)", at, ts(cert.NotBefore), ts(cert.NotAfter), cert.NotAfter.Sub(now), skew)
	}
	if l := cert.NotAfter.Sub(cert.NotBefore); l > maxLifetime {
		rt.Fatalf("%s: served certificate lifetime %v exceeds 14 days", at, l)
	}
	if s, ok := priv.(crypto.Signer); !ok {
		rt.Fatalf("%s: served certificate comes without a signing key (%T)", at, priv)
	} else if pk, ok := cert.PublicKey.(interface{ Equal(crypto.PublicKey) bool }); !ok || !pk.Equal(s.Public()) {
		rt.Fatalf("%s: private key of the TLS config does not belong to the served certificate", at)
	}
	for _, b := range []time.Time{from, until} {
		if d := now.Sub(b); d >= -time.Millisecond && d <= time.Millisecond {
			w.nearBoundary = true
			if d == 0 {
				w.exactRot++
			}
		}
	}

	if m.probe {
		ser := decodeSerialized(rt, at, m.h.SerializedCertHashes())
		addr := decodeAddr(rt, at, m.h.AddrComponent())
		if !ser.hasSHA256(sum) || !addr.hasSHA256(sum) {
			rt.Fatalf("%s: advertisements %v / %v lack the hash %x of the served certificate", at, ser, addr, sum[:6])
		}
		return
	}

	// period bookkeeping: A runs without interruption and is sampled at every rotation
	// instant, so the sequence of its distinct leaves is the sequence of periods.
	if m == w.a {
		if len(w.periods) == 0 || w.periods[len(w.periods)-1].sum != sum {
			if len(w.periods) > 0 {
				w.rollovers++
			}
			w.periods = append(w.periods, &periodRec{idx: len(w.periods), raw: raw, sum: sum, nb: cert.NotBefore, na: cert.NotAfter})
		}
	}
	cur := w.periods[len(w.periods)-1]
	// determinism / restart equivalence: same key, same instant => same bytes as the long-running manager
	if !bytes.Equal(raw, cur.raw) {
		rt.Fatalf("%s (created %s): serves [%s, %s] sha256=%x, but the long-running manager with the same key serves [%s, %s] sha256=%x at this instant",
			at, ts(m.created), ts(cert.NotBefore), ts(cert.NotAfter), sum[:6], ts(cur.nb), ts(cur.na), cur.sum[:6])
	}
	if m.lastSum != sum && m.lastSum != ([32]byte{}) {
		m.rolled = true
	}
	m.lastSum = sum

	// advertisements contain the served hash
	ser := decodeSerialized(rt, at, m.h.SerializedCertHashes())
	addr := decodeAddr(rt, at, m.h.AddrComponent())
	if !ser.hasSHA256(sum) {
		rt.Fatalf("%s: SerializedCertHashes() %v lacks the sha2-256 hash %x of the served certificate", at, ser, sum[:6])
	}
	if !addr.hasSHA256(sum) {
		rt.Fatalf("%s: AddrComponent() %v lacks the sha2-256 hash %x of the served certificate", at, addr, sum[:6])
	}
	w.record(&advert{idx: cur.idx, at: now, who: m.name, kind: "addr", hs: addr})
	w.record(&advert{idx: cur.idx, at: now, who: m.name, kind: "serialized", hs: ser})

	// every advertisement of this and of the previous period verifies the served leaf NOW
	for _, ad := range w.adverts {
		if ad.idx != cur.idx && ad.idx != cur.idx-1 {
			continue
		}
		if err := wt.VerifVerifyRawCerts([][]byte{raw}, []multihash.DecodedMultihash(ad.hs)); err != nil {
			what := "the same"
			if ad.idx != cur.idx {
				what = "the previous"
			}
			rt.Fatalf("%s: the %s advertisement %v taken from %s at %s in %s certificate period does not verify the certificate served now [%s, %s] sha256=%x: %v",
				at, ad.kind, ad.hs, ad.who, ts(ad.at), what, ts(cert.NotBefore), ts(cert.NotAfter), sum[:6], err)
		}
		// informational: would a dialer that learnt this address get every hash confirmed by m now?
		if ad.kind == "addr" {
			w.confirmChecked++
			if !ser.superset(ad.hs) {
				w.confirmMissing++
				if m.rolled {
					w.label("confirm-missing-without-restart")
				}
			}
		}
	}
}

func (w *world) record(ad *advert) {
	k := fmt.Sprintf("%d/%s/%s", ad.idx, ad.kind, ad.hs.key())
	if _, ok := w.adverts[k]; !ok {
		w.adverts[k] = ad
	}
}

func (w *world) sampleAll(why string) {
	synctest.Wait()
	w.sample(w.a, why)
	if w.b != nil {
		w.sample(w.b, why)
	}
}

// nextRotation is the instant at which the statement forces a rotation: the served
// certificate stops being valid-with-allowance at NotAfter-skew.
func (w *world) nextRotation() time.Time {
	return w.periods[len(w.periods)-1].na.Add(-skew)
}

// advanceTo moves the virtual clock to target, stopping (and sampling) at every
// rotation instant on the way so that no certificate period goes unobserved.
func (w *world) advanceTo(target time.Time, why string) {
	for {
		now := time.Now()
		if !target.After(now) {
			return
		}
		stop, reason := target, why
		if r := w.nextRotation(); r.After(now) && r.Before(target) {
			stop, reason = r, "rotation instant passed on the way"
		}
		time.Sleep(stop.Sub(now))
		w.sampleAll(reason)
	}
}

func TestTimeline(t *testing.T) {
	name := t.Name()
	hx.Check(t, 16000, 400000, 0, func(rt *rapid.T) {
		spec := drawTimeline(rt)
		w := &world{rt: rt, adverts: map[string]*advert{}, labels: map[string]bool{}}
		var offCls string
		hx.Bubble(t, rt, func() {
			defer w.closeAll()
			w.key = spec.Key.key()
			offCls = offsetClass(w.key)
			if spec.ShiftDay > 0 {
				time.Sleep(time.Duration(spec.ShiftDay) * 24 * time.Hour)
			}
			t0 := time.Now()
			// Learn where this key's rotation boundaries are from a throw-away manager.
			probe := w.newMgr("probe")
			_, pc, _ := w.served(probe)
			w.closeMgr(probe)
			r1 := pc.NotAfter.Add(-skew)
			start := r1.Add(time.Duration(spec.J) * period).Add(spec.Start.D)
			for start.Before(t0) {
				start = start.Add(period)
			}
			time.Sleep(start.Sub(t0))

			w.newMgr("A")
			if spec.BAtStart {
				w.b = w.newMgr("B0")
			}
			w.sampleAll("start")

			for i, st := range spec.Steps {
				now := time.Now()
				target := now
				switch st.Move {
				case "rot":
					target = w.nextRotation().Add(st.Delta.D)
				case "frac":
					if r := w.nextRotation(); r.After(now) {
						target = now.Add(time.Duration(int64(r.Sub(now)) / 1000 * int64(st.Frac)))
					}
				case "jump":
					target = now.Add(st.Jump)
				}
				if target.Before(now) {
					target = now
				}
				why := fmt.Sprintf("step %d %s", i, st.class())
				if target.After(now) {
					w.advanceTo(target, why)
				} else {
					w.sampleAll(why)
				}
				switch st.Act {
				case "restart":
					if w.b != nil {
						w.closeMgr(w.b)
					}
					w.restarts++
					w.b = w.newMgr(fmt.Sprintf("B%d", w.restarts))
					w.sampleAll(why + " after restart")
					w.afterRestart = true
				case "close":
					if w.b != nil {
						w.closeMgr(w.b)
						w.b = nil
					}
				case "twin":
					w.twins++
					tw := w.newMgr(fmt.Sprintf("twin%d", w.twins))
					synctest.Wait()
					w.sample(tw, why+" twin")
					w.closeMgr(tw)
				}
			}
			if spec.Epilogue {
				w.advanceTo(w.nextRotation(), "epilogue: next rotation instant")
			}
		})

		// evidence
		var cls []string
		for _, st := range spec.Steps {
			cls = append(cls, st.class())
		}
		nontrivial := w.nearBoundary || w.afterRestart
		fp := fmt.Sprintf("%s|%s|%d|%s|%v|%s|%v|r%d", spec.Key.Kind, offCls, spec.J, spec.Start.Class, spec.BAtStart, strings.Join(cls, ","), spec.Epilogue, w.rollovers)
		labels := []string{"key=" + spec.Key.Kind, offCls, "start=" + spec.Start.Class, fmt.Sprintf("rollovers=%d", min(w.rollovers, 7)),
			fmt.Sprintf("restarts=%d", min(w.restarts, 4))}
		if w.nearBoundary {
			labels = append(labels, "sample-within-1ms-of-boundary")
		}
		if w.exactRot > 0 {
			labels = append(labels, "sample-exactly-at-boundary")
		}
		if w.afterRestart {
			labels = append(labels, "sample-after-restart")
		}
		if w.twins > 0 {
			labels = append(labels, "twin")
		}
		if spec.ShiftDay > 0 {
			labels = append(labels, "shifted-epoch")
		}
		if w.confirmMissing > 0 {
			labels = append(labels, "note:restarted-server-cannot-confirm-previous-period-address")
		}
		for l := range w.labels {
			labels = append(labels, l)
		}
		sort.Strings(labels)
		stats.Case(name, fp, nontrivial, labels...)
		if stats.WantSample(name) {
			stats.Sample(name, map[string]any{"spec": spec, "rollovers": w.rollovers, "samples": w.samples, "periods": len(w.periods), "offset": offCls})
		}
	})
}
