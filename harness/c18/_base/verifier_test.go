package c18

import (
	"crypto"
	"crypto/ecdsa"
	"crypto/ed25519"
	"crypto/elliptic"
	"crypto/rand"
	"crypto/rsa"
	"crypto/sha256"
	"crypto/sha3"
	"crypto/sha512"
	"crypto/tls"
	"crypto/x509"
	"crypto/x509/pkix"
	"fmt"
	"math/big"
	"net"
	"strings"
	"sync"
	"testing"
	"testing/synctest"
	"time"

	"filippo.io/keygen"
	ic "github.com/libp2p/go-libp2p/core/crypto"
	wt "github.com/libp2p/go-libp2p/p2p/transport/webtransport"
	"github.com/multiformats/go-multihash"
	"pgregory.net/rapid"

	"verif/internal/hx"
	"verif/internal/keys"
	"verif/internal/kf"
	"verif/internal/stats"
)

// ---------------------------------------------------------------------------
// harness-made certificates

type signerPool struct {
	once    sync.Once
	p256    *ecdsa.PrivateKey
	p384    *ecdsa.PrivateKey
	ed      ed25519.PrivateKey
	rsa     *rsa.PrivateKey
	caEC    *x509.Certificate // ECDSA CA (self-signed, 10 years around 2000..2060)
	caRSA   *x509.Certificate
	caECKey *ecdsa.PrivateKey
}

var pool signerPool

func (p *signerPool) init() {
	p.once.Do(func() {
		var err error
		b := make([]byte, 64)
		keys.Reader("c18/verifier/p256").Read(b)
		if p.p256, err = keygen.ECDSA(elliptic.P256(), b[:32]); err != nil {
			panic(err)
		}
		keys.Reader("c18/verifier/p384").Read(b)
		if p.p384, err = keygen.ECDSA(elliptic.P384(), b[:48]); err != nil {
			panic(err)
		}
		keys.Reader("c18/verifier/ca").Read(b)
		if p.caECKey, err = keygen.ECDSA(elliptic.P256(), b[:32]); err != nil {
			panic(err)
		}
		keys.Reader("c18/verifier/ed").Read(b)
		p.ed = ed25519.NewKeyFromSeed(b[:32])
		std, err := ic.PrivKeyToStdKey(keys.Get("rsa", 0).Priv)
		if err != nil {
			panic(err)
		}
		p.rsa = std.(*rsa.PrivateKey)
		ca := func(pub crypto.PublicKey, priv crypto.Signer) *x509.Certificate {
			tmpl := &x509.Certificate{SerialNumber: big.NewInt(1), Subject: pkix.Name{CommonName: "ca"},
				NotBefore: time.Date(1999, 1, 1, 0, 0, 0, 0, time.UTC), NotAfter: time.Date(2099, 1, 1, 0, 0, 0, 0, time.UTC),
				IsCA: true, BasicConstraintsValid: true, KeyUsage: x509.KeyUsageCertSign}
			der, err := x509.CreateCertificate(rand.Reader, tmpl, tmpl, pub, priv)
			if err != nil {
				panic(err)
			}
			c, err := x509.ParseCertificate(der)
			if err != nil {
				panic(err)
			}
			return c
		}
		p.caEC = ca(p.caECKey.Public(), p.caECKey)
		p.caRSA = ca(p.rsa.Public(), p.rsa)
	})
}

// signer kinds. "mgr" = the package's own generator (VerifGenerateCert) with arbitrary
// start/end; the rest are made here.
var goodSigners = []string{"mgr", "mgr", "mgr", "ecdsa-p256", "ecdsa-p256", "ecdsa-p384", "ed25519"}
var badSigners = []string{
	"rsa-pkcs1-sha256", "rsa-pkcs1-sha384", "rsa-pkcs1-sha512", "rsa-pss-sha256", "rsa-pss-sha384", "rsa-pss-sha512",
	"rsakey-ecdsa-issuer", "eckey-rsa-issuer", "garbage",
}

type certSpec struct {
	Signer string `json:"signer"`
	Seed   int    `json:"seed"`
	// NotBefore = (whole second of the verification instant) + NBOff ; NotAfter = NotBefore + Life
	NBOff     time.Duration `json:"nb_off"`
	Life      time.Duration `json:"life"`
	LifeClass string        `json:"life_class"`
	ValClass  string        `json:"val_class"`
}

type lifeClass struct {
	name string
	d    time.Duration
}

var goodLives = []lifeClass{
	{"14d", maxLifetime}, {"14d-1s", maxLifetime - time.Second}, {"13d", 13 * 24 * time.Hour}, {"1d", 24 * time.Hour}, {"1h", time.Hour}, {"1s", time.Second},
}
var badLives = []lifeClass{
	{"14d+1s", maxLifetime + time.Second}, {"14d+1h", maxLifetime + time.Hour}, {"15d", 15 * 24 * time.Hour}, {"28d", 28 * 24 * time.Hour}, {"365d", 365 * 24 * time.Hour},
}

// faults says which conjuncts of the predicate the generator INTENDS to break for this
// certificate (construction instead of rejection). The oracle never looks at it: the
// verdict is recomputed from the DER bytes, the hash list and the clock.
type faults struct{ signer, life, validity bool }

func drawCertSpec(rt *rapid.T, label string, f faults) certSpec {
	var c certSpec
	if f.signer {
		c.Signer = rapid.SampledFrom(badSigners).Draw(rt, label+"Signer")
	} else {
		c.Signer = rapid.SampledFrom(goodSigners).Draw(rt, label+"Signer")
	}
	c.Seed = rapid.IntRange(0, 1<<16).Draw(rt, label+"Seed")
	lc := goodLives
	if f.life {
		lc = badLives
	}
	l := lc[rapid.IntRange(0, len(lc)-1).Draw(rt, label+"Life")]
	c.Life, c.LifeClass = l.d, l.name
	sec := time.Second
	if !f.validity {
		switch rapid.IntRange(0, 5).Draw(rt, label+"Val") {
		case 0, 1, 2:
			// interior: NotBefore strictly before, NotAfter strictly after (needs a lifetime >= 2s)
			c.ValClass = "valid"
			if c.Life < 2*sec {
				c.ValClass, c.NBOff = "valid-nb-edge", 0 // 1s lifetime: [now, now+1s]
			} else {
				c.NBOff = -time.Duration(rapid.Int64Range(1, int64(c.Life/sec)-1).Draw(rt, label+"Age")) * sec
			}
		case 3:
			c.ValClass, c.NBOff = "valid-nb-edge", 0 // NotBefore == whole second of now
		case 4:
			c.ValClass, c.NBOff = "valid-na-1s", -c.Life+sec // expires within the second after now's whole second
		case 5:
			c.ValClass, c.NBOff = "na-edge", -c.Life // NotAfter == whole second of now: valid iff now has no sub-second part
		}
		return c
	}
	switch rapid.IntRange(0, 6).Draw(rt, label+"Val") {
	case 0:
		c.ValClass, c.NBOff = "future+1s", sec
	case 1:
		c.ValClass, c.NBOff = "future", time.Duration(rapid.Int64Range(2, 40*86400).Draw(rt, label+"Future"))*sec
	case 2:
		c.ValClass, c.NBOff = "expired-1s", -c.Life-sec
	case 3:
		c.ValClass, c.NBOff = "expired", -c.Life-time.Duration(rapid.Int64Range(2, 40*86400).Draw(rt, label+"Expired"))*sec
	case 4:
		c.ValClass, c.NBOff = "future+skew", skew
	case 5:
		c.ValClass, c.NBOff = "expired-skew", -c.Life-skew
	case 6:
		c.ValClass, c.NBOff = "na-edge", -c.Life
	}
	return c
}

// drawFaults picks how many conjuncts to break: none 25 %, exactly one 45 %, several 30 %.
func drawFaults(rt *rapid.T, label string) (f faults, hash bool) {
	set := func(i int) {
		switch i {
		case 0:
			hash = true
		case 1:
			f.signer = true
		case 2:
			f.life = true
		case 3:
			f.validity = true
		}
	}
	switch k := rapid.IntRange(0, 19).Draw(rt, label+"FaultCount"); {
	case k < 5:
	case k < 14:
		set(rapid.IntRange(0, 3).Draw(rt, label+"Fault"))
	default:
		mask := rapid.IntRange(0, 15).Draw(rt, label+"FaultMask")
		for i := 0; i < 4; i++ {
			if mask&(1<<i) != 0 {
				set(i)
			}
		}
	}
	return
}

// make builds the DER bytes. tvs is the verification instant truncated to the second.
func (c certSpec) make(tvs time.Time) []byte {
	pool.init()
	nb := tvs.Add(c.NBOff)
	na := nb.Add(c.Life)
	tmpl := &x509.Certificate{SerialNumber: big.NewInt(int64(c.Seed) + 2), Subject: pkix.Name{}, NotBefore: nb, NotAfter: na,
		KeyUsage: x509.KeyUsageDigitalSignature, ExtKeyUsage: []x509.ExtKeyUsage{x509.ExtKeyUsageServerAuth}}
	self := func(alg x509.SignatureAlgorithm, priv crypto.Signer) []byte {
		tmpl.SignatureAlgorithm = alg
		der, err := x509.CreateCertificate(rand.Reader, tmpl, tmpl, priv.Public(), priv)
		if err != nil {
			panic(fmt.Sprintf("CreateCertificate(%s): %v", c.Signer, err))
		}
		return der
	}
	switch c.Signer {
	case "mgr":
		k, _, err := ic.GenerateEd25519Key(keys.Reader(fmt.Sprintf("c18/verifier/host/%d", c.Seed%64)))
		if err != nil {
			panic(err)
		}
		cert, err := wt.VerifGenerateCert(k, nb, na)
		if err != nil {
			panic(fmt.Sprintf("generateCert: %v", err))
		}
		return cert.Raw
	case "ecdsa-p256":
		return self(x509.ECDSAWithSHA256, pool.p256)
	case "ecdsa-p384":
		return self(x509.ECDSAWithSHA384, pool.p384)
	case "ed25519":
		return self(x509.PureEd25519, pool.ed)
	case "rsa-pkcs1-sha256":
		return self(x509.SHA256WithRSA, pool.rsa)
	case "rsa-pkcs1-sha384":
		return self(x509.SHA384WithRSA, pool.rsa)
	case "rsa-pkcs1-sha512":
		return self(x509.SHA512WithRSA, pool.rsa)
	case "rsa-pss-sha256":
		return self(x509.SHA256WithRSAPSS, pool.rsa)
	case "rsa-pss-sha384":
		return self(x509.SHA384WithRSAPSS, pool.rsa)
	case "rsa-pss-sha512":
		return self(x509.SHA512WithRSAPSS, pool.rsa)
	case "rsakey-ecdsa-issuer":
		der, err := x509.CreateCertificate(rand.Reader, tmpl, pool.caEC, pool.rsa.Public(), pool.caECKey)
		if err != nil {
			panic(err)
		}
		return der
	case "eckey-rsa-issuer":
		tmpl.SignatureAlgorithm = x509.SHA256WithRSA
		der, err := x509.CreateCertificate(rand.Reader, tmpl, pool.caRSA, pool.p256.Public(), pool.rsa)
		if err != nil {
			panic(err)
		}
		return der
	case "garbage":
		b := make([]byte, 40+c.Seed%200)
		keys.Reader(fmt.Sprintf("c18/verifier/garbage/%d", c.Seed)).Read(b)
		return b
	}
	panic("unknown signer " + c.Signer)
}

// ---------------------------------------------------------------------------
// hash lists

// distractors never equal the sha2-256 multihash of c0 (except "sha256(c1)" when the chain repeats c0)
var distractors = []string{
	"wrong", "bitflip", "truncated", "extended", "sha256(c1)",
	"c0-digest-as-sha3-256", "c0-digest-as-blake2s-256", "c0-digest-as-identity", "c0-digest-as-dbl-sha2-256", "c0-digest-as-keccak-256", "c0-digest-as-sha2-512",
	"sha2-512(c0)", "sha3-256(c0)", "sha2-256-trunc-of-sha512(c0)",
}

func mkHash(rt *rapid.T, kind string, seed int, chain [][]byte) (multihash.DecodedMultihash, bool) {
	var c0, c1 []byte
	if len(chain) > 0 {
		c0 = chain[0]
		c1 = chain[len(chain)-1]
	}
	s0 := sha256.Sum256(c0)
	enc := func(d []byte, code uint64) (multihash.DecodedMultihash, bool) {
		b, err := multihash.Encode(d, code)
		if err != nil {
			rt.Fatalf("harness: multihash.Encode(%x, %#x): %v", d, code, err)
		}
		dh, err := multihash.Decode(b)
		if err != nil {
			rt.Fatalf("harness: multihash.Decode: %v", err)
		}
		return *dh, true
	}
	switch kind {
	case "sha256(c0)":
		return enc(s0[:], multihash.SHA2_256)
	case "sha256(c1)":
		if len(chain) < 2 {
			c1 = append(append([]byte(nil), c0...), 0) // no second certificate: some other blob
		}
		s := sha256.Sum256(c1)
		return enc(s[:], multihash.SHA2_256)
	case "wrong":
		d := make([]byte, 32)
		keys.Reader(fmt.Sprintf("c18/verifier/wrong/%d", seed)).Read(d)
		return enc(d, multihash.SHA2_256)
	case "bitflip":
		d := append([]byte(nil), s0[:]...)
		d[seed%32] ^= 1 << (seed / 32 % 8)
		return enc(d, multihash.SHA2_256)
	case "truncated":
		return enc(s0[:31], multihash.SHA2_256)
	case "extended":
		return enc(append(append([]byte(nil), s0[:]...), 0), multihash.SHA2_256)
	case "c0-digest-as-sha3-256":
		return enc(s0[:], multihash.SHA3_256)
	case "c0-digest-as-blake2s-256":
		return enc(s0[:], multihash.BLAKE2S_MAX)
	case "c0-digest-as-identity":
		return enc(s0[:], multihash.IDENTITY)
	case "c0-digest-as-dbl-sha2-256":
		return enc(s0[:], multihash.DBL_SHA2_256)
	case "c0-digest-as-keccak-256":
		return enc(s0[:], multihash.KECCAK_256)
	case "c0-digest-as-sha2-512":
		return enc(s0[:], multihash.SHA2_512)
	case "sha2-512(c0)":
		s := sha512.Sum512(c0)
		return enc(s[:], multihash.SHA2_512)
	case "sha3-256(c0)":
		s := sha3.Sum256(c0)
		return enc(s[:], multihash.SHA3_256)
	case "sha2-256-trunc-of-sha512(c0)":
		s := sha512.Sum512(c0)
		return enc(s[:32], multihash.SHA2_256)
	}
	panic("unknown hash kind " + kind)
}

// ---------------------------------------------------------------------------
// reference predicate (from the statement)

type verdictParts struct {
	parses  bool
	member  bool
	rsa     bool // RSA public key, or signed with any RSA signature algorithm (PKCS#1 v1.5 or PSS)
	lifeOK  bool
	validAt bool
}

func isRSASig(a x509.SignatureAlgorithm) bool {
	switch a {
	case x509.MD2WithRSA, x509.MD5WithRSA, x509.SHA1WithRSA, x509.SHA256WithRSA, x509.SHA384WithRSA, x509.SHA512WithRSA,
		x509.SHA256WithRSAPSS, x509.SHA384WithRSAPSS, x509.SHA512WithRSAPSS:
		return true
	}
	return false
}

// judge evaluates the conjuncts of the statement for the server certificate der.
func judge(der []byte, hashes []multihash.DecodedMultihash, now time.Time) verdictParts {
	var v verdictParts
	sum := sha256.Sum256(der)
	v.member = hashSet(hashes).hasSHA256(sum)
	cert, err := x509.ParseCertificate(der)
	if err != nil {
		return v
	}
	v.parses = true
	v.rsa = cert.PublicKeyAlgorithm == x509.RSA || isRSASig(cert.SignatureAlgorithm)
	v.lifeOK = cert.NotAfter.Sub(cert.NotBefore) <= maxLifetime
	v.validAt = !now.Before(cert.NotBefore) && !now.After(cert.NotAfter)
	return v
}

func (v verdictParts) failing() []string {
	var f []string
	if !v.member {
		f = append(f, "hash-not-listed")
	}
	if !v.parses {
		return append(f, "unparsable")
	}
	if v.rsa {
		f = append(f, "rsa")
	}
	if !v.lifeOK {
		f = append(f, "too-long-lived")
	}
	if !v.validAt {
		f = append(f, "not-currently-valid")
	}
	return f
}

// accept is the reference predicate of the statement.
func (v verdictParts) accept() bool { return len(v.failing()) == 0 }

func TestVerifier(t *testing.T) {
	name := t.Name()
	hx.Check(t, 40000, 1000000, 0, func(rt *rapid.T) {
		// verification instant: 2000-01-01 + days + seconds + sub-second part
		days := rapid.IntRange(0, 400).Draw(rt, "days")
		secs := rapid.IntRange(0, 86399).Draw(rt, "secs")
		sub := rapid.SampledFrom([]time.Duration{0, 0, 1, time.Millisecond, 500 * time.Millisecond, time.Second - 1}).Draw(rt, "subsec")
		nchain := rapid.SampledFrom([]int{1, 1, 1, 1, 1, 1, 2, 2, 2, 0}).Draw(rt, "chainLen")
		f0, hashFault := drawFaults(rt, "c0")
		var specs []certSpec
		if nchain >= 1 {
			specs = append(specs, drawCertSpec(rt, "c0", f0))
		}
		if nchain == 2 {
			if rapid.IntRange(0, 3).Draw(rt, "sameTwice") == 0 {
				specs = append(specs, specs[0])
			} else {
				f1, _ := drawFaults(rt, "c1")
				specs = append(specs, drawCertSpec(rt, "c1", f1))
			}
		}
		type hk struct {
			Kind string
			Seed int
		}
		var hks []hk
		nd := rapid.SampledFrom([]int{0, 0, 1, 1, 2}).Draw(rt, "nDistractors")
		if hashFault && nd == 0 && rapid.Bool().Draw(rt, "someDistractor") {
			nd = 1 // an empty list is one way of not listing the hash, a wrong entry the other
		}
		for i := 0; i < nd; i++ {
			hks = append(hks, hk{rapid.SampledFrom(distractors).Draw(rt, "hashKind"), rapid.IntRange(0, 255).Draw(rt, "hashSeed")})
		}
		if !hashFault {
			at := rapid.IntRange(0, len(hks)).Draw(rt, "rightHashAt")
			hks = append(hks[:at], append([]hk{{"sha256(c0)", 0}}, hks[at:]...)...)
		}
		nh := len(hks)

		var (
			got        error
			parts      verdictParts
			hashStr    []string
			lastAccept bool
		)
		hx.Bubble(t, rt, func() {
			base := time.Now() // 2000-01-01T00:00:00Z
			tvs := base.Add(time.Duration(days)*24*time.Hour + time.Duration(secs)*time.Second)
			var chain [][]byte
			for _, s := range specs {
				chain = append(chain, s.make(tvs))
			}
			var hashes []multihash.DecodedMultihash
			for _, h := range hks {
				dh, _ := mkHash(rt, h.Kind, h.Seed, chain)
				hashes = append(hashes, dh)
				hashStr = append(hashStr, h.Kind)
			}
			time.Sleep(tvs.Add(sub).Sub(base))
			now := time.Now()
			got = wt.VerifVerifyRawCerts(chain, hashes)
			accepted := got == nil
			if len(chain) == 0 {
				if accepted {
					rt.Fatalf("empty chain accepted (hashes %v)", hashStr)
				}
				return
			}
			parts = judge(chain[0], hashes, now)
			lastAccept = judge(chain[len(chain)-1], hashes, now).accept()
			desc := func() string {
				return fmt.Sprintf("now=%s chain=%+v hashes=%v server-cert conjuncts: failing=%v", ts(now), specs, hashStr, parts.failing())
			}
			if accepted && !parts.accept() {
				rt.Fatalf("verifier ACCEPTED a server certificate the statement forbids: %s", desc())
			}
			if !accepted && parts.accept() {
				rt.Fatalf("verifier REJECTED (%v) a server certificate that is listed, not RSA, <= 14 d and currently valid: %s", got, desc())
			}
		})

		labels := []string{fmt.Sprintf("chain=%d", nchain), fmt.Sprintf("hashes=%d", nh)}
		fpParts := []string{fmt.Sprint(nchain), fmt.Sprint(sub), strings.Join(hashStr, "+")}
		nontrivial := false
		if nchain > 0 {
			f := parts.failing()
			nontrivial = len(f) <= 1
			labels = append(labels, "signer="+specs[0].Signer, "life="+specs[0].LifeClass, "val="+specs[0].ValClass, fmt.Sprintf("failing-conjuncts=%d", len(f)))
			if len(f) == 1 {
				labels = append(labels, "only:"+f[0])
			}
			if got == nil {
				labels = append(labels, "accepted")
			} else {
				labels = append(labels, "rejected")
			}
			if nchain == 2 {
				// is the verdict decided by the FIRST certificate although the last one would decide otherwise?
				if lastAccept != parts.accept() {
					labels = append(labels, "chain2-first-and-last-cert-disagree")
				}
			}
			if specs[0].ValClass == "na-edge" {
				labels = append(labels, fmt.Sprintf("na-edge-subsec0=%v", sub == 0))
			}
			for _, s := range specs {
				fpParts = append(fpParts, s.Signer, s.LifeClass, s.ValClass)
			}
		}
		for _, h := range hashStr {
			labels = append(labels, "hash:"+h)
		}
		stats.Case(name, strings.Join(fpParts, "|"), nontrivial, labels...)
		if stats.WantSample(name) {
			stats.Sample(name, map[string]any{"days": days, "secs": secs, "subsec_ns": int64(sub), "chain": specs, "hashes": hks, "accepted": got == nil, "failing": parts.failing()})
		}
	})
}

// ---------------------------------------------------------------------------
// witnesses of the two defects found by this check (repaired in /repo; kept as regression tests)

// TestWitness_chain_last_cert: verifyRawCerts pins rawCerts[len-1], but crypto/tls
// authenticates the handshake with rawCerts[0]. A server that owns ANY key pair can
// prepend its own certificate (here: RSA, valid for ten years, hash not in the address)
// to the genuine pinned certificate; the verifier accepts and the TLS handshake
// completes with the un-pinned certificate as the peer's leaf.
func TestWitness_chain_last_cert(t *testing.T) {
	hx.Shard0(t)
	kf.Witness(t, kfChainLast, func() (violated bool, detail string) {
		synctest.Test(t, func(t *testing.T) {
			pool.init()
			now := time.Now()
			host, _, err := ic.GenerateEd25519Key(keys.Reader("c18/witness/host"))
			if err != nil {
				t.Fatal(err)
			}
			genuine, err := wt.VerifGenerateCert(host, now.Add(-24*time.Hour), now.Add(-24*time.Hour).Add(validity))
			if err != nil {
				t.Fatal(err)
			}
			tmpl := &x509.Certificate{SerialNumber: big.NewInt(7), NotBefore: now.Add(-time.Hour), NotAfter: now.Add(10 * 365 * 24 * time.Hour),
				KeyUsage: x509.KeyUsageDigitalSignature, ExtKeyUsage: []x509.ExtKeyUsage{x509.ExtKeyUsageServerAuth}, SignatureAlgorithm: x509.SHA256WithRSA}
			attackerDER, err := x509.CreateCertificate(rand.Reader, tmpl, tmpl, pool.rsa.Public(), pool.rsa)
			if err != nil {
				t.Fatal(err)
			}
			sum := sha256.Sum256(genuine.Raw)
			mh, _ := multihash.Encode(sum[:], multihash.SHA2_256)
			dh, _ := multihash.Decode(mh)
			pinned := []multihash.DecodedMultihash{*dh}

			if err := wt.VerifVerifyRawCerts([][]byte{attackerDER}, pinned); err == nil {
				t.Fatal("control failed: the attacker's certificate alone is accepted")
			}
			if err := wt.VerifVerifyRawCerts([][]byte{attackerDER, genuine.Raw}, pinned); err != nil {
				return // chain rejected: no defect
			}
			// the same through crypto/tls, configured the way transport.dial configures it
			cEnd, sEnd := net.Pipe()
			defer cEnd.Close()
			defer sEnd.Close()
			srv := tls.Server(sEnd, &tls.Config{
				Certificates: []tls.Certificate{{Certificate: [][]byte{attackerDER, genuine.Raw}, PrivateKey: pool.rsa}},
				NextProtos:   []string{"h3"},
			})
			cli := tls.Client(cEnd, &tls.Config{
				InsecureSkipVerify: true,
				NextProtos:         []string{"h3"},
				VerifyPeerCertificate: func(rawCerts [][]byte, _ [][]*x509.Certificate) error {
					return wt.VerifVerifyRawCerts(rawCerts, pinned)
				},
			})
			errc := make(chan error, 1)
			go func() { errc <- srv.Handshake() }()
			cerr := cli.Handshake()
			serr := <-errc
			if cerr != nil || serr != nil {
				violated = true
				detail = fmt.Sprintf("verifyRawCerts accepts the chain [attacker RSA 10-year cert, pinned cert] although SHA-256(server certificate) is not in the address (TLS handshake in this witness: client=%v server=%v)", cerr, serr)
				return
			}
			leaf := cli.ConnectionState().PeerCertificates[0]
			violated = true
			detail = fmt.Sprintf("dialer-side TLS handshake completed with a server certificate whose SHA-256 is not among the pinned hashes (pinned %x), that is %v-signed and valid for %v: "+
				"verifyRawCerts checks rawCerts[len-1] while TLS authenticates rawCerts[0]", sum[:8], leaf.SignatureAlgorithm, leaf.NotAfter.Sub(leaf.NotBefore))
		})
		return
	})
}

// TestWitness_rsa_pss: a self-signed RSA certificate signed with RSA-PSS is accepted;
// the RSA test in verifyRawCerts lists only the PKCS#1 v1.5 signature algorithms.
func TestWitness_rsa_pss(t *testing.T) {
	hx.Shard0(t)
	kf.Witness(t, kfRSAPSS, func() (violated bool, detail string) {
		synctest.Test(t, func(t *testing.T) {
			now := time.Now()
			var accepted []string
			for _, signer := range []string{"rsa-pss-sha256", "rsa-pss-sha384", "rsa-pss-sha512"} {
				der := certSpec{Signer: signer, NBOff: -time.Hour, Life: 24 * time.Hour}.make(now)
				sum := sha256.Sum256(der)
				mh, _ := multihash.Encode(sum[:], multihash.SHA2_256)
				dh, _ := multihash.Decode(mh)
				ctl := certSpec{Signer: strings.Replace(signer, "pss", "pkcs1", 1), NBOff: -time.Hour, Life: 24 * time.Hour}.make(now)
				csum := sha256.Sum256(ctl)
				cmh, _ := multihash.Encode(csum[:], multihash.SHA2_256)
				cdh, _ := multihash.Decode(cmh)
				if err := wt.VerifVerifyRawCerts([][]byte{ctl}, []multihash.DecodedMultihash{*cdh}); err == nil {
					t.Fatalf("control failed: PKCS#1 v1.5 RSA certificate accepted")
				}
				if err := wt.VerifVerifyRawCerts([][]byte{der}, []multihash.DecodedMultihash{*dh}); err == nil {
					accepted = append(accepted, signer)
				}
			}
			if len(accepted) > 0 {
				violated = true
				detail = fmt.Sprintf("verifyRawCerts accepts self-signed RSA-2048 certificates signed with RSA-PSS (%v): the 'not RSA' rule only matches PKCS#1 v1.5 signature algorithms", accepted)
			}
		})
		return
	})
}
