package c18

import (
	"bytes"
	"context"
	"crypto/sha256"
	"crypto/tls"
	"crypto/x509"
	"errors"
	"fmt"
	"net"
	"sort"
	"strings"
	"testing"
	"time"

	"github.com/benbjohnson/clock"
	"github.com/libp2p/go-libp2p/core/peer"
	tpt "github.com/libp2p/go-libp2p/core/transport"
	"github.com/libp2p/go-libp2p/p2p/security/noise"
	"github.com/libp2p/go-libp2p/p2p/security/noise/pb"
	wt "github.com/libp2p/go-libp2p/p2p/transport/webtransport"
	ma "github.com/multiformats/go-multiaddr"
	manet "github.com/multiformats/go-multiaddr/net"
	"github.com/multiformats/go-multihash"
	"github.com/quic-go/quic-go"
	"github.com/quic-go/webtransport-go"
	"pgregory.net/rapid"

	"verif/internal/hx"
	"verif/internal/keys"
	"verif/internal/stats"
)

// TestE2EDialledHashes: generated DIALLED ADDRESSES against a real listener (loopback UDP,
// the real transport.Dial: dial + upgrade). The statement quantifies over the hash list
// the dialer relies on ("hash absent, other hash function, ..."): the certhashes of the
// dialled address are a SEQUENCE of multihashes of arbitrary code, so the generated
// dimension is (multihash code, genuine/foreign digest, position) of every element:
//
//	served            sha2-256 of the certificate the listener serves
//	confirmed-other   the other hash the listener confirms (certificate served next)
//	bogus / bitflip   sha2-256 code, digest the server does not know
//	<digest>-as-<c>   the served / the other confirmed digest labelled with another code
//	<c>(leaf)         the genuine digest of the served certificate under another hash function
//	foreign-<c>       another hash function, digest of something else
//
// in every position (only / first / middle / last), incl. addresses without any sha2-256
// hash, without the served hash, with duplicates, and without certhash at all.
//
// Oracle (statement, both "only if"s): the dial may complete only if
//
//	(1) SHA-256(served certificate) is among the sha2-256 hashes of the dialled address, and
//	(2) EVERY certhash of the dialled address - whatever its code and position - is in the
//	    list the server confirms inside the authenticated handshake.
//
// What the server serves and confirms is OBSERVED, not assumed: a reference client made of
// quic-go + webtransport-go + the Noise transport (no code of the package under test)
// performs one handshake per listener and records rawCerts[0] of the TLS handshake and the
// WebtransportCerthashes of the server's Noise handshake payload. Control (keeps the
// verdicts from being vacuous): an address whose hashes are all confirmed and that holds
// the served hash must complete.
//
// Real time is used for I/O only; a dial that runs into its deadline is inconclusive.

// ---------------------------------------------------------------------------
// reference client: what does the listener serve and confirm?

type observation struct {
	leaf      []byte   // rawCerts[0] presented in the TLS handshake
	sum       [32]byte // its SHA-256
	confirmed hashSet  // certhashes in the Noise early data of the server (authenticated handshake payload)
}

type obsEarlyData struct{ got func(*pb.NoiseExtensions) }

func (o obsEarlyData) Send(context.Context, net.Conn, peer.ID) *pb.NoiseExtensions { return nil }
func (o obsEarlyData) Received(_ context.Context, _ net.Conn, ext *pb.NoiseExtensions) error {
	o.got(ext)
	return nil
}

type obsStream struct {
	*webtransport.Stream
	sess *webtransport.Session
}

func (s obsStream) LocalAddr() net.Addr  { return s.sess.LocalAddr() }
func (s obsStream) RemoteAddr() net.Addr { return s.sess.RemoteAddr() }

func observe(srv *e2eServer, keyIdx int) (observation, error) {
	var o observation
	ctx, cancel := context.WithTimeout(context.Background(), e2eDialTimeout)
	defer cancel()
	_, hostport, err := manet.DialArgs(srv.ln.Multiaddr())
	if err != nil {
		return o, fmt.Errorf("listen address %s: %w", srv.ln.Multiaddr(), err)
	}
	var qc *quic.Conn
	d := webtransport.Dialer{
		TLSClientConfig: &tls.Config{
			InsecureSkipVerify: true, // observation only: record what is presented
			NextProtos:         []string{"h3"},
			VerifyPeerCertificate: func(raw [][]byte, _ [][]*x509.Certificate) error {
				if len(raw) > 0 {
					o.leaf = append([]byte(nil), raw[0]...)
				}
				return nil
			},
		},
		DialAddr: func(ctx context.Context, addr string, tlsCfg *tls.Config, cfg *quic.Config) (*quic.Conn, error) {
			c, err := quic.DialAddrEarly(ctx, addr, tlsCfg, cfg)
			qc = c
			return c, err
		},
	}
	defer d.Close()
	defer func() {
		if qc != nil {
			qc.CloseWithError(0, "")
		}
	}()
	rsp, sess, err := d.Dial(ctx, fmt.Sprintf("https://%s/.well-known/libp2p-webtransport?type=noise", hostport), nil)
	if err != nil {
		return o, fmt.Errorf("webtransport dial: %w", err)
	}
	defer sess.CloseWithError(0, "")
	if rsp.StatusCode < 200 || rsp.StatusCode > 299 {
		return o, fmt.Errorf("webtransport dial: status %d", rsp.StatusCode)
	}
	str, err := sess.OpenStreamSync(ctx)
	if err != nil {
		return o, fmt.Errorf("open stream: %w", err)
	}
	defer str.Close()
	n, err := noise.New(noise.ID, keys.Ed(7900+keyIdx).Priv, nil)
	if err != nil {
		return o, err
	}
	var (
		seen bool
		raw  [][]byte
	)
	sn, err := n.WithSessionOptions(noise.EarlyData(obsEarlyData{func(ext *pb.NoiseExtensions) {
		seen = true
		if ext != nil {
			raw = ext.WebtransportCerthashes
		}
	}}, nil))
	if err != nil {
		return o, err
	}
	c, err := sn.SecureOutbound(ctx, obsStream{Stream: str, sess: sess}, srv.id)
	if err != nil {
		return o, fmt.Errorf("noise handshake: %w", err)
	}
	c.Close()
	if !seen {
		return o, errors.New("the server's Noise handshake payload carried no extensions")
	}
	if len(o.leaf) == 0 {
		return o, errors.New("no certificate seen in the TLS handshake")
	}
	o.sum = sha256.Sum256(o.leaf)
	for _, b := range raw {
		dh, err := multihash.Decode(b)
		if err != nil {
			return o, fmt.Errorf("server confirms an undecodable multihash %x: %w", b, err)
		}
		o.confirmed = append(o.confirmed, *dh)
	}
	return o, nil
}

func (o observation) equal(p observation) bool {
	return bytes.Equal(o.leaf, p.leaf) && o.confirmed.key() == p.confirmed.key()
}

// ---------------------------------------------------------------------------
// generated address

// Multihash codes other than sha2-256 (name for labels; natural digest length for foreign digests).
var otherCodes = []struct {
	Name string
	Code uint64
	Len  int // natural digest length (for foreign digests)
}{
	{"sha2-512", multihash.SHA2_512, 64},
	{"sha3-256", multihash.SHA3_256, 32},
	{"sha3-512", multihash.SHA3_512, 64},
	{"sha3-224", multihash.SHA3_224, 28},
	{"keccak-256", multihash.KECCAK_256, 32},
	{"keccak-224", multihash.KECCAK_224, 28},
	{"blake2b-256", multihash.BLAKE2B_MIN + 31, 32},
	{"blake2b-512", multihash.BLAKE2B_MAX, 64},
	{"blake2s-256", multihash.BLAKE2S_MAX, 32},
	{"blake3", multihash.BLAKE3, 32},
	{"sha1", multihash.SHA1, 20},
	{"md5", multihash.MD5, 16},
	{"dbl-sha2-256", multihash.DBL_SHA2_256, 32},
	{"identity", multihash.IDENTITY, 32},
	{"sha2-384", 0x20, 48},             // a code this multihash library has no name for
	{"private-0x300001", 0x300001, 32}, // private-use range, 4-byte varint
}

type elemSpec struct {
	Kind string `json:"kind"` // served | confirmed-other | bogus | bitflip | served-digest-as | other-digest-as | genuine | foreign
	Code int    `json:"code,omitempty"`
	Seed int    `json:"seed,omitempty"`
}

var confirmedKinds = []string{"served", "confirmed-other"}
var otherCodeKinds = []string{"served-digest-as", "other-digest-as", "genuine", "genuine", "foreign", "foreign"}
var sha256BadKinds = []string{"bogus", "bitflip"}

func drawOtherCodeElem(rt *rapid.T, label string) elemSpec {
	return elemSpec{Kind: rapid.SampledFrom(otherCodeKinds).Draw(rt, label+"Kind"),
		Code: rapid.IntRange(0, len(otherCodes)-1).Draw(rt, label+"Code"), Seed: rapid.IntRange(0, 255).Draw(rt, label+"Seed")}
}

func drawUnconfirmedElem(rt *rapid.T, label string) elemSpec {
	if rapid.IntRange(0, 3).Draw(rt, label+"Sha256") == 0 {
		return elemSpec{Kind: rapid.SampledFrom(sha256BadKinds).Draw(rt, label+"Kind"), Seed: rapid.IntRange(0, 255).Draw(rt, label+"Seed")}
	}
	return drawOtherCodeElem(rt, label)
}

func drawConfirmedElem(rt *rapid.T, label string) elemSpec {
	return elemSpec{Kind: rapid.SampledFrom(confirmedKinds).Draw(rt, label+"Kind")}
}

func drawAnyElem(rt *rapid.T, label string) elemSpec {
	switch rapid.IntRange(0, 3).Draw(rt, label+"Any") {
	case 0:
		return elemSpec{Kind: "served"}
	case 1:
		return elemSpec{Kind: "confirmed-other"}
	default:
		return drawUnconfirmedElem(rt, label)
	}
}

type dialAddrSpec struct {
	Server int        `json:"server"`
	Plan   string     `json:"plan"`
	Elems  []elemSpec `json:"elems"`
	Host   string     `json:"host"`           // ip | sni | dns | dns+sni: the name-carrying components of the dialled address
	Name   int        `json:"name,omitempty"` // index into hostNames
	Client string     `json:"client"`         // the dialling transport's own TLS client configuration (WithTLSClientConfig)
}

// Name-carrying components of the dialled address. The statement's "only if its SHA-256
// equals one of the hashes in the dialed address" quantifies over dialled addresses, and a
// webtransport address may name the server besides (or instead of) pinning it:
//
//	ip        /ip4/127.0.0.1/udp/P/quic-v1/webtransport[/certhash..]             (what a listener advertises)
//	sni       /ip4/127.0.0.1/udp/P/quic-v1/sni/<name>/webtransport[/certhash..]  (the shape transport.Resolve produces from a /dns address)
//	dns       /dns4/<name>/udp/P/quic-v1/webtransport[/certhash..]               (unresolved; the transport cannot reach it: only "must not complete" is judged)
//	dns+sni   /dns4/<name>/udp/P/quic-v1/sni/<name>/webtransport[/certhash..]    (ditto)
var hostWeights = []string{"sni", "sni", "sni", "sni", "sni", "ip", "ip", "ip", "ip", "ip", "dns", "dns+sni"}
var hostNames = []string{"localhost", "example.com", "node-7.libp2p.direct"}

// TLS client configurations of the dialling transport (WithTLSClientConfig). "Accepts" = the
// configuration on its own would let the listener's self-signed certificate through:
//
//	default            no WithTLSClientConfig (system roots: refuses)
//	skip-verify        InsecureSkipVerify (accepts)
//	custom-roots       chain verification against a private pool that holds the listeners' certificates, no name check (accepts)
//	verify-connection  InsecureSkipVerify + a VerifyConnection hook that returns nil (accepts)
//	strict-roots       RootCAs = that private pool, standard verification incl. the host name (refuses: the certificates carry no name)
//
// Whatever the configuration, the dial may complete only under the statement's two conditions.
var clientWeights = []string{"skip-verify", "skip-verify", "skip-verify", "default", "default", "default", "default", "custom-roots", "custom-roots", "verify-connection", "strict-roots"}

func clientAccepts(c string) bool {
	return c == "skip-verify" || c == "custom-roots" || c == "verify-connection"
}

func clientTLSConfig(class string, leaves [][]byte) (*tls.Config, error) {
	pool := x509.NewCertPool()
	for _, l := range leaves {
		c, err := x509.ParseCertificate(l)
		if err != nil {
			return nil, err
		}
		pool.AddCert(c)
	}
	switch class {
	case "default":
		return nil, nil
	case "skip-verify":
		return &tls.Config{InsecureSkipVerify: true}, nil
	case "verify-connection":
		return &tls.Config{InsecureSkipVerify: true, VerifyConnection: func(tls.ConnectionState) error { return nil }}, nil
	case "strict-roots":
		return &tls.Config{RootCAs: pool}, nil
	case "custom-roots":
		return &tls.Config{InsecureSkipVerify: true, VerifyPeerCertificate: func(raw [][]byte, _ [][]*x509.Certificate) error {
			if len(raw) == 0 {
				return errors.New("no certificate")
			}
			c, err := x509.ParseCertificate(raw[0])
			if err != nil {
				return err
			}
			_, err = c.Verify(x509.VerifyOptions{Roots: pool, KeyUsages: []x509.ExtKeyUsage{x509.ExtKeyUsageServerAuth}})
			return err
		}}, nil
	}
	return nil, fmt.Errorf("unknown client class %q", class)
}

// withHost rewrites the listener's address (without certhashes) into the drawn host shape.
func withHost(base ma.Multiaddr, host, name string) (ma.Multiaddr, error) {
	var out ma.Multiaddr
	var err error
	ma.ForEach(base, func(c ma.Component) bool {
		var nc *ma.Component
		switch code := c.Protocol().Code; {
		case (code == ma.P_IP4 || code == ma.P_IP6) && strings.HasPrefix(host, "dns"):
			proto := "dns4"
			if code == ma.P_IP6 {
				proto = "dns6"
			}
			if nc, err = ma.NewComponent(proto, name); err != nil {
				return false
			}
			out = out.AppendComponent(nc)
		case code == ma.P_QUIC_V1 && strings.HasSuffix(host, "sni"):
			out = out.AppendComponent(&c)
			if nc, err = ma.NewComponent("sni", name); err != nil {
				return false
			}
			out = out.AppendComponent(nc)
		default:
			out = out.AppendComponent(&c)
		}
		return true
	})
	return out, err
}

// drawDialAddr constructs (no rejection) one of the following plans:
//
//	all-confirmed      1..4 confirmed hashes, the served one among them (control: must complete)
//	one-unconfirmed    the same plus exactly ONE hash the server does not confirm, at a drawn
//	                   position (first / middle / last) - the sharpest class: only conjunct (2) fails,
//	                   and only for one element
//	not-served         only the confirmed hash of the certificate that is NOT being served (+ optionally unconfirmed ones)
//	only-other-codes   1..3 hashes, none of them sha2-256
//	only-unconfirmed   1..3 hashes of any code, none of them confirmed
//	mix                1..5 elements drawn independently from all kinds
//	none               no certhash at all
var planWeights = []string{
	"one-unconfirmed", "one-unconfirmed", "one-unconfirmed", "one-unconfirmed", "one-unconfirmed", "one-unconfirmed", "one-unconfirmed", "one-unconfirmed", "one-unconfirmed",
	"mix", "mix", "mix", "only-other-codes", "only-other-codes", "only-unconfirmed", "not-served", "not-served", "all-confirmed", "all-confirmed", "none", "none", "none",
}

func drawDialAddr(rt *rapid.T, nServers int) dialAddrSpec {
	s := dialAddrSpec{Server: rapid.IntRange(0, nServers-1).Draw(rt, "server")}
	confirmedWithServed := func(n int) []elemSpec {
		out := make([]elemSpec, n)
		for i := range out {
			out[i] = drawConfirmedElem(rt, fmt.Sprintf("c%d", i))
		}
		out[rapid.IntRange(0, n-1).Draw(rt, "servedAt")] = elemSpec{Kind: "served"}
		return out
	}
	s.Plan = rapid.SampledFrom(planWeights).Draw(rt, "plan")
	switch s.Plan {
	case "all-confirmed":
		s.Elems = confirmedWithServed(rapid.IntRange(1, 4).Draw(rt, "n"))
	case "one-unconfirmed":
		good := confirmedWithServed(rapid.IntRange(1, 4).Draw(rt, "n"))
		bad := drawUnconfirmedElem(rt, "bad")
		var at int
		switch pos := rapid.SampledFrom([]string{"first", "middle", "last"}).Draw(rt, "badPos"); {
		case pos == "first":
			at = 0
		case pos == "last":
			at = len(good)
		default:
			if len(good) < 2 {
				good = append(good, drawConfirmedElem(rt, "cx"))
			}
			at = rapid.IntRange(1, len(good)-1).Draw(rt, "badAt")
		}
		s.Elems = append(append(append([]elemSpec(nil), good[:at]...), bad), good[at:]...)
	case "not-served":
		s.Elems = []elemSpec{{Kind: "confirmed-other"}}
		for i, n := 0, rapid.IntRange(0, 2).Draw(rt, "nExtra"); i < n; i++ {
			e := drawUnconfirmedElem(rt, fmt.Sprintf("x%d", i))
			if rapid.Bool().Draw(rt, fmt.Sprintf("x%dFront", i)) {
				s.Elems = append([]elemSpec{e}, s.Elems...)
			} else {
				s.Elems = append(s.Elems, e)
			}
		}
	case "only-unconfirmed":
		for i, n := 0, rapid.IntRange(1, 3).Draw(rt, "n"); i < n; i++ {
			s.Elems = append(s.Elems, drawUnconfirmedElem(rt, fmt.Sprintf("u%d", i)))
		}
	case "only-other-codes":
		for i, n := 0, rapid.IntRange(1, 3).Draw(rt, "n"); i < n; i++ {
			s.Elems = append(s.Elems, drawOtherCodeElem(rt, fmt.Sprintf("o%d", i)))
		}
	case "mix":
		for i, n := 0, rapid.IntRange(1, 5).Draw(rt, "n"); i < n; i++ {
			s.Elems = append(s.Elems, drawAnyElem(rt, fmt.Sprintf("m%d", i)))
		}
	case "none":
	default:
		panic("unknown plan " + s.Plan)
	}
	s.Host = rapid.SampledFrom(hostWeights).Draw(rt, "host")
	if s.Host != "ip" {
		s.Name = rapid.IntRange(0, len(hostNames)-1).Draw(rt, "hostName")
	}
	s.Client = rapid.SampledFrom(clientWeights).Draw(rt, "client")
	return s
}

// realise turns an element into a multihash, given what the listener was observed to serve/confirm.
func (e elemSpec) realise(o observation) (multihash.DecodedMultihash, string, error) {
	mk := func(digest []byte, code uint64) (multihash.DecodedMultihash, error) {
		b, err := multihash.Encode(digest, code)
		if err != nil {
			return multihash.DecodedMultihash{}, err
		}
		dh, err := multihash.Decode(b)
		if err != nil {
			return multihash.DecodedMultihash{}, err
		}
		return *dh, nil
	}
	// the confirmed hash that is not the served one (the certificate served next)
	other := func() []byte {
		for _, h := range o.confirmed {
			if !(h.Code == multihash.SHA2_256 && bytes.Equal(h.Digest, o.sum[:])) {
				return h.Digest
			}
		}
		return nil
	}
	oc := otherCodes[e.Code%len(otherCodes)]
	foreign := func() (multihash.DecodedMultihash, string, error) {
		d := make([]byte, oc.Len)
		keys.Reader(fmt.Sprintf("c18/dialaddr/foreign/%s/%d", oc.Name, e.Seed)).Read(d)
		dh, err := mk(d, oc.Code)
		return dh, "foreign-" + oc.Name, err
	}
	switch e.Kind {
	case "served":
		dh, err := mk(o.sum[:], multihash.SHA2_256)
		return dh, "served", err
	case "confirmed-other":
		for _, h := range o.confirmed {
			if !(h.Code == multihash.SHA2_256 && bytes.Equal(h.Digest, o.sum[:])) {
				return h, "confirmed-other", nil
			}
		}
		return multihash.DecodedMultihash{}, "", errors.New("the listener confirms no hash besides the served one")
	case "bogus":
		d := make([]byte, 32)
		keys.Reader(fmt.Sprintf("c18/dialaddr/bogus/%d", e.Seed)).Read(d)
		dh, err := mk(d, multihash.SHA2_256)
		return dh, "bogus-sha2-256", err
	case "bitflip":
		d := append([]byte(nil), o.sum[:]...)
		d[e.Seed%32] ^= 1 << (e.Seed / 32 % 8)
		dh, err := mk(d, multihash.SHA2_256)
		return dh, "bitflip-sha2-256", err
	case "served-digest-as":
		dh, err := mk(o.sum[:], oc.Code)
		return dh, "served-digest-as-" + oc.Name, err
	case "other-digest-as":
		d := other()
		if d == nil {
			return multihash.DecodedMultihash{}, "", errors.New("the listener confirms no hash besides the served one")
		}
		dh, err := mk(d, oc.Code)
		return dh, "confirmed-other-digest-as-" + oc.Name, err
	case "genuine":
		// the genuine digest of the served certificate under another hash function (if the
		// multihash library implements it; otherwise a digest of that function's length)
		if mh, err := multihash.Sum(o.leaf, oc.Code, -1); err == nil {
			dh, err := multihash.Decode(mh)
			if err != nil {
				return multihash.DecodedMultihash{}, "", err
			}
			return *dh, oc.Name + "(leaf)", nil
		}
		return foreign()
	case "foreign":
		return foreign()
	}
	panic("unknown element kind " + e.Kind)
}

func posClass(i, n int) string {
	switch {
	case n == 1:
		return "only"
	case i == 0:
		return "first"
	case i == n-1:
		return "last"
	}
	return "middle"
}

func TestE2EDialledHashes(t *testing.T) {
	name := t.Name()
	shard, _ := hx.Shard()
	const nServers = 2
	type target struct {
		srv  *e2eServer
		base ma.Multiaddr
		obs  observation
	}
	t0 := time.Now()
	var targets []target
	for i := 0; i < nServers; i++ {
		// pinned mock clock: the listener never rotates during the test, whatever the wall clock does
		cl := clock.NewMock()
		cl.Set(t0)
		keyIdx := 300 + nServers*shard + i
		srv := startServer(t, keyIdx, wt.WithClock(cl))
		obs, err := observe(srv, keyIdx)
		if err != nil {
			if isTimeout(err) {
				t.Skipf("inconclusive: reference handshake timed out: %v", err)
			}
			t.Fatalf("reference client (quic-go + webtransport-go + noise) cannot complete a handshake with the listener %s: %v", srv.ln.Multiaddr(), err)
		}
		// The statement about the listener itself (also checked on the manager in TestTimeline): what is
		// advertised contains the served hash, and the server confirms what it advertises.
		adv := decodeAddrPlain(t, srv.ln.Multiaddr())
		if !adv.hasSHA256(obs.sum) {
			t.Fatalf("listener %s serves a certificate with sha256=%x that it does not advertise", srv.ln.Multiaddr(), obs.sum[:6])
		}
		if !obs.confirmed.superset(adv) {
			t.Fatalf("listener advertises %v but confirms only %v inside the handshake", adv, obs.confirmed)
		}
		targets = append(targets, target{srv: srv, base: stripCerthashes(srv.ln.Multiaddr()), obs: obs})
	}
	// one dialling transport per TLS client configuration class
	var leaves [][]byte
	for _, tg := range targets {
		leaves = append(leaves, tg.obs.leaf)
	}
	dialers := map[string]tpt.Transport{}
	for _, class := range clientWeights {
		if _, ok := dialers[class]; ok {
			continue
		}
		conf, err := clientTLSConfig(class, leaves)
		if err != nil {
			t.Fatalf("harness: TLS client configuration %s: %v", class, err)
		}
		var opts []wt.Option
		if conf != nil {
			opts = append(opts, wt.WithTLSClientConfig(conf))
		}
		dialers[class] = newDialer(t, 300+shard, opts...)
	}
	timeouts := 0

	hx.Check(t, 2000, 40000, 0, func(rt *rapid.T) {
		spec := drawDialAddr(rt, nServers)
		tg := targets[spec.Server]

		// build the address
		d := dialers[spec.Client]
		addr, err := withHost(tg.base, spec.Host, hostNames[spec.Name])
		if err != nil {
			rt.Fatalf("harness: host shape %s of %s: %v", spec.Host, tg.base, err)
		}
		var kinds []string
		for _, e := range spec.Elems {
			dh, kind, err := e.realise(tg.obs)
			if err != nil {
				rt.Fatalf("harness: %+v: %v", e, err)
			}
			addr = addr.Encapsulate(certhashComponent(t, dh.Digest, dh.Code))
			kinds = append(kinds, kind)
		}

		// reference verdict, recomputed from the address that is actually dialled (decoded
		// independently of the package) and from what the listener was observed to serve/confirm
		var dialled hashSet
		ma.ForEach(addr, func(c ma.Component) bool {
			if c.Protocol().Code == ma.P_CERTHASH {
				dh, err := multihash.Decode(c.RawValue())
				if err != nil {
					rt.Fatalf("harness: certhash component does not decode: %v", err)
				}
				dialled = append(dialled, *dh)
			}
			return true
		})
		if len(dialled) != len(spec.Elems) {
			rt.Fatalf("harness: address %s holds %d certhashes, want %d", addr, len(dialled), len(spec.Elems))
		}
		pinned := dialled.hasSHA256(tg.obs.sum)
		var unconfirmed []int
		for i, h := range dialled {
			if !tg.obs.confirmed.superset(hashSet{h}) {
				unconfirmed = append(unconfirmed, i)
			}
		}
		mayComplete := pinned && len(unconfirmed) == 0
		// an unresolved /dns address cannot be reached by the transport at all (the swarm resolves it
		// first): only the "must not complete" side is judged for it
		reachable := !strings.HasPrefix(spec.Host, "dns")

		err = dialOnce(t, d, addr, tg.srv.id)
		if isTimeout(err) {
			timeouts++
			rt.Skip("inconclusive: dial timed out")
		}
		desc := func() string {
			var parts []string
			for i, h := range dialled {
				c := "confirmed"
				if !tg.obs.confirmed.superset(hashSet{h}) {
					c = "NOT confirmed"
				}
				parts = append(parts, fmt.Sprintf("#%d %s [%s code=%#x len=%d %x..] %s", i, kinds[i], h.Name, h.Code, h.Length, h.Digest[:min(6, len(h.Digest))], c))
			}
			return fmt.Sprintf("dialled %s (dialling transport's TLS client configuration: %s)\n  certhashes: %s\n  listener serves sha256=%x and confirms %v", addr, spec.Client, strings.Join(parts, "; "), tg.obs.sum[:6], tg.obs.confirmed)
		}
		if err == nil && !pinned {
			rt.Fatalf("dial completed although the SHA-256 of the served certificate is not among the sha2-256 hashes of the dialled address: %s", desc())
		}
		if err == nil && len(unconfirmed) > 0 {
			var which []string
			for _, i := range unconfirmed {
				which = append(which, fmt.Sprintf("#%d (%s, %s of %d)", i, kinds[i], posClass(i, len(dialled)), len(dialled)))
			}
			rt.Fatalf("dial completed although the server did not confirm every certificate hash the dialer relied on: unconfirmed %s: %s", strings.Join(which, ", "), desc())
		}
		if err != nil && mayComplete && reachable {
			rt.Fatalf("control: dial failed (%v) although the address holds the served hash and every hash of it is confirmed by the server: %s", err, desc())
		}

		// evidence
		n := len(dialled)
		labels := []string{"dialaddr:plan=" + spec.Plan, fmt.Sprintf("dialaddr:certhashes=%d", n), fmt.Sprintf("dialaddr:completed=%v", err == nil),
			"dialaddr:host=" + spec.Host, "dialaddr:client-tls=" + spec.Client}
		nameCls := "named(sni/dns)"
		if spec.Host == "ip" {
			nameCls = "unnamed"
		}
		acceptCls := "client-tls-refuses-cert"
		if clientAccepts(spec.Client) {
			acceptCls = "client-tls-accepts-cert"
		}
		labels = append(labels, fmt.Sprintf("dialaddr:certhashes=%s/%s/%s", map[bool]string{true: "0", false: ">=1"}[n == 0], nameCls, acceptCls))
		if n == 0 && spec.Host == "sni" && clientAccepts(spec.Client) {
			labels = append(labels, "dialaddr:no-certhash+sni+client-tls-accepts-cert(resolve-shape, reachable)")
		}
		seenLabel := map[string]bool{}
		add := func(l string) {
			if !seenLabel[l] {
				seenLabel[l] = true
				labels = append(labels, l)
			}
		}
		nSha, lastSha := 0, -1
		for i, h := range dialled {
			if h.Code == multihash.SHA2_256 {
				nSha++
				lastSha = i
			}
		}
		firstSha := -1
		for i, h := range dialled {
			if h.Code == multihash.SHA2_256 {
				firstSha = i
				break
			}
		}
		if n > 0 && nSha == 0 {
			add("dialaddr:only-non-sha2-256-hashes")
		}
		if nSha > 0 && nSha < n {
			add("dialaddr:mixes-sha2-256-with-other-codes")
		}
		for i, h := range dialled {
			cname := "sha2-256"
			if h.Code != multihash.SHA2_256 {
				cname = otherName(h.Code)
				add("dialaddr:code=" + cname)
			}
			k := kinds[i]
			if j := strings.Index(k, "-as-"); j >= 0 {
				k = k[:j+3] + "-other-code"
			} else if strings.HasSuffix(k, "(leaf)") {
				k = "genuine-other-function(leaf)"
			} else if strings.HasPrefix(k, "foreign-") {
				k = "foreign-other-function"
			}
			add("dialaddr:elem=" + k)
			if !tg.obs.confirmed.superset(hashSet{h}) {
				cls := "sha2-256"
				if h.Code != multihash.SHA2_256 {
					cls = "other-code"
				}
				add(fmt.Sprintf("dialaddr:unconfirmed/%s/%s", cls, posClass(i, n)))
				if h.Code != multihash.SHA2_256 && nSha > 0 {
					if i < lastSha {
						add("dialaddr:unconfirmed-other-code-before-a-sha2-256-hash")
					}
					if i > firstSha {
						add("dialaddr:unconfirmed-other-code-after-a-sha2-256-hash")
					}
				}
			}
		}
		failing := 0
		if !pinned {
			failing++
		}
		failing += len(unconfirmed)
		if pinned && len(unconfirmed) == 1 {
			add("dialaddr:pinned-and-exactly-one-unconfirmed")
		}
		if !pinned && len(unconfirmed) == 0 && n > 0 {
			add("dialaddr:all-confirmed-but-served-hash-absent")
		}
		if mayComplete && reachable {
			add("dialaddr:control-must-complete")
			add("dialaddr:control-must-complete/host=" + spec.Host + "/client-tls=" + spec.Client)
		}
		sort.Strings(labels)
		// non-trivial: at most one reason to refuse (the control, or exactly one unconfirmed element, or only the pin missing)
		// (an address without certhash is non-trivial when nothing but the missing pin stands between the dial and completion:
		// reachable, and the dialling transport's own TLS configuration accepts the certificate)
		nontrivial := failing <= 1
		if n == 0 {
			nontrivial = reachable && clientAccepts(spec.Client)
		}
		stats.Case(name, fmt.Sprintf("%s|%s|%s|%s", spec.Plan, strings.Join(kinds, "+"), spec.Host, spec.Client), nontrivial, labels...)
		if stats.WantSample(name) {
			stats.Sample(name, map[string]any{"spec": spec, "certhashes": kinds, "served_hash_in_address": pinned, "unconfirmed_positions": unconfirmed, "completed": err == nil, "address_shape": stripCerthashes(addr).String()})
		}
	})

	if timeouts > 0 {
		t.Logf("inconclusive cases (dial timed out): %d", timeouts)
	}
	// the listeners must not have changed what they serve/confirm while the cases ran
	for i, tg := range targets {
		again, err := observe(tg.srv, 300+nServers*shard+i)
		if err != nil {
			if isTimeout(err) {
				t.Skipf("inconclusive: reference handshake timed out: %v", err)
			}
			t.Fatalf("reference client cannot complete a second handshake with the listener: %v", err)
		}
		if !again.equal(tg.obs) {
			t.Skipf("inconclusive: listener %d changed what it serves/confirms during the test (mock clock is pinned): %x %v -> %x %v", i, tg.obs.sum[:6], tg.obs.confirmed, again.sum[:6], again.confirmed)
		}
	}
}

func otherName(code uint64) string {
	for _, c := range otherCodes {
		if c.Code == code {
			return c.Name
		}
	}
	return fmt.Sprintf("%#x", code)
}
