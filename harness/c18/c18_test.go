// Package c18 checks property C18: a WebTransport listener serves a valid, advertised
// certificate at all times; dialers pin it.
//
//   - TestTimeline drives the real certificate manager (hook: export_verif.go) on the
//     virtual clock of a synctest bubble through generated timelines (key, start instant
//     relative to the rotation boundaries, rollovers, restarts, twins, dialers that learn
//     the address at some instant and dial it at instants defined relative to that one)
//     and judges every sampled instant against the statement.
//   - TestVerifier presents generated certificate-chain / hash-list pairs to the real
//     verifier and compares with the reference predicate of the statement.
//   - TestE2E* dial a real listener over loopback UDP (thorough tier; a few
//     TestE2EFollowingPeriod cases also in the quick tier).
//   - TestE2EDialledHashes (dialaddr_test.go, both tiers) dials a real listener with generated
//     certhash sequences (multihash code x genuine/foreign digest x position) and demands that
//     the dial completes only if the served hash is pinned and the server confirmed every
//     certhash of the address.
//   - TestTransportListenHistory (listenfail_test.go, both tiers) runs the real transport inside a
//     bubble over an in-memory UDP stack and generates the history of Listen calls of one transport
//     (successful, FAILING at generated instants, closes) around the rollovers; every live listener
//     is observed by a reference QUIC/TLS handshake at every sampled instant.
//   - TestWitness_* are the deterministic witnesses of the two defects this check found.
package c18

import (
	"bytes"
	"crypto"
	"crypto/ecdsa"
	"crypto/elliptic"
	"crypto/sha256"
	"crypto/x509"
	"encoding/binary"
	"fmt"
	"sort"
	"strings"
	"testing"
	"testing/synctest"
	"time"

	"filippo.io/keygen"
	"github.com/benbjohnson/clock"
	ic "github.com/libp2p/go-libp2p/core/crypto"
	wt "github.com/libp2p/go-libp2p/p2p/transport/webtransport"
	ma "github.com/multiformats/go-multiaddr"
	"github.com/multiformats/go-multibase"
	"github.com/multiformats/go-multihash"
	"pgregory.net/rapid"

	"verif/internal/hx"
	"verif/internal/keys"
	"verif/internal/stats"
)

const (
	skew     = wt.VerifClockSkewAllowance // the clock-skew allowance the statement refers to
	validity = wt.VerifCertValidity
	// period is the distance between two rotation instants. Used by the GENERATOR only
	// (to aim at boundaries several periods ahead); no verdict depends on it.
	period = validity - 2*skew
	// maxLifetime is taken from the statement, not from the code.
	maxLifetime = 14 * 24 * time.Hour
	// maxInFlight bounds how long a handshake that a listener has begun may stay in flight
	// before its Noise payload is serialised (listener.go: handshakeTimeout = 10 s). Longer
	// gaps between "list fetched" and "list serialised" are not judged.
	maxInFlight = 10 * time.Second
)

// Identifiers of the two defects this check found (see TestWitness_*).
const (
	kfChainLast = "C18-chain-last-cert"
	kfRSAPSS    = "C18-rsa-pss"
)

func TestMain(m *testing.M) {
	stats.Describe("exploration",
		"Timeline: rapid draws a host key (Ed25519 from a seed incl. seeds ground to hit the extreme rotation offsets; occasionally secp256k1/ECDSA/RSA), "+
			"a start instant = rotation boundary (learnt from a probe manager) + j periods + delta with delta concentrated at {0, +-1ns, +-1ms, +-skew, +-skew+-1ms} plus uniform, "+
			"and 1..10 steps (move to just before/at/after the next rotation, a fraction of the way, a multi-period jump, or to a DIAL instant defined relative to the instant some dialer learnt the address "+
			"(learn + {0,1,2} periods +-{0,1ns,1ms}, learn + uniform over 2.5 periods, end of the learn period +-, end of the following period +-); then restart / close / twin / learn (a dialer takes the address A or B advertises now) / nothing). "+
			"A dialer also learns the address of A and of every B instance right after its construction; every dialer dials at every sampled instant from then on, so dial instants span 0..n rollovers of the same running manager. "+
			"The real certManager runs on the bubble's virtual clock; a long-running manager A, a restartable manager B and short-lived twins are sampled right after their creation (before their timer goroutine ran), after every step and at every rotation instant passed. "+
			"Oracle per sample: NotBefore+skew <= t <= NotAfter-skew, lifetime <= 14d, key matches, served SHA-256 in SerializedCertHashes and AddrComponent, "+
			"every advertisement recorded in the current or the previous period verifies the served leaf now (verifyRawCerts on virtual time), every manager serves bytes identical to A, "+
			"and the hash list a manager confirms to dialers (SerializedCertHashes = the Noise early data) contains every hash of every address that this same running instance advertised in the current or the previous period. "+
			"Oracle per dial (dialer modelled from the statement: real verifyRawCerts against the hashes of the learnt address, then every hash of the learnt address must be in the manager's SerializedCertHashes): "+
			"must complete while the instance the address was learnt from keeps running and serves the learn period or the following one; beyond that only 'a certificate whose hash is not in the address is refused'; "+
			"against a restarted instance only the certificate check is demanded (whether it confirms the older hash is a label). "+
			"In-flight handshakes (value semantics of what the manager hands out): at every sample of a manager a handshake begins - TLS presents the served certificate and the listener fetches SerializedCertHashes(), whose slices are KEPT as handed out (not copied); "+
			"at every later sample of that manager within the listener's 10 s handshake timeout (the gaps are those of the timeline: 1 ns / 500 us / 1 ms / 1 s before a rotation instant and the rotation instant itself, among others) the kept list is read again as the Noise layer would serialise it then: "+
			"it must decode, hold the hash of the certificate served when the handshake began and hold every hash of every address that this running instance advertised, up to that instant, in the period of the fetch or the previous one - also when the manager rolled over (its 1st, 2nd, ... rollover) in between. "+
			"Non-trivial = some sample lies within 1 ms of a rotation boundary (NotBefore+skew / NotAfter-skew) or follows a restart; distinct = (key kind, offset class, start class, step classes, rollovers). "+
			"Verifier: generated (chain of 0/1/2 certs, hash list, verification instant) against the reference predicate; non-trivial = at most one conjunct of the predicate fails; distinct = class tuple. "+
			"DialledHashes (real transport.Dial over loopback UDP against a real listener on a pinned mock clock, 2 listeners per shard): rapid draws the certhash SEQUENCE of the dialled address, 0..5 elements, every element = "+
			"(multihash code, digest, position): served sha2-256 | the other confirmed sha2-256 | bogus / bit-flipped sha2-256 | the served or the other confirmed digest under another code | the genuine digest of the served certificate under another hash function | a foreign digest under another hash function, "+
			"codes sha2-512, sha3-224/256/512, keccak-224/256, blake2b-256/512, blake2s-256, blake3, sha1, md5, dbl-sha2-256, identity, an unnamed code and a private-use code; "+
			"plans: all confirmed incl. served (control), exactly one unconfirmed element first / in the middle / last among confirmed ones, served hash absent, only non-sha2-256 hashes, only unconfirmed hashes, free mix, no certhash. "+
			"Independently of the certhash sequence rapid draws the NAME-carrying components of the dialled address {none: /ip4/../quic-v1/webtransport | /ip4/../quic-v1/sni/<name>/webtransport (the shape transport.Resolve produces) | /dns4/<name>/.. | /dns4/<name>/../sni/<name>/..; 3 names} "+
			"and the dialling transport's own TLS client configuration (WithTLSClientConfig) {none | InsecureSkipVerify | chain check against a private pool holding the listeners' certificates, no name check | InsecureSkipVerify + accepting VerifyConnection hook | RootCAs = that pool with standard verification}: "+
			"three of the five configurations would accept the listener's certificate on their own, so that for an address with 0 certhashes nothing but the statement's pin rule stands between the dial and completion. "+
			"Oracle: what the listener serves (rawCerts[0]) and confirms (certhashes of its Noise handshake payload) is observed by a reference client made of quic-go + webtransport-go + noise, without code of the package; "+
			"a dial may complete only if SHA-256(served leaf) is a sha2-256 hash of the address AND every certhash of the address, whatever its code and position, is in the confirmed list - whatever names the address carries and whatever the client's TLS configuration would accept; "+
			"control: if both hold the dial must complete (not demanded of unresolved /dns4 addresses, which the transport cannot reach). "+
			"Non-trivial = at most one reason to refuse (control, exactly one unconfirmed element, or only the served hash missing); an address without certhash counts only if it is reachable and the client's TLS configuration accepts the certificate; distinct = (plan, sequence of element kinds incl. code, name components, client TLS class). "+
			"TransportListenHistory (the REAL transport: webtransport.New + Listen, quicreuse, quic-go, http3 server, inside a bubble on virtual time over an in-memory UDP stack with a bind table): rapid draws a host key, a start instant as in Timeline and a HISTORY of 2..7 steps on ONE transport, "+
			"every step = an action {Listen on a free address | Listen that is bound to FAIL (UDP address held by a foreign socket = EADDRINUSE, non-local IP = EADDRNOTAVAIL, the address of a live listener of this transport, /quic-v1 without /webtransport, a /certhash in the listen address, a tcp address) | close a live listener (also the last one) | a dialer learns the address a live listener advertises | nothing} "+
			"followed by a clock move {to the next rotation instant + delta as in Timeline | a fraction of the way | a jump of up to 2.5 periods | stay}; the failing Listen comes before any listener exists (the first Listen of the transport), while 1..4 listeners are live, or after all were closed. "+
			"Every live listener is sampled after every action, after every move and at every rotation instant passed: a reference client (plain quic-go, ALPN h3) performs a QUIC/TLS handshake and records rawCerts[0]; Listener.Multiaddr() is decoded here. "+
			"Oracle per listener and instant: the handshake completes; NotBefore+skew <= t <= NotAfter-skew; lifetime <= 14d; served SHA-256 among the advertised certhashes; served bytes identical to a certificate of an undisturbed certManager with the same key (its current one; exactly at a rotation instant also its previous one); "+
			"every address learnt from this listener in the current or the previous period verifies the served leaf (real verifyRawCerts on virtual time + membership recomputed). Nothing is demanded of the Listen calls themselves. "+
			"At the same instants the address of the running transport is ALSO obtained through Transport.AddCertHashes(bare /webtransport address) (the entry point swarm.AddCertHashes / the basic host use for observed, NAT-mapped and user-provided addresses): "+
			"rapid draws the bare address {public ip4 | local ip4 | dns4 | ip6}, the step from which it is called (60% from the first step, 30% from a uniform later step = first call after k rollovers, 10% never = control), a call before the first Listen (25%, nothing demanded) and a second bare address completed from a uniform later step; "+
			"with at least one live listener, the certhashes of the returned address must contain the SHA-256 of what every live listener serves now, and every address so obtained at any sampled instant of the current or the previous period must verify the certificate served now (membership + real verifyRawCerts), i.e. it held the hash of the certificate served next - after 0..n rollovers since the first call. "+
			"Non-trivial = some Listen call failed and a listener of the same transport was afterwards observed through at least one rollover; distinct = (key kind, offset class, start class, step classes, rollovers).",
		"crypto/x509 parsing and crypto/sha256 are trusted (used by the oracle)",
		"the clock-skew allowance is the exported constant (1h); the 14-day bound is taken from the statement",
		"the 'server certificate' of a chain is rawCerts[0] (what crypto/tls authenticates the handshake with); 'RSA' = RSA public key or any RSA (PKCS#1 v1.5 / PSS) signature",
		"inside the bubble the Noise early-data confirmation is modelled: the list the server sends is SerializedCertHashes() (listener.handshake) and the dialer demands every hash of the dialled address in it (transport.upgrade); "+
			"the real handshake runs in the loopback cases only (TestE2EDialledHashes: 2000 generated dialled addresses in the quick tier, 40000 in the thorough tier; TestE2EFollowingPeriod: 4 cases in the quick tier with 1..3 rollovers of the running listener and addresses learnt before/after each, 12 + TestE2EPinning/StaleServer in the thorough tier)",
		"loopback cases: real time is used for I/O only (a dial that runs into its 15 s deadline is skipped as inconclusive); the listeners of TestE2EDialledHashes sit on a mock clock pinned to the start of the test and are observed again at the end (a change makes the test inconclusive)",
		"an address is promised to keep working only against the listener instance it was learnt from while that instance keeps running; a restart forgets the previous period's hash (lastConfig is nil after init) and is reported as a label, not as a violation",
		"TransportListenHistory: the in-memory UDP stack (simnet.SimConn sockets behind a bind table, zero latency, no loss) and quic-go's client are trusted; quicreuse runs with DisableReuseport (its 30 s garbage-collection ticker would dominate the virtual-time jumps); the reference handshake must not consume virtual time (checked)",
	)
	hx.Main(m)
}

// ---------------------------------------------------------------------------
// host keys

// Ed25519 seeds whose public key starts with the given little-endian uint16 (found by a
// one-off search): the rotation offset is (uint16 minutes) mod 14d, so these are the
// extreme / wrapping offsets.
var specialEdSeeds = []struct {
	U16  uint16
	Seed int
}{
	{0, 39325}, {1, 188263}, {59, 65980}, {60, 165756}, {61, 144198}, {120, 5404},
	{20039, 18696}, {20040, 3788}, {20041, 64152}, {20159, 143579}, {20160, 118602}, {20161, 99596},
	{40320, 58631}, {65535, 32362},
}

type hostKeySpec struct {
	Kind string `json:"kind"`
	Seed int    `json:"seed"`
}

func drawHostKey(rt *rapid.T) hostKeySpec {
	switch k := rapid.IntRange(0, 19).Draw(rt, "keyKind"); {
	case k == 0:
		return hostKeySpec{"secp256k1", rapid.IntRange(0, 1<<16).Draw(rt, "keySeed")}
	case k == 1:
		return hostKeySpec{"ecdsa", rapid.IntRange(0, 1<<16).Draw(rt, "keySeed")}
	case k == 2:
		return hostKeySpec{"rsa", rapid.IntRange(0, 1).Draw(rt, "keySeed")}
	case k <= 5:
		return hostKeySpec{"ed25519", specialEdSeeds[rapid.IntRange(0, len(specialEdSeeds)-1).Draw(rt, "special")].Seed}
	default:
		return hostKeySpec{"ed25519", rapid.IntRange(0, 1<<20).Draw(rt, "keySeed")}
	}
}

func (s hostKeySpec) key() ic.PrivKey {
	var (
		k   ic.PrivKey
		err error
	)
	switch s.Kind {
	case "ed25519":
		k, _, err = ic.GenerateEd25519Key(keys.Reader(fmt.Sprintf("c18/ed/%d", s.Seed)))
	case "secp256k1":
		b := make([]byte, 32)
		keys.Reader(fmt.Sprintf("c18/secp/%d", s.Seed)).Read(b)
		b[0] &= 0x7f // below the group order
		k, err = ic.UnmarshalSecp256k1PrivateKey(b)
	case "ecdsa":
		b := make([]byte, 32)
		keys.Reader(fmt.Sprintf("c18/ecdsa/%d", s.Seed)).Read(b)
		var p *ecdsa.PrivateKey
		if p, err = keygen.ECDSA(elliptic.P256(), b); err == nil {
			k, _, err = ic.ECDSAKeyPairFromKey(p)
		}
	case "rsa":
		k = keys.Get("rsa", s.Seed).Priv // bytes differ per process; no verdict depends on them
	default:
		panic("unknown key kind " + s.Kind)
	}
	if err != nil {
		panic(fmt.Sprintf("host key %+v: %v", s, err))
	}
	return k
}

// offsetClass describes the rotation offset the implementation documents
// ((LE uint16 of the public key bytes) minutes mod 14d). Labels only.
func offsetClass(k ic.PrivKey) string {
	raw, err := k.GetPublic().Raw()
	if err != nil || len(raw) < 2 {
		return "off=?"
	}
	u := time.Duration(binary.LittleEndian.Uint16(raw)) * time.Minute
	off := u % validity
	switch {
	case off == 0:
		return "off=0"
	case off <= 2*skew:
		return "off<=2skew"
	case off >= validity-2*skew-time.Minute:
		return "off>=period"
	case u >= validity:
		return "off=wrapped"
	default:
		return "off=mid"
	}
}

// ---------------------------------------------------------------------------
// decoding advertisements (independent of the package's extractCertHashes)

type hashSet []multihash.DecodedMultihash

func decodeSerialized(rt *rapid.T, who string, in [][]byte) hashSet {
	out := make(hashSet, 0, len(in))
	for _, b := range in {
		dh, err := multihash.Decode(b)
		if err != nil {
			rt.Fatalf("%s: SerializedCertHashes() holds an undecodable multihash %x: %v", who, b, err)
		}
		out = append(out, *dh)
	}
	return out
}

func decodeAddr(rt *rapid.T, who string, a ma.Multiaddr) hashSet {
	var out hashSet
	ma.ForEach(a, func(c ma.Component) bool {
		if c.Protocol().Code != ma.P_CERTHASH {
			rt.Fatalf("%s: AddrComponent() %s holds a non-certhash component", who, a)
		}
		_, b, err := multibase.Decode(c.Value())
		if err != nil {
			rt.Fatalf("%s: AddrComponent() %s: multibase: %v", who, a, err)
		}
		dh, err := multihash.Decode(b)
		if err != nil {
			rt.Fatalf("%s: AddrComponent() %s: multihash: %v", who, a, err)
		}
		out = append(out, *dh)
		return true
	})
	return out
}

func (hs hashSet) hasSHA256(sum [32]byte) bool {
	for _, h := range hs {
		if h.Code == multihash.SHA2_256 && bytes.Equal(h.Digest, sum[:]) {
			return true
		}
	}
	return false
}

func (hs hashSet) key() string {
	parts := make([]string, 0, len(hs))
	for _, h := range hs {
		parts = append(parts, fmt.Sprintf("%x:%x", h.Code, h.Digest))
	}
	sort.Strings(parts)
	return strings.Join(parts, ",")
}

func (hs hashSet) String() string {
	parts := make([]string, 0, len(hs))
	for _, h := range hs {
		parts = append(parts, fmt.Sprintf("%s:%x", h.Name, h.Digest[:min(6, len(h.Digest))]))
	}
	return "[" + strings.Join(parts, " ") + "]"
}

// superset reports whether every hash of need is in hs (same code, same digest).
func (hs hashSet) superset(need hashSet) bool {
	for _, n := range need {
		found := false
		for _, h := range hs {
			if h.Code == n.Code && bytes.Equal(h.Digest, n.Digest) {
				found = true
				break
			}
		}
		if !found {
			return false
		}
	}
	return true
}

// ---------------------------------------------------------------------------
// generated timeline

type deltaSpec struct {
	Class string        `json:"class"`
	D     time.Duration `json:"d"`
}

// drawDelta draws an offset relative to a rotation instant R (= NotAfter-skew of the
// certificate being replaced = NotBefore+skew of its successor). R-skew is the bucket
// boundary (successor's NotBefore), R+skew the predecessor's NotAfter.
func drawDelta(rt *rapid.T, label string) deltaSpec {
	ms := time.Millisecond
	switch c := rapid.IntRange(0, 23).Draw(rt, label+"Class"); c {
	case 0, 1:
		return deltaSpec{"R", 0}
	case 2:
		return deltaSpec{"R-1ns", -1}
	case 3:
		return deltaSpec{"R+1ns", 1}
	case 4:
		return deltaSpec{"R-1ms", -ms}
	case 5:
		return deltaSpec{"R+1ms", ms}
	case 6:
		return deltaSpec{"R-500us", -500 * time.Microsecond}
	case 7:
		return deltaSpec{"R+500us", 500 * time.Microsecond}
	case 8:
		return deltaSpec{"B", -skew}
	case 9:
		return deltaSpec{"B-1ms", -skew - ms}
	case 10:
		return deltaSpec{"B+1ms", -skew + ms}
	case 11:
		return deltaSpec{"E", skew}
	case 12:
		return deltaSpec{"E-1ms", skew - ms}
	case 13:
		return deltaSpec{"E+1ms", skew + ms}
	case 14, 15:
		// anywhere within two skews of the boundary, nanosecond granularity
		return deltaSpec{"near", time.Duration(rapid.Int64Range(int64(-2*skew), int64(2*skew)).Draw(rt, label+"Near"))}
	case 16:
		return deltaSpec{"R-1s", -time.Second}
	case 17:
		return deltaSpec{"R+1s", time.Second}
	default:
		// uniform over a whole period, millisecond granularity
		return deltaSpec{"uniform", time.Duration(rapid.Int64Range(int64(-period/2/ms), int64(period/2/ms)).Draw(rt, label+"Uni")) * ms}
	}
}

type stepSpec struct {
	Move  string        `json:"move"` // rot | frac | jump | stay | dial
	Delta deltaSpec     `json:"delta,omitempty"`
	Frac  int           `json:"frac,omitempty"` // permille of the way to the next rotation
	Jump  time.Duration `json:"jump,omitempty"`
	Dial  dialSpec      `json:"dial,omitempty"`
	Act   string        `json:"act"`            // none | restart | close | twin | learn
	From  string        `json:"from,omitempty"` // learn: A | B (the listener the address is learnt from)
}

// dialSpec aims the clock at an instant that is defined relative to the instant at which
// some dialer LEARNT the listener's address (the statement: "an address learned at any
// time keeps verifying through the current and the following certificate period"):
//
//	learn    learn instant + K periods + D
//	uni      learn instant + D, D uniform over 2.5 periods
//	cur-end  end of the certificate period in which the address was learnt + D
//	fol-end  end of the FOLLOWING certificate period (= end of the promise) + D
//
// (time only moves forward: an instant that has passed already means "dial now").
type dialSpec struct {
	Who   int           `json:"who"` // which learner (modulo the candidates at that moment)
	Base  string        `json:"base"`
	K     int           `json:"k,omitempty"`
	D     time.Duration `json:"d,omitempty"`
	Class string        `json:"class"`
}

func drawDial(rt *rapid.T) dialSpec {
	d := dialSpec{Who: rapid.IntRange(0, 11).Draw(rt, "dialWho")}
	small := func() (string, time.Duration) {
		switch rapid.IntRange(0, 5).Draw(rt, "dialSmall") {
		case 0:
			return "-1ms", -time.Millisecond
		case 1:
			return "-1ns", -1
		case 2:
			return "+1ns", 1
		case 3:
			return "+1ms", time.Millisecond
		default:
			return "", 0
		}
	}
	switch c := rapid.IntRange(0, 9).Draw(rt, "dialBase"); {
	case c <= 2:
		d.Base, d.K = "learn", rapid.IntRange(0, 2).Draw(rt, "dialK")
		var n string
		n, d.D = small()
		d.Class = fmt.Sprintf("learn+%dp%s", d.K, n)
	case c <= 4:
		d.Base = "uni"
		d.D = time.Duration(rapid.Int64Range(0, int64(5*period/2/time.Millisecond)).Draw(rt, "dialUni")) * time.Millisecond
		d.Class = fmt.Sprintf("learn+uniform%d", int(d.D/(period/2)))
	case c <= 6:
		d.Base = "cur-end"
		var n string
		n, d.D = small()
		d.Class = "cur-end" + n
	default:
		d.Base = "fol-end"
		var n string
		n, d.D = small()
		d.Class = "fol-end" + n
	}
	return d
}

func (s stepSpec) class() string {
	switch s.Move {
	case "rot":
		return "rot:" + s.Delta.Class + "/" + s.Act + s.From
	case "jump":
		return fmt.Sprintf("jump%d/%s", int(s.Jump/period), s.Act+s.From)
	case "frac":
		return fmt.Sprintf("frac%d/%s", s.Frac/250, s.Act+s.From)
	case "dial":
		return "dial:" + s.Dial.Class + "/" + s.Act + s.From
	}
	return s.Move + "/" + s.Act + s.From
}

func drawStep(rt *rapid.T) stepSpec {
	var s stepSpec
	switch m := rapid.IntRange(0, 12).Draw(rt, "move"); {
	case m <= 5:
		s.Move, s.Delta = "rot", drawDelta(rt, "step")
	case m <= 7:
		s.Move, s.Frac = "frac", rapid.IntRange(0, 999).Draw(rt, "frac")
	case m == 8:
		s.Move = "jump"
		s.Jump = time.Duration(rapid.Int64Range(0, int64(5*period/2/time.Millisecond)).Draw(rt, "jump")) * time.Millisecond
	case m == 9:
		s.Move = "stay"
	default:
		s.Move, s.Dial = "dial", drawDial(rt)
	}
	s.Act = rapid.SampledFrom([]string{"none", "none", "restart", "restart", "restart", "close", "twin", "twin", "learn", "learn", "learn"}).Draw(rt, "act")
	if s.Act == "learn" {
		s.From = rapid.SampledFrom([]string{"A", "B"}).Draw(rt, "learnFrom")
	}
	return s
}

type timelineSpec struct {
	Key      hostKeySpec `json:"key"`
	ShiftDay int         `json:"shift_days"` // coarse position of the whole timeline after 2000-01-01
	J        int         `json:"j"`
	Start    deltaSpec   `json:"start"`
	BAtStart bool        `json:"b_at_start"`
	Steps    []stepSpec  `json:"steps"`
	Epilogue bool        `json:"epilogue"` // finally run into the next rotation, so that the last "next" hash is put to the test
}

func drawTimeline(rt *rapid.T) timelineSpec {
	var s timelineSpec
	s.Key = drawHostKey(rt)
	if rapid.IntRange(0, 3).Draw(rt, "shiftKind") == 0 {
		s.ShiftDay = rapid.IntRange(0, 20000).Draw(rt, "shiftDays") // up to ~2054 (UTCTime/GeneralizedTime switch at 2050)
	}
	s.J = rapid.IntRange(0, 3).Draw(rt, "j")
	s.Start = drawDelta(rt, "start")
	s.BAtStart = rapid.Bool().Draw(rt, "bAtStart")
	n := rapid.IntRange(1, 10).Draw(rt, "nsteps")
	for i := 0; i < n; i++ {
		s.Steps = append(s.Steps, drawStep(rt))
	}
	s.Epilogue = rapid.Bool().Draw(rt, "epilogue")
	return s
}

// ---------------------------------------------------------------------------
// the world of one timeline

type periodRec struct {
	idx    int
	raw    []byte
	sum    [32]byte
	nb, na time.Time
}

type advert struct {
	idx  int // period in which it was taken
	at   time.Time
	who  string
	kind string // "addr" | "serialized"
	hs   hashSet
	srcs map[*mgr]bool // every manager INSTANCE that handed out exactly this advertisement in period idx
}

// learner is a dialer that learnt the listener's address at some instant and dials it
// later (at every sampled instant from then on).
type learner struct {
	id        int
	src       *mgr // the running listener the address was taken from
	fromB     bool // the restartable listener (a later dial may find a restarted instance)
	at        time.Time
	idx       int       // certificate period at the learn instant
	rot1      time.Time // end of that period (rotation instant NotAfter-skew of the certificate served at the learn instant)
	srcRolls  int       // rollovers the source had performed before the address was learnt
	addr      hashSet
	lastDialQ int // evidence only
}

// inflight is a handshake the listener m began at instant `at`: TLS presented the
// certificate served then (sum) and the listener fetched the hash list it is going to
// confirm (SerializedCertHashes(), what listener.handshake hands to the Noise session as
// early data). The Noise layer serialises THAT list one or more round trips later, so the
// slices are kept exactly as they were handed out (not copied) and read again at later
// sampled instants, possibly after the manager rolled over.
type inflight struct {
	m     *mgr
	at    time.Time
	idx   int      // certificate period at the fetch instant
	rolls int      // rollovers m had performed at the fetch instant
	sum   [32]byte // SHA-256 of the certificate served at the fetch instant
	list  [][]byte // as handed out by the manager (kept, NOT copied)
	then  [][]byte // deep copy taken at the fetch instant (for the message only)
}

type mgr struct {
	name    string
	h       *wt.VerifCertManager
	created time.Time
	lastSum [32]byte
	rolled  bool
	rolls   int // rollovers observed on this instance
	closed  bool
	probe   bool // throw-away manager used to learn the boundaries: judged on its own only
}

type world struct {
	rt       *rapid.T
	key      ic.PrivKey
	a, b     *mgr
	open     []*mgr
	periods  []*periodRec
	adverts  map[string]*advert // deduplicated by (period, kind, hash set)
	learners []*learner
	inflight []*inflight

	// evidence
	inflightReads  int // reads of a kept list at a later instant
	inflightAcross int // ... of which after a rollover of the manager that handed it out
	rollovers      int
	restarts       int
	twins          int
	samples        int
	nearBoundary   bool
	afterRestart   bool
	exactRot       int
	confirmMissing int // informational: adverts whose hashes a manager could not all confirm (fresh managers, by design)
	confirmChecked int
	dialsRunning   int // dials against the still-running listener within the promised two periods
	dialsAcross    int // ... of which at least one rollover after the learn instant
	labels         map[string]bool
}

func (w *world) label(l string) { w.labels[l] = true }

// newMgr creates a manager at the current instant and judges it at once, BEFORE its
// timer goroutine had a chance to run: a listener can be asked for its certificate as
// soon as the constructor returns. (With the unchanged code the first timer is strictly
// in the future, so nothing races with this sample.)
func (w *world) newMgr(name string) *mgr {
	h, err := wt.VerifNewCertManager(w.key, clock.New())
	if err != nil {
		w.rt.Fatalf("%s: newCertManager at %s: %v", name, time.Now().UTC().Format(time.RFC3339Nano), err)
	}
	m := &mgr{name: name, h: h, created: time.Now(), probe: name == "probe"}
	w.open = append(w.open, m)
	if name == "A" {
		w.a = m
	}
	w.sample(m, "right after creation")
	if !m.probe && !strings.HasPrefix(name, "twin") {
		// an address can be learnt as soon as the constructor has returned
		w.learn(m, "right after creation")
	}
	return m
}

// dialTarget turns a dialSpec into an instant. The learner is chosen among those whose
// promise is still running (source listener alive, learnt in the current or the
// previous period), if there is one.
func (w *world) dialTarget(d dialSpec) time.Time {
	cur := w.periods[len(w.periods)-1]
	var cand []*learner
	for _, l := range w.learners {
		if !l.src.closed && cur.idx-l.idx <= 1 {
			cand = append(cand, l)
		}
	}
	if len(cand) == 0 {
		cand = w.learners
	}
	l := cand[d.Who%len(cand)]
	switch d.Base {
	case "learn":
		return l.at.Add(time.Duration(d.K) * period).Add(d.D)
	case "uni":
		return l.at.Add(d.D)
	case "cur-end":
		return l.rot1.Add(d.D)
	case "fol-end":
		return l.rot1.Add(period).Add(d.D)
	}
	panic("unknown dial base " + d.Base)
}

func (w *world) closeMgr(m *mgr) {
	m.h.Close()
	m.closed = true
	for i, o := range w.open {
		if o == m {
			w.open = append(w.open[:i], w.open[i+1:]...)
			break
		}
	}
}

func (w *world) closeAll() {
	for _, m := range w.open {
		m.h.Close()
	}
	w.open = nil
}

func ts(t time.Time) string { return t.UTC().Format("2006-01-02T15:04:05.000000000Z") }

// served returns the bytes a TLS handshake would present right now, parsed.
func (w *world) served(m *mgr) ([]byte, *x509.Certificate, crypto.PrivateKey) {
	conf := m.h.GetConfig()
	if conf == nil || len(conf.Certificates) == 0 || len(conf.Certificates[0].Certificate) == 0 {
		w.rt.Fatalf("%s at %s: GetConfig() offers no certificate", m.name, ts(time.Now()))
	}
	tc := conf.Certificates[0]
	raw := tc.Certificate[0]
	cert, err := x509.ParseCertificate(raw)
	if err != nil {
		w.rt.Fatalf("%s at %s: served certificate does not parse: %v", m.name, ts(time.Now()), err)
	}
	if tc.Leaf != nil && !bytes.Equal(tc.Leaf.Raw, raw) {
		w.rt.Fatalf("%s at %s: Certificates[0].Leaf is not the certificate that is served", m.name, ts(time.Now()))
	}
	return raw, cert, tc.PrivateKey
}

// sample judges manager m at the current (quiescent) instant.
func (w *world) sample(m *mgr, why string) {
	rt := w.rt
	now := time.Now()
	w.samples++
	raw, cert, priv := w.served(m)
	sum := sha256.Sum256(raw)
	at := fmt.Sprintf("%s at %s (%s)", m.name, ts(now), why)

	// served certificate: valid for at least the skew allowance on both sides, <= 14 days
	from, until := cert.NotBefore.Add(skew), cert.NotAfter.Add(-skew)
	if now.Before(from) {
		rt.Fatalf("%s: served certificate [%s, %s] has been valid for only %v (< clock-skew allowance %v)", at, ts(cert.NotBefore), ts(cert.NotAfter), now.Sub(cert.NotBefore), skew)
	}
	if now.After(until) {
		rt.Fatalf("%s: served certificate [%s, %s] stays valid for only %v (< clock-skew allowance %v)", at, ts(cert.NotBefore), ts(cert.NotAfter), cert.NotAfter.Sub(now), skew)
	}
	if l := cert.NotAfter.Sub(cert.NotBefore); l > maxLifetime {
		rt.Fatalf("%s: served certificate lifetime %v exceeds 14 days", at, l)
	}
	if s, ok := priv.(crypto.Signer); !ok {
		rt.Fatalf("%s: served certificate comes without a signing key (%T)", at, priv)
	} else if pk, ok := cert.PublicKey.(interface{ Equal(crypto.PublicKey) bool }); !ok || !pk.Equal(s.Public()) {
		rt.Fatalf("%s: private key of the TLS config does not belong to the served certificate", at)
	}
	for _, b := range []time.Time{from, until} {
		if d := now.Sub(b); d >= -time.Millisecond && d <= time.Millisecond {
			w.nearBoundary = true
			if d == 0 {
				w.exactRot++
			}
		}
	}

	if m.probe {
		ser := decodeSerialized(rt, at, m.h.SerializedCertHashes())
		addr := decodeAddr(rt, at, m.h.AddrComponent())
		if !ser.hasSHA256(sum) || !addr.hasSHA256(sum) {
			rt.Fatalf("%s: advertisements %v / %v lack the hash %x of the served certificate", at, ser, addr, sum[:6])
		}
		return
	}

	// period bookkeeping: A runs without interruption and is sampled at every rotation
	// instant, so the sequence of its distinct leaves is the sequence of periods.
	if m == w.a {
		if len(w.periods) == 0 || w.periods[len(w.periods)-1].sum != sum {
			if len(w.periods) > 0 {
				w.rollovers++
			}
			w.periods = append(w.periods, &periodRec{idx: len(w.periods), raw: raw, sum: sum, nb: cert.NotBefore, na: cert.NotAfter})
		}
	}
	cur := w.periods[len(w.periods)-1]
	// determinism / restart equivalence: same key, same instant => same bytes as the long-running manager
	if !bytes.Equal(raw, cur.raw) {
		rt.Fatalf("%s (created %s): serves [%s, %s] sha256=%x, but the long-running manager with the same key serves [%s, %s] sha256=%x at this instant",
			at, ts(m.created), ts(cert.NotBefore), ts(cert.NotAfter), sum[:6], ts(cur.nb), ts(cur.na), cur.sum[:6])
	}
	if m.lastSum != sum && m.lastSum != ([32]byte{}) {
		m.rolled = true
		m.rolls++
	}
	m.lastSum = sum

	// advertisements contain the served hash
	serRaw := m.h.SerializedCertHashes()
	ser := decodeSerialized(rt, at, serRaw)
	addr := decodeAddr(rt, at, m.h.AddrComponent())
	if !ser.hasSHA256(sum) {
		rt.Fatalf("%s: SerializedCertHashes() %v lacks the sha2-256 hash %x of the served certificate", at, ser, sum[:6])
	}
	if !addr.hasSHA256(sum) {
		rt.Fatalf("%s: AddrComponent() %v lacks the sha2-256 hash %x of the served certificate", at, addr, sum[:6])
	}
	w.record(m, &advert{idx: cur.idx, at: now, who: m.name, kind: "addr", hs: addr})
	w.record(m, &advert{idx: cur.idx, at: now, who: m.name, kind: "serialized", hs: ser})

	// every advertisement of this and of the previous period verifies the served leaf NOW
	for _, ad := range w.adverts {
		if ad.idx != cur.idx && ad.idx != cur.idx-1 {
			continue
		}
		if err := wt.VerifVerifyRawCerts([][]byte{raw}, []multihash.DecodedMultihash(ad.hs)); err != nil {
			what := "the same"
			if ad.idx != cur.idx {
				what = "the previous"
			}
			rt.Fatalf("%s: the %s advertisement %v taken from %s at %s in %s certificate period does not verify the certificate served now [%s, %s] sha256=%x: %v",
				at, ad.kind, ad.hs, ad.who, ts(ad.at), what, ts(cert.NotBefore), ts(cert.NotAfter), sum[:6], err)
		}
		// Would a dialer that learnt this address get every hash confirmed by m now? (The dialer
		// completes only if the server confirms EVERY hash of the dialled address.)
		//  - m itself handed out this address in this or the previous period and has been running
		//    ever since: the statement promises that the address "keeps verifying through the
		//    current and the following certificate period", so m must confirm all of it.
		//  - otherwise (address from another instance, e.g. before a restart): informational.
		if ad.kind == "addr" {
			w.confirmChecked++
			if !ser.superset(ad.hs) {
				if ad.srcs[m] {
					what := "the same"
					if ad.idx != cur.idx {
						what = "the previous"
					}
					rt.Fatalf("%s: the hash list this listener confirms to dialers (SerializedCertHashes = Noise early data) %v does not contain every hash of the address %v that this very listener (running without interruption since %s, %d rollover(s) so far) advertised at %s in %s certificate period: a dialer holding that address cannot complete a connection now",
						at, ser, ad.hs, ts(m.created), m.rolls, ts(ad.at), what)
				}
				w.confirmMissing++
				if m.rolled {
					w.label("confirm-missing-without-restart")
				}
			}
		}
	}

	// handshakes of m that are still in flight serialise, now, the list they fetched when they began
	w.readInflight(m, at)
	// ... and a handshake begins now: TLS presents `raw`, the listener fetches serRaw
	f := &inflight{m: m, at: now, idx: cur.idx, rolls: m.rolls, sum: sum, list: serRaw}
	for _, b := range serRaw {
		f.then = append(f.then, bytes.Clone(b))
	}
	w.inflight = append(w.inflight, f)
}

func hexList(l [][]byte) string {
	parts := make([]string, 0, len(l))
	for _, b := range l {
		parts = append(parts, fmt.Sprintf("%x..", b[:min(8, len(b))]))
	}
	return "[" + strings.Join(parts, " ") + "]"
}

// readInflight: every handshake that listener m began at most maxInFlight ago sends, now,
// the hash list it fetched when it began. From the statement: the dialer of such a
// handshake was served the certificate of the fetch instant and may have dialled any
// address this running listener advertised in the period of the fetch instant or in the
// previous one ("an address learned at any time keeps verifying through the current and
// the following certificate period"); it completes only if the list it receives confirms
// every hash it relied on. So the list, as it reads NOW, must still decode, hold the hash
// of the certificate that was served in that handshake, and hold every hash of every such
// address - whatever the manager did in between (value semantics of what was handed out).
func (w *world) readInflight(m *mgr, at string) {
	rt := w.rt
	now := time.Now()
	keep := w.inflight[:0]
	for _, f := range w.inflight {
		if f.m.closed || now.Sub(f.at) > maxInFlight {
			continue // the handshake is over (listener closed / timed out)
		}
		keep = append(keep, f)
		if f.m != m || !now.After(f.at) {
			continue
		}
		w.inflightReads++
		across := m.rolls > f.rolls
		hs := func() string {
			return fmt.Sprintf("%s: a handshake this listener began at %s (%v ago, certificate period %d, %d rollover(s) of the listener before, %d since) fetched the hash list %s to confirm; now that the Noise payload is serialised it reads %s",
				at, ts(f.at), now.Sub(f.at), f.idx, f.rolls, m.rolls-f.rolls, hexList(f.then), hexList(f.list))
		}
		var got hashSet
		for _, b := range f.list {
			dh, err := multihash.Decode(b)
			if err != nil {
				rt.Fatalf("%s: undecodable multihash %x: %v", hs(), b, err)
			}
			got = append(got, *dh)
		}
		if !got.hasSHA256(f.sum) {
			rt.Fatalf("%s, which lacks the hash %x of the certificate that was served in that handshake", hs(), f.sum[:6])
		}
		prevRelied := false
		for _, ad := range w.adverts {
			if ad.kind != "addr" || !ad.srcs[m] || ad.at.After(f.at) || (ad.idx != f.idx && ad.idx != f.idx-1) {
				continue
			}
			if !got.superset(ad.hs) {
				what := "the same"
				if ad.idx != f.idx {
					what = "the previous"
				}
				rt.Fatalf("%s, which no longer contains every hash of the address %v that this very listener advertised at %s in %s certificate period: a dialer that dialled that address when the handshake began (inside its promised lifetime, and served a certificate it pins) is refused ('missing cert hash')",
					hs(), ad.hs, ts(ad.at), what)
			}
			if ad.idx != f.idx {
				prevRelied = true
			}
		}
		if across {
			w.inflightAcross++
			w.label(fmt.Sprintf("inflight:handshake-straddles-rollover/listener-had-rolled-before=%v", f.rolls > 0))
			if prevRelied {
				w.label("inflight:handshake-straddles-rollover/address-of-previous-period-relied-on")
			}
			switch gap := now.Sub(f.at); {
			case gap <= time.Microsecond:
				w.label("inflight:straddle-gap<=1us")
			case gap <= time.Millisecond:
				w.label("inflight:straddle-gap<=1ms")
			case gap <= time.Second:
				w.label("inflight:straddle-gap<=1s")
			default:
				w.label("inflight:straddle-gap<=10s")
			}
		}
	}
	w.inflight = keep
}

func (w *world) record(m *mgr, ad *advert) {
	k := fmt.Sprintf("%d/%s/%s", ad.idx, ad.kind, ad.hs.key())
	old, ok := w.adverts[k]
	if !ok {
		ad.srcs = map[*mgr]bool{}
		w.adverts[k], old = ad, ad
	}
	old.srcs[m] = true
}

// learn: a dialer takes the address the listener m advertises at this (quiescent or
// right-after-construction) instant.
func (w *world) learn(m *mgr, why string) *learner {
	cur := w.periods[len(w.periods)-1]
	at := fmt.Sprintf("%s at %s (%s)", m.name, ts(time.Now()), why)
	l := &learner{id: len(w.learners), src: m, fromB: m != w.a, at: time.Now(), idx: cur.idx, rot1: cur.na.Add(-skew),
		srcRolls: m.rolls, addr: decodeAddr(w.rt, at, m.h.AddrComponent()), lastDialQ: -1}
	w.learners = append(w.learners, l)
	return l
}

// dial replays, at the current instant, what a dialer does with the address it learnt
// (model of the dialer written from the statement):
//
//	(1) it accepts the served certificate only if the verifier accepts it against the
//	    hashes of the dialled address (the REAL verifyRawCerts on virtual time), and
//	(2) it completes only if the hash list the server sends inside the handshake
//	    (SerializedCertHashes, which listener.handshake puts into the Noise early data)
//	    contains every hash of the dialled address.
//
// Verdict, from the statement: while the listener the address was learnt from keeps
// running and serves the period of the learn instant or the following one, the dial must
// complete. Later than that nothing is promised, except that a certificate whose hash is
// not in the address is refused. A restarted listener is judged on (1) only; whether it
// confirms the older hash is recorded as a label.
func (w *world) dial(l *learner, why string) {
	rt := w.rt
	now := time.Now()
	m, restarted := l.src, false
	if m.closed {
		if !l.fromB || w.b == nil {
			w.label("dial:listener-gone")
			return
		}
		m, restarted = w.b, true
	}
	raw, cert, _ := w.served(m)
	sum := sha256.Sum256(raw)
	cur := w.periods[len(w.periods)-1]
	q := cur.idx - l.idx
	at := fmt.Sprintf("dialer #%d (learnt %v from %s at %s, certificate period %d, %d rollover(s) of that listener earlier) dials %s at %s = learn+%v, certificate period %d (%s)",
		l.id, l.addr, l.src.name, ts(l.at), l.idx, l.srcRolls, m.name, ts(now), now.Sub(l.at), cur.idx, why)

	pinErr := wt.VerifVerifyRawCerts([][]byte{raw}, []multihash.DecodedMultihash(l.addr))
	confirmed := decodeSerialized(rt, at, m.h.SerializedCertHashes())
	var missing hashSet
	for _, h := range l.addr {
		if !confirmed.superset(hashSet{h}) {
			missing = append(missing, h)
		}
	}
	completes := pinErr == nil && len(missing) == 0

	if q >= 2 {
		// beyond the following period: nothing promised about completing
		if !l.addr.hasSHA256(sum) && pinErr == nil {
			rt.Fatalf("%s: the verifier accepts the served certificate sha256=%x although no hash of the dialled address equals it", at, sum[:6])
		}
		w.label(fmt.Sprintf("dial:beyond-following-period/completes=%v", completes))
		return
	}
	if pinErr != nil {
		rt.Fatalf("%s: the address no longer verifies the certificate served now [%s, %s] sha256=%x: %v", at, ts(cert.NotBefore), ts(cert.NotAfter), sum[:6], pinErr)
	}
	if restarted {
		w.label(fmt.Sprintf("dial:restarted-listener/rollovers-since-learn=%d/all-hashes-confirmed=%v", q, len(missing) == 0))
		return
	}
	if len(missing) > 0 {
		rt.Fatalf("%s: the listener has been running without interruption (created %s, %d rollover(s)), yet the hash list it confirms inside the handshake %v lacks %v of the dialled address: the dial cannot complete although the address was learnt in the %s certificate period",
			at, ts(m.created), m.rolls, confirmed, missing, map[int]string{0: "current", 1: "previous"}[q])
	}
	// evidence
	w.dialsRunning++
	if l.lastDialQ != q {
		l.lastDialQ = q
		src := "A"
		if l.fromB {
			src = "B"
		}
		w.label(fmt.Sprintf("dial:running-listener=%s/rollovers-since-learn=%d", src, q))
	}
	if q == 1 {
		w.dialsAcross++
		if l.srcRolls > 0 {
			w.label("dial:across-rollover/listener-had-rolled-before-learn")
		} else {
			w.label("dial:across-rollover/first-rollover-of-listener")
		}
		switch dt := now.Sub(l.at); {
		case dt <= time.Millisecond:
			w.label("dial:across-rollover/learn+<=1ms")
		case dt > period:
			w.label("dial:across-rollover/learn+>1period")
		}
		if d := l.rot1.Add(period).Sub(now); d > 0 && d <= time.Millisecond {
			w.label("dial:within-1ms-of-end-of-following-period")
		}
		if now.Equal(l.rot1) {
			w.label("dial:exactly-at-rollover-after-learn")
		}
	}
}

func (w *world) sampleAll(why string) {
	synctest.Wait()
	w.sample(w.a, why)
	if w.b != nil {
		w.sample(w.b, why)
	}
	for _, l := range w.learners {
		w.dial(l, why)
	}
}

// nextRotation is the instant at which the statement forces a rotation: the served
// certificate stops being valid-with-allowance at NotAfter-skew.
func (w *world) nextRotation() time.Time {
	return w.periods[len(w.periods)-1].na.Add(-skew)
}

// advanceTo moves the virtual clock to target, stopping (and sampling) at every
// rotation instant on the way so that no certificate period goes unobserved.
func (w *world) advanceTo(target time.Time, why string) {
	for {
		now := time.Now()
		if !target.After(now) {
			return
		}
		stop, reason := target, why
		if r := w.nextRotation(); r.After(now) && r.Before(target) {
			stop, reason = r, "rotation instant passed on the way"
		}
		time.Sleep(stop.Sub(now))
		w.sampleAll(reason)
	}
}

func TestTimeline(t *testing.T) {
	name := t.Name()
	hx.Check(t, 16000, 400000, 0, func(rt *rapid.T) {
		spec := drawTimeline(rt)
		w := &world{rt: rt, adverts: map[string]*advert{}, labels: map[string]bool{}}
		var offCls string
		hx.Bubble(t, rt, func() {
			defer w.closeAll()
			w.key = spec.Key.key()
			offCls = offsetClass(w.key)
			if spec.ShiftDay > 0 {
				time.Sleep(time.Duration(spec.ShiftDay) * 24 * time.Hour)
			}
			t0 := time.Now()
			// Learn where this key's rotation boundaries are from a throw-away manager.
			probe := w.newMgr("probe")
			_, pc, _ := w.served(probe)
			w.closeMgr(probe)
			r1 := pc.NotAfter.Add(-skew)
			start := r1.Add(time.Duration(spec.J) * period).Add(spec.Start.D)
			for start.Before(t0) {
				start = start.Add(period)
			}
			time.Sleep(start.Sub(t0))

			w.newMgr("A")
			if spec.BAtStart {
				w.b = w.newMgr("B0")
			}
			w.sampleAll("start")

			for i, st := range spec.Steps {
				now := time.Now()
				target := now
				switch st.Move {
				case "rot":
					target = w.nextRotation().Add(st.Delta.D)
				case "frac":
					if r := w.nextRotation(); r.After(now) {
						target = now.Add(time.Duration(int64(r.Sub(now)) / 1000 * int64(st.Frac)))
					}
				case "jump":
					target = now.Add(st.Jump)
				case "dial":
					target = w.dialTarget(st.Dial)
				}
				if target.Before(now) {
					target = now
				}
				why := fmt.Sprintf("step %d %s", i, st.class())
				if target.After(now) {
					w.advanceTo(target, why)
				} else {
					w.sampleAll(why)
				}
				switch st.Act {
				case "restart":
					if w.b != nil {
						w.closeMgr(w.b)
					}
					w.restarts++
					w.b = w.newMgr(fmt.Sprintf("B%d", w.restarts))
					w.sampleAll(why + " after restart")
					w.afterRestart = true
				case "close":
					if w.b != nil {
						w.closeMgr(w.b)
						w.b = nil
					}
				case "learn":
					m := w.a
					if st.From == "B" && w.b != nil {
						m = w.b
					}
					w.learn(m, why+" learn")
					w.sampleAll(why + " after learn") // the first dial: at the learn instant itself
				case "twin":
					w.twins++
					tw := w.newMgr(fmt.Sprintf("twin%d", w.twins))
					synctest.Wait()
					w.sample(tw, why+" twin")
					w.closeMgr(tw)
				}
			}
			if spec.Epilogue {
				w.advanceTo(w.nextRotation(), "epilogue: next rotation instant")
			}
		})

		// evidence
		var cls []string
		for _, st := range spec.Steps {
			cls = append(cls, st.class())
		}
		nontrivial := w.nearBoundary || w.afterRestart
		fp := fmt.Sprintf("%s|%s|%d|%s|%v|%s|%v|r%d", spec.Key.Kind, offCls, spec.J, spec.Start.Class, spec.BAtStart, strings.Join(cls, ","), spec.Epilogue, w.rollovers)
		labels := []string{"key=" + spec.Key.Kind, offCls, "start=" + spec.Start.Class, fmt.Sprintf("rollovers=%d", min(w.rollovers, 7)),
			fmt.Sprintf("restarts=%d", min(w.restarts, 4))}
		if w.nearBoundary {
			labels = append(labels, "sample-within-1ms-of-boundary")
		}
		if w.exactRot > 0 {
			labels = append(labels, "sample-exactly-at-boundary")
		}
		if w.afterRestart {
			labels = append(labels, "sample-after-restart")
		}
		if w.twins > 0 {
			labels = append(labels, "twin")
		}
		if spec.ShiftDay > 0 {
			labels = append(labels, "shifted-epoch")
		}
		if w.confirmMissing > 0 {
			labels = append(labels, "note:restarted-server-cannot-confirm-previous-period-address")
		}
		for _, st := range spec.Steps {
			if st.Move == "dial" {
				w.label("gen:dial-move/" + st.Dial.Base)
			}
			if st.Act == "learn" {
				w.label("gen:learn-act/" + st.From)
			}
		}
		if w.dialsAcross > 0 {
			labels = append(labels, "dial:running-listener-across-rollover")
		}
		if w.inflightReads > 0 {
			labels = append(labels, "inflight:kept-hash-list-read-at-a-later-instant")
		}
		if w.inflightAcross > 0 {
			labels = append(labels, "inflight:handshake-straddles-rollover")
		}
		labels = append(labels, fmt.Sprintf("learners=%d", min(len(w.learners), 8)/2*2))
		for l := range w.labels {
			labels = append(labels, l)
		}
		sort.Strings(labels)
		stats.Case(name, fp, nontrivial, labels...)
		if stats.WantSample(name) {
			stats.Sample(name, map[string]any{"spec": spec, "rollovers": w.rollovers, "samples": w.samples, "periods": len(w.periods), "offset": offCls,
				"learners": len(w.learners), "dials_running_listener": w.dialsRunning, "dials_across_rollover": w.dialsAcross})
		}
	})
}
