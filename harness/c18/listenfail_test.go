package c18

import (
	"bytes"
	"context"
	"crypto/sha256"
	"crypto/tls"
	"crypto/x509"
	"errors"
	"fmt"
	"io"
	"net"
	"os"
	"sort"
	"strings"
	"sync"
	"syscall"
	"testing"
	"testing/synctest"
	"time"

	"github.com/benbjohnson/clock"
	tpt "github.com/libp2p/go-libp2p/core/transport"
	"github.com/libp2p/go-libp2p/p2p/transport/quicreuse"
	wt "github.com/libp2p/go-libp2p/p2p/transport/webtransport"
	"github.com/marcopolo/simnet"
	ma "github.com/multiformats/go-multiaddr"
	"github.com/multiformats/go-multibase"
	"github.com/multiformats/go-multihash"
	"github.com/quic-go/quic-go"
	"pgregory.net/rapid"

	"verif/internal/hx"
	"verif/internal/stats"
)

// TestTransportListenHistory: the statement is about "a WebTransport LISTENER", "at every
// instant", "for every number of rollovers". A listener is not alone: it belongs to a
// transport on which further Listen calls are made (libp2p listens on several addresses and
// tolerates individual failures), some of which FAIL, and on which listeners are closed and
// opened again. The generated dimension of this test is the HISTORY OF LISTEN CALLS of the
// transport around the rollovers:
//
//	listen         a Listen on a free address (succeeds)
//	fail/<kind>    a Listen that is bound to fail, at a generated instant:
//	                 in-use            the UDP address is held by a foreign socket (bind: EADDRINUSE)
//	                 not-available     the IP is not local (bind: EADDRNOTAVAIL)
//	                 same-port         the address of a live listener of this very transport
//	                                   ("already listening for protocol h3" / EADDRINUSE)
//	                 not-webtransport  /quic-v1 address without /webtransport
//	                 with-certhash     a /certhash in the listen address
//	                 not-quic          /ip4/../tcp/..
//	               (the first three pass the address validation and fail in the QUIC layer, the
//	               others fail in the validation), before any listener exists (the very first Listen
//	               of the transport), while listeners are live, or after all of them were closed
//	close          a live listener is closed (possibly the last one; a later Listen re-opens)
//	learn          a dialer takes the address a live listener advertises now
//
// interleaved with clock moves (to just before / at / after the next rotation instant, a
// fraction of the way, a jump over several periods; every rotation instant passed on the
// way is a sampling instant too).
//
// The REAL transport (webtransport.New + Listen, quicreuse, quic-go, the http3 server) runs
// inside a synctest bubble on virtual time over an in-memory UDP stack (fakeUDP: a bind
// table with foreign-held addresses and non-local IPs; zero latency). What a listener serves
// is OBSERVED by a reference client (plain quic-go: one QUIC/TLS handshake with ALPN h3 per
// listener and sampling instant, rawCerts[0] recorded), what it advertises is
// Listener.Multiaddr().
//
// Oracle (from the statement, whatever Listen calls failed in between), per live listener and
// sampling instant t:
//
//	(1) it completes a TLS handshake and presents a certificate with
//	    NotBefore+skew <= t <= NotAfter-skew and lifetime <= 14 days;
//	(2) the certhashes of Multiaddr() contain the SHA-256 of that certificate;
//	(3) the certificate is the deterministic function of host key and time bucket: byte-identical
//	    to what a certificate manager with the same key, running undisturbed since the start of
//	    the case (the reference of TestTimeline), serves at t (exactly at a rotation instant: or
//	    served just before it - both satisfy (1) there);
//	(4) every address learnt from this listener in the current or the previous certificate
//	    period still verifies the served certificate (real verifyRawCerts on virtual time, and
//	    hash membership recomputed here).
//
// Nothing is demanded of the Listen calls themselves (whether an intended failure really
// failed is a label).
//
// The advertised address is obtained in TWO ways at every sampling instant: Listener.Multiaddr()
// and Transport.AddCertHashes(bare /webtransport address) - what swarm.AddCertHashes / the basic
// host use for observed, NAT-mapped and user-provided addresses. Generated: the bare address,
// the step from which AddCertHashes is called (mostly the first; sometimes after k rollovers;
// sometimes never = control), a call before the first Listen (nothing demanded), a second bare
// address from a later step. The address obtained through AddCertHashes is held to rules (2) and
// (4) like the listener's own: it contains the hash of what every live listener serves now, and
// every such address obtained at any sampled instant of the current or the previous period
// verifies what is served now (see sampleACH).

// ---------------------------------------------------------------------------
// in-memory UDP stack

var (
	lfLocalIPs   = []string{"1.0.0.1", "1.0.0.2"}
	lfForeignIP  = "9.9.9.9" // not a local address: bind fails with EADDRNOTAVAIL
	lfObserverIP = "1.0.0.9"
)

type fakeUDP struct {
	mu       sync.Mutex
	local    map[string]bool
	bound    map[string]*simnet.SimConn // "ip:port" -> socket; a nil socket = held by a foreign process
	nextPort int
	binds    int // successful binds (evidence)
	refused  int // refused binds (evidence)
}

func newFakeUDP() *fakeUDP {
	f := &fakeUDP{local: map[string]bool{lfObserverIP: true}, bound: map[string]*simnet.SimConn{}, nextPort: 40000}
	for _, ip := range lfLocalIPs {
		f.local[ip] = true
	}
	return f
}

// RecvPacket routes a datagram to the socket bound to its destination (zero latency,
// delivered on the sender's goroutine); datagrams to nowhere are dropped.
func (f *fakeUDP) RecvPacket(p simnet.Packet) {
	f.mu.Lock()
	c := f.bound[p.To.String()]
	f.mu.Unlock()
	if c != nil {
		c.RecvPacket(p)
	}
}

type fakeSock struct {
	*simnet.SimConn
	f   *fakeUDP
	key string
}

func (s *fakeSock) Close() error {
	s.f.mu.Lock()
	if s.f.bound[s.key] == s.SimConn {
		delete(s.f.bound, s.key)
	}
	s.f.mu.Unlock()
	return s.SimConn.Close()
}

func bindErr(network string, laddr *net.UDPAddr, errno syscall.Errno) error {
	return &net.OpError{Op: "listen", Net: network, Addr: laddr, Err: os.NewSyscallError("bind", errno)}
}

// listenUDP is what quicreuse calls instead of net.ListenUDP.
func (f *fakeUDP) listenUDP(network string, laddr *net.UDPAddr) (net.PacketConn, error) {
	f.mu.Lock()
	defer f.mu.Unlock()
	ip := laddr.IP
	if ip == nil || ip.IsUnspecified() {
		ip = net.ParseIP(lfLocalIPs[0])
	}
	if !f.local[ip.String()] {
		f.refused++
		return nil, bindErr(network, laddr, syscall.EADDRNOTAVAIL)
	}
	port := laddr.Port
	if port == 0 {
		for {
			f.nextPort++
			if _, taken := f.bound[fmt.Sprintf("%s:%d", ip, f.nextPort)]; !taken {
				break
			}
		}
		port = f.nextPort
	}
	addr := &net.UDPAddr{IP: ip, Port: port}
	key := addr.String()
	if _, taken := f.bound[key]; taken {
		f.refused++
		return nil, bindErr(network, laddr, syscall.EADDRINUSE)
	}
	c := simnet.NewBlockingSimConn(addr)
	c.SetUpPacketReceiver(f)
	f.bound[key] = c
	f.binds++
	return &fakeSock{SimConn: c, f: f, key: key}, nil
}

// holdForeign marks ip:port as held by a socket of another process.
func (f *fakeUDP) holdForeign(ip string, port int) {
	f.mu.Lock()
	f.bound[fmt.Sprintf("%s:%d", ip, port)] = nil
	f.mu.Unlock()
}

// ---------------------------------------------------------------------------
// generated history

type lfStep struct {
	Act   string        `json:"act"`            // listen | fail | close | learn | none
	Fail  string        `json:"fail,omitempty"` // kind of the failing Listen
	Which int           `json:"which,omitempty"`
	IP    int           `json:"ip,omitempty"`
	Move  string        `json:"move"` // rot | frac | stay | jump
	Delta deltaSpec     `json:"delta,omitempty"`
	Frac  int           `json:"frac,omitempty"`
	Jump  time.Duration `json:"jump,omitempty"`
}

var lfFailKinds = []string{"in-use", "in-use", "in-use", "not-available", "not-available", "same-port", "same-port", "same-port", "not-webtransport", "with-certhash", "not-quic"}

var lfActs = []string{"listen", "listen", "fail", "fail", "fail", "fail", "close", "learn", "learn", "none"}

func (s lfStep) class() string {
	a := s.Act
	if s.Act == "fail" {
		a = "fail:" + s.Fail
	}
	switch s.Move {
	case "rot":
		return a + "/rot:" + s.Delta.Class
	case "jump":
		return fmt.Sprintf("%s/jump%d", a, int(s.Jump/period))
	case "frac":
		return fmt.Sprintf("%s/frac%d", a, s.Frac/250)
	}
	return a + "/" + s.Move
}

func drawLFStep(rt *rapid.T) lfStep {
	var s lfStep
	s.Act = rapid.SampledFrom(lfActs).Draw(rt, "act")
	if s.Act == "fail" {
		s.Fail = rapid.SampledFrom(lfFailKinds).Draw(rt, "failKind")
	}
	s.Which = rapid.IntRange(0, 5).Draw(rt, "which")
	s.IP = rapid.IntRange(0, len(lfLocalIPs)-1).Draw(rt, "ip")
	switch m := rapid.IntRange(0, 9).Draw(rt, "move"); {
	case m <= 5:
		s.Move, s.Delta = "rot", drawDelta(rt, "step")
	case m <= 7:
		s.Move, s.Frac = "frac", rapid.IntRange(0, 999).Draw(rt, "frac")
	case m == 8:
		s.Move = "jump"
		s.Jump = time.Duration(rapid.Int64Range(0, int64(5*period/2/time.Millisecond)).Draw(rt, "jump")) * time.Millisecond
	default:
		s.Move = "stay"
	}
	return s
}

type lfSpec struct {
	Key      hostKeySpec `json:"key"`
	J        int         `json:"j"`
	Start    deltaSpec   `json:"start"`
	Steps    []lfStep    `json:"steps"`
	Epilogue bool        `json:"epilogue"`
	ACH      achSpec     `json:"addCertHashes"`
}

// achSpec: how the OTHER way of obtaining an advertised address of the running transport is
// exercised: Transport.AddCertHashes(bare address), which swarm.AddCertHashes / the basic host
// use for observed, NAT-mapped and user-provided /webtransport addresses.
type achSpec struct {
	Base   int  `json:"base"`   // which bare /webtransport address is completed
	From   int  `json:"from"`   // index of the first step at whose instants AddCertHashes is called (>= len(steps): never)
	Early  bool `json:"early"`  // also called once before the first Listen of the transport (nothing is demanded of that call)
	Second int  `json:"second"` // a second bare address, completed from this step on (a caller that shows up later)
}

var achBases = []string{
	"/ip4/203.0.113.7/udp/4001/quic-v1/webtransport",      // observed / NAT-mapped
	"/ip4/1.0.0.1/udp/443/quic-v1/webtransport",           // user-provided announce address on a local IP
	"/dns4/node.example.org/udp/443/quic-v1/webtransport", // user-provided DNS name
	"/ip6/2001:db8::7/udp/4001/quic-v1/webtransport",
}

func drawACH(rt *rapid.T, nsteps int) achSpec {
	var a achSpec
	a.Base = rapid.IntRange(0, len(achBases)-1).Draw(rt, "achBase")
	switch k := rapid.IntRange(0, 9).Draw(rt, "achFromKind"); {
	case k <= 5:
		a.From = 0
	case k <= 8:
		a.From = rapid.IntRange(0, nsteps-1).Draw(rt, "achFrom")
	default:
		a.From = nsteps // never: control (the history as it was generated before this dimension existed)
	}
	a.Early = rapid.IntRange(0, 3).Draw(rt, "achEarly") == 0
	a.Second = rapid.IntRange(0, nsteps).Draw(rt, "achSecond")
	return a
}

func drawLFSpec(rt *rapid.T) lfSpec {
	var s lfSpec
	s.Key = drawHostKey(rt)
	s.J = rapid.IntRange(0, 1).Draw(rt, "j")
	s.Start = drawDelta(rt, "start")
	n := rapid.IntRange(2, 7).Draw(rt, "nsteps")
	for i := 0; i < n; i++ {
		s.Steps = append(s.Steps, drawLFStep(rt))
	}
	s.Epilogue = rapid.IntRange(0, 3).Draw(rt, "epilogue") > 0
	s.ACH = drawACH(rt, n)
	return s
}

// ---------------------------------------------------------------------------
// the world of one history

type lfListener struct {
	id      int
	ln      tpt.Listener
	udp     *net.UDPAddr
	created time.Time
	closed  bool
	rolls   int // rollovers observed on this listener
	lastSum [32]byte
	// rollovers this listener went through after a Listen call of its transport had failed
	rollsAfterFail int
}

type lfLearnt struct {
	from *lfListener
	at   time.Time
	idx  int // certificate period of the learn instant
	hs   hashSet
	// evidence
	failedListensAtLearn int
	verifiedAcross       bool
}

type lfWorld struct {
	rt      *rapid.T
	net     *fakeUDP
	tr      tpt.Transport
	cm      *quicreuse.ConnManager
	ref     *wt.VerifCertManager // undisturbed manager with the same key: period bookkeeping and oracle (3)
	obsSock net.PacketConn
	obs     *quic.Transport

	listeners []*lfListener // every listener ever opened
	learnt    []*lfLearnt
	history   []string // every Listen / Close call, for failure messages
	nextPort  int

	// certificate periods (distinct leaves of the reference manager, in order)
	periodSum []([32]byte)
	periodRaw [][]byte
	refNA     time.Time

	// evidence
	samples          int
	rollovers        int
	failed           map[string]int // effective kind -> Listen calls that returned an error
	failedTotal      int
	failedPostValid  int // ... of which passed the address validation (failed in the QUIC layer)
	unexpectedOK     map[string]bool
	failWhen         map[string]bool // no-listener-yet | listeners-live | all-closed
	nearBoundary     bool
	maxLive          int
	autoListens      int
	rollsAfterFail   int // max over listeners: rollovers observed after a failed Listen on the transport
	learntAcrossFail bool
	relistenAfterGap bool
	firstFailPeriod  int    // certificate period of the first failed Listen (-1: none yet)
	firstAfterFail   string // "", "same-period", "later-period": the FIRST listener of the transport was opened after a failed Listen

	// addresses obtained through Transport.AddCertHashes
	ach            achSpec
	step           int          // index of the step being executed
	achAdverts     []*achAdvert // distinct (period, base, hash set) obtained so far
	achCalls       int
	achEarly       string // "", "not-completed", "completed": outcome of the call before the first Listen
	achFirstPeriod int    // certificate period of the first call with a live listener (-1: none yet)
	achMaxRolls    int    // max rollovers of the running transport between its first AddCertHashes call and a judged one
	achAcross      bool   // an address obtained through AddCertHashes verified the certificate of the following period
	achNotOK       int    // calls that returned ok=false while a listener was live (label; judged through the hashes)
}

type achAdvert struct {
	base string
	at   time.Time
	idx  int // certificate period in which the address was obtained
	hs   hashSet
}

type certHashAdder interface {
	AddCertHashes(ma.Multiaddr) (ma.Multiaddr, bool)
}

func hashesOf(rt *rapid.T, at string, a ma.Multiaddr) hashSet {
	var out hashSet
	ma.ForEach(a, func(c ma.Component) bool {
		if c.Protocol().Code != ma.P_CERTHASH {
			return true
		}
		dh, err := multihash.Decode(c.RawValue())
		if err != nil {
			rt.Fatalf("%s: %s holds an undecodable certhash: %v", at, a, err)
		}
		out = append(out, *dh)
		return true
	})
	return out
}

type lfServed struct {
	l    *lfListener
	raw  []byte
	sum  [32]byte
	cert *x509.Certificate
}

// sampleACH: at a sampling instant at which live listeners were observed, obtain the address
// of the running transport the OTHER way - Transport.AddCertHashes on a bare /webtransport
// address - and hold it to the rules the listener's own Multiaddr() is held to:
//
//	(2) its certhashes contain the SHA-256 of the certificate every live listener serves now;
//	(4) "an address learned at any time keeps verifying through the current and the following
//	    certificate period": every address obtained this way at ANY earlier sampled instant of the
//	    current or the previous period verifies what is served now (hence it held the hash of the
//	    certificate served next when it was handed out).
func (w *lfWorld) sampleACH(why string, served []lfServed) {
	if len(served) == 0 || w.step < w.ach.From {
		return
	}
	rt := w.rt
	now := time.Now()
	cur := len(w.periodSum) - 1
	adder, ok := w.tr.(certHashAdder)
	if !ok {
		rt.Fatalf("harness: the webtransport transport has no AddCertHashes method")
	}
	bases := []string{achBases[w.ach.Base]}
	if w.step >= w.ach.Second {
		bases = append(bases, achBases[(w.ach.Base+1)%len(achBases)])
	}
	if w.achFirstPeriod < 0 {
		w.achFirstPeriod = cur
	}
	rollsSinceFirst := cur - w.achFirstPeriod
	for _, b := range bases {
		base, err := ma.NewMultiaddr(b)
		if err != nil {
			rt.Fatalf("harness: %s: %v", b, err)
		}
		got, completed := adder.AddCertHashes(base)
		w.achCalls++
		if !completed {
			w.achNotOK++
		}
		at := fmt.Sprintf("AddCertHashes(%s) = %s, %v at %s (%s; first called with a live listener %d rollover(s) ago)", b, got, completed, ts(now), why, rollsSinceFirst)
		hs := hashesOf(rt, at, got)
		// (2)
		for _, sv := range served {
			if !hs.hasSHA256(sv.sum) {
				rt.Fatalf("%s: the address lacks the sha2-256 hash %x of the certificate [%s, %s] that listener #%d %s of this transport is serving now (its Multiaddr() is %s)%s",
					at, sv.sum[:6], ts(sv.cert.NotBefore), ts(sv.cert.NotAfter), sv.l.id, sv.l.udp, sv.l.ln.Multiaddr(), w.historyString())
			}
		}
		w.achMaxRolls = max(w.achMaxRolls, rollsSinceFirst)
		dup := false
		for _, ad := range w.achAdverts {
			if ad.idx == cur && ad.base == b && ad.hs.key() == hs.key() {
				dup = true
				break
			}
		}
		if !dup {
			w.achAdverts = append(w.achAdverts, &achAdvert{base: b, at: now, idx: cur, hs: hs})
		}
	}
	// (4)
	for _, ad := range w.achAdverts {
		if cur-ad.idx > 1 || cur-ad.idx < 0 {
			continue
		}
		for _, sv := range served {
			at := fmt.Sprintf("listener #%d %s at %s (%s)", sv.l.id, sv.l.udp, ts(now), why)
			if !ad.hs.hasSHA256(sv.sum) {
				rt.Fatalf("%s: the address obtained through AddCertHashes(%s) at %s (certificate period %d, now %d) holds %v, none of which is the sha2-256 hash %x of the certificate served now: when it was handed out it lacked the hash of the certificate served next%s",
					at, ad.base, ts(ad.at), ad.idx, cur, ad.hs, sv.sum[:6], w.historyString())
			}
			if err := wt.VerifVerifyRawCerts([][]byte{sv.raw}, []multihash.DecodedMultihash(ad.hs)); err != nil {
				rt.Fatalf("%s: the address obtained through AddCertHashes(%s) at %s (certificate period %d, now %d) no longer verifies the served certificate [%s, %s]: %v%s",
					at, ad.base, ts(ad.at), ad.idx, cur, ts(sv.cert.NotBefore), ts(sv.cert.NotAfter), err, w.historyString())
			}
			if cur-ad.idx == 1 {
				w.achAcross = true
			}
		}
	}
}

func (w *lfWorld) live() []*lfListener {
	var out []*lfListener
	for _, l := range w.listeners {
		if !l.closed {
			out = append(out, l)
		}
	}
	return out
}

func (w *lfWorld) hist(format string, a ...any) {
	w.history = append(w.history, fmt.Sprintf("%s %s", ts(time.Now()), fmt.Sprintf(format, a...)))
}

func (w *lfWorld) historyString() string {
	return "\n  history of the transport:\n    " + strings.Join(w.history, "\n    ")
}

func (w *lfWorld) freePort() int {
	w.nextPort++
	return w.nextPort
}

// listen calls Transport.Listen; nothing is demanded of its outcome.
func (w *lfWorld) listen(addr string, intended string) {
	a, err := ma.NewMultiaddr(addr)
	if err != nil {
		w.rt.Fatalf("harness: listen address %q: %v", addr, err)
	}
	state := "listeners-live"
	switch {
	case len(w.listeners) == 0:
		state = "no-listener-yet"
	case len(w.live()) == 0:
		state = "all-closed"
	}
	ln, err := w.tr.Listen(a)
	if err != nil {
		w.hist("Listen(%s) FAILED [%s]: %v", addr, intended, err)
		if intended == "ok" {
			w.rt.Fatalf("harness: Listen(%s) on a free local address of the in-memory UDP stack failed: %v%s", addr, err, w.historyString())
		}
		w.failed[intended]++
		w.failedTotal++
		if w.firstFailPeriod < 0 {
			w.firstFailPeriod = len(w.periodSum) - 1
		}
		switch intended {
		case "in-use", "not-available", "same-port":
			w.failedPostValid++
		}
		w.failWhen[state] = true
		return
	}
	udp, ok := ln.Addr().(*net.UDPAddr)
	if !ok {
		w.rt.Fatalf("harness: listener address %v is not a UDP address", ln.Addr())
	}
	if intended != "ok" {
		w.unexpectedOK[intended] = true
	}
	if state == "all-closed" {
		w.relistenAfterGap = true
	}
	if state == "no-listener-yet" && w.failedTotal > 0 {
		w.firstAfterFail = "same-period"
		if len(w.periodSum)-1 > w.firstFailPeriod {
			w.firstAfterFail = "later-period"
		}
	}
	l := &lfListener{id: len(w.listeners), ln: ln, udp: udp, created: time.Now()}
	w.listeners = append(w.listeners, l)
	w.maxLive = max(w.maxLive, len(w.live()))
	w.hist("Listen(%s) ok [%s] -> listener #%d %s", addr, intended, l.id, ln.Multiaddr())
}

func (w *lfWorld) closeListener(l *lfListener) {
	l.ln.Close()
	l.closed = true
	w.hist("listener #%d closed", l.id)
}

func wtAddr(ip string, port int) string {
	return fmt.Sprintf("/ip4/%s/udp/%d/quic-v1/webtransport", ip, port)
}

func (w *lfWorld) act(s lfStep, last bool) {
	ip := lfLocalIPs[s.IP%len(lfLocalIPs)]
	live := w.live()
	act := s.Act
	if len(live) == 0 && (act == "close" || act == "learn" || act == "none") {
		// keep the history from being vacuous: without any live listener there is nothing to observe
		act = "listen"
		w.autoListens++
	}
	switch act {
	case "listen":
		w.listen(wtAddr(ip, w.freePort()), "ok")
	case "fail":
		kind := s.Fail
		if kind == "same-port" && len(live) == 0 {
			kind = "in-use"
		}
		switch kind {
		case "in-use":
			p := w.freePort()
			w.net.holdForeign(ip, p)
			w.listen(wtAddr(ip, p), kind)
		case "not-available":
			w.listen(wtAddr(lfForeignIP, w.freePort()), kind)
		case "same-port":
			l := live[s.Which%len(live)]
			w.listen(wtAddr(l.udp.IP.String(), l.udp.Port), kind)
		case "not-webtransport":
			w.listen(fmt.Sprintf("/ip4/%s/udp/%d/quic-v1", ip, w.freePort()), kind)
		case "with-certhash":
			sum := sha256.Sum256([]byte("c18/listenfail"))
			w.listen(wtAddr(ip, w.freePort())+certhashString(sum[:]), kind)
		case "not-quic":
			w.listen(fmt.Sprintf("/ip4/%s/tcp/%d", ip, w.freePort()), kind)
		default:
			panic("unknown fail kind " + kind)
		}
		// libp2p listens on several addresses and tolerates individual failures: when nothing is
		// listening, the failed call is mostly followed by a Listen on another address at once
		// (otherwise the transport stays without listener for a while: its first successful Listen
		// comes after clock moves - or, at the end of the history, now)
		if len(w.live()) == 0 && (s.Which%3 != 0 || last) {
			w.listen(wtAddr(ip, w.freePort()), "ok")
			w.autoListens++
		}
	case "close":
		w.closeListener(live[s.Which%len(live)])
	case "learn":
		w.learn(live[s.Which%len(live)])
	case "none":
	default:
		panic("unknown act " + act)
	}
}

func certhashString(digest []byte) string {
	mh, err := multihash.Encode(digest, multihash.SHA2_256)
	if err != nil {
		panic(err)
	}
	s, err := multibase.Encode(multibase.Base58BTC, mh)
	if err != nil {
		panic(err)
	}
	return "/certhash/" + s
}

func (w *lfWorld) advertised(l *lfListener, at string) hashSet {
	var out hashSet
	ma.ForEach(l.ln.Multiaddr(), func(c ma.Component) bool {
		if c.Protocol().Code != ma.P_CERTHASH {
			return true
		}
		dh, err := multihash.Decode(c.RawValue())
		if err != nil {
			w.rt.Fatalf("%s: Multiaddr() %s holds an undecodable certhash: %v", at, l.ln.Multiaddr(), err)
		}
		out = append(out, *dh)
		return true
	})
	return out
}

func (w *lfWorld) learn(l *lfListener) {
	if len(w.periodSum) == 0 {
		w.refresh()
	}
	w.learnt = append(w.learnt, &lfLearnt{from: l, at: time.Now(), idx: len(w.periodSum) - 1,
		hs: w.advertised(l, fmt.Sprintf("listener #%d at %s (learn)", l.id, ts(time.Now()))), failedListensAtLearn: w.failedTotal})
}

// handshake performs one QUIC/TLS handshake (ALPN h3) with the listener and returns
// rawCerts[0] as presented. No virtual time may pass (zero-latency network).
func (w *lfWorld) handshake(l *lfListener) ([]byte, error) {
	var leaf []byte
	ctx, cancel := context.WithTimeout(context.Background(), 30*time.Second) // virtual
	defer cancel()
	conn, err := w.obs.Dial(ctx, l.udp, &tls.Config{
		InsecureSkipVerify: true, // observation only: record what is presented
		NextProtos:         []string{"h3"},
		CurvePreferences:   []tls.CurveID{tls.X25519}, // no post-quantum key share: cheaper, irrelevant to what is observed
		VerifyPeerCertificate: func(raw [][]byte, _ [][]*x509.Certificate) error {
			if len(raw) > 0 {
				leaf = append([]byte(nil), raw[0]...)
			}
			return nil
		},
	}, &quic.Config{})
	if err != nil {
		return nil, err
	}
	conn.CloseWithError(0, "")
	if len(leaf) == 0 {
		return nil, errors.New("no certificate presented")
	}
	return leaf, nil
}

// refresh reads the reference manager (period bookkeeping).
func (w *lfWorld) refresh() {
	conf := w.ref.GetConfig()
	if conf == nil || len(conf.Certificates) == 0 || len(conf.Certificates[0].Certificate) == 0 {
		w.rt.Fatalf("reference manager offers no certificate at %s", ts(time.Now()))
	}
	raw := conf.Certificates[0].Certificate[0]
	sum := sha256.Sum256(raw)
	if len(w.periodSum) == 0 || w.periodSum[len(w.periodSum)-1] != sum {
		if len(w.periodSum) > 0 {
			w.rollovers++
		}
		w.periodSum = append(w.periodSum, sum)
		w.periodRaw = append(w.periodRaw, raw)
		cert, err := x509.ParseCertificate(raw)
		if err != nil {
			w.rt.Fatalf("reference manager: certificate does not parse: %v", err)
		}
		w.refNA = cert.NotAfter
	}
}

// nextRotation: the instant at which the statement forces a rotation (the certificate
// served now stops being valid-with-allowance at NotAfter-skew).
func (w *lfWorld) nextRotation() time.Time { return w.refNA.Add(-skew) }

func (w *lfWorld) sampleAll(why string) {
	synctest.Wait()
	rt := w.rt
	now := time.Now()
	w.refresh()
	cur := len(w.periodSum) - 1
	var served []lfServed
	for _, l := range w.live() {
		w.samples++
		at := fmt.Sprintf("listener #%d %s (open since %s, %d rollover(s) seen) at %s (%s)", l.id, l.udp, ts(l.created), l.rolls, ts(now), why)
		raw, err := w.handshake(l)
		if !time.Now().Equal(now) {
			rt.Fatalf("harness: virtual time moved during the reference handshake (%s -> %s)", ts(now), ts(time.Now()))
		}
		if err != nil {
			rt.Fatalf("%s: the listener does not complete a TLS handshake (it serves no certificate): %v%s", at, err, w.historyString())
		}
		cert, err := x509.ParseCertificate(raw)
		if err != nil {
			rt.Fatalf("%s: served certificate does not parse: %v", at, err)
		}
		sum := sha256.Sum256(raw)
		// (1) validity with allowance on both sides, lifetime
		from, until := cert.NotBefore.Add(skew), cert.NotAfter.Add(-skew)
		if now.Before(from) {
			rt.Fatalf("%s: served certificate [%s, %s] has been valid for only %v (< clock-skew allowance %v)%s", at, ts(cert.NotBefore), ts(cert.NotAfter), now.Sub(cert.NotBefore), skew, w.historyString())
		}
		if now.After(until) {
			rt.Fatalf("%s: served certificate [%s, %s] stays valid for only %v (< clock-skew allowance %v): the listener stopped rolling over (%d failed Listen call(s) on its transport so far)%s",
				at, ts(cert.NotBefore), ts(cert.NotAfter), cert.NotAfter.Sub(now), skew, w.failedTotal, w.historyString())
		}
		if lt := cert.NotAfter.Sub(cert.NotBefore); lt > maxLifetime {
			rt.Fatalf("%s: served certificate lifetime %v exceeds 14 days", at, lt)
		}
		for _, b := range []time.Time{from, until} {
			if d := now.Sub(b); d >= -time.Millisecond && d <= time.Millisecond {
				w.nearBoundary = true
			}
		}
		// (2) advertised
		adv := w.advertised(l, at)
		if !adv.hasSHA256(sum) {
			rt.Fatalf("%s: Multiaddr() advertises %v, which lacks the sha2-256 hash %x of the certificate being served [%s, %s]%s", at, adv, sum[:6], ts(cert.NotBefore), ts(cert.NotAfter), w.historyString())
		}
		// (3) deterministic function of host key and time bucket: one of the certificates of the
		// undisturbed reference. Exactly AT a rotation instant the outgoing and the incoming
		// certificate both satisfy (1) and the statement does not say which of the two buckets the
		// instant belongs to, so the reference's previous certificate is accepted as well; (1) has
		// already refused it at any later instant.
		if !bytes.Equal(raw, w.periodRaw[cur]) && !(cur > 0 && bytes.Equal(raw, w.periodRaw[cur-1])) {
			rt.Fatalf("%s: serves [%s, %s] sha256=%x, but a certificate manager with the same host key that has been running undisturbed serves sha256=%x (NotAfter %s) at this instant%s",
				at, ts(cert.NotBefore), ts(cert.NotAfter), sum[:6], w.periodSum[cur][:6], ts(w.refNA), w.historyString())
		}
		if l.lastSum != sum && l.lastSum != ([32]byte{}) {
			l.rolls++
			if w.failedTotal > 0 {
				l.rollsAfterFail++
				w.rollsAfterFail = max(w.rollsAfterFail, l.rollsAfterFail)
			}
		}
		l.lastSum = sum
		served = append(served, lfServed{l: l, raw: raw, sum: sum, cert: cert})
		// (4) addresses learnt from this listener in the current or the previous period
		for _, le := range w.learnt {
			if le.from != l || cur-le.idx > 1 {
				continue
			}
			if !le.hs.hasSHA256(sum) {
				rt.Fatalf("%s: the address learnt from this listener at %s (certificate period %d, now %d) holds %v, none of which is the sha2-256 hash %x of the certificate served now%s",
					at, ts(le.at), le.idx, cur, le.hs, sum[:6], w.historyString())
			}
			if err := wt.VerifVerifyRawCerts([][]byte{raw}, []multihash.DecodedMultihash(le.hs)); err != nil {
				rt.Fatalf("%s: the address learnt from this listener at %s (certificate period %d, now %d) no longer verifies the served certificate [%s, %s]: %v%s",
					at, ts(le.at), le.idx, cur, ts(cert.NotBefore), ts(cert.NotAfter), err, w.historyString())
			}
			if cur-le.idx == 1 {
				le.verifiedAcross = true
				if w.failedTotal > le.failedListensAtLearn {
					w.learntAcrossFail = true
				}
			}
		}
	}
	w.sampleACH(why, served)
	// Let the server side of the reference handshakes settle before the history goes on: a
	// listener closed while its accept loop is still handing a fresh connection to the
	// webtransport-go server makes that server panic (nil map in ServeQUICConn after Close) -
	// a crash outside this property that the harness must not provoke.
	synctest.Wait()
}

func (w *lfWorld) advanceTo(target time.Time, why string) {
	for {
		now := time.Now()
		if !target.After(now) {
			return
		}
		stop, reason := target, why
		if r := w.nextRotation(); r.After(now) && r.Before(target) {
			stop, reason = r, "rotation instant passed on the way"
		}
		time.Sleep(stop.Sub(now))
		w.sampleAll(reason)
	}
}

func (w *lfWorld) shutdown() {
	// also on the failure path: let the server side of the last handshake settle first (see sampleAll)
	synctest.Wait()
	for _, l := range w.live() {
		l.ln.Close()
		l.closed = true
	}
	if w.tr != nil {
		w.tr.(io.Closer).Close()
	}
	if w.cm != nil {
		w.cm.Close()
	}
	if w.obs != nil {
		w.obs.Close()
	}
	if w.obsSock != nil {
		w.obsSock.Close()
	}
	if w.ref != nil {
		w.ref.Close()
	}
}

func TestTransportListenHistory(t *testing.T) {
	name := t.Name()
	hx.Check(t, 480, 16000, 0, func(rt *rapid.T) {
		spec := drawLFSpec(rt)
		w := &lfWorld{rt: rt, net: newFakeUDP(), nextPort: 4000, firstFailPeriod: -1, achFirstPeriod: -1, ach: spec.ACH, failed: map[string]int{}, unexpectedOK: map[string]bool{}, failWhen: map[string]bool{}}
		var offCls string
		hx.Bubble(t, rt, func() {
			defer w.shutdown()
			key := spec.Key.key()
			offCls = offsetClass(key)
			t0 := time.Now()
			// Learn where this key's rotation boundaries are from a throw-away manager (generator only).
			probe, err := wt.VerifNewCertManager(key, clock.New())
			if err != nil {
				rt.Fatalf("newCertManager: %v", err)
			}
			pc, err := x509.ParseCertificate(probe.GetConfig().Certificates[0].Certificate[0])
			probe.Close()
			if err != nil {
				rt.Fatalf("probe certificate does not parse: %v", err)
			}
			start := pc.NotAfter.Add(-skew).Add(time.Duration(spec.J) * period).Add(spec.Start.D)
			for start.Before(t0) {
				start = start.Add(period)
			}
			time.Sleep(start.Sub(t0))

			if w.ref, err = wt.VerifNewCertManager(key, clock.New()); err != nil {
				rt.Fatalf("newCertManager: %v", err)
			}
			w.refresh()
			if w.cm, err = quicreuse.NewConnManager(quic.StatelessResetKey{}, quic.TokenGeneratorKey{},
				quicreuse.DisableReuseport(), quicreuse.OverrideListenUDP(w.net.listenUDP)); err != nil {
				rt.Fatalf("harness: quicreuse: %v", err)
			}
			if w.tr, err = wt.New(key, nil, w.cm, nil, nil); err != nil {
				rt.Fatalf("webtransport.New: %v", err)
			}
			if w.obsSock, err = w.net.listenUDP("udp4", &net.UDPAddr{IP: net.ParseIP(lfObserverIP), Port: 50000}); err != nil {
				rt.Fatalf("harness: observer socket: %v", err)
			}
			w.obs = &quic.Transport{Conn: w.obsSock}

			if spec.ACH.Early {
				// before the first Listen of the transport: nothing is demanded (there is no listener whose
				// certificate could be advertised); the call is part of the history
				base := ma.StringCast(achBases[spec.ACH.Base])
				got, completed := w.tr.(certHashAdder).AddCertHashes(base)
				w.achEarly = "not-completed"
				if completed {
					w.achEarly = "completed"
				}
				w.hist("AddCertHashes(%s) before the first Listen = %s, %v", base, got, completed)
			}
			for i, st := range spec.Steps {
				w.step = i
				why := fmt.Sprintf("step %d %s", i, st.class())
				w.act(st, i == len(spec.Steps)-1)
				w.sampleAll(why + " after the action")
				now := time.Now()
				target := now
				switch st.Move {
				case "rot":
					target = w.nextRotation().Add(st.Delta.D)
				case "frac":
					if r := w.nextRotation(); r.After(now) {
						target = now.Add(time.Duration(int64(r.Sub(now)) / 1000 * int64(st.Frac)))
					}
				case "jump":
					target = now.Add(st.Jump)
				}
				if target.After(now) {
					w.advanceTo(target, why+" after the move")
				}
			}
			if spec.Epilogue {
				w.advanceTo(w.nextRotation(), "epilogue: next rotation instant")
			}
		})

		// evidence
		var cls []string
		for _, st := range spec.Steps {
			cls = append(cls, st.class())
		}
		// non-trivial: a Listen call failed and a live listener of the same transport was then observed through at least one rollover
		nontrivial := w.rollsAfterFail > 0
		labels := []string{"lf:key=" + spec.Key.Kind, "lf:" + offCls, "lf:start=" + spec.Start.Class,
			fmt.Sprintf("lf:rollovers=%d", min(w.rollovers, 6)),
			fmt.Sprintf("lf:failed-listens=%d", min(w.failedTotal, 4)),
			fmt.Sprintf("lf:failed-listens-past-address-validation=%d", min(w.failedPostValid, 3)),
			fmt.Sprintf("lf:rollovers-seen-by-a-live-listener-after-a-failed-listen=%d", min(w.rollsAfterFail, 4)),
			fmt.Sprintf("lf:max-live-listeners=%d", min(w.maxLive, 4)),
		}
		for k := range w.failed {
			labels = append(labels, "lf:failed-kind="+k)
		}
		for k := range w.unexpectedOK {
			labels = append(labels, "lf:note:intended-failure-succeeded="+k)
		}
		for k := range w.failWhen {
			labels = append(labels, "lf:failed-listen-when="+k)
		}
		if w.nearBoundary {
			labels = append(labels, "lf:sample-within-1ms-of-boundary")
		}
		if w.learntAcrossFail {
			labels = append(labels, "lf:learnt-address-verified-in-following-period-with-failed-listen-in-between")
		}
		if w.relistenAfterGap {
			labels = append(labels, "lf:listen-after-all-listeners-closed")
		}
		if w.autoListens > 0 {
			labels = append(labels, "lf:auto-listen")
		}
		if w.firstAfterFail != "" {
			labels = append(labels, "lf:first-listener-of-the-transport-opened-after-a-failed-listen/"+w.firstAfterFail)
		}
		if w.samples == 0 {
			labels = append(labels, "lf:no-sample")
		}
		// addresses obtained through AddCertHashes
		switch {
		case w.achCalls == 0:
			labels = append(labels, "lf:addcerthashes=never-called")
		default:
			labels = append(labels, "lf:addcerthashes=sampled",
				fmt.Sprintf("lf:addcerthashes:first-call-in-period=%d", min(w.achFirstPeriod, 3)),
				fmt.Sprintf("lf:addcerthashes:rollovers-between-first-call-and-a-judged-call=%d", min(w.achMaxRolls, 4)),
				"lf:addcerthashes:base="+achBases[spec.ACH.Base])
			if w.achAcross {
				labels = append(labels, "lf:addcerthashes:address-verified-in-following-period")
			}
			if w.achNotOK > 0 {
				labels = append(labels, "lf:addcerthashes:note:returned-false-with-a-live-listener")
			}
			if spec.ACH.Second > 0 && spec.ACH.Second < len(spec.Steps) {
				labels = append(labels, "lf:addcerthashes:second-address-from-a-later-step")
			}
		}
		if w.achEarly != "" {
			labels = append(labels, "lf:addcerthashes:called-before-first-listen/"+w.achEarly)
		}
		sort.Strings(labels)
		fp := fmt.Sprintf("%s|%s|%d|%s|%s|%v|r%d|ach%d,%v", spec.Key.Kind, offCls, spec.J, spec.Start.Class, strings.Join(cls, ","), spec.Epilogue, w.rollovers, min(spec.ACH.From, len(spec.Steps)), spec.ACH.Early)
		stats.Case(name, fp, nontrivial, labels...)
		if stats.WantSample(name) {
			stats.Sample(name, map[string]any{"spec": spec, "history": w.history, "rollovers": w.rollovers, "samples": w.samples,
				"failed_listens": w.failed, "addcerthashes_calls": w.achCalls, "addcerthashes_distinct_addresses": len(w.achAdverts), "binds": w.net.binds, "binds_refused": w.net.refused})
		}
	})
}
