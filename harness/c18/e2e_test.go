package c18

import (
	"context"
	"crypto/sha256"
	"crypto/x509"
	"errors"
	"fmt"
	"io"
	"strings"
	"sync"
	"testing"
	"time"

	"github.com/benbjohnson/clock"
	"github.com/libp2p/go-libp2p/core/peer"
	tpt "github.com/libp2p/go-libp2p/core/transport"
	"github.com/libp2p/go-libp2p/p2p/transport/quicreuse"
	wt "github.com/libp2p/go-libp2p/p2p/transport/webtransport"
	ma "github.com/multiformats/go-multiaddr"
	"github.com/multiformats/go-multibase"
	"github.com/multiformats/go-multihash"
	"github.com/quic-go/quic-go"

	"verif/internal/hx"
	"verif/internal/keys"
	"verif/internal/stats"
)

// End-to-end cases over real loopback UDP (thorough tier only, outside any bubble).
// Real time is used for I/O only: a dial that runs into its deadline makes the case
// inconclusive (skipped), never a violation.

const e2eDialTimeout = 15 * time.Second

func certhashComponent(t *testing.T, digest []byte, code uint64) ma.Multiaddr {
	t.Helper()
	mh, err := multihash.Encode(digest, code)
	if err != nil {
		t.Fatal(err)
	}
	s, err := multibase.Encode(multibase.Base58BTC, mh)
	if err != nil {
		t.Fatal(err)
	}
	c, err := ma.NewComponent("certhash", s)
	if err != nil {
		t.Fatal(err)
	}
	return c.Multiaddr()
}

func stripCerthashes(a ma.Multiaddr) ma.Multiaddr {
	var out ma.Multiaddr
	ma.ForEach(a, func(c ma.Component) bool {
		if c.Protocol().Code != ma.P_CERTHASH {
			out = out.AppendComponent(&c)
		}
		return true
	})
	return out
}

type e2eServer struct {
	tr   tpt.Transport
	ln   tpt.Listener
	id   peer.ID
	done chan struct{}

	mu    sync.Mutex
	conns []tpt.CapableConn
}

func startServer(t *testing.T, keyIdx int, opts ...wt.Option) *e2eServer {
	t.Helper()
	k := keys.Ed(7000 + keyIdx)
	cm, err := quicreuse.NewConnManager(quic.StatelessResetKey{}, quic.TokenGeneratorKey{})
	if err != nil {
		t.Skipf("inconclusive: quicreuse: %v", err)
	}
	tr, err := wt.New(k.Priv, nil, cm, nil, nil, opts...)
	if err != nil {
		cm.Close()
		t.Fatalf("webtransport.New: %v", err)
	}
	ln, err := tr.Listen(ma.StringCast("/ip4/127.0.0.1/udp/0/quic-v1/webtransport"))
	if err != nil {
		tr.(io.Closer).Close()
		cm.Close()
		t.Skipf("inconclusive: cannot listen on loopback UDP: %v", err)
	}
	s := &e2eServer{tr: tr, ln: ln, id: k.ID, done: make(chan struct{})}
	go func() {
		defer close(s.done)
		for {
			c, err := ln.Accept()
			if err != nil {
				return
			}
			s.mu.Lock()
			s.conns = append(s.conns, c)
			s.mu.Unlock()
		}
	}()
	t.Cleanup(func() {
		ln.Close()
		<-s.done
		s.mu.Lock()
		for _, c := range s.conns {
			c.Close()
		}
		s.mu.Unlock()
		tr.(io.Closer).Close()
		cm.Close()
	})
	return s
}

func newDialer(t *testing.T, keyIdx int, opts ...wt.Option) tpt.Transport {
	t.Helper()
	k := keys.Ed(7500 + keyIdx)
	cm, err := quicreuse.NewConnManager(quic.StatelessResetKey{}, quic.TokenGeneratorKey{})
	if err != nil {
		t.Skipf("inconclusive: quicreuse: %v", err)
	}
	tr, err := wt.New(k.Priv, nil, cm, nil, nil, opts...)
	if err != nil {
		cm.Close()
		t.Fatalf("webtransport.New: %v", err)
	}
	t.Cleanup(func() {
		tr.(io.Closer).Close()
		cm.Close()
	})
	return tr
}

func isTimeout(err error) bool {
	if err == nil {
		return false
	}
	var ie *quic.IdleTimeoutError
	var he *quic.HandshakeTimeoutError
	return errors.Is(err, context.DeadlineExceeded) || errors.As(err, &ie) || errors.As(err, &he) || strings.Contains(err.Error(), "timeout")
}

func dialOnce(t *testing.T, d tpt.Transport, addr ma.Multiaddr, p peer.ID) error {
	ctx, cancel := context.WithTimeout(context.Background(), e2eDialTimeout)
	defer cancel()
	c, err := d.Dial(ctx, addr, p)
	if err == nil {
		c.Close()
	}
	return err
}

func TestE2EPinning(t *testing.T) {
	if !hx.Thorough() {
		t.Skip("thorough tier only")
	}
	name := t.Name()
	for i := 0; i < 16; i++ {
		if !hx.Mine(i) {
			continue
		}
		t.Run(fmt.Sprintf("key%d", i), func(t *testing.T) {
			srv := startServer(t, i)
			d := newDialer(t, i)
			full := srv.ln.Multiaddr()
			adv := decodeAddrPlain(t, full)
			if len(adv) < 2 {
				t.Fatalf("listener advertises %d certhashes, want current and next: %s", len(adv), full)
			}
			base := stripCerthashes(full)
			// which advertised hash is being served? The one for which a single-hash dial succeeds.
			var cur, other []byte
			for k, h := range adv {
				err := dialOnce(t, d, base.Encapsulate(certhashComponent(t, h.Digest, h.Code)), srv.id)
				if isTimeout(err) {
					t.Skipf("inconclusive: dial timed out: %v", err)
				}
				if err == nil {
					if cur != nil {
						t.Fatalf("single-hash dials succeed for two different advertised hashes")
					}
					cur = h.Digest
				} else {
					var mm wt.ErrCertHashMismatch
					if !errors.As(err, &mm) {
						t.Fatalf("dial with advertised hash #%d alone failed, but not with a hash mismatch: %v", k, err)
					}
					other = h.Digest
				}
			}
			if cur == nil {
				t.Fatalf("no advertised hash lets a dial through: the served certificate's hash is not advertised (%s)", full)
			}
			bogus := sha256.Sum256([]byte(fmt.Sprintf("bogus-%d", i)))
			type tc struct {
				tag  string
				name string
				addr ma.Multiaddr
				ok   bool
			}
			cases := []tc{
				{"advertised", "advertised address (current+next)", full, true},
				{"current", "[current]", base.Encapsulate(certhashComponent(t, cur, multihash.SHA2_256)), true},
				{"current+bogus", "[current, bogus] - server cannot confirm bogus", base.Encapsulate(certhashComponent(t, cur, multihash.SHA2_256)).Encapsulate(certhashComponent(t, bogus[:], multihash.SHA2_256)), false},
				{"bogus+current", "[bogus, current]", base.Encapsulate(certhashComponent(t, bogus[:], multihash.SHA2_256)).Encapsulate(certhashComponent(t, cur, multihash.SHA2_256)), false},
				{"bogus", "[bogus]", base.Encapsulate(certhashComponent(t, bogus[:], multihash.SHA2_256)), false},
				{"current-digest-other-code", "[current digest under sha3-256 code]", base.Encapsulate(certhashComponent(t, cur, multihash.SHA3_256)), false},
				{"no-certhash", "no certhash", base, false},
			}
			if other != nil {
				cases = append(cases, tc{"next-only", "[next only]", base.Encapsulate(certhashComponent(t, other, multihash.SHA2_256)), false})
			}
			for _, c := range cases {
				err := dialOnce(t, d, c.addr, srv.id)
				if isTimeout(err) {
					t.Skipf("inconclusive: %s: dial timed out: %v", c.name, err)
				}
				if c.ok && err != nil {
					t.Fatalf("%s: dial must complete, got %v", c.name, err)
				}
				t.Logf("%-50s -> %v", c.name, err)
				if !c.ok && err == nil {
					t.Fatalf("%s: dial completed although the dialer relied on a hash the server does not serve/confirm (%s)", c.name, c.addr)
				}
				stats.CaseEnumerated(name, true, "e2e:"+c.tag)
			}
		})
	}
}

// TestE2EStaleServer: a listener whose clock is 20 years behind serves a certificate
// that is valid on ITS clock and correctly advertised, but expired in real time: the
// dialer (which uses the real clock) must refuse it ("currently valid").
func TestE2EStaleServer(t *testing.T) {
	if !hx.Thorough() {
		t.Skip("thorough tier only")
	}
	hx.Shard0(t)
	name := t.Name()
	for i, back := range []time.Duration{-20 * 365 * 24 * time.Hour, 20 * 365 * 24 * time.Hour} {
		cl := clock.NewMock()
		cl.Set(time.Now().Add(back))
		srv := startServer(t, 100+i, wt.WithClock(cl))
		d := newDialer(t, 100+i)
		err := dialOnce(t, d, srv.ln.Multiaddr(), srv.id)
		if isTimeout(err) {
			t.Skipf("inconclusive: dial timed out: %v", err)
		}
		t.Logf("server clock offset %v -> %v", back, err)
		if err == nil {
			t.Fatalf("dial completed against a server whose certificate is not currently valid (server clock offset %v)", back)
		}
		stats.CaseEnumerated(name, true, "e2e:stale-server")
	}
}

func decodeAddrPlain(t *testing.T, a ma.Multiaddr) hashSet {
	var out hashSet
	ma.ForEach(a, func(c ma.Component) bool {
		if c.Protocol().Code != ma.P_CERTHASH {
			return true
		}
		_, b, err := multibase.Decode(c.Value())
		if err != nil {
			t.Fatalf("multibase: %v", err)
		}
		dh, err := multihash.Decode(b)
		if err != nil {
			t.Fatalf("multihash: %v", err)
		}
		out = append(out, *dh)
		return true
	})
	return out
}

// nextRotationOnClock returns the instant at which a listener with host key #keyIdx whose
// clock shows `at` has to rotate next (NotAfter-skew of the certificate it serves at that
// instant, read from a throw-away manager on its own mock clock). Used to DRIVE the mock
// clock of the real listener only; no verdict depends on it.
func nextRotationOnClock(t *testing.T, keyIdx int, at time.Time) time.Time {
	t.Helper()
	cl := clock.NewMock()
	cl.Set(at)
	h, err := wt.VerifNewCertManager(keys.Ed(7000+keyIdx).Priv, cl)
	if err != nil {
		t.Fatalf("newCertManager: %v", err)
	}
	defer h.Close()
	leaf, err := x509.ParseCertificate(h.GetConfig().Certificates[0].Certificate[0])
	if err != nil {
		t.Fatalf("served certificate does not parse: %v", err)
	}
	return leaf.NotAfter.Add(-skew)
}

// TestE2EFollowingPeriod: real dials (loopback UDP, the real transport.dial/upgrade and
// listener.handshake) with addresses learnt at earlier instants from the SAME running
// listener. The listener runs on a mock clock that starts k = 1..3 certificate periods
// before the real time t0 and is moved from rotation instant to rotation instant up to
// t0, so that the listener performs k rollovers and then serves a certificate that is
// valid on the wall clock (the dialer verifies against the real time). An address is
// learnt before the first rollover and after every rollover; at t0 every one of them is
// dialled:
//   - learnt in the current or in the previous period: the dial must complete (the
//     address still verifies and the running listener still confirms every hash of it);
//   - learnt earlier: the dial must not complete (no hash of the address is served).
//
// Against a freshly started listener with the same key (a restart) the certificate
// still verifies, but the server no longer confirms the older hash, so the dialer must
// not complete unless every hash was confirmed. Both servers end up on a mock clock pinned
// to the same instant t0 (captured once), so that the verdicts do not depend on where the
// wall clock sits in a period. A few cases run in the quick tier as well.
func TestE2EFollowingPeriod(t *testing.T) {
	name := t.Name()
	for i := 0; i < hx.Pick(4, 12); i++ {
		if !hx.Mine(i) {
			continue
		}
		k := 1 + i%3
		t.Run(fmt.Sprintf("key%d-rollovers%d", i, k), func(t *testing.T) {
			keyIdx := 200 + i
			t0 := time.Now()
			cl := clock.NewMock()
			cl.Set(t0.Add(-time.Duration(k) * period))
			old := startServer(t, keyIdx, wt.WithClock(cl))
			type learnt struct {
				hs        hashSet
				rollovers int // rollovers the listener had performed when the address was learnt
			}
			var all []learnt
			learn := func(n int) hashSet {
				hs := decodeAddrPlain(t, old.ln.Multiaddr())
				if len(hs) != 2 {
					t.Fatalf("listener advertises %d certhashes after %d rollover(s): %s", len(hs), n, old.ln.Multiaddr())
				}
				all = append(all, learnt{hs, n})
				return hs
			}
			prev := learn(0)
			rollovers := 0
			for {
				r := nextRotationOnClock(t, keyIdx, cl.Now())
				if r.After(t0) {
					break
				}
				cl.Set(r) // the listener's timer is due exactly now
				deadline := time.Now().Add(5 * time.Second)
				for decodeAddrPlain(t, old.ln.Multiaddr()).key() == prev.key() {
					if time.Now().After(deadline) {
						t.Skip("inconclusive: the mock-clock timer of the certificate manager did not run")
					}
					time.Sleep(2 * time.Millisecond)
				}
				rollovers++
				prev = learn(rollovers)
			}
			cl.Set(t0)
			if rollovers == 0 {
				t.Skip("inconclusive: no rotation instant between the start of the listener's clock and now")
			}
			d := newDialer(t, keyIdx)
			withHashes := func(a ma.Multiaddr, hs hashSet) ma.Multiaddr {
				out := stripCerthashes(a)
				for _, h := range hs {
					out = out.Encapsulate(certhashComponent(t, h.Digest, h.Code))
				}
				return out
			}
			for _, l := range all {
				age := rollovers - l.rollovers
				err := dialOnce(t, d, withHashes(old.ln.Multiaddr(), l.hs), old.id)
				t.Logf("address learnt %d rollover(s) ago (after %d rollover(s) of the listener), same listener -> %v", age, l.rollovers, err)
				if isTimeout(err) {
					t.Skipf("inconclusive: dial timed out: %v", err)
				}
				if age <= 1 && err != nil {
					t.Fatalf("an address learnt %d rollover(s) ago (in the %s certificate period, after %d earlier rollover(s)) no longer connects to the listener that kept running: %v",
						age, map[int]string{0: "current", 1: "previous"}[age], l.rollovers, err)
				}
				if age >= 2 && err == nil {
					t.Fatalf("dial completed with an address learnt %d certificate periods ago: none of its hashes %v is the served certificate (listener advertises %s)", age, l.hs, old.ln.Multiaddr())
				}
				first := "listener-had-rolled-before-learn"
				if l.rollovers == 0 {
					first = "learnt-before-first-rollover"
				}
				stats.CaseEnumerated(name, true, fmt.Sprintf("e2e:same-listener/rollovers-since-learn=%d", min(age, 2)), "e2e:same-listener/"+first)
			}

			learntPrev := all[len(all)-2].hs // learnt one period ago
			cl2 := clock.NewMock()
			cl2.Set(t0)
			fresh := startServer(t, keyIdx, wt.WithClock(cl2))
			err := dialOnce(t, d, withHashes(fresh.ln.Multiaddr(), learntPrev), fresh.id)
			t.Logf("address learnt one period ago, restarted listener -> %v", err)
			if isTimeout(err) {
				t.Skipf("inconclusive: dial timed out: %v", err)
			}
			if err == nil {
				// the restarted server advertises/confirms only {current, next}
				if now := decodeAddrPlain(t, fresh.ln.Multiaddr()); !now.superset(learntPrev) {
					t.Fatalf("dial completed although the restarted server cannot have confirmed every hash the dialer relied on (dialled %v, server has %v)", learntPrev, now)
				}
			}
			stats.CaseEnumerated(name, true, "e2e:following-period-restarted-listener", fmt.Sprintf("e2e:restarted-listener-dial-completed=%v", err == nil))
		})
	}
}
