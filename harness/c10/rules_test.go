package c10

import (
	"context"
	"errors"
	"fmt"
	"sort"
	"strings"
	"testing"

	ds "github.com/ipfs/go-datastore"
	dsq "github.com/ipfs/go-datastore/query"
	"github.com/libp2p/go-libp2p/p2p/net/conngater"
	"pgregory.net/rapid"

	"verif/internal/hx"
	"verif/internal/stats"
)

// ---------------------------------------------------------------------------
// datastore double: a MapDatastore that can refuse the next write and that keeps a copy
// of itself after every applied write.

var errInjected = errors.New("c10: injected datastore write failure")

type store struct {
	inner    *ds.MapDatastore
	shadow   map[string][]byte
	failNext bool
	writes   int
	failed   int
	// snap is the copy taken after the most recent applied write: the state a process
	// would restart from if it stopped right after that write.
	snap    map[string][]byte
	snapSeq int
	// puts lists the key of every applied Put, in order (which call wrote which record)
	puts []string
}

func newStore() *store {
	return &store{inner: ds.NewMapDatastore(), shadow: map[string][]byte{}}
}

func copyMap(m map[string][]byte) map[string][]byte {
	o := make(map[string][]byte, len(m))
	for k, v := range m {
		o[k] = append([]byte(nil), v...)
	}
	return o
}

// fromSnapshot builds a fresh datastore holding exactly the snapshot.
func fromSnapshot(m map[string][]byte) *store {
	s := newStore()
	for k, v := range m {
		key := ds.RawKey(k)
		if err := s.inner.Put(context.Background(), key, v); err != nil {
			panic(err)
		}
		s.shadow[k] = append([]byte(nil), v...)
	}
	return s
}

func (s *store) refuse() bool {
	if s.failNext {
		s.failNext = false
		s.failed++
		return true
	}
	return false
}

func (s *store) Put(ctx context.Context, key ds.Key, value []byte) error {
	if s.refuse() {
		return errInjected
	}
	// a datastore that persists serialises the value during the call; MapDatastore keeps the caller's
	// slice itself (the gater passes []byte(ip), the buffer of BlockAddr's caller), so it gets a copy
	if err := s.inner.Put(ctx, key, append([]byte(nil), value...)); err != nil {
		return err
	}
	s.shadow[key.String()] = append([]byte(nil), value...)
	s.writes++
	s.puts = append(s.puts, key.String())
	s.snap, s.snapSeq = copyMap(s.shadow), s.writes
	return nil
}

func (s *store) Delete(ctx context.Context, key ds.Key) error {
	if s.refuse() {
		return errInjected
	}
	if err := s.inner.Delete(ctx, key); err != nil {
		return err
	}
	delete(s.shadow, key.String())
	s.writes++
	s.snap, s.snapSeq = copyMap(s.shadow), s.writes
	return nil
}

func (s *store) Get(ctx context.Context, key ds.Key) ([]byte, error) { return s.inner.Get(ctx, key) }
func (s *store) Has(ctx context.Context, key ds.Key) (bool, error)   { return s.inner.Has(ctx, key) }
func (s *store) GetSize(ctx context.Context, key ds.Key) (int, error) {
	return s.inner.GetSize(ctx, key)
}
func (s *store) Query(ctx context.Context, q dsq.Query) (dsq.Results, error) {
	return s.inner.Query(ctx, q)
}
func (s *store) Sync(ctx context.Context, prefix ds.Key) error { return s.inner.Sync(ctx, prefix) }
func (s *store) Close() error                                  { return nil }

var _ ds.Datastore = (*store)(nil)

func (s *store) dump() string {
	var ks []string
	for k := range s.shadow {
		ks = append(ks, k)
	}
	sort.Strings(ks)
	return strings.Join(ks, " ")
}

// ---------------------------------------------------------------------------

// runOp performs one generated call against the live gater, updates the model when the
// call returned success and checks the restart state right after the write.
// With verify=false (composition tests) only the call and the model update happen, so that
// those tests judge the composition alone.
func runOp(f failer, g *conngater.BasicConnectionGater, st *store, w *world, m *model, o op, ob *obs, hist *[]string, verify bool) {
	before := m.clone()
	wr0 := 0
	if st != nil {
		st.failNext = o.fail
		wr0 = st.writes
	}
	err := o.call(g, w)
	res := "ok"
	if err != nil {
		res = "error"
	}
	*hist = append(*hist, o.describe(w)+" -> "+res)
	ob.noteScribble(o, err == nil)
	if st != nil {
		st.failNext = false // (a call that never wrote leaves the fault armed)
	}
	if err == nil {
		m.apply(o, w)
	} else if !o.fail || st == nil {
		// refused for a reason of the gater's own (e.g. input validation): no rule changes
		ob.refusedCalls++
	}
	if verify && st != nil && st.writes > wr0 {
		// "the process stopped between the datastore write and the in-memory update of
		// this call": restart from the snapshot; the call in flight may go either way.
		snap := fromSnapshot(st.snap)
		rg, rerr := conngater.NewBasicConnectionGater(snap)
		if rerr != nil {
			f.Fatalf("reopening on the snapshot after write %d (%s) failed: %v\nkeys: %s", st.snapSeq, o.describe(w), rerr, snap.dump())
		}
		checkGater(f, fmt.Sprintf("gater reopened on the snapshot taken after write %d (%s; keys: %s)", st.snapSeq, o.describe(w), snap.dump()), rg, w, before, m, ob)
	}
}

func TestRuleHistories(t *testing.T) {
	name := t.Name()
	hx.Check(t, 4000, 500000, 0, func(rt *rapid.T) {
		ex0 := relaxedUsed + excludedMasks
		w := drawWorld(rt)
		useDS := rapid.IntRange(0, 9).Draw(rt, "datastore") > 0
		var st *store
		var g *conngater.BasicConnectionGater
		var err error
		if useDS {
			st = newStore()
			g, err = conngater.NewBasicConnectionGater(st)
		} else {
			g, err = conngater.NewBasicConnectionGater(nil)
		}
		if err != nil {
			rt.Fatalf("NewBasicConnectionGater: %v", err)
		}
		m := newModel()
		var (
			hist     []string
			ob       obs
			reopens  int
			reopenNE bool
			failedOK int
			kinds    = map[string]bool{}
			owner    = map[string]op{} // datastore key -> the successful Block* call that wrote the record
			rf       []readFaultOutcome
		)
		failProb := rapid.SampledFrom([]int{0, 10, 10, 30}).Draw(rt, "failProb")
		if !useDS {
			failProb = 0
		}
		step := func(rt *rapid.T) {
			o := drawOp(rt, w, m, failProb)
			kinds[opNames[o.kind]] = true
			if o.fail {
				failedOK++
			}
			np := 0
			if st != nil {
				np = len(st.puts)
			}
			runOp(rt, g, st, w, m, o, &ob, &hist, true)
			if st != nil && strings.HasSuffix(last(hist), "-> ok") {
				for _, k := range st.puts[np:] {
					owner[k] = o
				}
			}
		}
		// restart while a read of the datastore goes wrong: the constructor fails, or the gater enforces
		// every block that returned success (the live gater is kept: the application retries later)
		reopenFaulty := func(rt *rapid.T) {
			if st == nil {
				return
			}
			plan := drawReadPlan(rt, st)
			hist = append(hist, "reopen while "+plan.String())
			out := reopenWithReadFault(rt, st, plan, owner, w, m)
			out.nonEmpty = !m.empty()
			rf = append(rf, out)
		}
		reopen := func(rt *rapid.T) {
			if st == nil {
				return
			}
			// restart on the final datastore: the model must be reproduced exactly
			ng, err := conngater.NewBasicConnectionGater(st)
			if err != nil {
				rt.Fatalf("reopening on the datastore failed: %v\nhistory:\n%s\nkeys: %s", err, strings.Join(hist, "\n"), st.dump())
			}
			g = ng
			reopens++
			if !m.empty() {
				reopenNE = true
			}
			hist = append(hist, "reopen")
		}
		defer func() {
			if r := recover(); r != nil {
				// make the history part of every failure report
				rt.Logf("history:\n%s", strings.Join(hist, "\n"))
				panic(r)
			}
		}()
		rt.Repeat(map[string]func(*rapid.T){
			"op":                step,
			"op2":               step,
			"op3":               step,
			"reopen":            reopen,
			"reopen-read-fault": reopenFaulty,
			"": func(rt *rapid.T) {
				what := "live gater"
				if len(hist) > 0 && hist[len(hist)-1] == "reopen" {
					what = "gater reopened on the final datastore"
				}
				checkGater(rt, what+" after ["+last(hist)+"]", g, w, m, m, &ob)
			},
		})
		// every history ends with a restart
		if st != nil {
			reopen(rt)
			checkGater(rt, "gater reopened on the final datastore (end of history)", g, w, m, m, &ob)
			// ... and with a restart during which a read fails
			reopenFaulty(rt)
		}

		nontrivial := ob.noncanonBlocked || ob.edgeBlocked || reopenNE
		labels := []string{}
		for k, v := range map[string]bool{
			"noncanonical-form-blocked": ob.noncanonBlocked, "subnet-edge-blocked": ob.edgeBlocked, "subnet-edge-free": ob.edgeFree,
			"reopen-nonempty": reopenNE, "explicit-reopen": reopens > 1, "write-failure": failedOK > 0, "unblock-in-other-spelling": ob.ambiguous, "call-refused-by-gater": ob.refusedCalls > 0, "noncidr-mask": w.nonCIDR(),
			"v6net-vs-v4-unspecified": ob.unspecified, "no-datastore": !useDS, "circuit-addr-via-blocked-relay-ip-refused": ob.relayBlocked,
			"caller-overwrites-values-returned-by-ListBlocked*": ob.listsScribbled,
		} {
			if v {
				labels = append(labels, k)
			}
		}
		for k := range kinds {
			labels = append(labels, "op:"+k)
		}
		rfl := map[string]bool{}
		for _, o := range rf {
			k := "read-fault:" + readFaultNames[o.plan.kind]
			switch {
			case !o.fired:
				rfl[k+"/not-reached"] = true
			case o.refused:
				rfl[k+"/reopen-refused"] = true
			default:
				rfl[k+"/gater-came-up"] = true
			}
			if o.fired && o.nonEmpty {
				rfl["read-fault-delivered-on-nonempty-rules"] = true
			}
			if !o.refused && o.blockedChecks > 0 {
				rfl["read-fault-reopen-came-up:blocks-checked"] = true
			}
		}
		for k := range rfl {
			labels = append(labels, k)
		}
		for k := range ob.scribbles {
			labels = append(labels, k)
		}
		sort.Strings(labels)
		if relaxedUsed+excludedMasks != ex0 {
			stats.Excluded(name) // a known-finding exclusion shaped this case
		}
		stats.Case(name, w.fingerprint()+"|"+strings.Join(hist, ";"), nontrivial, labels...)
		if stats.WantSample(name) {
			stats.Sample(name, map[string]any{"subnets": subKeys(w), "ruleIPs": fmt.Sprint(w.ruleIPs), "history": hist, "probes": len(w.probes)})
		}
	})
}

func last(h []string) string {
	if len(h) == 0 {
		return "start"
	}
	return h[len(h)-1]
}

func subKeys(w *world) []string {
	var o []string
	for _, s := range w.subs {
		o = append(o, s.semKey())
	}
	return o
}
