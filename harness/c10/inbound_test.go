package c10

import (
	"context"
	"errors"
	"fmt"
	"net"
	"sort"
	"strings"
	"sync"
	"testing"
	"testing/synctest"
	"time"

	"github.com/libp2p/go-libp2p/core/network"
	"github.com/libp2p/go-libp2p/core/peer"
	"github.com/libp2p/go-libp2p/core/sec"
	"github.com/libp2p/go-libp2p/core/transport"
	"github.com/libp2p/go-libp2p/p2p/host/eventbus"
	"github.com/libp2p/go-libp2p/p2p/host/peerstore/pstoremem"
	"github.com/libp2p/go-libp2p/p2p/muxer/yamux"
	"github.com/libp2p/go-libp2p/p2p/net/conngater"
	"github.com/libp2p/go-libp2p/p2p/net/swarm"
	"github.com/libp2p/go-libp2p/p2p/net/upgrader"
	"github.com/libp2p/go-libp2p/p2p/security/noise"
	libp2ptls "github.com/libp2p/go-libp2p/p2p/security/tls"
	ma "github.com/multiformats/go-multiaddr"
	manet "github.com/multiformats/go-multiaddr/net"
	"pgregory.net/rapid"

	"verif/internal/hx"
	"verif/internal/keys"
	"verif/internal/memnet"
	"verif/internal/stats"
)

// ---------------------------------------------------------------------------
// in-memory listening transport: raw conns come from memnet, everything above them is
// the repo's upgrader (gated listener, security handshake, InterceptSecured, muxer).

type forcedConn struct {
	net.Conn
	l, r ma.Multiaddr
}

func (c *forcedConn) LocalMultiaddr() ma.Multiaddr  { return c.l }
func (c *forcedConn) RemoteMultiaddr() ma.Multiaddr { return c.r }

// inListener is a manet.Listener over a memnet listener. A queued conn may carry a
// hand-built remote multiaddr; otherwise the multiaddr is derived from its net.Addr the
// way every real listener does (manet.WrapNetConn).
type inListener struct {
	ml     *memnet.Listener
	laddr  ma.Multiaddr
	mu     sync.Mutex
	forced map[net.Conn]ma.Multiaddr
}

func (l *inListener) Accept() (manet.Conn, error) {
	c, err := l.ml.Accept()
	if err != nil {
		return nil, err
	}
	l.mu.Lock()
	f := l.forced[c]
	delete(l.forced, c)
	l.mu.Unlock()
	if f != nil {
		return &forcedConn{Conn: c, l: l.laddr, r: f}, nil
	}
	return manet.WrapNetConn(c)
}
func (l *inListener) Close() error            { return l.ml.Close() }
func (l *inListener) Addr() net.Addr          { return l.ml.Addr() }
func (l *inListener) Multiaddr() ma.Multiaddr { return l.laddr }

type accepted struct {
	peer peer.ID
	addr ma.Multiaddr
}

// recListener records what the upgraded listener's Accept returned.
type recListener struct {
	transport.Listener
	mu  sync.Mutex
	got []accepted
}

func (l *recListener) Accept() (transport.CapableConn, error) {
	c, err := l.Listener.Accept()
	if err == nil {
		l.mu.Lock()
		l.got = append(l.got, accepted{c.RemotePeer(), c.RemoteMultiaddr()})
		l.mu.Unlock()
	}
	return c, err
}

func (l *recListener) take() []accepted {
	l.mu.Lock()
	defer l.mu.Unlock()
	g := l.got
	l.got = nil
	return g
}

type memTransport struct {
	u   transport.Upgrader
	in  *inListener
	rec *recListener
}

func (t *memTransport) Dial(context.Context, ma.Multiaddr, peer.ID) (transport.CapableConn, error) {
	return nil, errors.New("c10: listen-only transport")
}
func (t *memTransport) CanDial(ma.Multiaddr) bool { return false }
func (t *memTransport) Protocols() []int          { return []int{ma.P_TCP} }
func (t *memTransport) Proxy() bool               { return false }
func (t *memTransport) Listen(laddr ma.Multiaddr) (transport.Listener, error) {
	na, err := manet.ToNetAddr(laddr)
	if err != nil {
		return nil, err
	}
	t.in = &inListener{ml: memnet.NewListener(na), laddr: laddr, forced: map[net.Conn]ma.Multiaddr{}}
	t.rec = &recListener{Listener: t.u.UpgradeListener(t, t.in)}
	return t.rec, nil
}

func mkUpgrader(id *keys.Identity, secName string, early bool, g *conngater.BasicConnectionGater) (transport.Upgrader, error) {
	muxers := []upgrader.StreamMuxer{{ID: yamux.ID, Muxer: yamux.DefaultTransport}}
	var secMuxers []upgrader.StreamMuxer
	if early {
		secMuxers = muxers
	}
	var st sec.SecureTransport
	var err error
	if secName == "tls" {
		st, err = libp2ptls.New(libp2ptls.ID, id.Priv, secMuxers)
	} else {
		st, err = noise.New(noise.ID, id.Priv, secMuxers)
	}
	if err != nil {
		return nil, err
	}
	if g == nil {
		return upgrader.New([]sec.SecureTransport{st}, muxers, nil, nil, nil)
	}
	return upgrader.New([]sec.SecureTransport{st}, muxers, nil, nil, g)
}

// ---------------------------------------------------------------------------
// scenario

const (
	srcNatural      = iota // TCPAddr with the natural IP length
	srcMapped16            // v4: TCPAddr with the 16-byte form
	srcForcedMapped        // v4: remote multiaddr /ip6/::ffff:a.b.c.d/tcp/port handed over as is
	srcZone                // v6: TCPAddr with a zone (-> /ip6zone/eth0/ip6/...)
)

var srcNames = [...]string{"natural", "16-byte-mapped", "/ip6/::ffff:-multiaddr", "ip6zone"}

type attempt struct {
	ops  []op // rule changes before this attempt
	peer int
	ip   int
	src  int
	port int
}

type inScenario struct {
	setup    []op
	reopen   bool
	sec      string
	early    bool
	attempts []attempt
}

func drawInScenario(rt *rapid.T, w *world) *inScenario {
	sc := &inScenario{reopen: rapid.Bool().Draw(rt, "reopen"), sec: rapid.SampledFrom([]string{"noise", "noise", "tls"}).Draw(rt, "sec"), early: rapid.Bool().Draw(rt, "early")}
	m := newModel()
	draw := func(n int, label string) []op {
		var out []op
		for i := 0; i < n; i++ {
			o := drawOp(rt, w, m, 8)
			if !o.fail {
				m.apply(o, w)
			}
			out = append(out, o)
		}
		return out
	}
	sc.setup = draw(rapid.IntRange(1, 6).Draw(rt, "nsetup"), "setup")
	na := rapid.IntRange(2, 5).Draw(rt, "nattempts")
	for i := 0; i < na; i++ {
		a := attempt{peer: rapid.IntRange(0, nPeers-1).Draw(rt, "peer"), ip: rapid.IntRange(0, len(w.ips)-1).Draw(rt, "ip"), port: 30000 + i}
		if i > 0 {
			a.ops = draw(rapid.IntRange(0, 2).Draw(rt, "nops"), "ops")
		}
		if w.ips[a.ip].v6 {
			a.src = rapid.SampledFrom([]int{srcNatural, srcNatural, srcZone}).Draw(rt, "src")
		} else {
			a.src = rapid.SampledFrom([]int{srcNatural, srcMapped16, srcForcedMapped}).Draw(rt, "src")
		}
		sc.attempts = append(sc.attempts, a)
	}
	return sc
}

func (sc *inScenario) fingerprint(w *world) string {
	var b strings.Builder
	b.WriteString(w.fingerprint() + "|" + sc.sec)
	fmt.Fprintf(&b, "|%v|%v|", sc.reopen, sc.early)
	for _, o := range sc.setup {
		b.WriteString(o.describe(w) + ";")
	}
	for _, a := range sc.attempts {
		for _, o := range a.ops {
			b.WriteString(o.describe(w) + ";")
		}
		fmt.Fprintf(&b, "|peer%d@%s/%s", a.peer, w.ips[a.ip], srcNames[a.src])
	}
	return b.String()
}

var listenTCP = &net.TCPAddr{IP: net.IPv4(198, 51, 100, 1).To4(), Port: 4001}

func TestInboundUpgrader(t *testing.T) {
	name := t.Name()
	hx.Check(t, 1600, 120000, 0, func(rt *rapid.T) {
		ex0 := relaxedUsed + excludedMasks
		w := drawWorld(rt)
		sc := drawInScenario(rt, w)
		var (
			hist       []string
			labels     = map[string]bool{}
			nontrivial bool
		)
		hx.Bubble(t, rt, func() {
			st := newStore()
			g, err := conngater.NewBasicConnectionGater(st)
			if err != nil {
				rt.Fatalf("gater: %v", err)
			}
			m := newModel()
			var ob obs
			for _, o := range sc.setup {
				runOp(rt, g, st, w, m, o, &ob, &hist, false)
			}
			if sc.reopen {
				if g, err = conngater.NewBasicConnectionGater(st); err != nil {
					rt.Fatalf("reopen: %v", err)
				}
				hist = append(hist, "reopen")
				if !m.empty() {
					labels["reopen-nonempty"] = true
					nontrivial = true
				}
			}
			local := keys.Ed(0)
			ps, err := pstoremem.NewPeerstore()
			if err != nil {
				rt.Fatalf("peerstore: %v", err)
			}
			defer ps.Close()
			su, err := mkUpgrader(local, sc.sec, sc.early, g)
			if err != nil {
				rt.Fatalf("upgrader: %v", err)
			}
			tr := &memTransport{u: su}
			sw, err := swarm.NewSwarm(local.ID, ps, eventbus.NewBus(), swarm.WithConnectionGater(g))
			if err != nil {
				rt.Fatalf("swarm: %v", err)
			}
			defer sw.Close()
			if err := sw.AddTransport(tr); err != nil {
				rt.Fatalf("add transport: %v", err)
			}
			nf := &notifiee{}
			sw.Notify(nf.bundle())
			if err := sw.Listen(mustAddr("/ip4/198.51.100.1/tcp/4001")); err != nil {
				rt.Fatalf("listen: %v", err)
			}

			for ai, at := range sc.attempts {
				for _, o := range at.ops {
					runOp(rt, g, st, w, m, o, &ob, &hist, false)
				}
				ip := w.ips[at.ip]
				remoteID := keys.Ed(20 + at.peer)
				src := &net.TCPAddr{IP: ip.netIP(formNatural), Port: at.port}
				var forced ma.Multiaddr
				switch at.src {
				case srcMapped16:
					src.IP = ip.netIP(formMapped16)
				case srcForcedMapped:
					forced = mustAddr(fmt.Sprintf("/ip6/::ffff:%s/tcp/%d", ip, at.port))
				case srcZone:
					src.Zone = "eth0"
				}
				cli, srv := memnet.Pipe(memnet.Options{LocalAddr: src, RemoteAddr: listenTCP})
				if forced != nil {
					tr.in.mu.Lock()
					tr.in.forced[srv] = forced
					tr.in.mu.Unlock()
				}
				if !tr.in.ml.Inject(srv) {
					rt.Fatalf("listener refused the raw connection")
				}
				cu, err := mkUpgrader(remoteID, sc.sec, sc.early, nil)
				if err != nil {
					rt.Fatalf("client upgrader: %v", err)
				}
				mc, err := manet.WrapNetConn(cli)
				if err != nil {
					rt.Fatalf("wrap client conn: %v", err)
				}
				type result struct {
					c   transport.CapableConn
					err error
				}
				done := make(chan result, 1)
				ctx, cancel := context.WithTimeout(context.Background(), 20*time.Second)
				go func() {
					c, err := cu.Upgrade(ctx, nil, mc, network.DirOutbound, local.ID, &network.NullScope{})
					done <- result{c, err}
				}()
				synctest.Wait()
				time.Sleep(time.Second)
				synctest.Wait()

				pv := m.peerVerdict(at.peer)
				iv := m.ipVerdict(ip)
				what := fmt.Sprintf("attempt %d: inbound connection from peer%d at %s (source form %s, %s, early-muxer=%v); rules after:\n  %s\n", ai, at.peer, ip, srcNames[at.src], sc.sec, sc.early, strings.Join(hist, "\n  "))
				acc := tr.rec.take()
				evs := nf.take()
				conns := sw.ConnsToPeer(remoteID.ID)
				switch {
				case iv == yes:
					labels["addr-blocked"] = true
					if at.src != srcNatural || m.viaSubnet(ip) {
						nontrivial = true
						labels["blocked-through-noncanonical-form"] = true
					}
					if !srv.Closed() {
						rt.Fatalf("%sthe IP matches a rule in force but the raw connection was not closed by the listener", what)
					}
					if r, wr := srv.BytesRead.Load(), srv.BytesWritten.Load(); r != 0 || wr != 0 {
						rt.Fatalf("%sthe IP matches a rule in force but the listener read %d and wrote %d bytes on the raw connection before closing it", what, r, wr)
					}
				case pv == yes:
					labels["peer-blocked"] = true
					if !srv.Closed() {
						rt.Fatalf("%sthe peer is blocked but the raw connection was not closed after the security handshake", what)
					}
					if srv.BytesRead.Load() > 0 {
						labels["peer-blocked-after-handshake-bytes"] = true
					}
				}
				if iv == yes || pv == yes {
					if len(acc) != 0 {
						rt.Fatalf("%sblocked remote was returned by the upgraded listener's Accept: %+v", what, acc)
					}
					if len(conns) != 0 {
						rt.Fatalf("%sblocked remote was admitted to the swarm: %v", what, conns)
					}
					if len(evs) != 0 {
						rt.Fatalf("%sConnected notification for a blocked remote: %+v", what, evs)
					}
				}
				if iv == no && pv == no {
					labels["free-remote-admitted"] = true
					if len(conns) != 1 || len(evs) != 1 || len(acc) != 1 {
						rt.Fatalf("%sno rule in force matches but the connection was not admitted (Accept returned %d, ConnsToPeer %d, Connected %d; raw conn closed=%v)", what, len(acc), len(conns), len(evs), srv.Closed())
					}
				}
				if iv == either {
					labels["unspecified"] = true
				}
				// every admitted connection, whatever the expectation, must not match a rule
				for _, c := range conns {
					if v, why := remoteVerdict(m, w, c.RemotePeer(), c.RemoteMultiaddr()); v == yes {
						rt.Fatalf("%sswarm holds a connection from %s although %s", what, c.RemoteMultiaddr(), why)
					}
				}
				// tear the attempt down
				cancel()
				r := <-done
				if r.c != nil {
					r.c.Close()
				}
				cli.Close()
				sw.ClosePeer(remoteID.ID)
				synctest.Wait()
				time.Sleep(time.Second)
				synctest.Wait()
				nf.take()
				tr.rec.take()
				if len(at.ops) > 0 {
					labels["rules-changed-between-attempts"] = true
				}
			}
			labels["sec:"+sc.sec] = true
		})
		var ls []string
		for k := range labels {
			ls = append(ls, k)
		}
		sort.Strings(ls)
		if relaxedUsed+excludedMasks != ex0 {
			stats.Excluded(name) // a known-finding exclusion shaped this case
		}
		stats.Case(name, sc.fingerprint(w), nontrivial, ls...)
		if stats.WantSample(name) {
			var as []string
			for _, a := range sc.attempts {
				as = append(as, fmt.Sprintf("peer%d from %s (%s)", a.peer, w.ips[a.ip], srcNames[a.src]))
			}
			stats.Sample(name, map[string]any{"history": hist, "attempts": as, "subnets": subKeys(w), "sec": sc.sec})
		}
	})
}
