package c10

import (
	"context"
	"fmt"
	"net"
	"sort"
	"strings"
	"sync/atomic"
	"testing"
	"testing/synctest"
	"time"

	"github.com/libp2p/go-libp2p/config"
	"github.com/libp2p/go-libp2p/core/network"
	"github.com/libp2p/go-libp2p/core/peerstore"
	"github.com/libp2p/go-libp2p/core/transport"
	"github.com/libp2p/go-libp2p/p2p/host/eventbus"
	"github.com/libp2p/go-libp2p/p2p/host/peerstore/pstoremem"
	"github.com/libp2p/go-libp2p/p2p/net/conngater"
	"github.com/libp2p/go-libp2p/p2p/net/swarm"
	libp2pquic "github.com/libp2p/go-libp2p/p2p/transport/quic"
	"github.com/libp2p/go-libp2p/p2p/transport/quicreuse"
	"github.com/marcopolo/simnet"
	ma "github.com/multiformats/go-multiaddr"
	"pgregory.net/rapid"

	"verif/internal/hx"
	"verif/internal/keys"
	"verif/internal/stats"
)

// The QUIC transport has its own gating call sites (listener.Accept: InterceptAccept &&
// InterceptSecured after the handshake; the swarm gates the outbound side). They are
// driven here with the real transport over the repo's in-memory UDP substrate (simnet,
// as used by x/simlibp2p) with arbitrary source IPs.

type srcSel struct{ ip atomic.Pointer[net.IP] }

func (m *srcSel) PreferredSourceIPForDestination(*net.UDPAddr) (net.IP, error) {
	return *m.ip.Load(), nil
}

type quicNode struct {
	sw   *swarm.Swarm
	ps   peerstore.Peerstore
	cm   *quicreuse.ConnManager
	nf   *notifiee
	addr ma.Multiaddr
}

func (n *quicNode) close() {
	n.sw.Close()
	n.cm.Close()
	n.ps.Close()
}

var quicLink = simnet.NodeBiDiLinkSettings{
	Downlink: simnet.LinkSettings{BitsPerSecond: 100_000_000},
	Uplink:   simnet.LinkSettings{BitsPerSecond: 100_000_000},
}

func newQUICNode(sim *simnet.Simnet, id *keys.Identity, listen ma.Multiaddr, g *conngater.BasicConnectionGater) (*quicNode, error) {
	ps, err := pstoremem.NewPeerstore()
	if err != nil {
		return nil, err
	}
	opts := []swarm.Option{swarm.WithUDPBlackHoleSuccessCounter(nil), swarm.WithIPv6BlackHoleSuccessCounter(nil)}
	if g != nil {
		opts = append(opts, swarm.WithConnectionGater(g))
	}
	sw, err := swarm.NewSwarm(id.ID, ps, eventbus.NewBus(), opts...)
	if err != nil {
		ps.Close()
		return nil, err
	}
	srk, err := config.PrivKeyToStatelessResetKey(id.Priv)
	if err != nil {
		return nil, err
	}
	tgk, err := config.PrivKeyToTokenGeneratorKey(id.Priv)
	if err != nil {
		return nil, err
	}
	sel := &srcSel{}
	cm, err := quicreuse.NewConnManager(srk, tgk,
		quicreuse.OverrideSourceIPSelector(func() (quicreuse.SourceIPSelector, error) { return sel, nil }),
		quicreuse.OverrideListenUDP(func(_ string, a *net.UDPAddr) (net.PacketConn, error) {
			sel.ip.Store(&a.IP)
			return sim.NewEndpoint(a, quicLink), nil
		}))
	if err != nil {
		return nil, err
	}
	var tr transport.Transport
	if g != nil {
		tr, err = libp2pquic.NewTransport(id.Priv, cm, nil, g, &network.NullResourceManager{})
	} else {
		tr, err = libp2pquic.NewTransport(id.Priv, cm, nil, nil, &network.NullResourceManager{})
	}
	if err != nil {
		return nil, err
	}
	if err := sw.AddTransport(tr); err != nil {
		return nil, err
	}
	if err := sw.Listen(listen); err != nil {
		return nil, err
	}
	n := &quicNode{sw: sw, ps: ps, cm: cm, nf: &notifiee{}, addr: listen}
	sw.Notify(n.nf.bundle())
	return n, nil
}

type quicAttempt struct {
	ops      []op
	peer, ip int
	outbound bool // the gated node dials the remote
}

func TestQUICSimnet(t *testing.T) {
	name := t.Name()
	hx.Check(t, 320, 30000, 0, func(rt *rapid.T) {
		ex0 := relaxedUsed + excludedMasks
		w := drawWorld(rt)
		// one address family per case (the simulated node has one UDP socket)
		v6 := rapid.Bool().Draw(rt, "v6")
		var cand []int
		for i, a := range w.ips {
			if a.v6 == v6 && ordinary(a) {
				cand = append(cand, i)
			}
		}
		if len(cand) == 0 {
			extra := ip4(203, 0, 113, 7)
			if v6 {
				extra = parse6("2001:db8:7::7")
			}
			w.ips = append(w.ips, extra)
			cand = []int{len(w.ips) - 1}
		}
		m0 := newModel()
		drawOps := func(n int) []op {
			var out []op
			for i := 0; i < n; i++ {
				o := drawOp(rt, w, m0, 0)
				m0.apply(o, w)
				out = append(out, o)
			}
			return out
		}
		setup := drawOps(rapid.IntRange(1, 5).Draw(rt, "nsetup"))
		reopen := rapid.Bool().Draw(rt, "reopen")
		var attempts []quicAttempt
		for i, n := 0, rapid.IntRange(1, 3).Draw(rt, "nattempts"); i < n; i++ {
			a := quicAttempt{peer: rapid.IntRange(0, nPeers-1).Draw(rt, "peer"), ip: rapid.SampledFrom(cand).Draw(rt, "ip"), outbound: rapid.IntRange(0, 2).Draw(rt, "outbound") == 0}
			if i > 0 {
				a.ops = drawOps(rapid.IntRange(0, 2).Draw(rt, "nops"))
			}
			attempts = append(attempts, a)
		}
		var (
			hist       []string
			labels     = map[string]bool{}
			nontrivial bool
		)
		hx.Bubble(t, rt, func() {
			st := newStore()
			g, err := conngater.NewBasicConnectionGater(st)
			if err != nil {
				rt.Fatalf("gater: %v", err)
			}
			m := newModel()
			var ob obs
			for _, o := range setup {
				runOp(rt, g, st, w, m, o, &ob, &hist, false)
			}
			if reopen {
				if g, err = conngater.NewBasicConnectionGater(st); err != nil {
					rt.Fatalf("reopen: %v", err)
				}
				hist = append(hist, "reopen")
				if !m.empty() {
					labels["reopen-nonempty"], nontrivial = true, true
				}
			}
			sim := &simnet.Simnet{LatencyFunc: simnet.StaticLatency(5 * time.Millisecond)}
			srvAddr := mustAddr("/ip4/198.51.100.1/udp/8000/quic-v1")
			if v6 {
				srvAddr = mustAddr("/ip6/2001:db8:ffff::1/udp/8000/quic-v1")
			}
			srv, err := newQUICNode(sim, keys.Ed(0), srvAddr, g)
			if err != nil {
				rt.Fatalf("server node: %v", err)
			}
			sim.Start()
			defer sim.Close()
			defer srv.close()

			for ai, at := range attempts {
				for _, o := range at.ops {
					runOp(rt, g, st, w, m, o, &ob, &hist, false)
				}
				ip := w.ips[at.ip]
				rid := keys.Ed(20 + at.peer)
				fam := "ip4"
				if v6 {
					fam = "ip6"
				}
				caddr := mustAddr(fmt.Sprintf("/%s/%s/udp/%d/quic-v1", fam, ip, 9000+ai))
				cli, err := newQUICNode(sim, rid, caddr, nil)
				if err != nil {
					rt.Fatalf("client node: %v", err)
				}
				pv, iv := m.peerVerdict(at.peer), m.ipVerdict(ip)
				what := fmt.Sprintf("attempt %d (outbound=%v): QUIC remote peer%d at %s; rules after:\n  %s\n", ai, at.outbound, at.peer, caddr, strings.Join(hist, "\n  "))
				ctx, cancel := context.WithTimeout(context.Background(), 10*time.Second)
				var derr error
				if at.outbound {
					srv.ps.AddAddr(rid.ID, caddr, time.Hour)
					_, derr = srv.sw.DialPeer(ctx, rid.ID)
				} else {
					cli.ps.AddAddr(srv.sw.LocalPeer(), srvAddr, time.Hour)
					_, derr = cli.sw.DialPeer(ctx, srv.sw.LocalPeer())
				}
				cancel()
				time.Sleep(2 * time.Second)
				synctest.Wait()
				conns := srv.sw.ConnsToPeer(rid.ID)
				evs := srv.nf.take()
				cevs := cli.nf.take()
				all := or(pv, iv)
				switch all {
				case yes:
					labels["blocked"] = true
					if iv == yes && m.viaSubnet(ip) {
						nontrivial = true
						labels["blocked-through-subnet-edge"] = true
					}
					if len(conns) != 0 || len(evs) != 0 {
						rt.Fatalf("%sthe remote matches a rule in force but the gated swarm holds %d connections / saw %d Connected notifications", what, len(conns), len(evs))
					}
					if at.outbound {
						if derr == nil {
							rt.Fatalf("%sDialPeer succeeded towards a blocked remote", what)
						}
						if len(cevs) != 0 {
							rt.Fatalf("%sthe blocked remote saw an inbound connection from the gated node: the transport dialled", what)
						}
					}
				case no:
					labels["free-connected"] = true
					if len(conns) != 1 || len(evs) != 1 {
						rt.Fatalf("%sno rule in force matches but the connection was not established (dial error: %v; conns=%d notifications=%d)", what, derr, len(conns), len(evs))
					}
				}
				if at.outbound {
					labels["outbound"] = true
				} else {
					labels["inbound"] = true
				}
				srv.sw.ClosePeer(rid.ID)
				cli.close()
				time.Sleep(time.Second)
				synctest.Wait()
				srv.nf.take()
			}
		})
		var ls []string
		for k := range labels {
			ls = append(ls, k)
		}
		sort.Strings(ls)
		if relaxedUsed+excludedMasks != ex0 {
			stats.Excluded(name) // a known-finding exclusion shaped this case
		}
		fp := w.fingerprint() + fmt.Sprint(v6, reopen) + strings.Join(hist, ";")
		for _, a := range attempts {
			fp += fmt.Sprintf("|%d@%s/%v", a.peer, w.ips[a.ip], a.outbound)
		}
		stats.Case(name, fp, nontrivial, ls...)
		if stats.WantSample(name) {
			stats.Sample(name, map[string]any{"history": hist, "v6": v6, "attempts": fmt.Sprint(attempts)})
		}
	})
}
