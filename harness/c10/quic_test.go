package c10

import (
	"context"
	"fmt"
	"net"
	"sort"
	"strings"
	"sync/atomic"
	"testing"
	"testing/synctest"
	"time"

	"github.com/libp2p/go-libp2p/config"
	"github.com/libp2p/go-libp2p/core/connmgr"
	"github.com/libp2p/go-libp2p/core/network"
	"github.com/libp2p/go-libp2p/core/peerstore"
	"github.com/libp2p/go-libp2p/p2p/host/eventbus"
	"github.com/libp2p/go-libp2p/p2p/host/peerstore/pstoremem"
	"github.com/libp2p/go-libp2p/p2p/net/conngater"
	"github.com/libp2p/go-libp2p/p2p/net/swarm"
	libp2pquic "github.com/libp2p/go-libp2p/p2p/transport/quic"
	"github.com/libp2p/go-libp2p/p2p/transport/quicreuse"
	libp2pwebtransport "github.com/libp2p/go-libp2p/p2p/transport/webtransport"
	"github.com/marcopolo/simnet"
	ma "github.com/multiformats/go-multiaddr"
	"github.com/quic-go/quic-go"
	"pgregory.net/rapid"

	"verif/internal/hx"
	"verif/internal/keys"
	"verif/internal/stats"
)

// The QUIC transport has its own gating call sites (listener.Accept: InterceptAccept &&
// InterceptSecured after the handshake; the swarm gates the outbound side), and so has the
// WebTransport transport (listener: InterceptAccept in the HTTP handler, InterceptSecured
// after Noise; dialer: InterceptSecured). They are driven here with the real transports
// over the repo's in-memory UDP substrate (simnet, as used by x/simlibp2p) with arbitrary
// source IPs, for both ways a quicreuse.ConnManager is configured (udpCfg.scoped).

type srcSel struct{ ip atomic.Pointer[net.IP] }

func (m *srcSel) PreferredSourceIPForDestination(*net.UDPAddr) (net.IP, error) {
	return *m.ip.Load(), nil
}

type quicNode struct {
	sw     *swarm.Swarm
	ps     peerstore.Peerstore
	cm     *quicreuse.ConnManager
	nf     *notifiee
	addr   ma.Multiaddr
	scopes *atomic.Int64 // scopes opened by the ConnContext option (nil: bare ConnManager)
}

func (n *quicNode) close() {
	n.sw.Close()
	n.cm.Close()
	n.ps.Close()
}

var quicLink = simnet.NodeBiDiLinkSettings{
	Downlink: simnet.LinkSettings{BitsPerSecond: 100_000_000},
	Uplink:   simnet.LinkSettings{BitsPerSecond: 100_000_000},
}

// udpCfg: which transports sit on the node's one quicreuse.ConnManager and how that
// ConnManager is configured.
type udpCfg struct {
	quic, wt bool
	// scoped: the ConnManager is created the way libp2p.New creates it (config/config.go):
	// with a quicreuse.ConnContext option that opens the resource manager's connection scope
	// when the QUIC connection is accepted and hands it on in the connection's context. The
	// listeners then find the scope there instead of opening it at their own gating call site.
	// Not scoped: a bare quicreuse.NewConnManager (what the swarm test helpers build).
	scoped bool
}

// scopeAtAccept is the ConnContext option of libp2p.New's default ConnManager.
func scopeAtAccept(rcmgr network.ResourceManager, opened *atomic.Int64) quicreuse.Option {
	return quicreuse.ConnContext(func(ctx context.Context, ci *quic.ClientInfo) (context.Context, error) {
		addr, err := quicreuse.ToQuicMultiaddr(ci.RemoteAddr, quic.Version1)
		if err != nil {
			addr = nil
		}
		scope, err := rcmgr.OpenConnection(network.DirInbound, false, addr)
		if err != nil {
			return ctx, err
		}
		opened.Add(1)
		ctx = network.WithConnManagementScope(ctx, scope)
		context.AfterFunc(ctx, func() { scope.Done() })
		return ctx, nil
	})
}

// newUDPNode builds a swarm with the real QUIC and/or WebTransport transports on one
// ConnManager whose UDP sockets are simnet endpoints.
func newUDPNode(sim *simnet.Simnet, id *keys.Identity, listen []ma.Multiaddr, g *conngater.BasicConnectionGater, cfg udpCfg) (*quicNode, error) {
	ps, err := pstoremem.NewPeerstore()
	if err != nil {
		return nil, err
	}
	opts := []swarm.Option{swarm.WithUDPBlackHoleSuccessCounter(nil), swarm.WithIPv6BlackHoleSuccessCounter(nil)}
	if g != nil {
		opts = append(opts, swarm.WithConnectionGater(g))
	}
	sw, err := swarm.NewSwarm(id.ID, ps, eventbus.NewBus(), opts...)
	if err != nil {
		ps.Close()
		return nil, err
	}
	srk, err := config.PrivKeyToStatelessResetKey(id.Priv)
	if err != nil {
		return nil, err
	}
	tgk, err := config.PrivKeyToTokenGeneratorKey(id.Priv)
	if err != nil {
		return nil, err
	}
	sel := &srcSel{}
	rcmgr := &network.NullResourceManager{}
	cmOpts := []quicreuse.Option{
		quicreuse.OverrideSourceIPSelector(func() (quicreuse.SourceIPSelector, error) { return sel, nil }),
		quicreuse.OverrideListenUDP(func(_ string, a *net.UDPAddr) (net.PacketConn, error) {
			sel.ip.Store(&a.IP)
			return sim.NewEndpoint(a, quicLink), nil
		})}
	n := &quicNode{sw: sw, ps: ps, nf: &notifiee{}, addr: listen[0]}
	if cfg.scoped {
		n.scopes = new(atomic.Int64)
		cmOpts = append(cmOpts, scopeAtAccept(rcmgr, n.scopes))
	}
	cm, err := quicreuse.NewConnManager(srk, tgk, cmOpts...)
	if err != nil {
		return nil, err
	}
	n.cm = cm
	// (a nil *BasicConnectionGater must not end up in a non-nil interface)
	var gi connmgr.ConnectionGater
	if g != nil {
		gi = g
	}
	if cfg.quic {
		tr, err := libp2pquic.NewTransport(id.Priv, cm, nil, gi, rcmgr)
		if err != nil {
			return nil, err
		}
		if err := sw.AddTransport(tr); err != nil {
			return nil, err
		}
	}
	if cfg.wt {
		tr, err := libp2pwebtransport.New(id.Priv, nil, cm, gi, rcmgr)
		if err != nil {
			return nil, err
		}
		if err := sw.AddTransport(tr); err != nil {
			return nil, err
		}
	}
	for _, a := range listen { // (one by one: Listen reports an error only when every address failed)
		if err := sw.Listen(a); err != nil {
			return nil, err
		}
	}
	sw.Notify(n.nf.bundle())
	return n, nil
}

type quicAttempt struct {
	ops      []op
	peer, ip int
	outbound bool // the gated node dials the remote
	api      int  // outbound: the call that starts the attempt on the gated swarm (Network.DialPeer / Network.NewStream's implicit dial)
	wt       bool // over WebTransport (otherwise plain QUIC)
}

func (a quicAttempt) tpt() string {
	if a.wt {
		return "webtransport"
	}
	return "quic"
}

func TestQUICSimnet(t *testing.T) { udpSimnet(t, 320, 30000, false) }

// TestWebTransportSimnet drives the WebTransport transport's own gating call sites
// (listener: InterceptAccept in the HTTP handler before the session is upgraded,
// InterceptSecured after Noise; dialer: InterceptSecured) with the real transport over
// simnet, alone or next to QUIC on the same ConnManager and UDP port (libp2p.New's default
// listen set), under both ConnManager configurations (see udpCfg.scoped).
func TestWebTransportSimnet(t *testing.T) { udpSimnet(t, 240, 20000, true) }

// wtAddr picks the node's WebTransport listen address (it carries the certhashes a dialer needs).
func wtAddr(sw *swarm.Swarm, wt bool) ma.Multiaddr {
	for _, a := range sw.ListenAddresses() {
		if _, err := a.ValueForProtocol(ma.P_WEBTRANSPORT); (err == nil) == wt {
			return a
		}
	}
	return nil
}

func udpSimnet(t *testing.T, quick, thorough int, withWT bool) {
	name := t.Name()
	hx.Check(t, quick, thorough, 0, func(rt *rapid.T) {
		ex0 := relaxedUsed + excludedMasks
		w := drawWorld(rt)
		// one address family per case (the simulated node has one UDP socket)
		v6 := rapid.Bool().Draw(rt, "v6")
		// configuration: the transports on the ConnManager and how the ConnManager is built
		cfg := udpCfg{quic: true, scoped: rapid.Bool().Draw(rt, "scopedConnManager")}
		if withWT {
			cfg.wt = true
			cfg.quic = rapid.Bool().Draw(rt, "quicOnSamePort")
		}
		var cand []int
		for i, a := range w.ips {
			if a.v6 == v6 && ordinary(a) {
				cand = append(cand, i)
			}
		}
		if len(cand) == 0 {
			extra := ip4(203, 0, 113, 7)
			if v6 {
				extra = parse6("2001:db8:7::7")
			}
			w.ips = append(w.ips, extra)
			cand = []int{len(w.ips) - 1}
		}
		m0 := newModel()
		drawOps := func(n int) []op {
			var out []op
			for i := 0; i < n; i++ {
				o := drawOp(rt, w, m0, 0)
				m0.apply(o, w)
				out = append(out, o)
			}
			return out
		}
		setup := drawOps(rapid.IntRange(1, 5).Draw(rt, "nsetup"))
		reopen := rapid.Bool().Draw(rt, "reopen")
		var attempts []quicAttempt
		for i, n := 0, rapid.IntRange(1, 3).Draw(rt, "nattempts"); i < n; i++ {
			a := quicAttempt{peer: rapid.IntRange(0, nPeers-1).Draw(rt, "peer"), outbound: rapid.IntRange(0, 2).Draw(rt, "outbound") == 0}
			if a.outbound {
				a.api = rapid.SampledFrom([]int{apiDialPeer, apiSwarmNewStream}).Draw(rt, "api")
			}
			if i > 0 {
				a.ops = drawOps(rapid.IntRange(0, 2).Draw(rt, "nops"))
			}
			// the remote's IP: any candidate, or (so that refusals are not starved) one that the rules
			// drawn so far cover
			var covered []int
			for _, c := range cand {
				if m0.ipVerdict(w.ips[c]) == yes {
					covered = append(covered, c)
				}
			}
			if len(covered) > 0 && rapid.Bool().Draw(rt, "coveredIP") {
				a.ip = rapid.SampledFrom(covered).Draw(rt, "ip")
			} else {
				a.ip = rapid.SampledFrom(cand).Draw(rt, "ip")
			}
			a.wt = cfg.wt && (!cfg.quic || rapid.IntRange(0, 3).Draw(rt, "overWebTransport") > 0)
			attempts = append(attempts, a)
		}
		var (
			hist       []string
			labels     = map[string]bool{}
			nontrivial bool
		)
		cmName := "bare-connmanager"
		if cfg.scoped {
			cmName = "scope-at-accept-connmanager"
		}
		hx.Bubble(t, rt, func() {
			st := newStore()
			g, err := conngater.NewBasicConnectionGater(st)
			if err != nil {
				rt.Fatalf("gater: %v", err)
			}
			m := newModel()
			var ob obs
			for _, o := range setup {
				runOp(rt, g, st, w, m, o, &ob, &hist, false)
			}
			if reopen {
				if g, err = conngater.NewBasicConnectionGater(st); err != nil {
					rt.Fatalf("reopen: %v", err)
				}
				hist = append(hist, "reopen")
				if !m.empty() {
					labels["reopen-nonempty"], nontrivial = true, true
				}
			}
			sim := &simnet.Simnet{LatencyFunc: simnet.StaticLatency(5 * time.Millisecond)}
			host := "/ip4/198.51.100.1"
			if v6 {
				host = "/ip6/2001:db8:ffff::1"
			}
			listenSet := func(host string, port int) []ma.Multiaddr {
				var l []ma.Multiaddr
				if cfg.quic {
					l = append(l, mustAddr(fmt.Sprintf("%s/udp/%d/quic-v1", host, port)))
				}
				if cfg.wt {
					l = append(l, mustAddr(fmt.Sprintf("%s/udp/%d/quic-v1/webtransport", host, port)))
				}
				return l
			}
			srv, err := newUDPNode(sim, keys.Ed(0), listenSet(host, 8000), g, cfg)
			if err != nil {
				rt.Fatalf("server node: %v", err)
			}
			sim.Start()
			defer sim.Close()
			defer srv.close()

			for ai, at := range attempts {
				for _, o := range at.ops {
					runOp(rt, g, st, w, m, o, &ob, &hist, false)
				}
				ip := w.ips[at.ip]
				rid := keys.Ed(20 + at.peer)
				fam := "ip4"
				if v6 {
					fam = "ip6"
				}
				// the remote: an ungated node with the same transports and a bare ConnManager
				cli, err := newUDPNode(sim, rid, listenSet(fmt.Sprintf("/%s/%s", fam, ip), 9000+ai), nil, udpCfg{quic: cfg.quic, wt: cfg.wt})
				if err != nil {
					rt.Fatalf("client node: %v", err)
				}
				caddr, saddr := wtAddr(cli.sw, at.wt), wtAddr(srv.sw, at.wt)
				if caddr == nil || saddr == nil {
					rt.Fatalf("harness: no %s listen address (remote %v, gated node %v)", at.tpt(), cli.sw.ListenAddresses(), srv.sw.ListenAddresses())
				}
				pv, iv := m.peerVerdict(at.peer), m.ipVerdict(ip)
				what := fmt.Sprintf("attempt %d (outbound=%v, %s): %s remote peer%d at %s; rules after:\n  %s\n", ai, at.outbound, cmName, at.tpt(), at.peer, caddr, strings.Join(hist, "\n  "))
				if at.outbound {
					what = fmt.Sprintf("attempt %d (outbound, started through %s with no connection in place, %s): %s remote peer%d at %s; rules after:\n  %s\n", ai, apiNames[at.api], cmName, at.tpt(), at.peer, caddr, strings.Join(hist, "\n  "))
				}
				var opened0 int64
				if srv.scopes != nil {
					opened0 = srv.scopes.Load()
				}
				ctx, cancel := context.WithTimeout(context.Background(), 10*time.Second)
				var derr error
				if at.outbound {
					srv.ps.AddAddr(rid.ID, caddr, time.Hour)
					derr = startOutbound(ctx, at.api, srv.sw, nil, rid.ID).err
				} else {
					cli.ps.AddAddr(srv.sw.LocalPeer(), saddr, time.Hour)
					_, derr = cli.sw.DialPeer(ctx, srv.sw.LocalPeer())
				}
				cancel()
				time.Sleep(2 * time.Second)
				synctest.Wait()
				conns := srv.sw.ConnsToPeer(rid.ID)
				evs := srv.nf.take()
				cevs := cli.nf.take()
				all := or(pv, iv)
				class := "unspecified"
				switch all {
				case yes:
					labels["blocked"] = true
					class = "peer-blocked"
					if iv == yes {
						class = "addr-blocked"
					}
					if iv == yes && m.viaSubnet(ip) {
						nontrivial = true
						labels["blocked-through-subnet-edge"] = true
					}
					if len(conns) != 0 || len(evs) != 0 {
						rt.Fatalf("%sthe remote matches a rule in force but the gated swarm holds %d connections / saw %d Connected notifications", what, len(conns), len(evs))
					}
					if at.outbound {
						if derr == nil {
							rt.Fatalf("%s%s succeeded towards a blocked remote", what, apiNames[at.api])
						}
						if len(cevs) != 0 {
							rt.Fatalf("%sthe blocked remote saw an inbound connection from the gated node: the transport dialled", what)
						}
					} else if n := len(cli.sw.ConnsToPeer(srv.sw.LocalPeer())); n != 0 {
						// "closed at accept / right after the security handshake": seen from the remote
						rt.Fatalf("%sthe remote matches a rule in force but its connection to the gated node is still open 2s after its dial (dial error: %v)", what, derr)
					}
				case no:
					labels["free-connected"] = true
					class = "free"
					if len(conns) != 1 || len(evs) != 1 {
						rt.Fatalf("%sno rule in force matches but the connection was not established (dial error: %v; conns=%d notifications=%d)", what, derr, len(conns), len(evs))
					}
				}
				dir := "inbound"
				if at.outbound {
					dir = "outbound"
				}
				labels[dir] = true
				labels[cmName] = true
				labels[fmt.Sprintf("%s/%s/%s/%s", at.tpt(), dir, cmName, class)] = true
				if at.outbound {
					labels[fmt.Sprintf("outbound via:%s/%s", apiNames[at.api], class)] = true
				}
				if cfg.quic && cfg.wt {
					labels["quic+webtransport-on-one-port"] = true
				}
				if !at.outbound && srv.scopes != nil && srv.scopes.Load() > opened0 {
					labels["inbound:scope-opened-before-the-listener-saw-the-connection"] = true
				}
				srv.sw.ClosePeer(rid.ID)
				cli.close()
				time.Sleep(time.Second)
				synctest.Wait()
				srv.nf.take()
			}
		})
		var ls []string
		for k := range labels {
			ls = append(ls, k)
		}
		sort.Strings(ls)
		if relaxedUsed+excludedMasks != ex0 {
			stats.Excluded(name) // a known-finding exclusion shaped this case
		}
		fp := w.fingerprint() + fmt.Sprint(v6, reopen, cfg) + strings.Join(hist, ";")
		for _, a := range attempts {
			fp += fmt.Sprintf("|%d@%s/%v/%s", a.peer, w.ips[a.ip], a.outbound, a.tpt())
			if a.outbound {
				fp += "/" + apiNames[a.api]
			}
		}
		stats.Case(name, fp, nontrivial, ls...)
		if stats.WantSample(name) {
			stats.Sample(name, map[string]any{"history": hist, "v6": v6, "config": fmt.Sprintf("%+v", cfg), "attempts": fmt.Sprint(attempts)})
		}
	})
}
