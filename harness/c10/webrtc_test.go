package c10

import (
	"context"
	"fmt"
	"net"
	"sort"
	"strings"
	"sync"
	"testing"
	"time"

	"github.com/libp2p/go-libp2p/core/control"
	"github.com/libp2p/go-libp2p/core/network"
	"github.com/libp2p/go-libp2p/core/peer"
	"github.com/libp2p/go-libp2p/core/transport"
	"github.com/libp2p/go-libp2p/p2p/host/eventbus"
	"github.com/libp2p/go-libp2p/p2p/host/peerstore/pstoremem"
	"github.com/libp2p/go-libp2p/p2p/net/conngater"
	"github.com/libp2p/go-libp2p/p2p/net/swarm"
	libp2pwebrtc "github.com/libp2p/go-libp2p/p2p/transport/webrtc"
	ma "github.com/multiformats/go-multiaddr"
	"pgregory.net/rapid"

	"verif/internal/hx"
	"verif/internal/keys"
	"verif/internal/stats"
)

// The WebRTC-direct transport has its own inbound gating call site (listener.handleCandidate:
// InterceptAccept with ConnMultiaddrs the listener builds itself from the first STUN packet's
// source, InterceptSecured after Noise). Its dialer (pion) opens real sockets on the host's
// interfaces, so it cannot run over simnet or inside a bubble: the real transport runs over real
// loopback UDP and in real time. The gated listener's socket (the transport's ListenUDP hook)
// is wrapped in an address translator, the way a NAT in front of the dialer would: every
// datagram is presented with a generated source IP (any address of the case's pool, in the
// socket's family), so the remote address the listener sees is arbitrary and differs from its
// own. Real time is never a verdict: an attempt is decided by an event (the gated swarm's
// Connected notification, or a refusal the real gater returned at the listener's call site,
// seen by a recording wrapper); no event within the safety budget = inconclusive (labelled).

// natConn presents every datagram of the real socket with a virtual source address.
type natConn struct {
	net.PacketConn
	mu     sync.Mutex
	virt   net.IP // source IP given to flows that start now
	next   int
	byReal map[string]*net.UDPAddr
	byVirt map[string]net.Addr
}

func newNATConn(c net.PacketConn) *natConn {
	return &natConn{PacketConn: c, byReal: map[string]*net.UDPAddr{}, byVirt: map[string]net.Addr{}}
}

func (c *natConn) setSource(ip net.IP) {
	c.mu.Lock()
	c.virt = ip
	// flows of earlier attempts are over: their datagrams (retransmissions of a closed dialer) are dropped
	c.byReal, c.byVirt = map[string]*net.UDPAddr{}, map[string]net.Addr{}
	c.mu.Unlock()
}

func (c *natConn) ReadFrom(b []byte) (int, net.Addr, error) {
	for {
		n, src, err := c.PacketConn.ReadFrom(b)
		if err != nil {
			return n, src, err
		}
		c.mu.Lock()
		v := c.byReal[src.String()]
		if v == nil && c.virt != nil {
			c.next++
			v = &net.UDPAddr{IP: append(net.IP(nil), c.virt...), Port: 20000 + c.next}
			c.byReal[src.String()] = v
			c.byVirt[v.String()] = src
		}
		c.mu.Unlock()
		if v != nil {
			return n, v, nil
		}
	}
}

func (c *natConn) WriteTo(b []byte, a net.Addr) (int, error) {
	c.mu.Lock()
	real := c.byVirt[a.String()]
	c.mu.Unlock()
	if real == nil {
		return len(b), nil // nobody there any more
	}
	return c.PacketConn.WriteTo(b, real)
}

// recGater hands every call to the real gater and records what the listener's call sites
// showed it and what it answered.
type gateEvent struct {
	hook   string
	remote ma.Multiaddr
	peer   peer.ID
	allow  bool
}

type recGater struct {
	g  *conngater.BasicConnectionGater
	ch chan gateEvent
}

func (r *recGater) set(g *conngater.BasicConnectionGater) { r.g = g }

func (r *recGater) InterceptPeerDial(p peer.ID) bool { return r.g.InterceptPeerDial(p) }
func (r *recGater) InterceptAddrDial(p peer.ID, a ma.Multiaddr) bool {
	return r.g.InterceptAddrDial(p, a)
}
func (r *recGater) InterceptAccept(c network.ConnMultiaddrs) bool {
	ok := r.g.InterceptAccept(c)
	r.ch <- gateEvent{hook: "InterceptAccept", remote: c.RemoteMultiaddr(), allow: ok}
	return ok
}
func (r *recGater) InterceptSecured(d network.Direction, p peer.ID, c network.ConnMultiaddrs) bool {
	ok := r.g.InterceptSecured(d, p, c)
	if d == network.DirInbound {
		r.ch <- gateEvent{hook: "InterceptSecured", remote: c.RemoteMultiaddr(), peer: p, allow: ok}
	}
	return ok
}
func (r *recGater) InterceptUpgraded(c network.Conn) (bool, control.DisconnectReason) {
	return r.g.InterceptUpgraded(c)
}

type rtcAttempt struct {
	ops      []op
	peer, ip int
	ipForm   int // how the socket spells an IPv4 source: 4 bytes or 16 bytes (IPv4-mapped)
}

// rtcBudget: how long an attempt may stay without a deciding event before it is given up as
// inconclusive (real time; never a verdict).
const rtcBudget = 20 * time.Second

func TestWebRTCDirectInbound(t *testing.T) {
	name := t.Name()
	if c, err := net.ListenUDP("udp4", &net.UDPAddr{IP: net.IPv4(127, 0, 0, 1)}); err != nil {
		t.Skipf("no loopback UDP here: %v", err)
	} else {
		c.Close()
	}
	have6 := false
	if c, err := net.ListenUDP("udp6", &net.UDPAddr{IP: net.IPv6loopback}); err == nil {
		have6 = true
		c.Close()
	}
	hx.Check(t, 48, 2400, 0, func(rt *rapid.T) {
		ex0 := relaxedUsed + excludedMasks
		w := drawWorld(rt)
		v6 := rapid.IntRange(0, 3).Draw(rt, "v6") == 0
		labels := map[string]bool{}
		if v6 && !have6 {
			v6 = false
			labels["no-ip6-loopback:ran-over-ip4"] = true
		}
		var cand []int
		for i, a := range w.ips {
			if a.v6 == v6 && ordinary(a) {
				cand = append(cand, i)
			}
		}
		if len(cand) == 0 {
			extra := ip4(203, 0, 113, 7)
			if v6 {
				extra = parse6("2001:db8:7::7")
			}
			w.ips = append(w.ips, extra)
			cand = []int{len(w.ips) - 1}
		}
		m0 := newModel()
		drawOps := func(n int) []op {
			var out []op
			for i := 0; i < n; i++ {
				o := drawOp(rt, w, m0, 0)
				m0.apply(o, w)
				out = append(out, o)
			}
			return out
		}
		setup := drawOps(rapid.IntRange(1, 5).Draw(rt, "nsetup"))
		reopen := rapid.Bool().Draw(rt, "reopen")
		var attempts []rtcAttempt
		for i, n := 0, rapid.IntRange(1, 3).Draw(rt, "nattempts"); i < n; i++ {
			a := rtcAttempt{peer: rapid.IntRange(0, nPeers-1).Draw(rt, "peer")}
			if i > 0 {
				a.ops = drawOps(rapid.IntRange(0, 2).Draw(rt, "nops"))
			}
			var covered []int
			for _, c := range cand {
				if m0.ipVerdict(w.ips[c]) == yes {
					covered = append(covered, c)
				}
			}
			if len(covered) > 0 && rapid.Bool().Draw(rt, "coveredIP") {
				a.ip = rapid.SampledFrom(covered).Draw(rt, "ip")
			} else {
				a.ip = rapid.SampledFrom(cand).Draw(rt, "ip")
			}
			if !v6 {
				a.ipForm = rapid.IntRange(0, nIPForms-1).Draw(rt, "srcform")
			}
			attempts = append(attempts, a)
		}

		var (
			hist       []string
			nontrivial bool
			ob         obs
		)
		st := newStore()
		g, err := conngater.NewBasicConnectionGater(st)
		if err != nil {
			rt.Fatalf("gater: %v", err)
		}
		m := newModel()
		for _, o := range setup {
			runOp(rt, g, st, w, m, o, &ob, &hist, false)
		}
		if reopen {
			if g, err = conngater.NewBasicConnectionGater(st); err != nil {
				rt.Fatalf("reopen: %v", err)
			}
			hist = append(hist, "reopen")
			if !m.empty() {
				labels["reopen-nonempty"], nontrivial = true, true
			}
		}
		rec := &recGater{g: g, ch: make(chan gateEvent, 1024)}

		// the gated node: a real swarm with the real WebRTC-direct transport, both gated by the real gater
		sid := keys.Ed(0)
		ps, err := pstoremem.NewPeerstore()
		if err != nil {
			rt.Fatalf("peerstore: %v", err)
		}
		defer ps.Close()
		sw, err := swarm.NewSwarm(sid.ID, ps, eventbus.NewBus(), swarm.WithConnectionGater(rec),
			swarm.WithUDPBlackHoleSuccessCounter(nil), swarm.WithIPv6BlackHoleSuccessCounter(nil))
		if err != nil {
			rt.Fatalf("swarm: %v", err)
		}
		defer sw.Close()
		var nat *natConn
		srvT, err := libp2pwebrtc.New(sid.Priv, nil, rec, &network.NullResourceManager{}, func(nw string, a *net.UDPAddr) (net.PacketConn, error) {
			c, err := net.ListenUDP(nw, a)
			if err != nil {
				return nil, err
			}
			nat = newNATConn(c)
			return nat, nil
		})
		if err != nil {
			rt.Fatalf("webrtc transport: %v", err)
		}
		if err := sw.AddTransport(srvT); err != nil {
			rt.Fatalf("AddTransport: %v", err)
		}
		listen := "/ip4/127.0.0.1/udp/0/webrtc-direct"
		if v6 {
			listen = "/ip6/::1/udp/0/webrtc-direct"
		}
		if err := sw.Listen(mustAddr(listen)); err != nil {
			rt.Fatalf("listen on %s: %v", listen, err)
		}
		connected := make(chan connEvent, 64)
		sw.Notify(&network.NotifyBundle{ConnectedF: func(_ network.Network, c network.Conn) {
			connected <- connEvent{c.RemotePeer(), c.RemoteMultiaddr(), c.Stat().Direction}
		}})
		saddr := sw.ListenAddresses()[0]

		for ai, at := range attempts {
			for _, o := range at.ops {
				runOp(rt, g, st, w, m, o, &ob, &hist, false)
			}
			ip := w.ips[at.ip]
			rid := keys.Ed(20 + at.peer)
			src := ip.netIP(at.ipForm)
			nat.setSource(src)
			// drain what earlier attempts left behind
			for len(rec.ch) > 0 {
				<-rec.ch
			}
			for len(connected) > 0 {
				<-connected
			}
			cliT, err := libp2pwebrtc.New(rid.Priv, nil, nil, &network.NullResourceManager{}, func(nw string, a *net.UDPAddr) (net.PacketConn, error) { return net.ListenUDP(nw, a) })
			if err != nil {
				rt.Fatalf("client transport: %v", err)
			}
			pv, iv := m.peerVerdict(at.peer), m.ipVerdict(ip)
			all := or(pv, iv)
			what := fmt.Sprintf("attempt %d: inbound webrtc-direct connection to %s from peer%d, source %s (%d-byte IP; behind the address translator); model: address %v, peer %v; rules after:\n  %s\n",
				ai, saddr, at.peer, ip, len(src), iv, pv, strings.Join(hist, "\n  "))

			ctx, cancel := context.WithTimeout(context.Background(), rtcBudget)
			type dialRes struct {
				c   transport.CapableConn
				err error
			}
			done := make(chan dialRes, 1)
			go func() {
				c, err := cliT.Dial(ctx, saddr, sid.ID)
				done <- dialRes{c, err}
			}()
			// wait for the deciding event
			var (
				shown    []string
				admitted *connEvent
				refusal  *gateEvent
				timer    = time.NewTimer(rtcBudget)
			)
		wait:
			for {
				select {
				case ev := <-connected:
					admitted = &ev
					break wait
				case ev := <-rec.ch:
					shown = append(shown, fmt.Sprintf("%s(remote %s)=%v", ev.hook, ev.remote, ev.allow))
					if !ev.allow {
						refusal = &ev
						break wait
					}
				case <-timer.C:
					break wait
				}
			}
			timer.Stop()
			if refusal != nil && all != no {
				// "never admitted": let the dialer go on for a moment against the refusing listener
				// (its retransmissions are new candidates), then end it
				select {
				case ev := <-connected:
					admitted = &ev
				case <-time.After(300 * time.Millisecond):
				}
			}
			if admitted == nil {
				cancel()
			}
			res := <-done
			cancel()
			if res.c != nil {
				res.c.Close()
			}
			adm := "none"
			if admitted != nil {
				adm = fmt.Sprintf("peer %s at %s", admitted.peer, admitted.addr)
			}
			class := "unspecified"
			switch {
			case admitted == nil && refusal == nil:
				class = "inconclusive:no-event-within-budget"
			case all == yes:
				class = "peer-blocked"
				if iv == yes {
					class = "addr-blocked"
				}
				if admitted != nil || len(sw.ConnsToPeer(rid.ID)) != 0 {
					rt.Fatalf("%sthe remote matches a rule in force but the gated swarm admitted the connection (Connected: %s; ConnsToPeer: %d); the listener's gating calls: %v", what, adm, len(sw.ConnsToPeer(rid.ID)), shown)
				}
				if iv == yes && refusal.hook != "InterceptAccept" {
					rt.Fatalf("%san address/subnet rule in force matches the source but the connection was not refused at accept; the listener's gating calls: %v", what, shown)
				}
				if iv == yes && m.viaSubnet(ip) {
					nontrivial = true
					labels["blocked-through-subnet-edge"] = true
				}
				if iv == yes && len(src) == 16 && !v6 {
					nontrivial = true
					labels["blocked-16-byte-mapped-source"] = true
				}
			case all == no:
				class = "free"
				if refusal != nil {
					rt.Fatalf("%sno rule in force matches but the listener refused the connection; its gating calls: %v", what, shown)
				}
				if admitted.peer != rid.ID {
					rt.Fatalf("%sno rule in force matches but the Connected notification names another peer (Connected: %s)", what, adm)
				}
				if a, ok, _ := ipOfAddr(admitted.addr); !ok || a != ip {
					rt.Fatalf("%sthe admitted connection's remote address is %s, not the source the listener's socket reported", what, admitted.addr)
				}
			}
			labels["webrtc-direct/inbound/"+class] = true
			if v6 {
				labels["ip6"] = true
			} else {
				labels["ip4"] = true
			}
			sw.ClosePeer(rid.ID)
		}
		nat.setSource(nil)

		var ls []string
		for k := range labels {
			ls = append(ls, k)
		}
		sort.Strings(ls)
		if relaxedUsed+excludedMasks != ex0 {
			stats.Excluded(name)
		}
		fp := w.fingerprint() + fmt.Sprint(v6, reopen) + strings.Join(hist, ";")
		for _, a := range attempts {
			fp += fmt.Sprintf("|%d@%s/%d", a.peer, w.ips[a.ip], a.ipForm)
		}
		stats.Case(name, fp, nontrivial, ls...)
		if stats.WantSample(name) {
			stats.Sample(name, map[string]any{"history": hist, "v6": v6, "attempts": fmt.Sprint(attempts)})
		}
	})
}
