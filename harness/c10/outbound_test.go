package c10

import (
	"context"
	"errors"
	"fmt"
	"sort"
	"strings"
	"sync"
	"testing"
	"testing/synctest"
	"time"

	"github.com/libp2p/go-libp2p/core/network"
	"github.com/libp2p/go-libp2p/core/peer"
	basichost "github.com/libp2p/go-libp2p/p2p/host/basic"
	"github.com/libp2p/go-libp2p/p2p/host/eventbus"
	"github.com/libp2p/go-libp2p/p2p/host/peerstore/pstoremem"
	"github.com/libp2p/go-libp2p/p2p/net/conngater"
	"github.com/libp2p/go-libp2p/p2p/net/swarm"
	ma "github.com/multiformats/go-multiaddr"
	"pgregory.net/rapid"

	"verif/internal/hx"
	"verif/internal/keys"
	"verif/internal/scripted"
	"verif/internal/stats"
)

// ---------------------------------------------------------------------------
// scenario

const (
	aDirect = iota
	aDNS
	aDNSAddr
	aCircuit
	aCircuitBare
	aCircuitDNS
)

var oaKindNames = [...]string{"direct", "dns", "dnsaddr", "circuit-via-ip", "circuit-no-ip", "circuit-via-dns"}

// relaySuffixes: what may stand between the relay's IP and /p2p/<relay>/p2p-circuit.
var relaySuffixes = []string{"/tcp/%d", "/tcp/%d", "/udp/%d/quic-v1", "/tcp/%d/ws", "/udp/%d/quic-v1/webtransport"}

// endpoint: one concrete address that may reach a transport.
type endpoint struct {
	addr   ma.Multiaddr
	ip     *nip
	relay  bool // a /p2p-circuit address: the IP is the relay's, the dial goes to (or over a connection with) that IP
	noncan bool // spelled in a non-canonical form
	edge   bool
	good   bool // plain TCP/QUIC address of an ordinary IP: nothing but the gater keeps the swarm from dialling it
}

type oaddr struct {
	kind    int
	stored  ma.Multiaddr
	eps     []endpoint // what the stored address stands for after resolution
	succeed bool
	delay   time.Duration
}

type otarget struct {
	peer  int
	addrs []*oaddr
	api   [2]int // per phase: the call that starts the outbound attempt (see dialapi_test.go)
}

type outScenario struct {
	setup, change []op
	reopen        bool
	host          bool // a BasicHost sits on top of the swarm (its Connect / NewStream start some attempts)
	targets       []otarget
}

// ordinary: an IP the swarm has no reason of its own to refuse.
func ordinary(a nip) bool {
	if !a.v6 {
		return a.b[0] != 0 && a.b[0] < 224
	}
	if a.b[0] == 0 || a.b[0] == 0xff {
		return false
	}
	return !(a.b[0] == 0xfe && a.b[1]&0xc0 == 0x80)
}

func drawEndpoint(rt *rapid.T, w *world, suffix string) endpoint {
	i := rapid.IntRange(0, len(w.ips)-1).Draw(rt, "ip")
	a := w.ips[i]
	texts, non := ipComponents(a)
	k := rapid.IntRange(0, len(texts)-1).Draw(rt, "spelling")
	ep := endpoint{addr: mustAddr(texts[k] + suffix), ip: &w.ips[i], noncan: non[k], edge: w.edge[a]}
	zone := strings.HasPrefix(texts[k], "/ip6zone")
	ep.good = ordinary(a) && !zone && (strings.HasSuffix(suffix, "/quic-v1") || !strings.Contains(suffix[5:], "/"))
	return ep
}

// drawRelayEndpoint: a circuit address through a relay at an IP of the pool (any spelling, any relay transport).
func drawRelayEndpoint(rt *rapid.T, w *world, port int) (endpoint, string) {
	via := strings.ReplaceAll(rapid.SampledFrom(relaySuffixes).Draw(rt, "relaytransport"), "%d", fmt.Sprint(port))
	tail := fmt.Sprintf("%s/p2p/%s/p2p-circuit", via, relayID)
	ep := drawEndpoint(rt, w, tail)
	ep.relay, ep.good = true, false
	return ep, tail
}

func drawOutScenario(rt *rapid.T, w *world) *outScenario {
	sc := &outScenario{reopen: rapid.Bool().Draw(rt, "reopen")}
	m := newModel()
	n := rapid.IntRange(1, 6).Draw(rt, "nsetup")
	for i := 0; i < n; i++ {
		o := drawOp(rt, w, m, 8)
		if !o.fail {
			m.apply(o, w)
		}
		sc.setup = append(sc.setup, o)
	}
	n = rapid.IntRange(1, 4).Draw(rt, "nchange")
	for i := 0; i < n; i++ {
		o := drawOp(rt, w, m, 8)
		if !o.fail {
			m.apply(o, w)
		}
		sc.change = append(sc.change, o)
	}
	port := 4000
	nt := rapid.IntRange(1, 3).Draw(rt, "ntargets")
	perm := rapid.Permutation([]int{0, 1, 2, 3}).Draw(rt, "targets")
	for ti := 0; ti < nt; ti++ {
		tg := otarget{peer: perm[ti]}
		na := rapid.IntRange(1, 4).Draw(rt, "naddrs")
		for k := 0; k < na; k++ {
			port++
			a := &oaddr{kind: rapid.SampledFrom([]int{aDirect, aDirect, aDirect, aDNS, aDNS, aDNSAddr, aCircuit, aCircuit, aCircuitDNS, aCircuitBare}).Draw(rt, "kind")}
			a.succeed = rapid.IntRange(0, 4).Draw(rt, "succeed") > 0
			a.delay = time.Duration(rapid.SampledFrom([]int{0, 1, 20, 300}).Draw(rt, "delay")) * time.Millisecond
			sfx := strings.ReplaceAll(rapid.SampledFrom([]string{"/tcp/%d", "/tcp/%d", "/udp/%d/quic-v1", "/udp/%d/quic-v1", "/tcp/%d/ws", "/udp/%d/quic-v1/webtransport"}).Draw(rt, "suffix"), "%d", fmt.Sprint(port))
			switch a.kind {
			case aDirect:
				ep := drawEndpoint(rt, w, sfx)
				a.stored, a.eps = ep.addr, []endpoint{ep}
			case aDNS:
				proto := rapid.SampledFrom([]string{"dns4", "dns6", "dns"}).Draw(rt, "dnsproto")
				a.stored = mustAddr(fmt.Sprintf("/%s/h%d.example%s", proto, port, sfx))
				for r := rapid.IntRange(1, 2).Draw(rt, "nresolved"); r > 0; r-- {
					ep := drawEndpoint(rt, w, sfx)
					ep.noncan = true // reached through a name
					a.eps = append(a.eps, ep)
				}
			case aDNSAddr:
				a.stored = mustAddr(fmt.Sprintf("/dnsaddr/d%d.example", port))
				for r := rapid.IntRange(1, 2).Draw(rt, "nresolved"); r > 0; r-- {
					ep := drawEndpoint(rt, w, sfx)
					ep.noncan = true
					a.eps = append(a.eps, ep)
				}
			case aCircuit:
				ep, _ := drawRelayEndpoint(rt, w, port)
				a.stored, a.eps = ep.addr, []endpoint{ep}
			case aCircuitDNS:
				// the relay is known by name; the swarm resolves the name and gates what it resolved to
				proto := rapid.SampledFrom([]string{"dns4", "dns6", "dns"}).Draw(rt, "dnsproto")
				ep, tail := drawRelayEndpoint(rt, w, port)
				ep.noncan = true
				a.stored, a.eps = mustAddr(fmt.Sprintf("/%s/r%d.example%s", proto, port, tail)), []endpoint{ep}
			case aCircuitBare:
				ad := mustAddr("/p2p/" + relayID.String() + "/p2p-circuit")
				a.stored, a.eps = ad, []endpoint{{addr: ad}}
			}
			tg.addrs = append(tg.addrs, a)
		}
		sc.targets = append(sc.targets, tg)
	}
	// which call starts each attempt: the swarm's own entry points (explicit dial, implicit dial of
	// NewStream) and, in a third of the cases, those of a BasicHost on top of the swarm
	sc.host = rapid.IntRange(0, 2).Draw(rt, "hostOnTop") == 0
	apis := []int{apiDialPeer, apiSwarmNewStream}
	if sc.host {
		apis = []int{apiDialPeer, apiSwarmNewStream, apiHostConnect, apiHostConnect, apiHostNewStream, apiHostNewStream}
	}
	usesHost := false
	for ti := range sc.targets {
		for ph := range sc.targets[ti].api {
			a := rapid.SampledFrom(apis).Draw(rt, "api")
			sc.targets[ti].api[ph] = a
			usesHost = usesHost || hostAPI(a)
		}
	}
	if sc.host && !usesHost {
		// (construction, not rejection: a host that starts no attempt would only sit there)
		sc.targets[0].api[0] = apiHostConnect + rapid.IntRange(0, 1).Draw(rt, "hostapi")
	}
	return sc
}

func (sc *outScenario) fingerprint(w *world) string {
	var b strings.Builder
	b.WriteString(w.fingerprint())
	for _, o := range sc.setup {
		b.WriteString(o.describe(w) + ";")
	}
	b.WriteString("|")
	for _, o := range sc.change {
		b.WriteString(o.describe(w) + ";")
	}
	fmt.Fprintf(&b, "|%v|host=%v", sc.reopen, sc.host)
	for _, t := range sc.targets {
		fmt.Fprintf(&b, "|p%d via %s,%s", t.peer, apiNames[t.api[0]], apiNames[t.api[1]])
		for _, a := range t.addrs {
			fmt.Fprintf(&b, ",%s", a.stored)
			for _, e := range a.eps {
				fmt.Fprintf(&b, ">%s", e.addr)
			}
		}
	}
	return b.String()
}

// ---------------------------------------------------------------------------

type fakeResolver struct {
	comp    map[string][]ma.Multiaddr
	dnsaddr map[string][]ma.Multiaddr
}

func (r *fakeResolver) ResolveDNSAddr(_ context.Context, _ peer.ID, a ma.Multiaddr, _, limit int) ([]ma.Multiaddr, error) {
	if x, ok := r.dnsaddr[a.String()]; ok {
		if len(x) > limit {
			x = x[:limit]
		}
		return x, nil
	}
	return nil, errors.New("nxdomain")
}

func (r *fakeResolver) ResolveDNSComponent(_ context.Context, a ma.Multiaddr, limit int) ([]ma.Multiaddr, error) {
	if x, ok := r.comp[a.String()]; ok {
		if len(x) > limit {
			x = x[:limit]
		}
		return x, nil
	}
	return nil, errors.New("nxdomain")
}

// ipOfAddr reads the leading IP of a multiaddr from its text (not through manet).
func ipOfAddr(a ma.Multiaddr) (ip nip, hasIP bool, relay bool) {
	parts := strings.Split(a.String(), "/")
	relay = strings.Contains(a.String(), "/p2p-circuit")
	i := 1
	if len(parts) > 2 && parts[1] == "ip6zone" {
		i = 3
	}
	if len(parts) > i+1 && (parts[i] == "ip4" || parts[i] == "ip6") {
		if n, ok := normalize(parseAny(parts[i+1])); ok {
			return n, true, relay
		}
	}
	return nip{}, false, relay
}

type connEvent struct {
	peer peer.ID
	addr ma.Multiaddr
	dir  network.Direction
}

type notifiee struct {
	mu     sync.Mutex
	events []connEvent
}

func (n *notifiee) bundle() *network.NotifyBundle {
	return &network.NotifyBundle{ConnectedF: func(_ network.Network, c network.Conn) {
		n.mu.Lock()
		n.events = append(n.events, connEvent{c.RemotePeer(), c.RemoteMultiaddr(), c.Stat().Direction})
		n.mu.Unlock()
	}}
}

func (n *notifiee) take() []connEvent {
	n.mu.Lock()
	defer n.mu.Unlock()
	e := n.events
	n.events = nil
	return e
}

func peerIndex(w *world, p peer.ID) int {
	for i, x := range w.peers {
		if x == p {
			return i
		}
	}
	return -1
}

// remoteVerdict: must a connection to/from (peer, addr) be refused under m? For a /p2p-circuit
// address the IP is the relay's and the remote is the peer behind it: no verdict from the IP
// (used for inbound remotes; outbound candidates are judged by dialVerdict).
func remoteVerdict(m *model, w *world, p peer.ID, a ma.Multiaddr) (tri, string) {
	return addrVerdict(m, w, p, a, false)
}

// dialVerdict: must the swarm refuse to dial p at candidate address a (and to hand out / keep an
// outbound connection made through a)? "Outbound dials are refused before any transport dial to a
// blocked peer or address": the IP an address names is where the dial goes. For a /p2p-circuit
// address that is the relay: dialling it opens, or re-uses, a connection with that IP, so a
// rule in force on the relay's IP rules the candidate out like any direct address.
func dialVerdict(m *model, w *world, p peer.ID, a ma.Multiaddr) (tri, string) {
	return addrVerdict(m, w, p, a, true)
}

func addrVerdict(m *model, w *world, p peer.ID, a ma.Multiaddr, outbound bool) (tri, string) {
	pv := no
	if i := peerIndex(w, p); i >= 0 {
		pv = m.peerVerdict(i)
	}
	iv := no
	ip, has, relay := ipOfAddr(a)
	if has {
		iv = m.ipVerdict(ip)
		if relay && iv != no && !outbound {
			iv = either
		}
	}
	why := ""
	if pv == yes {
		why = "the peer is blocked"
	} else if iv == yes && relay {
		why = fmt.Sprintf("IP %s of the relay this address goes through matches an address/subnet rule in force", ip)
	} else if iv == yes {
		why = fmt.Sprintf("IP %s matches an address/subnet rule in force", ip)
	}
	return or(pv, iv), why
}

func TestOutboundSwarm(t *testing.T) {
	name := t.Name()
	hx.Check(t, 2000, 150000, 0, func(rt *rapid.T) {
		ex0 := relaxedUsed + excludedMasks
		w := drawWorld(rt)
		sc := drawOutScenario(rt, w)
		var (
			hist       []string
			labels     = map[string]bool{}
			nontrivial bool
		)
		hx.Bubble(t, rt, func() {
			st := newStore()
			g, err := conngater.NewBasicConnectionGater(st)
			if err != nil {
				rt.Fatalf("gater: %v", err)
			}
			m := newModel()
			var ob obs
			for _, o := range sc.setup {
				runOp(rt, g, st, w, m, o, &ob, &hist, false)
			}
			if sc.reopen {
				// the swarm is gated by rules that were read back from the datastore
				if g, err = conngater.NewBasicConnectionGater(st); err != nil {
					rt.Fatalf("reopen: %v", err)
				}
				hist = append(hist, "reopen")
				if !m.empty() {
					labels["reopen-nonempty"] = true
					nontrivial = true
				}
			}

			local := keys.Ed(0)
			ps, err := pstoremem.NewPeerstore()
			if err != nil {
				rt.Fatalf("peerstore: %v", err)
			}
			if sc.host {
				ps.AddPrivKey(local.ID, local.Priv)
				ps.AddPubKey(local.ID, local.Pub)
			}
			res := &fakeResolver{comp: map[string][]ma.Multiaddr{}, dnsaddr: map[string][]ma.Multiaddr{}}
			script := map[string]*oaddr{}
			for _, tg := range sc.targets {
				for _, a := range tg.addrs {
					var rs []ma.Multiaddr
					for _, ep := range a.eps {
						script[string(w.peers[tg.peer])+ep.addr.String()] = a
						r := ep.addr
						if a.kind == aDNSAddr {
							r = r.Encapsulate(mustAddr("/p2p/" + w.peers[tg.peer].String()))
						}
						rs = append(rs, r)
					}
					switch a.kind {
					case aDNS, aCircuitDNS:
						res.comp[a.stored.String()] = rs
					case aDNSAddr:
						res.dnsaddr[a.stored.String()] = rs
					}
				}
			}
			world := scripted.NewWorld()
			set := scripted.NewSet(world, local.ID, func(addr ma.Multiaddr, p peer.ID, n int) scripted.Script {
				if a, ok := script[string(p)+addr.String()]; ok && a.succeed {
					return scripted.Script{Outcome: scripted.Succeed, Delay: a.delay}
				} else if ok {
					return scripted.Script{Outcome: scripted.Fail, Delay: a.delay}
				}
				return scripted.Script{Outcome: scripted.Fail}
			})
			sw, err := swarm.NewSwarm(local.ID, ps, eventbus.NewBus(),
				swarm.WithConnectionGater(g), swarm.WithMultiaddrResolver(res),
				swarm.WithUDPBlackHoleSuccessCounter(nil), swarm.WithIPv6BlackHoleSuccessCounter(nil))
			if err != nil {
				rt.Fatalf("swarm: %v", err)
			}
			var host *basichost.BasicHost
			defer func() {
				if host != nil {
					host.Close() // closes the swarm and the peerstore
					return
				}
				sw.Close()
				ps.Close()
			}()
			for _, tr := range set.All() {
				if err := sw.AddTransport(answeringTransport{tr}); err != nil {
					rt.Fatalf("add transport: %v", err)
				}
			}
			nf := &notifiee{}
			sw.Notify(nf.bundle())
			if sc.host {
				if host, err = basichost.NewHost(sw, &basichost.HostOpts{DisableSignedPeerRecord: true}); err != nil {
					rt.Fatalf("host: %v", err)
				}
				host.Start()
				labels["basichost-on-top"] = true
			}
			for _, tg := range sc.targets {
				for _, a := range tg.addrs {
					ps.AddAddr(w.peers[tg.peer], a.stored, time.Hour)
				}
			}

			seenDials := 0
			for phase := 0; phase < 2; phase++ {
				if phase == 1 {
					for _, tg := range sc.targets {
						sw.ClosePeer(w.peers[tg.peer])
					}
					synctest.Wait()
					nf.take()
					for _, o := range sc.change {
						runOp(rt, g, st, w, m, o, &ob, &hist, false)
					}
					time.Sleep(time.Minute) // dial back-off of failed addresses (5 s) is over
					synctest.Wait()
				}
				var started []string
				for _, tg := range sc.targets {
					started = append(started, fmt.Sprintf("%s(peer%d)", apiNames[tg.api[phase]], tg.peer))
				}
				ctxHist := fmt.Sprintf("phase %d, rules after:\n  %s\nattempts started concurrently (no connection exists; BasicHost on top: %v): %s\n", phase, strings.Join(hist, "\n  "), sc.host, strings.Join(started, ", "))
				results := make([]attemptResult, len(sc.targets))
				var wg sync.WaitGroup
				for i, tg := range sc.targets {
					wg.Add(1)
					go func() {
						defer wg.Done()
						ctx, cancel := context.WithTimeout(context.Background(), 30*time.Second)
						defer cancel()
						results[i] = startOutbound(ctx, tg.api[phase], sw, host, w.peers[tg.peer])
					}()
				}
				wg.Wait()
				time.Sleep(2 * time.Second) // let cancelled attempts and notifications settle
				synctest.Wait()

				// (1) no transport dial towards a blocked peer or address
				dials := world.Snapshot()
				phaseDials := dials[seenDials:]
				seenDials = len(dials)
				perPeerDials := map[peer.ID]int{}
				for _, d := range phaseDials {
					perPeerDials[d.Peer]++
					v, why := dialVerdict(m, w, d.Peer, d.Addr)
					if v == yes {
						rt.Fatalf("%stransport %q was asked to dial peer%d at %s although %s", ctxHist, d.Transport, peerIndex(w, d.Peer), d.Addr, why)
					}
					if _, has, relay := ipOfAddr(d.Addr); has && relay && v == no {
						labels["relay-transport-dialled:relay-ip-free"] = true // circuit addresses do reach the relay transport when nothing forbids it
					}
				}
				// (2) results, connections, notifications
				for _, e := range nf.take() {
					if v, why := dialVerdict(m, w, e.peer, e.addr); v == yes {
						rt.Fatalf("%sConnected notification for peer%d at %s although %s", ctxHist, peerIndex(w, e.peer), e.addr, why)
					}
				}
				for i, tg := range sc.targets {
					p := w.peers[tg.peer]
					r := results[i]
					api := apiNames[tg.api[phase]]
					labels["via:"+api] = true
					pv := m.peerVerdict(tg.peer)
					if pv == yes {
						labels["blocked-peer-dialled"] = true
						labels["blocked-peer-dialled via:"+api] = true
						if r.err == nil {
							rt.Fatalf("%s%s(peer%d) succeeded (connection to %v) although the peer is blocked", ctxHist, api, tg.peer, r.addr)
						}
						if perPeerDials[p] != 0 {
							rt.Fatalf("%s%d transport dials towards blocked peer%d", ctxHist, perPeerDials[p], tg.peer)
						}
					}
					for _, c := range sw.ConnsToPeer(p) {
						if v, why := dialVerdict(m, w, p, c.RemoteMultiaddr()); v == yes {
							rt.Fatalf("%sConnsToPeer(peer%d) holds a connection to %s although %s", ctxHist, tg.peer, c.RemoteMultiaddr(), why)
						}
					}
					if r.err == nil && r.addr != nil {
						if v, why := dialVerdict(m, w, p, r.addr); v == yes {
							rt.Fatalf("%s%s(peer%d) handed out a connection to %s although %s", ctxHist, api, tg.peer, r.addr, why)
						}
					}
					// classification + positive control
					anyGoodFree, allBlocked, anyEp := false, true, false
					for _, a := range tg.addrs {
						for _, ep := range a.eps {
							anyEp = true
							iv := no
							if ep.ip != nil {
								iv = m.ipVerdict(*ep.ip)
							}
							if iv != yes {
								allBlocked = false
							}
							if iv == yes {
								labels["blocked-addr:"+oaKindNames[a.kind]] = true
								if ep.noncan || (ep.edge && m.viaSubnet(*ep.ip)) {
									nontrivial = true
									labels["blocked-through-noncanonical-form"] = true
								}
							}
							// is the address reported dialable? (Network.CanDial: the swarm's own answer for one candidate)
							canDial := sw.CanDial(p, ep.addr)
							switch {
							case iv == yes && canDial:
								rt.Fatalf("%sCanDial(peer%d, %s) reports the address dialable although IP %s matches an address/subnet rule in force", ctxHist, tg.peer, ep.addr, *ep.ip)
							case iv == yes && ep.relay:
								labels["candial:blocked-relay-ip-refused"] = true
							case iv == yes:
								labels["candial:blocked-direct-refused"] = true
							case canDial && ep.relay && ep.ip != nil:
								labels["candial:free-relay-ip-dialable"] = true // (observed, not demanded)
							case canDial && ep.ip != nil:
								labels["candial:free-direct-dialable"] = true
							}
							if iv == no && ep.good && a.succeed && (a.kind == aDirect || a.kind == aDNS || a.kind == aDNSAddr) {
								anyGoodFree = true
							}
						}
					}
					if pv == no && anyEp && allBlocked {
						labels["all-addrs-blocked"] = true
						labels["all-addrs-blocked via:"+api] = true
						if r.err == nil {
							rt.Fatalf("%s%s(peer%d) succeeded although every address is blocked", ctxHist, api, tg.peer)
						}
					}
					if pv == no && anyGoodFree {
						labels["free-remote-connected"] = true
						labels["free-remote-connected via:"+api] = true
						if r.err != nil {
							rt.Fatalf("%s%s(peer%d) failed (%v) although the peer is not blocked and has an unblocked, answering address\ntargets: %s", ctxHist, api, tg.peer, r.err, sc.fingerprint(w))
						}
					}
					if pv == no && r.err == nil && !allBlocked {
						for _, a := range tg.addrs {
							for _, ep := range a.eps {
								if ep.ip != nil && m.ipVerdict(*ep.ip) == yes {
									labels["mixed-addrs:other-address-dialled"] = true
									if ep.relay {
										labels["mixed-addrs:blocked-relay-next-to-dialled-address"] = true
									}
								}
							}
						}
					}
				}
				if phase == 1 {
					labels["phase2"] = true
				}
			}
			if ob.ambiguous {
				labels["unblock-in-other-spelling"] = true
			}
		})
		var ls []string
		for k := range labels {
			ls = append(ls, k)
		}
		sort.Strings(ls)
		if relaxedUsed+excludedMasks != ex0 {
			stats.Excluded(name) // a known-finding exclusion shaped this case
		}
		stats.Case(name, sc.fingerprint(w), nontrivial, ls...)
		if stats.WantSample(name) {
			var ts []string
			for _, tg := range sc.targets {
				for _, a := range tg.addrs {
					s := fmt.Sprintf("peer%d (via %s, then %s) %s %s succeed=%v", tg.peer, apiNames[tg.api[0]], apiNames[tg.api[1]], oaKindNames[a.kind], a.stored, a.succeed)
					for _, e := range a.eps {
						s += " -> " + e.addr.String()
					}
					ts = append(ts, s)
				}
			}
			stats.Sample(name, map[string]any{"history": hist, "targets": ts, "subnets": subKeys(w)})
		}
	})
}
