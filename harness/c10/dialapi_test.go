package c10

import (
	"context"
	"io"

	"github.com/libp2p/go-libp2p/core/network"
	"github.com/libp2p/go-libp2p/core/peer"
	"github.com/libp2p/go-libp2p/core/protocol"
	"github.com/libp2p/go-libp2p/core/transport"
	basichost "github.com/libp2p/go-libp2p/p2p/host/basic"
	"github.com/libp2p/go-libp2p/p2p/net/swarm"
	ma "github.com/multiformats/go-multiaddr"
	msmux "github.com/multiformats/go-multistream"

	"verif/internal/memnet"
	"verif/internal/scripted"
)

// ---------------------------------------------------------------------------
// How an outbound connection attempt is started.
//
// The statement speaks about outbound dials, not about one entry point: "outbound dials are
// refused before any transport dial to a blocked peer or address". Every public call that can
// make the swarm dial is therefore a member of the quantified domain:
//
//	Network.DialPeer     the explicit dial
//	Network.NewStream    no connection to the peer: the swarm dials implicitly before it opens the stream
//	Host.Connect         BasicHost on top of the swarm (Connect -> DialPeer -> identify wait)
//	Host.NewStream       BasicHost: Connect, then a stream with NoDial, then protocol negotiation
//
// The oracle is the same for all of them (recorded transport dials, ConnsToPeer, Connected
// notifications, and "the call did not hand out a connection/stream to a blocked remote").

const (
	apiDialPeer = iota
	apiSwarmNewStream
	apiHostConnect
	apiHostNewStream
	nAPIs
)

var apiNames = [...]string{"Network.DialPeer", "Network.NewStream", "Host.Connect", "Host.NewStream"}

func hostAPI(api int) bool { return api == apiHostConnect || api == apiHostNewStream }

// probeProto is the one protocol the scripted remotes speak (they answer "na" to everything
// else, e.g. identify).
const probeProto = protocol.ID("/c10/probe/1")

// attemptResult: what the call that started the attempt handed back.
type attemptResult struct {
	err error
	// remote address of the connection (or of the stream's connection) the call handed out;
	// nil when the call returned an error or (Host.Connect) returns no connection
	addr ma.Multiaddr
}

// startOutbound starts one outbound attempt towards p through the given API and waits for
// the call to return. A stream that was handed out is reset at once (only its existence and
// its connection matter here).
func startOutbound(ctx context.Context, api int, sw *swarm.Swarm, h *basichost.BasicHost, p peer.ID) attemptResult {
	switch api {
	case apiSwarmNewStream:
		s, err := sw.NewStream(ctx, p)
		if err != nil {
			return attemptResult{err: err}
		}
		a := s.Conn().RemoteMultiaddr()
		s.Reset()
		return attemptResult{addr: a}
	case apiHostConnect:
		return attemptResult{err: h.Connect(ctx, peer.AddrInfo{ID: p})}
	case apiHostNewStream:
		s, err := h.NewStream(ctx, p, probeProto)
		if err != nil {
			return attemptResult{err: err}
		}
		a := s.Conn().RemoteMultiaddr()
		s.Reset()
		return attemptResult{addr: a}
	default:
		c, err := sw.DialPeer(ctx, p)
		if err != nil {
			return attemptResult{err: err}
		}
		return attemptResult{addr: c.RemoteMultiaddr()}
	}
}

// answeringTransport wraps a scripted transport: the remote end of every stream the local
// node opens on a dialled connection is played by a multistream responder that knows
// probeProto only. The wrapper changes nothing about dialling: the scripted transport
// records the Dial call before this code sees its result.
type answeringTransport struct {
	*scripted.Transport
}

func (t answeringTransport) Dial(ctx context.Context, raddr ma.Multiaddr, p peer.ID) (transport.CapableConn, error) {
	c, err := t.Transport.Dial(ctx, raddr, p)
	if err != nil {
		return nil, err
	}
	c.(*scripted.Conn).OnOpenStream = func(remote *memnet.Conn) { go answerStream(remote) }
	return c, nil
}

func answerStream(remote *memnet.Conn) {
	mux := msmux.NewMultistreamMuxer[protocol.ID]()
	mux.AddHandler(probeProto, nil)
	if _, _, err := mux.Negotiate(remote); err == nil {
		io.Copy(io.Discard, remote) // until the local side resets or closes the stream
	}
	remote.Reset()
}

var _ network.Network = (*swarm.Swarm)(nil)
