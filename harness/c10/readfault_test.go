package c10

import (
	"context"
	"errors"
	"fmt"
	"sort"

	ds "github.com/ipfs/go-datastore"
	dsq "github.com/ipfs/go-datastore/query"
	"github.com/libp2p/go-libp2p/core/network"
	"github.com/libp2p/go-libp2p/p2p/net/conngater"
	"pgregory.net/rapid"
)

// ---------------------------------------------------------------------------
// read faults at reopen.
//
// "Rules written through the gater survive a restart on the same datastore ... wherever the process
// stopped": the restart reads the datastore, and reading can fail. A read-fault plan makes one read of
// the reopen go wrong; the constructor must then either return an error (no gater: nothing is admitted
// through it, the application sees the failure) or return a gater that enforces every block whose call
// returned success. It must never come up silently without some of the rules.

var errReadInjected = errors.New("c10: injected datastore read failure")

const (
	rfQueryErr  = iota // the n-th Query call of the reopen returns an error
	rfResultErr        // the n-th Query call delivers pos entries, then an error result, then ends
	rfCorrupt          // the record under one key is delivered with a damaged value (every read of it)
	nReadFaults
)

var readFaultNames = [...]string{"query-call-fails", "query-result-is-error", "stored-value-corrupt"}

const (
	crTruncate = iota // first half of the value
	crEmpty           // no bytes
	crGarbage         // same length, every byte changed
	nCorruptions
)

var corruptionNames = [...]string{"truncated", "empty", "garbage"}

type readPlan struct {
	kind int
	call int    // rfQueryErr / rfResultErr: 0-based ordinal of the Query call
	pos  int    // rfResultErr: entries delivered before the error result (clamped to what the query holds)
	key  string // rfCorrupt: datastore key of the damaged record
	how  int    // rfCorrupt: kind of damage
}

func (p readPlan) String() string {
	switch p.kind {
	case rfQueryErr:
		return fmt.Sprintf("Query call #%d fails", p.call)
	case rfResultErr:
		return fmt.Sprintf("Query call #%d delivers %d entries, then an error result", p.call, p.pos)
	}
	return fmt.Sprintf("the value stored under %s is read back %s", p.key, corruptionNames[p.how])
}

// faultyReads is a view of a store whose reads follow a readPlan (writes go to the store unchanged).
// Query results are delivered in key order, so that a run does not depend on map iteration order.
type faultyReads struct {
	*store
	plan  readPlan
	calls int
	fired bool // the planned fault was delivered to the reader
}

func (r *faultyReads) damage(key string, v []byte) []byte {
	if r.plan.kind != rfCorrupt || key != r.plan.key {
		return v
	}
	r.fired = true
	switch r.plan.how {
	case crTruncate:
		return append([]byte(nil), v[:len(v)/2]...)
	case crEmpty:
		return []byte{}
	}
	o := append([]byte(nil), v...)
	for i := range o {
		o[i] ^= 0xA5
	}
	return o
}

func (r *faultyReads) Get(ctx context.Context, key ds.Key) ([]byte, error) {
	v, err := r.store.Get(ctx, key)
	if err != nil {
		return v, err
	}
	return r.damage(key.String(), v), nil
}

func (r *faultyReads) Query(ctx context.Context, q dsq.Query) (dsq.Results, error) {
	n := r.calls
	r.calls++
	if r.plan.kind == rfQueryErr && n == r.plan.call {
		r.fired = true
		return nil, errReadInjected
	}
	res, err := r.store.Query(ctx, q)
	if err != nil {
		return nil, err
	}
	entries, err := res.Rest()
	if err != nil {
		return nil, err
	}
	sort.Slice(entries, func(i, j int) bool { return entries[i].Key < entries[j].Key })
	out := make([]dsq.Result, 0, len(entries)+1)
	for _, e := range entries {
		if !q.KeysOnly {
			e.Value = r.damage(e.Key, e.Value)
			e.Size = len(e.Value)
		}
		out = append(out, dsq.Result{Entry: e})
	}
	if r.plan.kind == rfResultErr && n == r.plan.call {
		pos := min(r.plan.pos, len(out))
		out = append(out[:pos:pos], dsq.Result{Error: errReadInjected}) // the iteration ends with the error
		r.fired = true
	}
	i := 0
	return dsq.ResultsFromIterator(q, dsq.Iterator{Next: func() (dsq.Result, bool) {
		if i >= len(out) {
			return dsq.Result{}, false
		}
		i++
		return out[i-1], true
	}}), nil
}

var _ ds.Datastore = (*faultyReads)(nil)

// drawReadPlan draws a plan for a reopen on st. Nothing about the gater's key layout or the number
// and order of its queries is assumed: calls are addressed by ordinal, records by the key the store saw.
func drawReadPlan(rt *rapid.T, st *store) readPlan {
	keys := make([]string, 0, len(st.shadow))
	for k := range st.shadow {
		keys = append(keys, k)
	}
	sort.Strings(keys)
	p := readPlan{kind: rapid.IntRange(0, nReadFaults-1).Draw(rt, "readFault")}
	if p.kind == rfCorrupt && len(keys) == 0 {
		p.kind = rfQueryErr
	}
	switch p.kind {
	case rfQueryErr, rfResultErr:
		// mostly one of the first calls (a reopen makes few); sometimes a call that may never be made
		p.call = rapid.SampledFrom([]int{0, 0, 1, 1, 2, 2, 3, 5}).Draw(rt, "readFaultCall")
		if p.kind == rfResultErr {
			p.pos = rapid.IntRange(0, min(len(keys), 3)).Draw(rt, "readFaultPos")
		}
	case rfCorrupt:
		p.key = keys[rapid.IntRange(0, len(keys)-1).Draw(rt, "corruptKey")]
		p.how = rapid.IntRange(0, nCorruptions-1).Draw(rt, "corruption")
	}
	return p
}

// without returns the model minus the rule the op wrote (the rule whose record was read back damaged:
// the datastore did not hand back what was written, so that one rule is not demanded).
func (m *model) without(o op, w *world) *model {
	c := m.clone()
	switch o.kind {
	case opBlockPeer:
		delete(c.peers, o.idx)
	case opBlockAddr:
		delete(c.addrs, w.ruleIPs[o.idx])
	case opBlockSubnet:
		delete(c.subs, w.subs[o.idx].semKey())
	}
	return c
}

// readFaultOutcome is what a faulted reopen showed (labels).
type readFaultOutcome struct {
	plan          readPlan
	fired         bool
	refused       bool // the constructor returned an error
	nonEmpty      bool // the model held at least one rule at the time
	blockedChecks int  // verdicts "must be refused" that were checked on a gater that came up
}

// reopenWithReadFault reopens a gater on st under the plan and applies the rule above. owner maps a
// datastore key to the successful Block* call that wrote it.
func reopenWithReadFault(f failer, st *store, plan readPlan, owner map[string]op, w *world, m *model) readFaultOutcome {
	view := &faultyReads{store: st, plan: plan}
	g, err := conngater.NewBasicConnectionGater(view)
	out := readFaultOutcome{plan: plan, fired: view.fired}
	if err != nil {
		if !view.fired {
			f.Fatalf("reopening on the datastore failed although no read went wrong (%s; %d Query calls): %v\nkeys: %s", plan, view.calls, err, st.dump())
		}
		out.refused = true
		return out
	}
	want := m
	if plan.kind == rfCorrupt {
		o, ok := owner[plan.key]
		if !ok {
			return out // (a record no call of this history wrote: nothing to say)
		}
		want = m.without(o, w)
	}
	what := fmt.Sprintf("gater reopened while %s (fault delivered: %v; NewBasicConnectionGater returned no error; keys: %s)", plan, view.fired, st.dump())
	out.blockedChecks = checkBlocksEnforced(f, what, g, w, want)
	return out
}

// checkBlocksEnforced is the one-sided comparison: every rule in force in m is listed and refused by
// the hooks. What else the gater lists or refuses is not judged here.
func checkBlocksEnforced(f failer, what string, g *conngater.BasicConnectionGater, w *world, m *model) int {
	n := 0
	listedPeers := g.ListBlockedPeers()
	for i, p := range w.peers {
		if m.peerVerdict(i) != yes {
			continue
		}
		n++
		found := false
		for _, q := range listedPeers {
			found = found || q == p
		}
		if !found {
			f.Fatalf("%s: peer%d is blocked (its BlockPeer call returned success) but ListBlockedPeers does not list it", what, i)
		}
		if g.InterceptPeerDial(p) {
			f.Fatalf("%s: peer%d is blocked but InterceptPeerDial allows it", what, i)
		}
		if g.InterceptSecured(network.DirInbound, p, cma{l: localAddr, r: localAddr}) {
			f.Fatalf("%s: peer%d is blocked but InterceptSecured(inbound) allows it", what, i)
		}
	}
	gotAddrs := map[nip]bool{}
	for _, ip := range g.ListBlockedAddrs() {
		if a, ok := normalize(ip); ok {
			gotAddrs[a] = true
		}
	}
	for _, a := range w.ruleIPs {
		if m.addrs[a] {
			n++
			if !gotAddrs[a] {
				f.Fatalf("%s: address %s is blocked (its BlockAddr call returned success) but ListBlockedAddrs does not list it (listed: %v)", what, a, gotAddrs)
			}
		}
	}
	gotSubs := map[string]bool{}
	for _, ipn := range g.ListBlockedSubnets() {
		if s, ok := subOfIPNet(ipn); ok {
			gotSubs[s.semKey()] = true
		}
	}
	for _, s := range w.subs {
		if st := m.subs[s.semKey()]; st != nil && st.state() == yes {
			n++
			if !gotSubs[s.semKey()] {
				f.Fatalf("%s: subnet %s is blocked (its BlockSubnet call returned success) but ListBlockedSubnets does not list it (listed: %v)", what, s.semKey(), gotSubs)
			}
		}
	}
	for k := range w.probes {
		pr := &w.probes[k]
		if pr.ip == nil || m.ipVerdict(*pr.ip) != yes {
			continue
		}
		n++
		p := w.peers[k%nPeers]
		if g.InterceptAddrDial(p, pr.addr) {
			f.Fatalf("%s: InterceptAddrDial allows a remote at %s although its IP %v matches a rule in force", what, pr.form, pr.ip)
		}
		if pr.relay {
			continue // as an inbound remote address a circuit address names the relay: no verdict
		}
		if g.InterceptAccept(cma{l: localAddr, r: pr.addr}) {
			f.Fatalf("%s: InterceptAccept allows a remote at %s although its IP %v matches a rule in force", what, pr.form, pr.ip)
		}
	}
	return n
}
