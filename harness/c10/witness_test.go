package c10

import (
	"fmt"
	"net"
	"testing"

	"github.com/libp2p/go-libp2p/p2p/net/conngater"

	"verif/internal/kf"
)

// Witnesses of the genuine defects the C10 checks found on the pinned tree (plain,
// deterministic, no generator).

func refused(g *conngater.BasicConnectionGater, ip string) bool {
	return !g.InterceptAccept(cma{l: localAddr, r: mustAddr("/ip4/" + ip + "/tcp/4001")})
}

// BlockSubnet keys its rule (in memory and in the datastore) by IPNet.String(), which
// spells the IP as given; loadRules re-parses the stored text with ParseCIDR, so after a
// restart ListBlockedSubnets shows the canonical network. An UnblockSubnet written in any
// other spelling of the same subnet -- including the very value ListBlockedSubnets
// returned -- succeeds and removes nothing: the subnet stays blocked, now and after every
// later restart.
func TestWitness_SubnetUnblockOtherSpelling(t *testing.T) {
	kf.Witness(t, kfHostBits, func() (bool, string) {
		st := newStore()
		g, err := conngater.NewBasicConnectionGater(st)
		if err != nil {
			t.Fatal(err)
		}
		// 10.1.2.3/8: what e.g. `ip, n, _ := net.ParseCIDR("10.1.2.3/8"); n.IP = ip` or a hand-built IPNet gives
		if err := g.BlockSubnet(&net.IPNet{IP: net.IPv4(10, 1, 2, 3).To4(), Mask: net.CIDRMask(8, 32)}); err != nil {
			t.Fatal(err)
		}
		if !refused(g, "10.9.9.9") {
			return false, ""
		}
		// restart
		g2, err := conngater.NewBasicConnectionGater(st)
		if err != nil {
			t.Fatal(err)
		}
		listed := g2.ListBlockedSubnets()
		if len(listed) != 1 {
			return true, fmt.Sprintf("after a restart ListBlockedSubnets returns %v", listed)
		}
		if err := g2.UnblockSubnet(listed[0]); err != nil {
			return false, "" // refusing the call is not a violation
		}
		if refused(g2, "10.9.9.9") {
			return true, fmt.Sprintf("BlockSubnet(10.1.2.3/8); restart; UnblockSubnet(ListBlockedSubnets()[0] = %s) returned success, yet 10.9.9.9 is still refused (datastore keys: %s)", listed[0], st.dump())
		}
		g3, err := conngater.NewBasicConnectionGater(st)
		if err != nil {
			t.Fatal(err)
		}
		if refused(g3, "10.9.9.9") {
			return true, "the successfully unblocked subnet is enforced again after the next restart"
		}
		return false, ""
	})
}

// BlockSubnet accepts an IPNet whose mask is not a CIDR prefix (in-memory gating honours
// it through IPNet.Contains) and persists IPNet.String() = "10.0.0.0/ff00ff00", which
// loadRules cannot parse: from then on NewBasicConnectionGater fails on that datastore and
// every rule -- not only this one -- is out of force after a restart.
func TestWitness_NonCIDRMaskBreaksReopen(t *testing.T) {
	kf.Witness(t, kfMask, func() (bool, string) {
		st := newStore()
		g, err := conngater.NewBasicConnectionGater(st)
		if err != nil {
			t.Fatal(err)
		}
		if err := g.BlockPeer(pid(0)); err != nil {
			t.Fatal(err)
		}
		if err := g.BlockSubnet(&net.IPNet{IP: net.IPv4(10, 0, 0, 0).To4(), Mask: net.IPMask{255, 0, 255, 0}}); err != nil {
			return false, "" // rejecting such a mask is fine
		}
		if !refused(g, "10.77.0.5") {
			return false, "" // (not enforced at all: then nothing was promised)
		}
		g2, err := conngater.NewBasicConnectionGater(st)
		if err != nil {
			return true, fmt.Sprintf("BlockPeer(p); BlockSubnet(10.0.0.0 mask ff00ff00) both returned success; reopening the gater on the same datastore fails: %v (keys: %s)", err, st.dump())
		}
		if !refused(g2, "10.77.0.5") || g2.InterceptPeerDial(pid(0)) {
			return true, "after a restart the successfully blocked subnet / peer is no longer refused"
		}
		// second shape: the hexadecimal mask text happens to read as a decimal prefix length
		// ("0.0.0.0/00000001" -> 0.0.0.0/1): the restart silently enforces another subnet
		st = newStore()
		if g, err = conngater.NewBasicConnectionGater(st); err != nil {
			t.Fatal(err)
		}
		if err := g.BlockSubnet(&net.IPNet{IP: net.IPv4(0, 0, 0, 0).To4(), Mask: net.IPMask{0, 0, 0, 1}}); err != nil {
			return false, ""
		}
		if !refused(g, "200.0.0.2") || refused(g, "1.2.3.5") {
			return false, ""
		}
		g2, err = conngater.NewBasicConnectionGater(st)
		if err != nil {
			return true, fmt.Sprintf("BlockSubnet(0.0.0.0 mask 00000001) returned success; reopening fails: %v", err)
		}
		if !refused(g2, "200.0.0.2") || refused(g2, "1.2.3.5") {
			return true, fmt.Sprintf("BlockSubnet(0.0.0.0 mask 00000001) refused 200.0.0.2 and allowed 1.2.3.5; after a restart 200.0.0.2 refused=%v, 1.2.3.5 refused=%v (listed: %v)", refused(g2, "200.0.0.2"), refused(g2, "1.2.3.5"), g2.ListBlockedSubnets())
		}
		return false, ""
	})
}

// ListBlockedSubnets hands out the *net.IPNet values the gater itself matches remotes against
// (conngater.go: `result = append(result, ipnet)` over cg.blockedSubnets). A caller that changes a
// listed value (masks it, converts it, re-uses it as scratch space) changes the rule in force: the
// subnet whose BlockSubnet call returned success, and that was never unblocked, is no longer refused,
// in memory and through every hook, until the next restart.
func TestWitness_ListedSubnetAliasesRule(t *testing.T) {
	kf.Witness(t, kfListAlias, func() (bool, string) {
		g, err := conngater.NewBasicConnectionGater(nil)
		if err != nil {
			t.Fatal(err)
		}
		_, n, _ := net.ParseCIDR("10.0.0.0/8")
		if err := g.BlockSubnet(n); err != nil {
			t.Fatal(err)
		}
		if !refused(g, "10.9.9.9") {
			return false, ""
		}
		listed := g.ListBlockedSubnets()
		if len(listed) != 1 {
			return true, fmt.Sprintf("ListBlockedSubnets returns %v", listed)
		}
		listed[0].IP[0] = 11 // the caller's own copy, as far as it can tell
		if !refused(g, "10.9.9.9") {
			return true, fmt.Sprintf("BlockSubnet(10.0.0.0/8) ok; l := ListBlockedSubnets(); l[0].IP[0] = 11: 10.9.9.9 is no longer refused (InterceptAccept allows it; now listed: %v) although 10.0.0.0/8 was never unblocked", g.ListBlockedSubnets())
		}
		return false, ""
	})
}
