// Package c10 checks property C10: blocked peers, addresses and subnets never obtain a
// connection; rules persist.
//
// Files:
//
//	main_test.go     reference model (written from the statement), address forms, probe remotes
//	rules_test.go    rule histories against a fault-injecting, snapshotting datastore double
//	outbound_test.go the real gater in a real swarm over scripted transports (outbound)
//	dialapi_test.go  the entry points that start an outbound attempt (Network.DialPeer, Network.NewStream's
//	                 implicit dial, BasicHost.Connect / NewStream) and the answering side of scripted streams
//	inbound_test.go  the real gater behind the real upgrader over in-memory conns (inbound)
//	quic_test.go     the QUIC and WebTransport transports' own gating call sites over simnet, under both
//	                 ConnManager configurations (bare / scope opened at accept as in libp2p.New)
//	webrtc_test.go   the WebRTC-direct listener's own gating call site over real loopback UDP behind an address translator
//	witness_test.go  minimal deterministic witnesses of the defects found
package c10

import (
	"fmt"
	"io"
	"log/slog"
	"net"
	"sort"
	"strings"
	"testing"

	"github.com/libp2p/go-libp2p/core/network"
	"github.com/libp2p/go-libp2p/core/peer"
	"github.com/libp2p/go-libp2p/gologshim"
	"github.com/libp2p/go-libp2p/p2p/net/conngater"
	ma "github.com/multiformats/go-multiaddr"
	"pgregory.net/rapid"

	"verif/internal/hx"
	"verif/internal/keys"
	"verif/internal/kf"
	"verif/internal/stats"
)

func TestMain(m *testing.M) {
	// the gater logs every refused datastore write and every IP-less multiaddr; keep the shard logs readable
	gologshim.SetDefaultHandler(slog.NewTextHandler(io.Discard, nil))
	stats.Describe("exploration",
		"(a) rapid state machine over Block/Unblock of peers, IPs (4-byte, 16-byte, IPv4-mapped) and subnets (v4/v6, /0../32../128, overlapping, host bits set, "+
			"4- and 16-byte IP/mask encodings) against a datastore double that fails writes on demand and snapshots itself after every write; after every step the live gater, "+
			"a gater reopened on the newest snapshot (call in flight may go either way) and, on 'reopen', a gater reopened on the final datastore are compared with a reference "+
			"model (set of rules whose call returned success) through ListBlocked* and all Intercept* hooks for probe remotes in every address form "+
			"(/ip4, /ip6, /ip6/::ffff:a.b.c.d in three spellings, ip6zone, first/last address of each subnet and the neighbours just outside, IP-less addresses, several transport suffixes). "+
			"Rules are values: after a Block*/Unblock* call of an address or subnet returned, the caller (generated, in every test of this package) overwrites the IP bytes or the mask bytes of the net.IP / *net.IPNet it passed, "+
			"or re-uses its IPNet variable for another subnet of the pool, and after every comparison it overwrites every value ListBlockedAddrs / ListBlockedSubnets returned; the model keeps what the arguments said at the time of the call. "+
			"(b) the real gater (optionally reopened from its datastore) inside a real swarm over scripted transports with a fake DNS resolver; every outbound attempt is started, with no connection "+
			"to the peer in place, through a generated entry point: Network.DialPeer, Network.NewStream (the swarm's implicit dial) and, in a third of the cases, Connect / NewStream of a real BasicHost "+
			"built on that swarm (the scripted remotes answer multistream for one probe protocol, 'na' to identify); every recorded transport dial, the result of the starting call (error, or the "+
			"connection / stream's connection it handed out), ConnsToPeer, Connected notifications and Network.CanDial for every candidate address are audited against the model over two phases with rule changes in between, by the same rule whatever call started the attempt. "+
			"Candidate addresses per peer (1..4, mixed): direct /ip4 /ip6 (all spellings) over tcp/quic-v1/ws/webtransport, /dns* and /dnsaddr names resolved by the fake resolver, and circuit addresses "+
			"<relay IP or /dns* name of the relay>/<tcp|quic-v1|ws|webtransport>/p2p/<relay>/p2p-circuit (owned by a scripted proxy transport) whose relay IP comes from the same pool as the rules, plus IP-less /p2p/<relay>/p2p-circuit. "+
			"(c) the real gater behind the real upgrader (Noise + yamux) on an in-memory listener inside a real swarm: per inbound attempt the raw server-side conn's byte counters, "+
			"its closure and the swarm's admission are audited; the QUIC and the WebTransport transports' own call sites (listener and dialer) run over simnet with arbitrary source IPs, "+
			"WebTransport alone or next to QUIC on the same ConnManager and UDP port, each under both ConnManager configurations: bare quicreuse.NewConnManager, and with the ConnContext option "+
			"of libp2p.New's default ConnManager that opens the resource-manager scope when the QUIC connection is accepted (the listeners then find the scope in the connection context); "+
			"per attempt the gated swarm's ConnsToPeer/Connected, the result of the starting call (outbound: Network.DialPeer or Network.NewStream's implicit dial, generated) and the remote's view "+
			"(no inbound connection from a gated dial; no connection left open from a refused inbound one) are audited. "+
			"The WebRTC-direct transport's own inbound call site (listener.handleCandidate) runs with the real transport on both sides over real loopback UDP (/ip4/127.0.0.1 or /ip6/::1) in real time, a small number of cases: "+
			"the gated listener's socket is wrapped in an address translator (as a NAT in front of the dialer) that presents each attempt's datagrams with a generated source IP of the pool (IPv4 as 4 or 16 bytes), so the remote address differs from the listener's own; "+
			"an attempt is decided by an event, never by elapsed time: the gated swarm's Connected notification, or a refusal the real gater returned at the listener's call site (recorded by a wrapper); blocked = never admitted (address/subnet: refused at InterceptAccept), "+
			"free = admitted with the translated source as remote address and no refusal. "+
			"Read faults at reopen (action 'reopen-read-fault', and once at the end of every history with a datastore): a gater is reopened on the datastore through a view whose reads follow a generated plan - "+
			"the n-th Query call of the reopen returns an error (n in 0..5, addressed by ordinal, nothing about the key layout assumed), or the n-th Query call delivers k entries, then an error result, then ends, "+
			"or the record under one stored key is read back damaged (truncated, empty, or every byte changed); Query results are delivered in key order. NewBasicConnectionGater must then either return an error "+
			"(no gater, nothing admitted through it) or return a gater that lists and refuses (InterceptPeerDial/InterceptSecured inbound, InterceptAddrDial/InterceptAccept for every probe form) every block whose call returned success; "+
			"for a damaged record the one rule written by the call that wrote that record is not demanded; an error from the constructor when no fault was delivered is a failure. One-sided: what else such a gater refuses is not judged. "+
			"Per history every crash point is enumerated (one snapshot per applied write); histories, faults and remotes are sampled. "+
			"Non-trivial = a probed/dialled/accepted remote matches a rule in force through a non-canonical form (mapped spelling, 16-byte rule vs 4-byte remote, subnet rule hit at an edge address, "+
			"resolved DNS name) or the case contains a reopen on a non-empty rule set; distinct = distinct (pool, op history, attempts).",
		"the datastore double applies every write atomically and either applies it or fails it (no 'applied but reported failed' mode); read failures are injected only into reopens of TestRuleHistories (one fault per reopen: a Query error, an error result, or one damaged value), not into the snapshot reopens after each write and not into the composition tests",
		"a record read back damaged is the datastore not returning what was written: the rule that record held may be missing after the reopen (or the reopen may fail); every other rule must still be enforced",
		"a subnet is identified by the set of addresses it covers (IP masked by Mask), not by the spelling of the IPNet value: the last successful Block/Unblock of that set decides "+
			"(known finding "+kfHostBits+": while listed as known, an Unblock spelled differently from a Block still on record gives no verdict for that subnet)",
		"masks that are not CIDR prefixes are generated rarely (net.IPNet allows them, Contains honours them; known finding "+kfMask+" removes them from the generator while listed as known)",
		"whether an IPv6 subnet shorter than /96 that covers ::ffff:0:0/96 (e.g. ::/0) matches IPv4 remotes is left unspecified; all textual forms of one IP must still agree",
		"IP values have length 4 or 16; a Block*/Unblock* call that returns an error leaves the model unchanged whatever the reason",
		"inbound forms are those a net.Addr can produce plus hand-built /ip6/::ffff: multiaddrs",
		"WebRTC-direct: needs loopback UDP sockets (test skipped without them; IPv6 cases run over IPv4 when ::1 is missing, labelled); real time only bounds the wait for the deciding event (20 s, then the attempt is labelled inconclusive and gives no verdict); "+
			"after a refusal the dialer is left running 300 ms (its retransmissions are fresh candidates) before admission is read; the WebRTC dialer's InterceptSecured call site and outbound WebRTC dials are not driven",
		"the datastore double copies the value during Put, as a datastore that persists does (BlockAddr hands its caller's buffer to Put; MapDatastore would keep that slice)",
		"the scope-at-accept ConnManager configuration copies the ConnContext function of config/config.go over a NullResourceManager (a full libp2p.New host is not built); VerifySourceAddress and metrics options are left out",
		"a relay (p2p-circuit) address names the relay's IP: as an outbound candidate it is judged like a direct address of that IP (the dial opens or re-uses a connection with it: "+
			"InterceptAddrDial refuses it, the swarm neither hands it to the relay transport nor reports it dialable); as the remote address of an inbound connection it may or may not be refused (the remote is the peer behind the relay)",
	)
	hx.Main(m)
}

// ---------------------------------------------------------------------------
// normalised IPs (independent of net.IP's own To4/String/Equal)

type nip struct {
	v6 bool
	b  [16]byte // v4: b[0:4]
}

func ip4(a, b, c, d byte) nip { return nip{b: [16]byte{a, b, c, d}} }

func ip6(bs [16]byte) nip {
	n := nip{v6: true, b: bs}
	if x, ok := normalize(net.IP(bs[:])); ok {
		return x // a mapped value is an IPv4 address
	}
	return n
}

func (a nip) size() int {
	if a.v6 {
		return 16
	}
	return 4
}

func (a nip) raw() []byte { return append([]byte(nil), a.b[:a.size()]...) }

// normalize maps a net.IP value (4 bytes, 16 bytes, 16 bytes IPv4-mapped) to its identity.
func normalize(ip net.IP) (nip, bool) {
	switch len(ip) {
	case 4:
		return ip4(ip[0], ip[1], ip[2], ip[3]), true
	case 16:
		mapped := ip[10] == 0xff && ip[11] == 0xff
		for i := 0; i < 10; i++ {
			if ip[i] != 0 {
				mapped = false
			}
		}
		if mapped {
			return ip4(ip[12], ip[13], ip[14], ip[15]), true
		}
		var n nip
		n.v6 = true
		copy(n.b[:], ip)
		return n, true
	}
	return nip{}, false
}

// mapped16 returns the 16-byte form (::ffff:a.b.c.d for v4).
func (a nip) mapped16() [16]byte {
	if a.v6 {
		return a.b
	}
	var o [16]byte
	o[10], o[11] = 0xff, 0xff
	copy(o[12:], a.b[:4])
	return o
}

func (a nip) String() string {
	if !a.v6 {
		return fmt.Sprintf("%d.%d.%d.%d", a.b[0], a.b[1], a.b[2], a.b[3])
	}
	return net.IP(a.b[:]).String()
}

func (a nip) expanded() string {
	b := a.mapped16()
	var g []string
	for i := 0; i < 16; i += 2 {
		g = append(g, fmt.Sprintf("%x", uint16(b[i])<<8|uint16(b[i+1])))
	}
	return strings.Join(g, ":")
}

// step returns a±1 and false on wrap-around.
func (a nip) step(up bool) (nip, bool) {
	o := a
	for i := a.size() - 1; i >= 0; i-- {
		if up {
			o.b[i]++
			if o.b[i] != 0 {
				return o, true
			}
		} else {
			o.b[i]--
			if o.b[i] != 0xff {
				return o, true
			}
		}
	}
	return o, false
}

// net.IP value forms handed to BlockAddr / used as conn source addresses.
const (
	formNatural  = iota // 4 bytes for v4, 16 bytes for v6
	formMapped16        // 16 bytes ::ffff:a.b.c.d (v4 only; same as natural for v6)
	nIPForms
)

func (a nip) netIP(form int) net.IP {
	if a.v6 || form == formMapped16 {
		m := a.mapped16()
		return net.IP(m[:])
	}
	return net.IP(a.raw())
}

// ---------------------------------------------------------------------------
// subnets

type sub struct {
	v6   bool
	bits int      // prefix length; -1: the mask is not a CIDR prefix
	m    [16]byte // mask, s.size() bytes
	base nip      // canonical: bits outside the mask are zero
}

func maskBytes(size, bits int) []byte {
	m := make([]byte, size)
	for i := 0; i < bits; i++ {
		m[i/8] |= 0x80 >> (i % 8)
	}
	return m
}

// prefixLen returns the number of leading one bits, or -1 if a one follows a zero.
func prefixLen(m []byte) int {
	ones := 0
	for ones < len(m)*8 && m[ones/8]&(0x80>>(ones%8)) != 0 {
		ones++
	}
	for i := ones; i < len(m)*8; i++ {
		if m[i/8]&(0x80>>(i%8)) != 0 {
			return -1
		}
	}
	return ones
}

func mkSubMask(base nip, mask []byte) sub {
	if base.v6 && len(mask) == 16 && prefixLen(mask[:12]) == 96 {
		// a subnet inside ::ffff:0:0/96 is an IPv4 subnet (that is how net.IPNet prints, stores and
		// matches it); derived subnets (an edge address of a wider one, re-masked) can land there
		if v4, ok := normalize(net.IP(base.b[:])); ok && !v4.v6 {
			return mkSubMask(v4, mask[12:])
		}
	}
	s := sub{v6: base.v6, base: base, bits: prefixLen(mask)}
	copy(s.m[:], mask)
	for i := range mask {
		s.base.b[i] &= mask[i]
	}
	return s
}

func mkSub(base nip, bits int) sub { return mkSubMask(base, maskBytes(base.size(), bits)) }

func (s sub) size() int    { return s.base.size() }
func (s sub) mask() []byte { return append([]byte(nil), s.m[:s.size()]...) }

func (s sub) first() nip { return s.base }
func (s sub) last() nip {
	o := s.base
	for i, m := range s.mask() {
		o.b[i] |= ^m
	}
	return o
}

func maskedEq(a, b, m []byte) bool {
	for i := range m {
		if a[i]&m[i] != b[i]&m[i] {
			return false
		}
	}
	return true
}

type tri int

const (
	no tri = iota
	yes
	either
)

func (t tri) String() string { return [...]string{"free", "blocked", "either"}[t] }

// contains: does the subnet cover the address? An IPv4 address against an IPv6 subnet
// that covers the mapped range is left unspecified (see assumptions).
func (s sub) contains(a nip) tri {
	switch {
	case s.v6 == a.v6:
		if maskedEq(s.base.raw(), a.raw(), s.mask()) {
			return yes
		}
		return no
	case s.v6 && !a.v6:
		m := a.mapped16()
		if maskedEq(s.base.raw(), m[:], s.mask()) {
			return either
		}
		return no
	}
	return no
}

func (s sub) suffix() string {
	if s.bits >= 0 {
		return fmt.Sprint(s.bits)
	}
	return fmt.Sprintf("%x", s.mask())
}

func (s sub) semKey() string { return s.base.String() + "/" + s.suffix() }

// *net.IPNet encodings of one subnet.
const (
	sfCanon         = iota // natural IP length, same-length mask, host bits zero (what ParseCIDR returns)
	sfHostBits             // natural IP length, host bits set
	sfIP16Mask4            // v4: 16-byte (mapped) IP, 4-byte mask (net.IPv4(...) + net.CIDRMask(n, 32))
	sfIP16Mask16           // v4: 16-byte IP, 16-byte mask /96+n (ParseCIDR("::ffff:a.b.c.d/..."))
	sfIP4Mask16            // v4: 4-byte IP, 16-byte mask /96+n
	sfIP16Mask4Host        // v4: 16-byte IP with host bits, 4-byte mask
	nSubForms
)

var subFormNames = [...]string{"canon", "hostbits", "ip16/mask4", "ip16/mask16", "ip4/mask16", "ip16/mask4+hostbits"}

// ipnet builds the IPNet value; noise supplies the host bits for the non-canonical forms.
// It returns the value and its textual identity (what the given IP+mask spells).
func (s sub) ipnet(form int, noise [16]byte) (*net.IPNet, string) {
	given := s.base
	if form == sfHostBits || form == sfIP16Mask4Host {
		for i, m := range s.mask() {
			given.b[i] |= noise[i] &^ m
		}
	}
	if s.v6 && s.bits < 96 && net.IP(given.raw()).To4() != nil && net.IP(s.base.raw()).To4() == nil {
		// host bits that make the IP of an IPv6 subnet shorter than /96 look IPv4-mapped give a
		// value package net itself reads as an IPv4 network (String and Contains use IP.To4()
		// and Mask[12:]): not a spelling of this subnet, so the canonical IP is used instead
		given = s.base
	}
	text := given.String() + "/" + s.suffix()
	if s.v6 {
		return &net.IPNet{IP: net.IP(given.raw()), Mask: net.IPMask(s.mask())}, text
	}
	wide := append(maskBytes(16, 96)[:12:12], s.mask()...)
	switch form {
	case sfIP16Mask4, sfIP16Mask4Host:
		return &net.IPNet{IP: given.netIP(formMapped16), Mask: net.IPMask(s.mask())}, text
	case sfIP16Mask16:
		return &net.IPNet{IP: given.netIP(formMapped16), Mask: net.IPMask(wide)}, text
	case sfIP4Mask16:
		return &net.IPNet{IP: net.IP(given.raw()), Mask: net.IPMask(wide)}, text
	}
	return &net.IPNet{IP: net.IP(given.raw()), Mask: net.IPMask(s.mask())}, text
}

// subOfIPNet reads back an IPNet returned by ListBlockedSubnets.
func subOfIPNet(n *net.IPNet) (sub, bool) {
	if n == nil {
		return sub{}, false
	}
	a, ok := normalize(n.IP)
	if !ok {
		return sub{}, false
	}
	switch {
	case len(n.Mask) == a.size():
		return mkSubMask(a, n.Mask), true
	case len(n.Mask) == 16 && !a.v6 && prefixLen(n.Mask[:12]) == 96:
		return mkSubMask(a, n.Mask[12:]), true
	}
	return sub{}, false
}

// ---------------------------------------------------------------------------
// reference model: the set of rules whose call returned success

type subState struct {
	s         sub
	texts     map[string]bool // textual identities currently blocked (reading 1)
	lastBlock bool            // last successful call on this address set was a Block (reading 2)
}

// mixed: an Unblock spelled differently from a Block that is still on record.
func (st *subState) mixed() bool { return (len(st.texts) > 0) != st.lastBlock }

// Known findings of C10 (see witness_test.go).
const (
	kfHostBits  = "C10-subnet-unblock-other-spelling"
	kfMask      = "C10-noncidr-mask-breaks-reopen"
	kfListAlias = "C10-listed-subnet-aliases-rule"
)

// relaxedUsed counts verdicts that were relaxed because of kfHostBits (per process;
// sampled around each case).
var relaxedUsed int

// state: is the subnet blocked? A subnet is the set of addresses it covers: the last
// successful call decides. While finding kfHostBits is listed as known, the one shape it
// covers (an Unblock spelled differently from a Block still on record) gives no verdict.
func (st *subState) state() tri {
	t := len(st.texts) > 0
	switch {
	case t && st.lastBlock:
		return yes
	case !t && !st.lastBlock:
		return no
	}
	if kf.Known(kfHostBits) {
		relaxedUsed++
		return either
	}
	if st.lastBlock {
		return yes
	}
	return no
}

type model struct {
	peers map[int]bool
	addrs map[nip]bool
	subs  map[string]*subState
}

func newModel() *model {
	return &model{peers: map[int]bool{}, addrs: map[nip]bool{}, subs: map[string]*subState{}}
}

func (m *model) clone() *model {
	o := newModel()
	for k, v := range m.peers {
		o.peers[k] = v
	}
	for k, v := range m.addrs {
		o.addrs[k] = v
	}
	for k, v := range m.subs {
		c := &subState{s: v.s, texts: map[string]bool{}, lastBlock: v.lastBlock}
		for t := range v.texts {
			c.texts[t] = true
		}
		o.subs[k] = c
	}
	return o
}

func (m *model) empty() bool {
	if len(m.peers) > 0 || len(m.addrs) > 0 {
		return false
	}
	for _, st := range m.subs {
		if st.state() != no {
			return false
		}
	}
	return true
}

// ipVerdict: is a remote with this IP refused?
func (m *model) ipVerdict(a nip) tri {
	if m.addrs[a] {
		return yes
	}
	v := no
	for _, st := range m.subs {
		c := st.s.contains(a)
		switch st.state() {
		case yes:
			if c == yes {
				return yes
			}
			if c == either {
				v = either
			}
		case either:
			if c != no {
				v = either
			}
		}
	}
	return v
}

// viaSubnet reports whether a definite subnet rule (and no address rule) covers the IP.
func (m *model) viaSubnet(a nip) bool {
	if m.addrs[a] {
		return false
	}
	return m.ipVerdict(a) == yes
}

func (m *model) peerVerdict(i int) tri {
	if m.peers[i] {
		return yes
	}
	return no
}

func join(a, b tri) tri {
	if a == b {
		return a
	}
	return either
}

func or(a, b tri) tri {
	switch {
	case a == yes || b == yes:
		return yes
	case a == either || b == either:
		return either
	}
	return no
}

// ---------------------------------------------------------------------------
// operations

const (
	opBlockPeer = iota
	opUnblockPeer
	opBlockAddr
	opUnblockAddr
	opBlockSubnet
	opUnblockSubnet
)

var opNames = [...]string{"BlockPeer", "UnblockPeer", "BlockAddr", "UnblockAddr", "BlockSubnet", "UnblockSubnet"}

type op struct {
	kind  int
	idx   int
	form  int
	noise [16]byte
	fail  bool // the datastore refuses the write of this call
	// what the caller does, right after the call returned, with the net.IP / *net.IPNet value it passed
	// (a rule is what the arguments said at the time of the call)
	scribble int
	scr      [16]byte
}

// The caller's treatment of its own argument after a Block*/Unblock* call returned.
const (
	scNone      = iota
	scIPBytes   // overwrites the bytes of the IP it passed (address rules: the net.IP; subnet rules: IPNet.IP)
	scMaskBytes // subnet rules: overwrites the bytes of IPNet.Mask with another prefix mask (address rules: as scIPBytes)
	scReuse     // subnet rules: stores another subnet of the pool in the same IPNet variable, *n = other (address rules: as scIPBytes)
	nScribbles
)

var scribbleNames = [...]string{"", "overwrites the IP bytes of its argument", "overwrites the mask bytes of its argument", "re-uses its IPNet variable for another subnet"}

func scribbleIP(ip net.IP, scr [16]byte) {
	for i := range ip {
		ip[i] ^= scr[i] | 1 // every byte changes
	}
}

// scribbleNet: the caller changes the IPNet it passed, in place.
func (o op) scribbleNet(n *net.IPNet, w *world) {
	switch o.scribble {
	case scIPBytes:
		scribbleIP(n.IP, o.scr)
	case scMaskBytes:
		// another prefix length (the value stays a well-formed CIDR network)
		ones, bits := n.Mask.Size()
		if bits == 0 {
			scribbleIP(net.IP(n.Mask), o.scr)
			return
		}
		copy(n.Mask, net.CIDRMask((ones+1+int(o.scr[0]))%(bits+1), bits))
	case scReuse:
		other := w.subs[(o.idx+1+int(o.scr[0]))%len(w.subs)]
		if other.semKey() == w.subs[o.idx].semKey() {
			scribbleIP(n.IP, o.scr)
			return
		}
		m, _ := other.ipnet(sfCanon, o.scr)
		*n = *m
	}
}

func (o op) describe(w *world) string {
	s := opNames[o.kind] + "("
	switch o.kind {
	case opBlockPeer, opUnblockPeer:
		s += fmt.Sprintf("peer%d", o.idx)
	case opBlockAddr, opUnblockAddr:
		s += fmt.Sprintf("%s len=%d", w.ruleIPs[o.idx], len(w.ruleIPs[o.idx].netIP(o.form)))
	default:
		n, _ := w.subs[o.idx].ipnet(o.form, o.noise)
		s += fmt.Sprintf("%s as %s: IP=%v Mask=%v", w.subs[o.idx].semKey(), subFormNames[o.form], []byte(n.IP), []byte(n.Mask))
	}
	if o.fail {
		s += " [datastore write fails]"
	}
	s += ")"
	if o.scribble != scNone {
		s += "; the caller then " + scribbleNames[o.scribble]
	}
	return s
}

// call performs the operation on the gater.
func (o op) call(g *conngater.BasicConnectionGater, w *world) error {
	switch o.kind {
	case opBlockPeer:
		return g.BlockPeer(w.peers[o.idx])
	case opUnblockPeer:
		return g.UnblockPeer(w.peers[o.idx])
	case opBlockAddr, opUnblockAddr:
		ip := w.ruleIPs[o.idx].netIP(o.form)
		var err error
		if o.kind == opBlockAddr {
			err = g.BlockAddr(ip)
		} else {
			err = g.UnblockAddr(ip)
		}
		if o.scribble != scNone {
			scribbleIP(ip, o.scr)
		}
		return err
	default:
		n, _ := w.subs[o.idx].ipnet(o.form, o.noise)
		var err error
		if o.kind == opBlockSubnet {
			err = g.BlockSubnet(n)
		} else {
			err = g.UnblockSubnet(n)
		}
		o.scribbleNet(n, w)
		return err
	}
}

// apply records a call that returned success.
func (m *model) apply(o op, w *world) {
	switch o.kind {
	case opBlockPeer:
		m.peers[o.idx] = true
	case opUnblockPeer:
		delete(m.peers, o.idx)
	case opBlockAddr:
		m.addrs[w.ruleIPs[o.idx]] = true
	case opUnblockAddr:
		delete(m.addrs, w.ruleIPs[o.idx])
	case opBlockSubnet, opUnblockSubnet:
		s := w.subs[o.idx]
		_, text := s.ipnet(o.form, o.noise)
		st := m.subs[s.semKey()]
		if st == nil {
			st = &subState{s: s, texts: map[string]bool{}}
			m.subs[s.semKey()] = st
		}
		if o.kind == opBlockSubnet {
			st.texts[text] = true
			st.lastBlock = true
		} else {
			delete(st.texts, text)
			st.lastBlock = false
		}
	}
}

// ---------------------------------------------------------------------------
// world: pools of peers, subnets, IPs and the probe remotes derived from them

type probe struct {
	ip      *nip // nil: no IP component
	addr    ma.Multiaddr
	form    string
	relay   bool // the IP is a relay's: no verdict
	noncan  bool // non-canonical spelling of the IP
	edge    bool // subnet edge address
	outside bool
}

type world struct {
	peers   []peer.ID
	subs    []sub
	ips     []nip
	edge    map[nip]bool
	ruleIPs []nip
	probes  []probe
}

var (
	v4Specials = []nip{ip4(0, 0, 0, 0), ip4(10, 0, 0, 0), ip4(127, 0, 0, 1), ip4(192, 168, 1, 0), ip4(255, 255, 255, 255), ip4(100, 64, 0, 0), ip4(1, 2, 3, 4), ip4(128, 0, 0, 0)}
	v6Specials = []string{"::", "::1", "2001:db8::", "fe80::1", "ff02::1", "2600:1f18:1::5", "ffff:ffff:ffff:ffff:ffff:ffff:ffff:ffff", "64:ff9b::102:304", "8000::", "::fffe:1.2.3.4", "::1:ffff:102:304"}
	v4Bits     = []int{0, 1, 7, 8, 9, 16, 23, 24, 25, 30, 31, 32, 32}
	v6Bits     = []int{0, 1, 3, 7, 8, 16, 32, 48, 63, 64, 65, 96, 104, 120, 127, 128, 128}
	suffixes   = []string{"", "/tcp/4001", "/udp/4001/quic-v1", "/udp/443/quic-v1/webtransport", "/tcp/443/tls/ws", "/tcp/80/ws", "/udp/9/webrtc-direct", "/tcp/4001/p2p/%P", "/tcp/1"}
)

const nPeers = 4

func pid(i int) peer.ID { return keys.Ed(20 + i).ID }

func parse6(s string) nip {
	ip := net.ParseIP(s).To16()
	var b [16]byte
	copy(b[:], ip)
	return ip6(b)
}

func drawBytes(rt *rapid.T, n int, label string) [16]byte {
	var o [16]byte
	v := rapid.SliceOfN(rapid.Byte(), n, n).Draw(rt, label)
	copy(o[:], v)
	return o
}

func drawIP(rt *rapid.T, v6 bool, label string) nip {
	if v6 {
		if rapid.Bool().Draw(rt, label+"-special") {
			return parse6(rapid.SampledFrom(v6Specials).Draw(rt, label))
		}
		a := ip6(drawBytes(rt, 16, label))
		return a
	}
	if rapid.Bool().Draw(rt, label+"-special") {
		return rapid.SampledFrom(v4Specials).Draw(rt, label)
	}
	b := drawBytes(rt, 4, label)
	return ip4(b[0], b[1], b[2], b[3])
}

// excludedMasks counts non-CIDR masks the generator did not produce because finding
// kfMask is listed as known.
var excludedMasks int

func drawSub(rt *rapid.T, prev []sub) sub {
	if len(prev) > 0 && rapid.IntRange(0, 2).Draw(rt, "derive") == 0 {
		// overlapping: a subnet inside / around an earlier one
		p := prev[rapid.IntRange(0, len(prev)-1).Draw(rt, "from")]
		max := 32
		if p.v6 {
			max = 128
		}
		bits := rapid.IntRange(0, max).Draw(rt, "bits")
		base := p.first()
		if rapid.Bool().Draw(rt, "lastEdge") {
			base = p.last()
		}
		return mkSub(base, bits)
	}
	v6 := rapid.IntRange(0, 2).Draw(rt, "v6") == 0
	a := drawIP(rt, v6, "subbase")
	if rapid.IntRange(0, 39).Draw(rt, "noncidr") == 20 {
		// a mask that is not a prefix (net.IPNet allows it, Contains honours it)
		if kf.Known(kfMask) {
			excludedMasks++
		} else {
			m := drawBytes(rt, a.size(), "mask")
			return mkSubMask(a, m[:a.size()])
		}
	}
	if a.v6 {
		return mkSub(a, rapid.SampledFrom(v6Bits).Draw(rt, "bits"))
	}
	return mkSub(a, rapid.SampledFrom(v4Bits).Draw(rt, "bits"))
}

func mustAddr(s string) ma.Multiaddr {
	a, err := ma.NewMultiaddr(s)
	if err != nil {
		panic(fmt.Sprintf("harness: bad multiaddr %q: %v", s, err))
	}
	return a
}

var relayID = keys.Ed(19).ID

// ipComponents lists the textual multiaddr spellings of one IP.
func ipComponents(a nip) (texts []string, noncanon []bool) {
	if !a.v6 {
		m := a.mapped16()
		return []string{
				"/ip4/" + a.String(),
				"/ip6/::ffff:" + a.String(),
				fmt.Sprintf("/ip6/::ffff:%x:%x", uint16(m[12])<<8|uint16(m[13]), uint16(m[14])<<8|uint16(m[15])),
				"/ip6/" + a.expanded(),
			},
			[]bool{false, true, true, true}
	}
	return []string{"/ip6/" + a.String(), "/ip6/" + a.expanded(), "/ip6zone/eth0/ip6/" + a.String()}, []bool{false, false, true}
}

func drawWorld(rt *rapid.T) *world {
	w := &world{edge: map[nip]bool{}}
	for i := 0; i < nPeers; i++ {
		w.peers = append(w.peers, pid(i))
	}
	ns := rapid.IntRange(2, 4).Draw(rt, "nsubs")
	for i := 0; i < ns; i++ {
		s := drawSub(rt, w.subs)
		dup := false
		for _, x := range w.subs {
			dup = dup || x.semKey() == s.semKey()
		}
		if !dup {
			w.subs = append(w.subs, s)
		}
	}
	seen := map[nip]bool{}
	add := func(a nip, edge bool) {
		if a.v6 {
			a = ip6(a.b) // stepping over a subnet edge can enter the IPv4-mapped range
		}
		if edge {
			w.edge[a] = true
		}
		if !seen[a] {
			seen[a] = true
			w.ips = append(w.ips, a)
		}
	}
	for _, s := range w.subs {
		add(s.first(), true)
		add(s.last(), true)
		if a, ok := s.first().step(false); ok {
			add(a, true)
		}
		if a, ok := s.last().step(true); ok {
			add(a, true)
		}
	}
	for i := 0; i < 2; i++ {
		add(drawIP(rt, false, "ip4"), false)
		add(drawIP(rt, true, "ip6"), false)
	}
	// addresses that get their own rules: a few of the pool (edges included, so that
	// address rules and subnet rules overlap)
	nr := rapid.IntRange(2, 4).Draw(rt, "nruleips")
	for i := 0; i < nr; i++ {
		w.ruleIPs = append(w.ruleIPs, w.ips[rapid.IntRange(0, len(w.ips)-1).Draw(rt, "ruleip")])
	}
	for i := range w.ips {
		a := w.ips[i]
		texts, non := ipComponents(a)
		for k, t := range texts {
			sfx := rapid.SampledFrom(suffixes).Draw(rt, "suffix")
			sfx = strings.ReplaceAll(sfx, "%P", pid(0).String())
			w.probes = append(w.probes, probe{ip: &w.ips[i], addr: mustAddr(t + sfx), form: t + sfx, noncan: non[k], edge: w.edge[a]})
		}
		if i < 3 {
			w.probes = append(w.probes, probe{ip: &w.ips[i], addr: mustAddr(texts[0] + "/tcp/4001/p2p/" + relayID.String() + "/p2p-circuit"), form: "relay", relay: true})
		}
	}
	for _, s := range []string{"/dns4/example.com/tcp/443", "/dns6/example.com/udp/1/quic-v1", "/dns/example.com/tcp/1/ws", "/dnsaddr/bootstrap.example",
		"/p2p-circuit", "/p2p/" + relayID.String() + "/p2p-circuit", "/dns4/relay.example/tcp/1/p2p/" + relayID.String() + "/p2p-circuit", "/unix/tmp/c10.sock"} {
		w.probes = append(w.probes, probe{addr: mustAddr(s), form: s})
	}
	return w
}

func (w *world) nonCIDR() bool {
	for _, s := range w.subs {
		if s.bits < 0 {
			return true
		}
	}
	return false
}

func (w *world) fingerprint() string {
	var b strings.Builder
	for _, s := range w.subs {
		b.WriteString(s.semKey() + ";")
	}
	for _, a := range w.ruleIPs {
		b.WriteString(a.String() + ";")
	}
	return b.String()
}

func drawOp(rt *rapid.T, w *world, m *model, failProb int) op {
	o := op{kind: rapid.SampledFrom([]int{0, 0, 1, 2, 2, 3, 4, 4, 4, 5, 5}).Draw(rt, "op")}
	switch o.kind {
	case opBlockPeer, opUnblockPeer:
		o.idx = rapid.IntRange(0, nPeers-2).Draw(rt, "peer") // the last peer is never blocked
	case opBlockAddr, opUnblockAddr:
		o.idx = rapid.IntRange(0, len(w.ruleIPs)-1).Draw(rt, "ip")
		o.form = rapid.IntRange(0, nIPForms-1).Draw(rt, "ipform")
	default:
		o.idx = rapid.IntRange(0, len(w.subs)-1).Draw(rt, "sub")
		s := w.subs[o.idx]
		if s.v6 {
			o.form = rapid.IntRange(0, 1).Draw(rt, "subform")
		} else {
			o.form = rapid.IntRange(0, nSubForms-1).Draw(rt, "subform")
		}
		o.noise = drawBytes(rt, 16, "hostbits")
		if o.kind == opUnblockSubnet && rapid.IntRange(0, 3).Draw(rt, "sameText") > 0 {
			// mostly unblock in the spelling that was blocked (other spellings exercise the
			// ambiguity rule)
			if st := m.subs[s.semKey()]; st != nil && len(st.texts) > 0 {
				var ts []string
				for t := range st.texts {
					ts = append(ts, t)
				}
				sort.Strings(ts)
				want := ts[rapid.IntRange(0, len(ts)-1).Draw(rt, "text")]
				if a, ok := textToGiven(want, s); ok {
					o.form, o.noise = sfHostBits, a.b
				}
			}
		}
	}
	if failProb > 0 && rapid.IntRange(0, 99).Draw(rt, "fail") < failProb {
		o.fail = true
	}
	if o.kind >= opBlockAddr {
		// value semantics: the rule is what the argument said when the call was made; afterwards the
		// caller does what it likes with the value it passed
		if o.scribble = rapid.SampledFrom([]int{scNone, scNone, scIPBytes, scMaskBytes, scReuse}).Draw(rt, "argAfterCall"); o.scribble != scNone {
			if o.kind < opBlockSubnet {
				o.scribble = scIPBytes
			}
			o.scr = drawBytes(rt, 16, "scribble")
		}
	}
	return o
}

// textToGiven recovers the given (host-bit carrying) IP of a textual identity.
func textToGiven(text string, s sub) (nip, bool) {
	ipStr, _, ok := strings.Cut(text, "/")
	if !ok {
		return nip{}, false
	}
	a, ok := normalize(parseAny(ipStr))
	if !ok || a.v6 != s.v6 {
		return nip{}, false
	}
	return a, true
}

func parseAny(s string) net.IP {
	ip := net.ParseIP(s)
	if ip == nil {
		return nil
	}
	if !strings.Contains(s, ":") {
		return ip.To4()
	}
	return ip.To16()
}

// ---------------------------------------------------------------------------
// comparing a gater with the model

type cma struct{ l, r ma.Multiaddr }

func (c cma) LocalMultiaddr() ma.Multiaddr  { return c.l }
func (c cma) RemoteMultiaddr() ma.Multiaddr { return c.r }

var _ network.ConnMultiaddrs = cma{}

var localAddr = mustAddr("/ip4/198.51.100.1/tcp/4001")

type failer interface {
	Fatalf(format string, args ...any)
}

// obs collects what a comparison saw (for the non-trivial rule / labels).
type obs struct {
	noncanonBlocked, edgeBlocked, edgeFree, unspecified, ambiguous bool
	relayBlocked                                                   bool // a circuit address through a blocked relay IP was refused for dialling
	blockedProbes, freeProbes, refusedCalls                        int
	listsScribbled                                                 bool            // a non-empty ListBlocked* result was overwritten by the caller
	scribbles                                                      map[string]bool // what callers did with their arguments after a call (labels)
}

func (o *obs) noteScribble(op op, ok bool) {
	if op.scribble == scNone {
		return
	}
	if o.scribbles == nil {
		o.scribbles = map[string]bool{}
	}
	res := "ok"
	if !ok {
		res = "error"
	}
	o.scribbles["caller "+scribbleNames[op.scribble]+" after "+opNames[op.kind]+"->"+res] = true
}

// checkGater compares g with every model state between lo and hi (lo == hi: exact).
func checkGater(f failer, what string, g *conngater.BasicConnectionGater, w *world, lo, hi *model, o *obs) {
	// ---- lists
	gotPeers := map[peer.ID]int{}
	for _, p := range g.ListBlockedPeers() {
		gotPeers[p]++
	}
	for i, p := range w.peers {
		v := join(lo.peerVerdict(i), hi.peerVerdict(i))
		n := gotPeers[p]
		delete(gotPeers, p)
		if n > 1 {
			f.Fatalf("%s: ListBlockedPeers lists peer%d %d times", what, i, n)
		}
		if v == yes && n == 0 {
			f.Fatalf("%s: peer%d is blocked (its BlockPeer call returned success) but ListBlockedPeers does not list it", what, i)
		}
		if v == no && n != 0 {
			f.Fatalf("%s: peer%d is not blocked but ListBlockedPeers lists it", what, i)
		}
	}
	if len(gotPeers) != 0 {
		f.Fatalf("%s: ListBlockedPeers lists peers that were never blocked: %v", what, gotPeers)
	}
	gotAddrs := map[nip]int{}
	listedAddrs := g.ListBlockedAddrs()
	for _, ip := range listedAddrs {
		a, ok := normalize(ip)
		if !ok {
			f.Fatalf("%s: ListBlockedAddrs returned an invalid IP %v", what, []byte(ip))
		}
		gotAddrs[a]++
	}
	for _, a := range w.ruleIPs {
		var v tri = no
		if lo.addrs[a] {
			v = yes
		}
		var v2 tri = no
		if hi.addrs[a] {
			v2 = yes
		}
		v = join(v, v2)
		n, listed := gotAddrs[a]
		if n > 1 {
			f.Fatalf("%s: ListBlockedAddrs lists %s %d times", what, a, n)
		}
		if v == yes && !listed {
			f.Fatalf("%s: address %s is blocked but ListBlockedAddrs does not list it (listed: %v)", what, a, gotAddrs)
		}
		if v == no && listed {
			f.Fatalf("%s: address %s is not blocked but ListBlockedAddrs lists it", what, a)
		}
	}
	for a := range gotAddrs {
		known := false
		for _, r := range w.ruleIPs {
			known = known || r == a
		}
		if !known {
			f.Fatalf("%s: ListBlockedAddrs lists %s, which was never blocked", what, a)
		}
	}
	gotSubs := map[string]bool{}
	listedSubs := g.ListBlockedSubnets()
	for _, n := range listedSubs {
		s, ok := subOfIPNet(n)
		if !ok {
			f.Fatalf("%s: ListBlockedSubnets returned an unusable IPNet %v", what, n)
		}
		gotSubs[s.semKey()] = true
	}
	for _, s := range w.subs {
		k := s.semKey()
		stLo, stHi := lo.subs[k], hi.subs[k]
		var v, v2 tri = no, no
		if stLo != nil {
			v = stLo.state()
		}
		if stHi != nil {
			v2 = stHi.state()
		}
		if (stLo != nil && stLo.mixed()) || (stHi != nil && stHi.mixed()) {
			o.ambiguous = true
		}
		v = join(v, v2)
		if v == yes && !gotSubs[k] {
			f.Fatalf("%s: subnet %s is blocked but ListBlockedSubnets does not list it (listed: %v)", what, k, gotSubs)
		}
		if v == no && gotSubs[k] {
			f.Fatalf("%s: subnet %s is not blocked but ListBlockedSubnets lists it", what, k)
		}
		delete(gotSubs, k)
	}
	if len(gotSubs) != 0 {
		f.Fatalf("%s: ListBlockedSubnets lists subnets that were never blocked: %v", what, gotSubs)
	}
	// the caller owns what the List* calls returned: it overwrites the values; the hooks below and every
	// later comparison must see the rules unchanged
	for _, ip := range listedAddrs {
		scribbleIP(ip, [16]byte{})
	}
	for _, n := range listedSubs {
		scribbleIP(n.IP, [16]byte{})
		scribbleIP(net.IP(n.Mask), [16]byte{})
	}
	o.listsScribbled = o.listsScribbled || len(listedAddrs)+len(listedSubs) > 0

	// ---- hooks
	type seen struct {
		set            bool
		dial, accept   bool
		form, dialForm string
	}
	perIP := map[nip]*seen{}
	for pi, p := range w.peers {
		pv := join(lo.peerVerdict(pi), hi.peerVerdict(pi))
		got := !g.InterceptPeerDial(p)
		if pv == yes && !got {
			f.Fatalf("%s: peer%d is blocked but InterceptPeerDial allows it", what, pi)
		}
		if pv == no && got {
			f.Fatalf("%s: peer%d is not blocked but InterceptPeerDial refuses it", what, pi)
		}
	}
	for k := range w.probes {
		pr := &w.probes[k]
		pi := k % nPeers
		p := w.peers[pi]
		pv := join(lo.peerVerdict(pi), hi.peerVerdict(pi))
		var iv tri = no
		if pr.ip != nil {
			iv = join(lo.ipVerdict(*pr.ip), hi.ipVerdict(*pr.ip))
		}
		conn := cma{l: localAddr, r: pr.addr}
		addrDial := !g.InterceptAddrDial(p, pr.addr)
		if pr.relay && iv != no {
			// outbound, the IP of a circuit address is where the dial goes (a connection with the relay is
			// opened or re-used): a rule in force on it rules the candidate out. As the remote address of an
			// inbound connection it names the relay, not the remote: no verdict.
			if iv == yes {
				if !addrDial {
					f.Fatalf("%s: InterceptAddrDial allows peer%d at %s although the relay's IP %v matches a rule in force", what, pi, pr.addr, pr.ip)
				}
				o.relayBlocked = true
			}
			iv = either
		}
		accept := !g.InterceptAccept(conn)
		securedIn := !g.InterceptSecured(network.DirInbound, p, conn)
		securedOut := !g.InterceptSecured(network.DirOutbound, p, conn)
		upgradedAllow, _ := g.InterceptUpgraded(nil)

		desc := func() string {
			return fmt.Sprintf("remote peer%d at %s (IP %v: model says %v; peer: %v)", pi, pr.form, pr.ip, iv, pv)
		}
		// address / subnet rules: both address hooks are exact
		switch iv {
		case yes:
			if !addrDial {
				f.Fatalf("%s: InterceptAddrDial allows %s although its IP matches a rule in force", what, desc())
			}
			if !accept {
				f.Fatalf("%s: InterceptAccept allows %s although its IP matches a rule in force", what, desc())
			}
			o.blockedProbes++
			if pr.noncan {
				o.noncanonBlocked = true
			}
			if pr.edge && (lo.viaSubnet(*pr.ip) || hi.viaSubnet(*pr.ip)) {
				o.edgeBlocked = true
			}
		case no:
			if accept {
				f.Fatalf("%s: InterceptAccept refuses %s although no address or subnet rule in force matches", what, desc())
			}
			if addrDial && pv == no {
				f.Fatalf("%s: InterceptAddrDial refuses %s although no rule in force matches", what, desc())
			}
			o.freeProbes++
			if pr.edge {
				o.edgeFree = true
			}
		default:
			if !pr.relay && (lo.ipVerdict(*pr.ip) == either || hi.ipVerdict(*pr.ip) == either) {
				o.unspecified = true
			}
		}
		// the whole outbound and inbound paths
		all := or(iv, pv)
		outbound := !g.InterceptPeerDial(p) || addrDial
		inbound := accept || securedIn
		switch all {
		case yes:
			if !outbound {
				f.Fatalf("%s: neither InterceptPeerDial nor InterceptAddrDial refuses %s", what, desc())
			}
			if !inbound {
				f.Fatalf("%s: neither InterceptAccept nor InterceptSecured(inbound) refuses %s", what, desc())
			}
		case no:
			if outbound || inbound || securedOut || !upgradedAllow {
				f.Fatalf("%s: %s matches no rule in force but is refused (peerdial/addrdial=%v accept/secured=%v securedOut=%v upgraded=%v)", what, desc(), outbound, inbound, securedOut, !upgradedAllow)
			}
		}
		if pv == yes && !securedIn {
			f.Fatalf("%s: InterceptSecured(inbound) allows blocked peer%d (%s)", what, pi, desc())
		}
		// every textual form of one IP gets the same verdict
		if pr.ip != nil && !pr.relay {
			s := perIP[*pr.ip]
			if s == nil {
				s = &seen{accept: accept, form: pr.form}
				perIP[*pr.ip] = s
			} else if s.accept != accept {
				f.Fatalf("%s: InterceptAccept gives different verdicts for two spellings of IP %s: %s refused=%v, %s refused=%v", what, pr.ip, s.form, s.accept, pr.form, accept)
			}
			if pv == no { // (with a blocked peer InterceptAddrDial is free to answer either way)
				if s.set && s.dial != addrDial {
					f.Fatalf("%s: InterceptAddrDial gives different verdicts for two spellings of IP %s: %s refused=%v, %s refused=%v", what, pr.ip, s.dialForm, s.dial, pr.form, addrDial)
				}
				s.set, s.dial, s.dialForm = true, addrDial, pr.form
			}
		}
	}
}
