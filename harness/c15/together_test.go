package c15

// together_test.go: many goroutines emit at the same instant.
//
// The schedule engine (engine_test.go) runs at most three emit goroutines and spends most of a
// case on bookkeeping. The quantifier of the property says "Emit from several emitters and
// goroutines" without a bound, on "the event bus" however it was constructed; this file
// generates the plain shape with 2-8 goroutines, each with an emitter of its own (types
// generated: all one type, or spread over three), released together by a barrier, in 1-3
// rounds per case; every round has 1-8 fresh subscriptions (wildcard / one type / several
// types; generated BufSize; eventbus.Name given or not, names distinct, shared, mostly new to
// the process) that are read eagerly; the bus is plain, has the counting tracer of the
// harness, or (most cases) the library's own Prometheus tracer.
//
// Oracle (quiescent completeness, the statement's first sentence): once every Emit of the
// round has returned and the bubble is quiescent, each subscription of the round has
// received exactly the events of the round whose type it subscribed to - each once, those
// of one emitter in the order emitted - and nothing else (all emitters are plain, so nothing
// emitted before Subscribe may show up). Every Emit returns nil, every call returns (eager
// readers: nothing can stay blocked), nothing panics; a fatal error of the runtime inside a
// delivery ends the process and is reported by the driver as process-crash.

import (
	"fmt"
	"runtime"
	"strings"
	"sync"
	"sync/atomic"
	"testing"
	"testing/synctest"

	"github.com/libp2p/go-libp2p/core/event"
	"github.com/libp2p/go-libp2p/p2p/host/eventbus"
	"github.com/prometheus/client_golang/prometheus"
	"pgregory.net/rapid"

	"verif/internal/hx"
	"verif/internal/stats"
)

type togetherSub struct {
	Kind  string `json:"kind"` // wild | single | multi
	Types []int  `json:"types,omitempty"`
	Buf   int    `json:"buf"` // -1 = option omitted
	Name  string `json:"name,omitempty"`
}

func (s togetherSub) matches(t int) bool {
	if s.Kind == "wild" {
		return true
	}
	for _, x := range s.Types {
		if x == t {
			return true
		}
	}
	return false
}

type togetherCase struct {
	Bus    string          `json:"bus"`      // plain | counting-tracer | prometheus-tracer
	EmType []int           `json:"em_types"` // one emitter and one goroutine each
	Burst  []int           `json:"bursts"`   // events per goroutine and round
	Yield  []int           `json:"yields"`   // runtime.Gosched calls of the goroutine after the release
	Tight  bool            `json:"tight"`    // released by the non-yielding barrier
	Rounds [][]togetherSub `json:"rounds"`
}

func genTogether(rt *rapid.T) *togetherCase {
	c := &togetherCase{Bus: []string{"prometheus-tracer", "counting-tracer", "plain"}[weighted(rt, "bus", []int{70, 15, 15})]}
	g := rapid.SampledFrom([]int{2, 2, 3, 3, 4, 5, 6, 8}).Draw(rt, "goroutines")
	oneType := rapid.IntRange(0, 3).Draw(rt, "oneType") == 0
	t0 := rapid.IntRange(0, nTypes-1).Draw(rt, "type0")
	for i := 0; i < g; i++ {
		t := t0
		if !oneType {
			t = rapid.IntRange(0, nTypes-1).Draw(rt, "emType")
		}
		c.EmType = append(c.EmType, t)
		c.Burst = append(c.Burst, rapid.SampledFrom([]int{1, 1, 2, 3, 5}).Draw(rt, "burst"))
		c.Yield = append(c.Yield, rapid.SampledFrom([]int{0, 0, 0, 0, 1, 2}).Draw(rt, "yield"))
	}
	c.Tight = rapid.IntRange(0, 3).Draw(rt, "tight") != 0
	nameBase := 16 * rapid.IntRange(0, 2047).Draw(rt, "nameBase")
	next := 0
	for r, n := 0, rapid.IntRange(1, 3).Draw(rt, "rounds"); r < n; r++ {
		var subs []togetherSub
		nameMode := weighted(rt, "nameMode", []int{75, 10, 15}) // each on its own / none named / all share one
		shared := fmt.Sprintf("c15-together-%d", nameBase+next)
		for i, k := 0, rapid.IntRange(1, 8).Draw(rt, "subs"); i < k; i++ {
			s := togetherSub{Buf: rapid.SampledFrom([]int{0, 1, 2, 16, 16, -1}).Draw(rt, "buf")}
			switch weighted(rt, "subKind", []int{50, 20, 30}) {
			case 2:
				s.Kind, s.Types = "single", []int{rapid.IntRange(0, nTypes-1).Draw(rt, "subType")}
			case 1:
				perm := rapid.Permutation([]int{0, 1, 2}).Draw(rt, "multiTypes")
				s.Kind, s.Types = "multi", append([]int{}, perm[:rapid.IntRange(2, 3).Draw(rt, "multiN")]...)
			default: // 0: half of the subscriptions
				s.Kind = "wild"
			}
			switch nameMode {
			case 0:
				switch rapid.IntRange(0, 9).Draw(rt, "name") {
				case 0: // option omitted
				case 1: // the name of the previous subscription again
					if i > 0 {
						s.Name = subs[i-1].Name
					}
				default:
					next++
					s.Name = fmt.Sprintf("c15-together-%d", nameBase+next)
				}
			case 2:
				s.Name = shared
			}
			subs = append(subs, s)
		}
		next++
		c.Rounds = append(c.Rounds, subs)
	}
	return c
}

func (c *togetherCase) fingerprint() string {
	var b strings.Builder
	fmt.Fprintf(&b, "%s em=%v n=%v y=%v tight=%v", c.Bus, c.EmType, c.Burst, c.Yield, c.Tight)
	for _, subs := range c.Rounds {
		b.WriteString(" |")
		idx := map[string]int{"": 0}
		for _, s := range subs {
			if _, ok := idx[s.Name]; !ok {
				idx[s.Name] = len(idx)
			}
			fmt.Fprintf(&b, " %s%v/%d/n%d", s.Kind, s.Types, s.Buf, idx[s.Name])
		}
	}
	return b.String()
}

// runTogether executes c inside a bubble and returns the first rule that was broken ("" = none).
func runTogether(c *togetherCase) (failure string) {
	var bus event.Bus
	switch c.Bus {
	case "plain":
		bus = eventbus.NewBus()
	case "counting-tracer":
		bus = eventbus.NewBus(eventbus.WithMetricsTracer(&countingTracer{}))
	default:
		bus = eventbus.NewBus(eventbus.WithMetricsTracer(eventbus.NewMetricsTracer(eventbus.WithRegisterer(prometheus.NewRegistry()))))
	}
	ems := make([]event.Emitter, len(c.EmType))
	for i, t := range c.EmType {
		em, err := bus.Emitter(typePtr(t))
		if err != nil {
			return fmt.Sprintf("Emitter(type %d): %v", t, err)
		}
		ems[i] = em
	}
	nextN := make([]int, len(ems))
	for r, specs := range c.Rounds {
		type live struct {
			sub  event.Subscription
			got  []any
			stop chan struct{}
			done chan struct{}
		}
		subs := make([]*live, len(specs))
		for i, sp := range specs {
			var arg any
			switch sp.Kind {
			case "wild":
				arg = event.WildcardSubscription
			case "single":
				arg = typePtr(sp.Types[0])
			default:
				var l []any
				for _, t := range sp.Types {
					l = append(l, typePtr(t))
				}
				arg = l
			}
			var opts []event.SubscriptionOpt
			if sp.Buf >= 0 {
				opts = append(opts, eventbus.BufSize(sp.Buf))
			}
			if sp.Name != "" {
				opts = append(opts, eventbus.Name(sp.Name))
			}
			sub, err := bus.Subscribe(arg, opts...)
			if err != nil {
				return fmt.Sprintf("round %d: Subscribe %+v: %v", r, sp, err)
			}
			l := &live{sub: sub, stop: make(chan struct{}), done: make(chan struct{})}
			subs[i] = l
			go func() {
				defer close(l.done)
				for {
					select {
					case v, ok := <-sub.Out():
						if !ok {
							return
						}
						l.got = append(l.got, v)
					case <-l.stop:
						return
					}
				}
			}()
		}
		// the round: every goroutine emits its burst, all released together
		first := append([]int{}, nextN...)
		var arrived, lined atomic.Int32
		var start atomic.Bool
		var wg sync.WaitGroup
		errs := make([]error, len(ems))
		for g := range ems {
			wg.Add(1)
			n0 := nextN[g]
			nextN[g] += c.Burst[g]
			go func() {
				defer wg.Done()
				arrived.Add(1)
				for !start.Load() {
					runtime.Gosched()
				}
				if c.Tight {
					lined.Add(1)
					for k := 0; k < 50000 && int(lined.Load()) < len(ems); k++ {
					}
				}
				for k := 0; k < c.Yield[g]; k++ {
					runtime.Gosched()
				}
				for k := 0; k < c.Burst[g]; k++ {
					if err := ems[g].Emit(mkEvent(c.EmType[g], g, n0+k)); err != nil && errs[g] == nil {
						errs[g] = err
					}
				}
			}()
		}
		for int(arrived.Load()) < len(ems) {
			runtime.Gosched()
		}
		start.Store(true)
		wg.Wait() // eager readers: every Emit returns (a deadlock ends the bubble with a panic)
		synctest.Wait()
		for g, err := range errs {
			if err != nil && failure == "" {
				failure = fmt.Sprintf("round %d: Emit of goroutine %d returned %v", r, g, err)
			}
		}
		// the readers are parked on empty channels now: stop them, then judge what they read
		for _, l := range subs {
			close(l.stop)
			<-l.done
		}
		for i, l := range subs {
			seen := map[evKey]int{}
			last := map[int]int{}
			for _, v := range l.got {
				t, em, n, ok := decode(v)
				if !ok || em < 0 || em >= len(ems) || t != c.EmType[em] {
					return fmt.Sprintf("round %d: subscription %d %+v received a value nobody emitted: %#v", r, i, specs[i], v)
				}
				if failure != "" {
					continue
				}
				switch {
				case !specs[i].matches(t):
					failure = fmt.Sprintf("round %d: subscription %d %+v received %#v of a type it did not subscribe to", r, i, specs[i], v)
				case n < first[em] || n >= nextN[em]:
					failure = fmt.Sprintf("round %d: subscription %d %+v received %#v, which was not emitted during its lifetime (this round: numbers %d..%d)", r, i, specs[i], v, first[em], nextN[em]-1)
				case seen[evKey{em, n}] > 0:
					failure = fmt.Sprintf("round %d: subscription %d %+v received %#v twice", r, i, specs[i], v)
				default:
					if p, ok := last[em]; ok && n < p {
						failure = fmt.Sprintf("round %d: subscription %d %+v received %#v after number %d of the same emitter (order)", r, i, specs[i], v, p)
					}
				}
				seen[evKey{em, n}]++
				last[em] = n
			}
			for g := range ems {
				for n := first[g]; n < nextN[g] && failure == ""; n++ {
					if specs[i].matches(c.EmType[g]) && seen[evKey{g, n}] == 0 {
						failure = fmt.Sprintf("round %d: subscription %d %+v never received event %d of emitter %d (type %d), emitted after Subscribe returned; every Emit has returned and the reader is idle (received %d events)", r, i, specs[i], n, g, c.EmType[g], len(l.got))
					}
				}
			}
		}
		for _, l := range subs {
			if err := l.sub.Close(); err != nil && failure == "" {
				failure = fmt.Sprintf("round %d: Subscription.Close: %v", r, err)
			}
		}
		if failure != "" {
			break
		}
	}
	for _, em := range ems {
		if err := em.Close(); err != nil && failure == "" {
			failure = fmt.Sprintf("Emitter.Close: %v", err)
		}
	}
	return failure
}

func TestManyGoroutinesEmitTogether(t *testing.T) {
	name := t.Name()
	hx.Check(t, 10000, 400000, 0, func(rt *rapid.T) {
		c := genTogether(rt)
		var failure string
		hx.Bubble(t, rt, func() {
			failure = runTogether(c)
		})
		types, wild, named, names := map[int]bool{}, false, 0, map[string]bool{}
		for _, t := range c.EmType {
			types[t] = true
		}
		fanIn := false // some subscription hears two or more of the goroutines
		for _, subs := range c.Rounds {
			for _, s := range subs {
				wild = wild || s.Kind == "wild"
				if s.Name != "" {
					named++
					names[s.Name] = true
				}
				heard := 0
				for _, t := range c.EmType {
					if s.matches(t) {
						heard++
					}
				}
				fanIn = fanIn || heard >= 2
			}
		}
		labels := []string{"bus:" + c.Bus, fmt.Sprintf("goroutines:%d", len(c.EmType)), fmt.Sprintf("rounds:%d", len(c.Rounds))}
		add := func(ok bool, l string) {
			if ok {
				labels = append(labels, l)
			}
		}
		add(len(types) >= 2, "emit-types>=2")
		add(wild, "sub:wild")
		add(named > 0, "sub:named")
		add(len(names) >= 2, "sub:named:distinct-names>=2")
		add(named > len(names), "sub:named:two-share-a-name")
		add(c.Tight, "released-by-non-yielding-barrier")
		if c.Bus == "prometheus-tracer" {
			add(wild, "prometheus-tracer:concurrent-emits:wildcard-subscriber")
			add(wild && named > 0, "prometheus-tracer:concurrent-emits:wildcard-subscriber:named")
			add(len(types) >= 2, "prometheus-tracer:concurrent-emits:different-types")
			add(len(names) >= 2, "prometheus-tracer:concurrent-emits:distinct-names>=2")
			add(len(c.EmType) >= 4, "prometheus-tracer:concurrent-emits:goroutines>=4")
		}
		stats.Case(name, c.fingerprint(), fanIn, labels...)
		if stats.WantSample(name) {
			stats.Sample(name, map[string]any{"case": c, "labels": labels})
		}
		if failure != "" {
			rt.Fatalf("%s\ncase: %+v", failure, *c)
		}
	})
}
