package c15

// oracle_test.go: the oracles. They are evaluated at quiescence points only (every
// goroutine of the bubble durably blocked) from the emission log (logical stamps taken
// right before / after each call) and from what every subscriber received. Nothing here
// looks inside the bus.
//
// Vocabulary. For an event x: begin(x) / end(x) = stamps around its Emit call (end = 0
// while the call has not returned); "ok" = Emit returned nil. For a subscription S:
// subBegin / subRet around Subscribe, closeCall / closeRet around Close.
//   MUST(x,S)  x ok, type subscribed, begin(x) > subRet(S) and (Close not called or
//              end(x) < closeCall(S)): x was emitted entirely inside the subscription's life.
//   old(x,S)   end(x) < subBegin(S): x was emitted entirely before the subscription.
// Events whose Emit overlaps Subscribe or Close may or may not be delivered.

import (
	"fmt"
	"sort"
	"strings"
)

func (h *harness) check() {
	// Calls generated as "the bus has to refuse this" (see badSpec). That they returned at all
	// is checked with every other call (quiesce). An accepted one would be a subscription /
	// emitter for something that is not an event type, about which the property says nothing
	// and which this harness could not interpret: it is reported instead of being guessed at.
	// Everything else about a refused call follows from the rules below, which know nothing
	// of it: it has created no subscriber, so it can never be the reason why an Emit waits,
	// and every real subscriber goes on receiving every event exactly once and in order.
	for _, r := range h.bads {
		if r.end != 0 && r.err == nil {
			h.fail("the bus accepted a call it has to refuse (%v; object returned: %v): the history cannot be interpreted from here on", r.spec, r.gotObject)
			return
		}
	}
	for _, s := range h.subs {
		if s.subRet == 0 {
			continue
		}
		h.checkSub(s)
		if h.failure != "" {
			return
		}
	}
	// An Emit that has not returned at a quiescence point must be stalled on a subscriber
	// that can receive the event, is full and is not being read.
	for _, b := range h.bursts {
		if b.finished.Load() {
			continue
		}
		cur := b.recs[b.done.Load()]
		if cur.begin == 0 {
			h.fail("harness: emit goroutine of burst %d never started", b.id)
			return
		}
		justified := false
		for _, s := range h.subs {
			if s.ready() && !s.closeIssued && !s.eager && s.budgetRemaining() == 0 && len(s.ch) == cap(s.ch) && s.matches(cur.typ) {
				justified = true
			}
		}
		if !justified {
			h.fail("Emit of %v has not returned at a quiescence point although no open subscriber that can receive it is full and unread", cur)
			return
		}
		h.label("emit-blocked-at-quiescence")
	}
}

func (h *harness) lookup(s *subState, v any) *emitRec {
	t, em, n, ok := decode(v)
	if !ok {
		h.fail("s%d received a value that is not an emitted event: %#v", s.id, v)
		return nil
	}
	rec := h.recs[evKey{em, n}]
	if rec == nil || rec.begin == 0 || rec.typ != t {
		h.fail("s%d received %#v, which no Emit call has been given", s.id, v)
		return nil
	}
	return rec
}

// superseded reports an ok event of the same type that was emitted entirely after r and
// entirely before s was subscribed: r then cannot be "the most recent earlier event".
func (h *harness) superseded(s *subState, r *emitRec) *emitRec {
	if r.end == 0 {
		return nil
	}
	for _, x := range h.all {
		if x.typ == r.typ && x.ok() && x.begin > r.end && x.end < s.subBegin {
			return x
		}
	}
	return nil
}

// declaredStateful: a Stateful emitter of type t was being opened or had been opened
// before stamp (its bus.Emitter call began before stamp and was accepted): the type may
// remember events from then on.
func (h *harness) declaredStateful(t int, stamp int64) bool {
	for _, e := range h.ems {
		if e.typ == t && e.stateful && e.createdRet != 0 && e.createdCall < stamp {
			return true
		}
	}
	return false
}

// inUseThroughout: going by the call stamps alone, type t had at every moment from stamp a
// to stamp b at least one emitter that had been returned and not yet been asked to close,
// or one typed subscription (other than skip) likewise. The bus documents that a type's
// state lives as long as the type has emitters or subscribers; this is the chain of
// overlapping lifetimes that keeps it alive, whoever opened or closed what in between.
func (h *harness) inUseThroughout(t int, a, b int64, skip *subState) bool {
	type span struct{ from, to int64 }
	const open = int64(1) << 62
	var spans []span
	add := func(from, closeCall int64) {
		if from == 0 {
			return
		}
		if closeCall == 0 {
			closeCall = open
		}
		spans = append(spans, span{from, closeCall})
	}
	for _, e := range h.ems {
		if e.typ == t {
			add(e.createdRet, e.closeCall)
		}
	}
	for _, o := range h.subs {
		if o != skip && !o.wild && o.types[t] {
			add(o.subRet, o.closeCall)
		}
	}
	reach := a // in use from a up to and including reach
	for grown := true; grown && reach <= b; {
		grown = false
		for _, sp := range spans {
			if sp.from <= reach && sp.to > reach {
				reach, grown = sp.to, true
			}
		}
	}
	return reach > b
}

// replayInfo says what a required replay went through (coverage only).
type replayInfo struct {
	plainOpenedSince  bool // an emitter WITHOUT Stateful was opened for the type after it had become stateful and before the subscription
	plainOpenedBefore bool // the type became stateful although an emitter without Stateful had been opened for it earlier (and was still open)
	declarersClosed   bool // every Stateful emitter of the type had been asked to close before the subscription: plain emitters / subscriptions kept the type
	midHistory        bool // one of the disagreeing emitters was opened by a step of the history, after events of the type
}

// replayRequired: some Stateful emitter d of the type had been returned ("a type is
// stateful once any emitter declared it so"), some ok event x of the type was emitted
// after that and entirely before the subscription, and the type was in use all the way
// from d's creation until after Subscribe returned - by whichever emitters (Stateful or
// not) and typed subscriptions: opening further emitters for the type, with or without
// Stateful, or closing some of them (d included) does not end the type's statefulness.
func (h *harness) replayRequired(s *subState, t int) (bool, replayInfo) {
	var info replayInfo
	for _, d := range h.ems {
		if d.typ != t || !d.stateful || d.createdRet == 0 || d.createdRet >= s.subBegin {
			continue
		}
		have := false
		for _, x := range h.all {
			if x.typ == t && x.ok() && x.begin > d.createdRet && x.end < s.subBegin {
				have = true
				break
			}
		}
		if !have || !h.inUseThroughout(t, d.createdRet, s.subRet, s) {
			continue
		}
		info.declarersClosed = true
		for _, e := range h.ems {
			if e.typ != t || e.createdRet == 0 || e.createdCall > s.subBegin {
				continue
			}
			if e.stateful {
				if e.closeCall == 0 || e.closeCall > s.subBegin {
					info.declarersClosed = false
				}
				continue
			}
			if e.createdCall > d.createdRet {
				info.plainOpenedSince = true
				info.midHistory = info.midHistory || e.midHistory
			} else if e.createdRet < d.createdCall && (e.closeCall == 0 || e.closeCall > d.createdRet) {
				info.plainOpenedBefore = true
				info.midHistory = info.midHistory || d.midHistory
			}
		}
		return true, info
	}
	return false, info
}

func (h *harness) checkSub(s *subState) {
	seen := map[evKey]bool{}
	var seq []*emitRec // reader's receive order
	var firstOfType [nTypes]*emitRec
	var firstPre [nTypes]bool
	pos := map[*emitRec]int{}

	admit := func(r readRec, fromReader bool) *emitRec {
		rec := h.lookup(s, r.v)
		if rec == nil {
			return nil
		}
		if !s.matches(rec.typ) {
			h.fail("s%d (%v) received %v of a type it did not subscribe to", s.id, s.spec, rec)
			return nil
		}
		if rec.end != 0 && rec.err != nil {
			h.fail("s%d received %v although its Emit returned an error (%v)", s.id, rec, rec.err)
			return nil
		}
		k := evKey{rec.em, rec.n}
		if seen[k] {
			h.fail("s%d received %v twice", s.id, rec)
			return nil
		}
		seen[k] = true
		if s.closeRet != 0 && rec.begin > s.closeRet {
			h.fail("s%d received %v whose Emit began after Subscription.Close had returned", s.id, rec)
			return nil
		}
		return rec
	}

	for _, r := range s.reads {
		rec := admit(r, true)
		if rec == nil {
			return
		}
		pos[rec] = len(seq)
		seq = append(seq, rec)
		if firstOfType[rec.typ] == nil {
			firstOfType[rec.typ] = rec
			firstPre[rec.typ] = r.pre
		}
	}
	var post []*emitRec
	for _, r := range s.post {
		rec := admit(r, false)
		if rec == nil {
			return
		}
		post = append(post, rec)
	}

	// Order: two events of one emitter never arrive against the order in which they were
	// emitted (b entirely before a, yet a received first).
	order := func(l []*emitRec) bool {
		for i := 0; i < len(l); i++ {
			for j := i + 1; j < len(l); j++ {
				a, b := l[i], l[j]
				if a.em == b.em && b.end != 0 && b.end < a.begin {
					h.fail("s%d received %v before %v, but Emit(%v) had returned before Emit(%v) began", s.id, a, b, b, a)
					return false
				}
			}
		}
		return true
	}
	if !order(seq) || !order(post) {
		return
	}

	// Events emitted entirely before the subscription: only as the retained event of a
	// stateful type, first of its type, and only the most recent one.
	for i, rec := range append(append([]*emitRec{}, seq...), post...) {
		if rec.end == 0 || rec.end >= s.subBegin {
			continue
		}
		if !h.declaredStateful(rec.typ, rec.end) {
			h.fail("s%d received %v, emitted before it subscribed, for a type that no emitter had declared stateful by then", s.id, rec)
			return
		}
		if i < len(seq) && firstOfType[rec.typ] != rec {
			h.fail("s%d received %v, emitted before it subscribed, after it had already received %v of that type (retained event not first / more than one)", s.id, rec, firstOfType[rec.typ])
			return
		}
		if x := h.superseded(s, rec); x != nil {
			h.fail("s%d received the retained event %v although %v was emitted after it and before the subscription (not the most recent)", s.id, rec, x)
			return
		}
	}

	// Stateful replay: where one is required, the first event of the type must be one that
	// could have been the most recent at subscribe time.
	drained := s.eager && !s.closeIssued
	if !s.wild {
		for t := 0; t < nTypes; t++ {
			if !s.types[t] {
				continue
			}
			required, info := h.replayRequired(s, t)
			if !required {
				continue
			}
			f := firstOfType[t]
			if f == nil {
				if drained {
					h.fail("s%d subscribed to stateful type %c after events of it had been emitted but received no retained event", s.id, 'A'+t)
					return
				}
				continue
			}
			if !firstPre[t] {
				continue // read while Close was draining: the retained event may have been swallowed
			}
			h.label("stateful-replay-checked")
			if info.plainOpenedSince || info.plainOpenedBefore {
				h.mixedReplayChecked = true
				h.label("stateful-replay-checked:emitters-disagree-on-stateful")
			}
			if info.plainOpenedSince {
				h.label("stateful-replay-checked:plain-emitter-opened-after-stateful-one")
			}
			if info.plainOpenedBefore {
				h.label("stateful-replay-checked:stateful-emitter-opened-after-plain-one")
			}
			if info.declarersClosed {
				h.label("stateful-replay-checked:every-stateful-emitter-closed-before-subscribe")
			}
			if info.midHistory {
				h.label("stateful-replay-checked:disagreeing-emitter-opened-mid-history")
			}
			if !h.ems[f.em].stateful {
				h.label("stateful-replay-checked:first-event-from-plain-emitter")
			}
			if f.begin > s.subRet {
				h.fail("s%d: first event of stateful type %c is %v, emitted after Subscribe returned; the retained event was skipped or came later", s.id, 'A'+t, f)
				return
			}
			if x := h.superseded(s, f); x != nil {
				h.fail("s%d: first event of stateful type %c is %v although %v was emitted after it and before the subscription", s.id, 'A'+t, f, x)
				return
			}
		}
	}

	// Gap-free prefix: everything read before Close was called.
	for j, r := range s.reads {
		if !r.pre {
			continue
		}
		y := seq[j]
		for _, x := range h.all {
			if x.em != y.em || x == y || !x.ok() || x.end >= y.begin {
				continue
			}
			p, have := pos[x]
			needed := x.begin > s.subRet
			if !needed && x.burst == y.burst {
				// contiguity inside one burst: an earlier event of the burst was delivered
				for _, q := range seq[:j] {
					if q.burst == x.burst && q.idx < x.idx {
						needed = true
					}
				}
			}
			if needed && (!have || p > j) {
				h.fail("s%d read %v before Close was called but had not read %v, emitted earlier by the same emitter inside the subscription (gap / dropped event)", s.id, y, x)
				return
			}
		}
	}

	if s.closeRet != 0 {
		// After Close returned: typed channel closed (and, at quiescence, drained); wildcard
		// queue empty for good.
		if s.wild {
			if len(post) > 0 {
				h.fail("wildcard s%d: %v was still queued right after Close returned", s.id, post[0])
				return
			}
			select {
			case v := <-s.ch:
				h.fail("wildcard s%d: %#v arrived after Close had returned", s.id, v)
				return
			default:
			}
		} else {
			if s.notClosed {
				h.fail("s%d: the channel was not closed when Subscription.Close returned", s.id)
				return
			}
			select {
			case v, ok := <-s.ch:
				if ok {
					h.fail("s%d: %#v still readable at a quiescence point after Close returned", s.id, v)
					return
				}
			default:
				h.fail("s%d: the channel is open after Subscription.Close returned", s.id)
				return
			}
		}
		return
	}
	if !s.ready() || s.closeIssued {
		return
	}

	// Completeness / blocks-rather-than-drops at this quiescence point.
	unread := 0
	var firstMissing *emitRec
	for _, x := range h.all {
		if x.ok() && s.matches(x.typ) && x.begin > s.subRet && !seen[evKey{x.em, x.n}] {
			unread++
			if firstMissing == nil {
				firstMissing = x
			}
		}
	}
	if s.eager {
		if unread > 0 {
			h.fail("s%d reads continuously and is drained, but %v (Emit returned nil, begun after Subscribe returned) was never delivered (%d missing)", s.id, firstMissing, unread)
		}
		return
	}
	if unread > len(s.ch) {
		h.fail("s%d: %d events whose Emit returned nil are unread but only %d are queued (cap %d): Emit dropped instead of blocking (first: %v)", s.id, unread, len(s.ch), cap(s.ch), firstMissing)
	}
}

// summary computes the coverage facts of the executed case.
func (h *harness) summary() *result {
	res := &result{excluded: h.excluded, failure: h.failure, stuck: h.stuck, emits: len(h.all), trace: strings.Join(h.trace, " | ")}
	overlap := func(x *emitRec, from, to int64) bool {
		if x.begin == 0 || from == 0 {
			return false
		}
		return x.begin < to && (x.end == 0 || x.end > from)
	}
	// how the bus was built (coverage only; every oracle applies to both constructions alike)
	if h.tracer == nil {
		h.label("bus:plain")
	} else {
		h.label("bus:metrics-tracer")
		if h.tracer.queued.Load() > 0 {
			h.label("bus:metrics-tracer:told-of-a-queued-event")
		}
		if h.tracer.real {
			h.label("bus:metrics-tracer:library-prometheus-tracer")
		}
	}
	if h.sc.Tight {
		h.label("steps-released-by-non-yielding-barrier")
	}
	h.metricsLabels()
	for _, s := range h.subs {
		if s.subRet == 0 {
			continue
		}
		h.label("sub:" + s.spec.Kind)
		h.label(fmt.Sprintf("buf:%d", s.spec.Buf))
		if len(s.reads) > 0 {
			h.label("events-received")
			if h.tracer != nil {
				h.label(fmt.Sprintf("bus:metrics-tracer:events-received-by:%s/buf:%d", s.spec.Kind, s.spec.Buf))
			}
		}
		for _, x := range h.all {
			if !s.matches(x.typ) || (x.end != 0 && x.err != nil) {
				continue
			}
			if s.closeRet != 0 && overlap(x, s.closeCall, s.closeRet) {
				res.nontrivial = true
				h.label("close-sub-overlaps-emit")
				if x.step < s.closeStep {
					h.label("close-sub-overlaps-earlier-blocked-emit")
				}
			}
			if overlap(x, s.subBegin, s.subRet) {
				h.label("subscribe-overlaps-emit")
				if !s.wild && h.declaredStateful(x.typ, s.subRet) {
					for _, o := range h.all {
						if o.typ == x.typ && o != x && o.begin != 0 && o.begin < s.subBegin {
							res.nontrivial = true
							h.label("stateful-replay-overlaps-emit")
							break
						}
					}
				}
			}
		}
		for _, r := range s.reads {
			if rec := h.recs[keyOf(r.v)]; rec != nil && rec.end != 0 && rec.end < s.subBegin {
				h.label("retained-event-delivered")
			}
		}
	}
	// Refused calls: which classes were made, what raced with them and - the part that makes
	// a left-over observable - how much traffic the types they named saw afterwards.
	for _, r := range h.bads {
		if r.end == 0 {
			continue
		}
		b := r.spec
		h.label("refused:" + b.class())
		for _, x := range h.all {
			if overlap(x, r.begin, r.end) {
				h.label("refused-call-overlaps-emit")
				break
			}
		}
		if b.Call != "sub" {
			continue
		}
		named := b.Types
		if b.Why != "opt" {
			named = b.Types[:min(max(b.Pos, 0), len(b.Types))] // the well-formed elements before the offending one
		}
		for _, t := range named {
			after := 0
			retained := false
			for _, x := range h.all {
				if x.typ != t || !x.ok() {
					continue
				}
				if x.begin > r.end {
					after++
				}
				if x.end < r.begin {
					retained = true
				}
			}
			if after > 0 {
				h.label("refused-sub:named-type-emitted-afterwards")
			}
			if after > b.capacity() {
				h.label("refused-sub:named-type-emitted-beyond-its-buffer")
				if b.Why != "opt" {
					res.nontrivial = true
					h.label("refused-sub:type-before-offending-element-emitted-beyond-its-buffer")
				}
			}
			if h.declaredStateful(t, r.begin) && retained && after > 0 {
				h.label("refused-sub:named-stateful-type-with-retained-event-emitted-afterwards")
			}
		}
	}
	// Read-only queries: how often they were made, and next to what.
	for _, q := range h.queries {
		if q.end == 0 {
			continue
		}
		h.label("query")
		for _, x := range h.all {
			if overlap(x, q.begin, q.end) {
				h.label("query:overlaps-emit")
				break
			}
		}
		if q.busWriter {
			h.label("query:next-to-subscribe-close-or-emitter-call")
		}
		if q.emitBlocked {
			h.label("query:while-emit-blocked")
			if q.busWriter {
				h.label("query:while-emit-blocked:next-to-subscribe-close-or-emitter-call")
			}
			if q.outlasted {
				h.label("query:while-emit-blocked:stall-outlasts-the-step")
				if q.busWriter {
					h.label("query:while-emit-blocked:stall-outlasts-the-step:next-to-subscribe-close-or-emitter-call")
				}
			}
		}
	}
	// Emitters of one type that disagree on Stateful: which orders occurred, and whether the
	// later one was opened in the middle of the history (after events of the type).
	if h.mixedReplayChecked {
		res.nontrivial = true
	}
	for _, e := range h.ems {
		for _, o := range h.ems {
			if e.typ != o.typ || e.createdRet == 0 || o.createdRet == 0 || !e.stateful || o.stateful {
				continue
			}
			// e asked for Stateful, o did not
			h.label("emitters-disagree-on-stateful")
			first, second, what := e, o, "plain-emitter-opened-after-stateful-one"
			if o.createdRet < e.createdCall {
				first, second, what = o, e, "stateful-emitter-opened-after-plain-one"
			} else if !(e.createdRet < o.createdCall) {
				h.label("emitters-disagree:opened-concurrently")
				continue
			}
			h.label("emitters-disagree:" + what)
			if first.closeCall != 0 && first.closeCall < second.createdCall {
				h.label("emitters-disagree:first-one-closed-in-between")
			}
			for _, x := range h.all {
				if x.typ == e.typ && x.ok() && x.end < second.createdCall {
					h.label("emitters-disagree:" + what + ":after-events-of-the-type")
					break
				}
			}
		}
	}
	for _, e := range h.ems {
		if e.closedTwice && e.closeRet != 0 {
			h.label("emitter-close-twice")
			if (e.closeErr[0] == nil) != (e.closeErr[1] == nil) {
				h.label("emitter-close-twice:one-refused")
			}
		}
	}
	for _, e := range h.ems {
		if e.closeRet == 0 {
			continue
		}
		for _, x := range h.all {
			if x.em == e.id && overlap(x, e.closeCall, e.closeRet) {
				res.nontrivial = true
				h.label("close-emitter-overlaps-emit")
			}
			if x.em == e.id && x.end != 0 && x.err != nil {
				h.label("emit-refused-closed-emitter")
			}
		}
	}
	for l := range h.labels {
		res.labels = append(res.labels, l)
	}
	sort.Strings(res.labels)
	return res
}

func keyOf(v any) evKey {
	_, em, n, _ := decode(v)
	return evKey{em, n}
}

// metricsLabels: coverage of the class "several goroutines deliver at the same time on a bus
// that reports to the library's own metrics tracer" (labels only, nothing is judged here;
// the rules that apply are the ones for every bus: no panic / crash, exactly once, order).
// Two Emit calls are concurrent when their call intervals overlap by the logical stamps;
// they reach the tracer together when they have a subscriber kind in common that does not
// serialise them (a wildcard subscriber: delivered under a read lock) or are of different
// types (different node locks).
func (h *harness) metricsLabels() {
	names := map[string]bool{}
	named, wild := 0, 0
	for _, s := range h.subs {
		if s.subRet == 0 {
			continue
		}
		if s.spec.Name != "" {
			named++
			names[s.spec.Name] = true
			h.label("sub:named")
		} else {
			h.label("sub:default-name")
		}
		if s.wild {
			wild++
		}
	}
	if named >= 2 && len(names) < named {
		h.label("sub:named:two-share-a-name")
	}
	if len(names) >= 2 {
		h.label("sub:named:distinct-names>=2")
	}
	if h.tracer == nil || !h.tracer.real {
		return
	}
	// emits (returned without error) whose call intervals overlap, made by different goroutines
	sameType, diffType := false, false
	for i, x := range h.all {
		if !x.ok() {
			continue
		}
		for _, y := range h.all[i+1:] {
			if !y.ok() || y.burst == x.burst || !(x.begin < y.end && y.begin < x.end) {
				continue
			}
			if x.typ == y.typ {
				sameType = true
			} else {
				diffType = true
			}
		}
	}
	if !sameType && !diffType {
		return
	}
	h.label("prometheus-tracer:concurrent-emits")
	if h.sc.Tight {
		h.label("prometheus-tracer:concurrent-emits:tight-start")
	}
	if diffType {
		h.label("prometheus-tracer:concurrent-emits:different-types")
	}
	if wild > 0 {
		h.label("prometheus-tracer:concurrent-emits:wildcard-subscriber")
		if len(names) > 0 {
			h.label("prometheus-tracer:concurrent-emits:wildcard-subscriber:named")
		}
	}
	if len(names) >= 2 {
		h.label("prometheus-tracer:concurrent-emits:distinct-names>=2")
	}
}
