package c15

import (
	"fmt"
	"os"
	"runtime"
	"strings"
	"sync/atomic"
	"testing"
	"time"

	"github.com/libp2p/go-libp2p/p2p/host/eventbus"

	"verif/internal/hx"
	"verif/internal/kf"
)

// Finding C15-multitype-subscribe-deadlock.
//
// basicBus.Subscribe registers a multi-type subscription one type at a time; each
// withNode call takes bus.lk, then node.lk, releases bus.lk and leaves node.lk to a
// goroutine that sends the retained event into the new channel (basic.go:80-101,
// 261-279). Nobody can read that channel before Subscribe has returned, so as soon as the
// channel is full (BufSize(0): immediately) the goroutine stays blocked holding node.lk of
// type T while Subscribe goes on to the next type and needs bus.lk again. Any concurrent
// call that takes bus.lk and then waits for T's node.lk - Emitter(new(T)),
// Subscribe(new(T)), or Close of T's last emitter (tryDropNode, basic.go:104-113) - closes
// the cycle: replay waits for a reader, the reader needs Subscribe to return, Subscribe
// waits for bus.lk, the holder of bus.lk waits for node.lk held by the replay. The same
// cycle exists without a stateful type when an Emit of an already registered type fills
// the channel during Subscribe. All three goroutines are blocked for good.
const knownDeadlock = "C15-multitype-subscribe-deadlock"

// knownDeadlockListed: the exclusion is active when the finding is listed as known.
// C15_ASSUME_KNOWN=1 is a development aid (the driver never sets it) to exercise the
// exclusion before the entry exists.
func knownDeadlockListed() bool {
	return kf.Known(knownDeadlock) || os.Getenv("C15_ASSUME_KNOWN") != ""
}

type WT0 struct{}
type WT1 struct{}
type WT2 struct{}
type WT3 struct{}

// TestWitness_MultiTypeSubscribeDeadlock races Subscribe([T0..T3], BufSize(0)), T0 stateful
// with a retained event, against Emitter(new(T0)) + Emitter.Close on a fresh bus until the
// interleaving "bus lock taken between two registrations" occurs. The verdict does not
// come from the waiting time: once Subscribe has not returned for a second, the goroutine
// dump must show the complete cycle (replay goroutine in chan send inside
// Subscribe.func2, a goroutine waiting for a Mutex inside withNode/tryDropNode called from
// Emitter/Close, and Subscribe itself waiting for the bus lock inside withNode); these
// three wait for each other and no other goroutine can release any of them.
func TestWitness_MultiTypeSubscribeDeadlock(t *testing.T) {
	hx.Shard0(t)
	if os.Getenv("C15_ASSUME_KNOWN") != "" && !kf.Known(knownDeadlock) {
		t.Skip("development run: finding assumed known, witness not evaluated")
	}
	kf.Witness(t, knownDeadlock, func() (bool, string) {
		attempts := hx.Pick(2000, 6000)
		for attempt := 0; attempt < attempts; attempt++ {
			bus := eventbus.NewBus()
			em, err := bus.Emitter(new(WT0), eventbus.Stateful)
			if err != nil {
				t.Fatal(err)
			}
			em.Emit(WT0{})
			var start, subscribed atomic.Bool
			var arrived atomic.Int32
			done := make(chan struct{})
			go func() {
				arrived.Add(1)
				for !start.Load() {
					runtime.Gosched()
				}
				sub, err := bus.Subscribe([]any{new(WT0), new(WT1), new(WT2), new(WT3)}, eventbus.BufSize(0))
				subscribed.Store(true)
				if err != nil {
					panic(err)
				}
				go func() {
					for range sub.Out() {
					}
				}()
				sub.Close()
				close(done)
			}()
			go func() {
				arrived.Add(1)
				for !start.Load() {
					runtime.Gosched()
				}
				// keep taking the bus lock + T0's node lock for as long as Subscribe runs
				for !subscribed.Load() {
					e2, err := bus.Emitter(new(WT0), eventbus.Stateful)
					if err != nil {
						panic(err)
					}
					e2.Close()
				}
			}()
			for arrived.Load() < 2 {
				runtime.Gosched()
			}
			start.Store(true)
			select {
			case <-done:
				em.Close()
				continue
			case <-time.After(time.Second):
			}
			buf := make([]byte, 4<<20)
			buf = buf[:runtime.Stack(buf, true)]
			var replay, lockUser, subscribe bool
			for _, g := range strings.Split(string(buf), "\n\n") {
				head, _, _ := strings.Cut(g, "\n")
				switch {
				case strings.Contains(head, "[chan send") && strings.Contains(g, "eventbus.(*basicBus).Subscribe.func2"):
					replay = true
				case strings.Contains(head, "Mutex.Lock") && strings.Contains(g, "eventbus.(*basicBus).Subscribe("):
					subscribe = true
				case strings.Contains(head, "Mutex.Lock") && (strings.Contains(g, "eventbus.(*basicBus).Emitter(") || strings.Contains(g, "eventbus.(*emitter).Close(")):
					lockUser = true
				}
			}
			if replay && lockUser && subscribe {
				return true, fmt.Sprintf("attempt %d: Subscribe([T0,T1,T2,T3], BufSize(0)) with a retained T0 event, concurrent with Emitter(new(T0))/Emitter.Close: "+
					"the retained-event goroutine is blocked in chan send holding T0's node lock (nobody can read before Subscribe returns), "+
					"Emitter/Close holds the bus lock waiting for that node lock, Subscribe waits for the bus lock to register T1: permanent deadlock", attempt)
			}
			<-done // merely slow: not the cycle
			em.Close()
		}
		return false, ""
	})
}
