// Package c15 checks property C15: the event bus delivers every event exactly once, in
// order, without deadlock.
//
// engine_test.go: the scenario language, the runner that executes a scenario against the
// real eventbus inside a synctest bubble, and the lock-hazard filter that keeps the bubble
// able to reach quiescence (see "Why a hazard filter" below).
//
// Why a hazard filter. The bus serialises on sync.Mutex / sync.RWMutex (node.lk,
// wildcardNode, basicBus.lk). An Emit that is stalled on a full subscriber keeps its node
// lock (typed sink) or the wildcard read lock (wildcard sink) for as long as the
// subscriber does not read; so does the goroutine Subscribe starts to replay the retained
// event of a stateful type. A goroutine that waits for such a lock is blocked on a mutex,
// and a mutex wait is not "durably blocked" for testing/synctest: synctest.Wait and the
// virtual clock then never make progress again (real hang). That state is legal for the bus
// (everything resumes once the slow subscriber reads) but unobservable from inside a
// bubble. The runner therefore refuses, per step, any action that could leave a goroutine
// waiting for a lock whose holder may stay stalled past the end of the step; actions that
// resolve the stall in the same step (resume reading, close the stalled subscription) are
// allowed, because then every lock wait is transient. On the unchanged tree a bubble that
// still hangs is therefore a lock-order deadlock of the bus itself.
//
// Read-only queries (action kind "query": Bus.GetAllEventTypes, Subscription.Name / Out) are
// never refused by the filter: they deliver nothing and register nothing, so they have no
// reason to wait for a subscriber, and they are run at any instant - next to Subscribe /
// Close / Emitter calls and while an Emit of an earlier step stays stalled. A query that
// does wait behind a stalled Emit (and, holding the bus' registry lock meanwhile, makes
// every Close / Subscribe / Emitter wait with it) freezes the bubble like any other
// lock-order deadlock.
package c15

import (
	"encoding/json"
	"errors"
	"fmt"
	"os"
	"reflect"
	"runtime"
	"sort"
	"strings"
	"sync/atomic"
	"testing/synctest"
	"time"

	"github.com/libp2p/go-libp2p/core/event"
	"github.com/libp2p/go-libp2p/p2p/host/eventbus"
	"github.com/prometheus/client_golang/prometheus"
)

const nTypes = 3

var debugPlan = os.Getenv("C15_DEBUG") != ""

// Three distinct event types; every event carries (emitter id, per-emitter number).
type EvA struct{ Em, N int }
type EvB struct{ Em, N int }
type EvC struct{ Em, N int }

func typePtr(t int) any {
	switch t {
	case 0:
		return new(EvA)
	case 1:
		return new(EvB)
	default:
		return new(EvC)
	}
}

func mkEvent(t, em, n int) any {
	switch t {
	case 0:
		return EvA{em, n}
	case 1:
		return EvB{em, n}
	default:
		return EvC{em, n}
	}
}

func decode(v any) (t, em, n int, ok bool) {
	switch e := v.(type) {
	case EvA:
		return 0, e.Em, e.N, true
	case EvB:
		return 1, e.Em, e.N, true
	case EvC:
		return 2, e.Em, e.N, true
	}
	return 0, 0, 0, false
}

// ---------------------------------------------------------------------------
// Scenario language (plain data: drawn by rapid or written out by an enumeration).

type subSpec struct {
	Kind  string `json:"kind"`            // single | multi | wild
	Types []int  `json:"types,omitempty"` // typed subscriptions: distinct type indices
	Buf   int    `json:"buf"`             // 0/1/2/16 via eventbus.BufSize; -1 = option omitted (default 16)
	Eager bool   `json:"eager"`           // reads continuously from creation; otherwise reads only when granted / resumed
	// Name: the subscription is created with eventbus.Name(Name) ("" = option omitted: the bus
	// derives a name from the calling line, the same one for every subscription of a case).
	// A name is a label for metrics and says nothing about delivery: every rule holds whatever
	// the names are (distinct, shared by two subscriptions, never used before in the process).
	Name string `json:"name,omitempty"`
}

func (s subSpec) capacity() int {
	if s.Buf < 0 {
		return 16
	}
	return s.Buf
}

// badSpec describes a call the bus has to refuse (it returns an error and no object), so
// that the history goes on as if the call had never been made:
//
//	Call "sub": Subscribe whose argument list consists of pointers to the types Types (in
//	  that order; possibly none) with one offending element inserted at index Pos:
//	  Why "nonptr"   a value that is not a pointer (Val: 0 the int 5, 1 an event VALUE such as
//	                 EvB{} instead of new(EvB), 2 a string, 3 struct{}{}); a list of one element
//	                 is passed bare when Bare is set;
//	  Why "wildcard" event.WildcardSubscription inside a list of several elements;
//	  Why "opt"      nothing offending in the list (Types, or the wildcard when Wild is set),
//	                 but one of the options returns an error (before or after BufSize).
//	Call "em": Emitter with Why "nonptr" (Val as above), "wildcard" (the wildcard
//	  subscription value) or "opt" (pointer to type Types[0], an option that returns an
//	  error before or after eventbus.Stateful, which is present when Stateful is set).
//
// Buf is the BufSize asked for (-1: option omitted).
type badSpec struct {
	Call     string `json:"call"`
	Why      string `json:"why"`
	Types    []int  `json:"types,omitempty"`
	Pos      int    `json:"pos,omitempty"`
	Val      int    `json:"val,omitempty"`
	Wild     bool   `json:"wild,omitempty"`
	Bare     bool   `json:"bare,omitempty"`
	Buf      int    `json:"buf"`
	OptFirst bool   `json:"opt_first,omitempty"`
	Stateful bool   `json:"stateful_opt,omitempty"`
}

func (b badSpec) capacity() int {
	if b.Buf < 0 {
		return 16
	}
	return b.Buf
}

// class is the coverage label of the spec.
func (b badSpec) class() string {
	if b.Call == "sub" && b.Why != "opt" {
		switch {
		case len(b.Types) == 0:
			return "sub:" + b.Why + ":alone"
		case b.Pos == 0:
			return "sub:" + b.Why + ":first-of-list"
		default:
			return "sub:" + b.Why + ":after-wellformed-elements"
		}
	}
	return b.Call + ":" + b.Why
}

func (b badSpec) String() string {
	return fmt.Sprintf("%s/%s%v@%d/v%d/%v%v/%d/%v%v", b.Call, b.Why, b.Types, b.Pos, b.Val, b.Wild, b.Bare, b.Buf, b.OptFirst, b.Stateful)
}

// action kinds: emit (burst of N events of emitter E on emit goroutine W), sub (create
// subscription S), closeSub, resume (S reads continuously from now on), grant (S reads N
// more events), closeEm, newEm, bad (make the refused call B of scenario.Bad; any number of
// times), query (the read-only calls of the API: Bus.GetAllEventTypes and, when S names a
// subscription that exists by then, its Name and Out accessors; S = -1: the bus query alone).
// A query changes nothing, so every rule of the property applies to the rest of the history
// as if it had not been made; it is one more goroutine inside the bus next to Emit /
// Subscribe / Close, also while an Emit is stalled on a slow subscriber.
// Y = number of runtime.Gosched calls before acting.
type action struct {
	K     string `json:"k"`
	W     int    `json:"w,omitempty"`
	E     int    `json:"e,omitempty"`
	S     int    `json:"s,omitempty"`
	B     int    `json:"b,omitempty"`
	N     int    `json:"n,omitempty"`
	Y     int    `json:"y,omitempty"`
	Twice bool   `json:"twice,omitempty"` // closeSub / closeEm: a second concurrent Close
}

func (a action) String() string {
	switch a.K {
	case "emit":
		return fmt.Sprintf("emit(w%d,e%d,x%d)", a.W, a.E, a.N)
	case "sub", "resume":
		return fmt.Sprintf("%s(s%d)", a.K, a.S)
	case "closeSub":
		if a.Twice {
			return fmt.Sprintf("closeSub2(s%d)", a.S)
		}
		return fmt.Sprintf("closeSub(s%d)", a.S)
	case "grant":
		return fmt.Sprintf("grant(s%d,%d)", a.S, a.N)
	case "closeEm", "newEm":
		if a.K == "closeEm" && a.Twice {
			return fmt.Sprintf("closeEm2(e%d)", a.E)
		}
		return fmt.Sprintf("%s(e%d)", a.K, a.E)
	case "bad":
		return fmt.Sprintf("bad(b%d)", a.B)
	case "query":
		if a.S >= 0 {
			return fmt.Sprintf("query(s%d)", a.S)
		}
		return "query"
	}
	return a.K
}

// step: all accepted actions of a step start at the same virtual instant and race for real.
type step struct {
	GapMs int      `json:"gap_ms"` // virtual time that passes before the step
	Acts  []action `json:"acts"`
}

// countingTracer is the metrics tracer handed to eventbus.WithMetricsTracer when the scenario
// asks for a bus with one: it only counts the calls (atomically: it is called under the bus'
// locks from every goroutine, must never block and must not be a synchronisation point of its
// own). The counts feed coverage labels only; the property says nothing about metrics.
type countingTracer struct {
	// real: the bus was given the library's own tracer (eventbus.NewMetricsTracer on a
	// registry of its own, what libp2p.New gives its bus) INSTEAD of this one - not through
	// this one, whose atomic counters would order the goroutines for the race detector; the
	// counts then stay zero.
	real bool

	emitted, added, removed, queueLen, queueFull, queued atomic.Int64
}

func (c *countingTracer) EventEmitted(reflect.Type)         { c.emitted.Add(1) }
func (c *countingTracer) AddSubscriber(reflect.Type)        { c.added.Add(1) }
func (c *countingTracer) RemoveSubscriber(reflect.Type)     { c.removed.Add(1) }
func (c *countingTracer) SubscriberQueueLength(string, int) { c.queueLen.Add(1) }
func (c *countingTracer) SubscriberQueueFull(string, bool)  { c.queueFull.Add(1) }
func (c *countingTracer) SubscriberEventQueued(string)      { c.queued.Add(1) }

var _ eventbus.MetricsTracer = (*countingTracer)(nil)

type scenario struct {
	// Tracer: the bus is built with eventbus.NewBus(eventbus.WithMetricsTracer(<counting
	// tracer>)) instead of the plain eventbus.NewBus(). The property speaks of "the event bus"
	// without restricting how it was constructed: every rule holds for both.
	Tracer bool `json:"metrics_tracer,omitempty"`
	// RealTracer (with Tracer): the tracer is the library's own Prometheus tracer,
	// eventbus.NewMetricsTracer(eventbus.WithRegisterer(<fresh registry>)), the one libp2p.New
	// installs, instead of the counting one. Same rules again; what it records is not judged.
	RealTracer bool `json:"real_metrics_tracer,omitempty"`
	// Stateful, per type: some emitter of the type is created with eventbus.Stateful (the type
	// may get a retained event at some point of the history). Which emitters ask for it is
	// EmStateful (one entry per emitter; omitted = every emitter of a type follows Stateful):
	// emitters of one type may disagree.
	// Tight: the actions of a step, once all of them are running, are released by a second
	// barrier on which they spin WITHOUT yielding (bounded), so that each of them occupies a
	// processor of its own at the instant of the release: calls "at the same time" in the
	// literal sense rather than within the same few microseconds.
	Tight       bool         `json:"tight_start,omitempty"`
	Stateful    [nTypes]bool `json:"stateful"`
	EmStateful  []bool       `json:"em_stateful,omitempty"`
	Workers     int          `json:"workers"`  // emit goroutines (at most one unfinished burst each)
	Ems         []int        `json:"emitters"` // type of each emitter
	Subs        []subSpec    `json:"subs"`
	Bad         []badSpec    `json:"bad,omitempty"` // calls the bus has to refuse (action kind "bad")
	PreEms      int          `json:"pre_emitters"`  // created sequentially before step 0
	PreSubs     int          `json:"pre_subs"`
	Steps       []step       `json:"steps"`
	FinalBursts []action     `json:"final_bursts,omitempty"` // emits racing with the final close of everything
	FinalY      []int        `json:"final_yields,omitempty"`
}

// ---------------------------------------------------------------------------
// Run-time state.

type evKey struct{ em, n int }

type emitRec struct {
	em, typ, n int
	burst, idx int
	step       int
	begin, end int64 // logical stamps taken right before Emit is called / right after it returned (0 = not yet)
	err        error
}

func (r *emitRec) String() string {
	return fmt.Sprintf("%c(e%d#%d)", 'A'+r.typ, r.em, r.n)
}

// ok: the Emit call has returned nil.
func (r *emitRec) ok() bool { return r.end != 0 && r.err == nil }

type burst struct {
	id, w, em, typ int
	step, yield    int
	recs           []*emitRec
	done           atomic.Int32
	finished       atomic.Bool
}

func (b *burst) remaining() int { return len(b.recs) - int(b.done.Load()) }

type emState struct {
	id, typ     int
	stateful    bool // created with eventbus.Stateful
	midHistory  bool // created by a newEm action (not before step 0)
	em          event.Emitter
	created     bool  // creation accepted (model)
	createdCall int64 // stamps around bus.Emitter
	createdRet  int64
	closeIssued bool
	closeCall   int64
	closeRet    int64
	closeErr    [2]error // what Close returned (second entry: the concurrent second call)
	closedTwice bool
	nextN       int
}

// badRec is one executed call of a badSpec.
type badRec struct {
	spec       badSpec
	idx, step  int
	begin, end int64 // stamps around the call (end = 0: not returned)
	err        error
	gotObject  bool // a non-nil Subscription / Emitter came back
}

func (e *emState) ready() bool { return e.em != nil }

// queryRec is one executed query action.
type queryRec struct {
	step       int
	begin, end int64 // stamps around Bus.GetAllEventTypes (end = 0: not returned)
	nTypes     int
	// what was going on when it was issued (coverage only)
	emitBlocked bool // an Emit of an earlier step had not returned
	busWriter   bool // a call that changes the bus' set of types / subscribers started at the same instant
	outlasted   bool // that Emit was still stalled at the quiescence point after the query
}

type readRec struct {
	v   any
	pre bool // Close had not been called yet when the receive completed
}

type subState struct {
	id    int
	spec  subSpec
	wild  bool
	types [nTypes]bool

	created  bool // Subscribe accepted (model)
	sub      event.Subscription
	ch       <-chan any
	subBegin int64
	subRet   int64

	eager       bool // model: reads continuously
	granted     int  // model: finite read budget handed out so far
	closeIssued bool
	replayDone  bool // no goroutine of the bus can still be stalled delivering a retained event to this sub

	closeFlag atomic.Bool
	closeStep int
	closeCall int64
	closeRet  int64
	notClosed bool // typed: a receive right after Close returned would have blocked

	reads []readRec // reader goroutine, in receive order
	post  []readRec // received by the closing goroutine right after Close returned

	ctl  chan int
	stop chan struct{}
	gone chan struct{}
}

func (s *subState) ready() bool { return s.sub != nil }

func (s *subState) budgetRemaining() int {
	if r := s.granted - len(s.reads); r > 0 {
		return r
	}
	return 0
}

func (s *subState) matches(typ int) bool { return s.wild || s.types[typ] }

type running struct {
	desc string
	done atomic.Bool
}

type harness struct {
	sc      *scenario
	scJSON  string
	bus     event.Bus
	tracer  *countingTracer // nil: plain bus
	clk     atomic.Int64
	ems     []*emState
	subs    []*subState
	workers []*burst
	bursts  []*burst
	recs    map[evKey]*emitRec
	all     []*emitRec
	bads    []*badRec
	queries []*queryRec
	anyEmit [nTypes]bool
	// mayReplay, per type: an emitter of the scenario declares the type stateful, so a
	// Subscribe may have to replay a retained event (upper bound used by the hazard filter:
	// it does not matter whether / when that emitter is created)
	mayReplay [nTypes]bool
	stepNo    int
	pending   []*running

	failure string
	stuck   bool
	labels  map[string]bool
	// a stateful replay was demanded and checked for a type whose emitters disagree on Stateful
	mixedReplayChecked bool
	trace              []string
	excluded           bool // an action was dropped by the known-finding exclusion
}

type result struct {
	excluded   bool
	failure    string
	stuck      bool // after the failure an Emit stayed blocked for good: the bubble cannot be wound down
	labels     []string
	nontrivial bool
	trace      string
	emits      int
}

func (h *harness) now() int64 { return h.clk.Add(1) }

func (h *harness) fail(format string, args ...any) {
	if h.failure == "" {
		h.failure = fmt.Sprintf("step %d: ", h.stepNo) + fmt.Sprintf(format, args...)
	}
}

func (h *harness) label(l string) { h.labels[l] = true }

// guard reports a panic raised by the code under test on a harness goroutine (send on a
// closed channel, ...) together with the scenario and lets the process die: the node lock
// is not released by a panicking emit, so the bubble could not be wound down anyway.
func (h *harness) guard(desc string) {
	if r := recover(); r != nil {
		fmt.Fprintf(os.Stderr, "C15: panic in the event bus during %s: %v\nscenario: %s\nexecuted: %s\n", desc, r, h.scJSON, strings.Join(h.trace, " | "))
		panic(r)
	}
}

// ---------------------------------------------------------------------------
// Planning: validity and lock hazards.

func (h *harness) valid(a action, usedSub, usedEm, usedW map[int]bool) bool {
	switch a.K {
	case "emit":
		if a.W < 0 || a.W >= len(h.workers) || usedW[a.W] || a.N < 1 {
			return false
		}
		if b := h.workers[a.W]; b != nil && !b.finished.Load() {
			return false
		}
		return a.E >= 0 && a.E < len(h.ems) && h.ems[a.E].ready()
	case "sub":
		return a.S >= 0 && a.S < len(h.subs) && !h.subs[a.S].created && !usedSub[a.S]
	case "closeSub":
		return a.S >= 0 && a.S < len(h.subs) && h.subs[a.S].ready() && !h.subs[a.S].closeIssued && !usedSub[a.S]
	case "resume", "grant":
		if !(a.S >= 0 && a.S < len(h.subs)) {
			return false
		}
		s := h.subs[a.S]
		return s.ready() && !s.closeIssued && !s.eager && !usedSub[a.S] && (a.K == "resume" || a.N >= 1)
	case "closeEm":
		return a.E >= 0 && a.E < len(h.ems) && h.ems[a.E].ready() && !h.ems[a.E].closeIssued && !usedEm[a.E]
	case "newEm":
		return a.E >= 0 && a.E < len(h.ems) && !h.ems[a.E].created && !usedEm[a.E]
	case "bad":
		return a.B >= 0 && a.B < len(h.sc.Bad)
	case "query":
		return a.S >= -1 && a.S < len(h.subs)
	}
	return false
}

// unsafe returns a reason when running acts together at the next instant could leave a
// goroutine waiting for a bus lock behind a holder that stays stalled on a subscriber
// nobody reads (see the file comment). The analysis is conservative: it over-approximates
// who may stall (a subscriber whose queue plus guaranteed reads cannot absorb everything
// that may be sent to it in this step) and who needs which lock.
func (h *harness) unsafe(acts []action) string {
	why, _ := h.analyse(acts)
	return why
}

// analyse returns the hazard (if any) and the set of subscriptions that may stall a sender
// past the end of the step.
func (h *harness) analyse(acts []action) (string, map[int]bool) {
	stall := map[int]bool{}
	closing, resuming, newSub, closingEm := map[int]bool{}, map[int]bool{}, map[int]bool{}, map[int]int{}
	grants := map[int]int{}
	var load, eusers, xusers [nTypes]int
	var blk [nTypes]int // calls that hold the bus lock while waiting for the node lock
	var xSubOf [nTypes][]int
	xW := 0
	var xWSub []int

	for _, b := range h.workers {
		if b != nil && !b.finished.Load() && b.remaining() > 0 {
			load[b.typ] += b.remaining()
			eusers[b.typ]++
		}
	}
	for _, a := range acts {
		switch a.K {
		case "emit":
			t := h.ems[a.E].typ
			load[t] += a.N
			eusers[t]++
		case "sub":
			newSub[a.S] = true
			s := h.subs[a.S]
			if s.wild {
				xW++
				xWSub = append(xWSub, a.S)
			} else {
				for t := 0; t < nTypes; t++ {
					if s.types[t] {
						xusers[t]++
						blk[t]++
						xSubOf[t] = append(xSubOf[t], a.S)
					}
				}
			}
		case "closeSub":
			closing[a.S] = true
			s := h.subs[a.S]
			if s.wild {
				xW++
			} else {
				for t := 0; t < nTypes; t++ {
					if s.types[t] {
						xusers[t]++
					}
				}
			}
		case "resume":
			resuming[a.S] = true
		case "grant":
			grants[a.S] += a.N
		case "closeEm":
			closingEm[a.E] = 1
			if a.Twice {
				closingEm[a.E] = 2
			}
		case "newEm":
			xusers[h.ems[a.E].typ]++
			blk[h.ems[a.E].typ]++
		case "query":
			// A read-only query is planned as a transient reader of the bus' registry: it has
			// no business with any subscriber's queue, so it is never a reason to hold back
			// another action and no stalled Emit is a reason to hold it back. Whether that is
			// true of the bus is exactly what the no-deadlock rule then decides (a query that
			// waits behind a stalled Emit, or makes a Close / Subscribe / Emitter wait behind
			// one, leaves a call that has not returned at the quiescence point).
		case "bad":
			// A refused call may well take (and give back) the locks the accepted call would
			// take before it finds out that it has to refuse: it is planned like a user of the
			// bus lock and of the lock of every well-formed type it names, never as a
			// subscriber (nobody can read what it does not return).
			b := h.sc.Bad[a.B]
			switch {
			case b.Call == "sub" && b.Wild:
				xW++
			case b.Call == "sub":
				for _, t := range b.Types {
					xusers[t]++
					blk[t]++
				}
			case b.Why == "opt":
				xusers[b.Types[0]]++
				blk[b.Types[0]]++
			}
		}
	}
	// Emitter.Close takes the bus and node locks only when it may have been the last emitter.
	for t := 0; t < nTypes; t++ {
		stay, closingN := 0, 0
		for _, e := range h.ems {
			if e.typ != t || !e.ready() || e.closeIssued {
				continue
			}
			if closingEm[e.id] > 0 {
				closingN += closingEm[e.id]
			} else {
				stay++
			}
		}
		if closingN > 0 && stay == 0 {
			xusers[t] += closingN
			blk[t] += closingN
		}
		if stay == 0 {
			// Subscription.Close calls tryDropNode (bus lock, then node lock) when it leaves a
			// node without sinks and emitters
			for _, a := range acts {
				if a.K == "closeSub" && h.subs[a.S].types[t] {
					blk[t]++
				}
			}
		}
	}
	total := 0
	for t := 0; t < nTypes; t++ {
		total += load[t]
	}

	type hotSub struct {
		id     int
		isNew  bool
		replay [nTypes]bool
	}
	var hot [nTypes][]hotSub
	var hotW []int
	for id, s := range h.subs {
		isNew := newSub[id]
		if !isNew && !(s.ready() && !s.closeIssued) {
			continue
		}
		if closing[id] || resuming[id] {
			continue // the stall is resolved within this step
		}
		if (isNew && s.spec.Eager) || (!isNew && s.eager) {
			continue
		}
		occ, absorb := 0, s.spec.capacity()+grants[id]
		if !isNew {
			occ = len(s.ch)
			absorb += s.budgetRemaining()
		}
		hs := hotSub{id: id, isNew: isNew}
		traffic, rp := 0, 0
		if s.wild {
			traffic = total
		} else {
			for t := 0; t < nTypes; t++ {
				if !s.types[t] {
					continue
				}
				traffic += load[t]
				if h.mayReplay[t] && (h.anyEmit[t] || load[t] > 0) && (isNew || !s.replayDone) {
					hs.replay[t] = true
					rp++
				}
			}
		}
		if occ+traffic+rp <= absorb {
			continue // cannot stall anybody in this step
		}
		stall[id] = true
		if s.wild {
			hotW = append(hotW, id)
			continue
		}
		for t := 0; t < nTypes; t++ {
			if s.types[t] && (load[t] > 0 || hs.replay[t]) {
				hot[t] = append(hot[t], hs)
			}
		}
	}

	for t := 0; t < nTypes; t++ {
		if len(hot[t]) == 0 {
			continue
		}
		if eusers[t] > 1 {
			return fmt.Sprintf("type %c: %d emit goroutines while s%d may stall an emit that holds the node lock", 'A'+t, eusers[t], hot[t][0].id), stall
		}
		for _, hs := range hot[t] {
			if hs.replay[t] && eusers[t] > 0 {
				return fmt.Sprintf("type %c: emit while the retained-event replay to s%d may be stalled holding the node lock", 'A'+t, hs.id), stall
			}
		}
		if xusers[t] > 1 {
			return fmt.Sprintf("type %c: %d lock users while s%d may stall a lock holder", 'A'+t, xusers[t], hot[t][0].id), stall
		}
		if xusers[t] == 1 {
			if !(len(hot[t]) == 1 && hot[t][0].isNew && len(xSubOf[t]) == 1 && xSubOf[t][0] == hot[t][0].id) {
				return fmt.Sprintf("type %c: a lock user while s%d may stall a lock holder", 'A'+t, hot[t][0].id), stall
			}
		}
	}
	if len(hotW) > 0 {
		if xW > 1 {
			return fmt.Sprintf("wildcard: %d write-lock users while s%d may stall an emit that holds the read lock", xW, hotW[0]), stall
		}
		if xW == 1 {
			if !(len(hotW) == 1 && newSub[hotW[0]] && len(xWSub) == 1 && xWSub[0] == hotW[0]) {
				return fmt.Sprintf("wildcard: a write-lock user while s%d may stall an emit that holds the read lock", hotW[0]), stall
			}
		}
	}
	// Known finding (see witness_test.go): a multi-type Subscribe whose channel can fill up
	// before Subscribe has returned, concurrent with a call that holds the bus lock while it
	// waits for the node lock of an already registered type, deadlocks for good. For slow
	// subscribers the rules above already keep that shape out; for eager ones it is excluded
	// only while the finding is listed as known.
	if knownDeadlockListed() {
		for _, a := range acts {
			if a.K != "sub" || h.subs[a.S].spec.Kind != "multi" {
				continue
			}
			s := h.subs[a.S]
			senders := 0
			for i, t := range s.spec.Types {
				if i == len(s.spec.Types)-1 {
					break // after the last registration Subscribe needs no lock any more
				}
				if h.mayReplay[t] && (h.anyEmit[t] || load[t] > 0) {
					senders++
				}
				senders += load[t]
				if senders <= s.spec.capacity() {
					continue
				}
				for _, u := range s.spec.Types[:i+1] {
					if blk[u]-1 > 0 {
						return knownDeadlock, stall
					}
				}
			}
		}
	}
	return "", stall
}

// plan keeps, in order, the candidate actions that are valid now and hazard-free together.
func (h *harness) plan(cands []action) []action {
	var acc []action
	usedSub, usedEm, usedW := map[int]bool{}, map[int]bool{}, map[int]bool{}
	for _, a := range cands {
		if a.K == "emit" && len(h.workers) > 0 {
			// the drawn emit goroutine is only a preference: take the next idle one
			for k := 0; k < len(h.workers); k++ {
				w := ((a.W % len(h.workers)) + len(h.workers) + k) % len(h.workers)
				if b := h.workers[w]; !usedW[w] && (b == nil || b.finished.Load()) {
					a.W = w
					break
				}
			}
		}
		if !h.valid(a, usedSub, usedEm, usedW) {
			h.label("dropped:invalid:" + a.K)
			if debugPlan {
				fmt.Fprintf(os.Stderr, "step %d: %v dropped: not applicable now\n", h.stepNo, a)
			}
			continue
		}
		try := append(acc[:len(acc):len(acc)], a)
		if why := h.unsafe(try); why != "" {
			if why == knownDeadlock {
				h.excluded = true
				h.label("dropped:known-finding:" + a.K)
				continue
			}
			h.label("dropped:lock-hazard:" + a.K)
			if debugPlan {
				fmt.Fprintf(os.Stderr, "step %d: %v dropped: %s\n", h.stepNo, a, why)
			}
			continue
		}
		acc = try
		switch a.K {
		case "emit":
			usedW[a.W] = true
		case "sub", "closeSub", "resume", "grant":
			usedSub[a.S] = true
		case "closeEm", "newEm":
			usedEm[a.E] = true
		}
	}
	return acc
}

// ---------------------------------------------------------------------------
// Actions against the real bus.

func (h *harness) doNewEm(e *emState) {
	var opts []event.EmitterOpt
	if e.stateful {
		opts = append(opts, eventbus.Stateful)
	}
	e.createdCall = h.now()
	em, err := h.bus.Emitter(typePtr(e.typ), opts...)
	if err != nil {
		panic(fmt.Sprintf("harness: Emitter: %v", err))
	}
	e.createdRet = h.now()
	e.em = em
}

func (h *harness) doCloseEm(e *emState, twice bool, second *running) {
	e.closeCall = h.now()
	if twice {
		go func() {
			defer h.guard("second Emitter.Close")
			e.closeErr[1] = e.em.Close()
			second.done.Store(true)
		}()
	}
	e.closeErr[0] = e.em.Close()
	e.closeRet = h.now()
}

var errRefusedOption = errors.New("c15: option refused")

func refusingOption(any) error { return errRefusedOption }

func nonPointer(val, t int) any {
	switch val {
	case 0:
		return 5
	case 1:
		return mkEvent(t%nTypes, 0, 0) // the event value where a pointer to its type is expected
	case 2:
		return "EvA"
	default:
		return struct{}{}
	}
}

// doBad makes one call the bus has to refuse. Whatever comes back is only recorded: the
// verdict is left to the oracles at the next quiescence point.
func (h *harness) doBad(r *badRec) {
	b := r.spec
	if b.Call == "em" {
		var arg any
		switch b.Why {
		case "nonptr":
			arg = nonPointer(b.Val, b.Types[0])
		case "wildcard":
			arg = event.WildcardSubscription
		default:
			arg = typePtr(b.Types[0])
		}
		var opts []event.EmitterOpt
		if b.Stateful {
			opts = append(opts, eventbus.Stateful)
		}
		if b.Why == "opt" {
			if b.OptFirst {
				opts = append([]event.EmitterOpt{refusingOption}, opts...)
			} else {
				opts = append(opts, refusingOption)
			}
		}
		r.begin = h.now()
		em, err := h.bus.Emitter(arg, opts...)
		r.err, r.gotObject = err, em != nil
		r.end = h.now()
		return
	}
	var list []any
	for _, t := range b.Types {
		list = append(list, typePtr(t))
	}
	var arg any = list
	switch {
	case b.Why == "opt" && b.Wild:
		arg = event.WildcardSubscription
	case b.Why == "opt":
		if len(list) == 1 && b.Bare {
			arg = list[0]
		}
	default:
		var bad any = event.WildcardSubscription
		if b.Why == "nonptr" {
			bad = nonPointer(b.Val, b.Pos)
		}
		pos := min(max(b.Pos, 0), len(list))
		list = append(list[:pos:pos], append([]any{bad}, list[pos:]...)...)
		arg = list
		if len(list) == 1 && b.Bare {
			arg = list[0]
		}
	}
	var opts []event.SubscriptionOpt
	if b.Buf >= 0 {
		opts = append(opts, eventbus.BufSize(b.Buf))
	}
	if b.Why == "opt" {
		if b.OptFirst {
			opts = append([]event.SubscriptionOpt{refusingOption}, opts...)
		} else {
			opts = append(opts, refusingOption)
		}
	}
	r.begin = h.now()
	sub, err := h.bus.Subscribe(arg, opts...)
	r.err, r.gotObject = err, sub != nil
	r.end = h.now()
}

// doQuery makes the read-only calls: the bus' list of event types and, for a subscription
// that exists, its accessors. The answers are not judged (the property says nothing about
// them); that the calls return, and what they do to everybody else, is.
func (h *harness) doQuery(q *queryRec, s *subState) {
	q.begin = h.now()
	q.nTypes = len(h.bus.GetAllEventTypes())
	q.end = h.now()
	if s != nil {
		_ = s.sub.Name()
		_ = s.sub.Out()
	}
}

func (h *harness) doSubscribe(s *subState) {
	var arg any
	switch s.spec.Kind {
	case "wild":
		arg = event.WildcardSubscription
	case "single":
		arg = typePtr(s.spec.Types[0])
	default:
		var l []any
		for _, t := range s.spec.Types {
			l = append(l, typePtr(t))
		}
		arg = l
	}
	var opts []event.SubscriptionOpt
	if s.spec.Buf >= 0 {
		opts = append(opts, eventbus.BufSize(s.spec.Buf))
	}
	if s.spec.Name != "" {
		opts = append(opts, eventbus.Name(s.spec.Name))
	}
	begin := h.now()
	sub, err := h.bus.Subscribe(arg, opts...)
	ret := h.now()
	if err != nil {
		panic(fmt.Sprintf("harness: Subscribe: %v", err))
	}
	s.subBegin, s.subRet = begin, ret
	s.ch = sub.Out()
	s.sub = sub
	go h.reader(s)
}

// reader is the only consumer of a subscription until Close is called. It reads while it
// has budget (granted counts, or without limit once resumed / when eager).
func (h *harness) reader(s *subState) {
	defer close(s.gone)
	inf, budget := s.spec.Eager, 0
	for {
		var in <-chan any
		if inf || budget > 0 {
			in = s.ch
		}
		select {
		case <-s.stop:
			return
		case g := <-s.ctl:
			if g < 0 {
				inf = true
			} else {
				budget += g
			}
		case v, ok := <-in:
			if !ok {
				return
			}
			s.reads = append(s.reads, readRec{v: v, pre: !s.closeFlag.Load()})
			if !inf {
				budget--
			}
		}
	}
}

func (h *harness) doCtl(s *subState, g int) {
	select {
	case s.ctl <- g:
	case <-s.gone:
	}
}

func (h *harness) doCloseSub(s *subState, twice bool, second *running) {
	s.closeFlag.Store(true)
	s.closeCall = h.now()
	if twice {
		go func() {
			defer h.guard("second Subscription.Close")
			s.sub.Close()
			second.done.Store(true)
		}()
	}
	s.sub.Close()
	s.closeRet = h.now()
	if s.wild {
		// the queue must be empty now and stay empty
		select {
		case v := <-s.ch:
			s.post = append(s.post, readRec{v: v})
		default:
		}
		return
	}
	// the channel must be closed: a receive never blocks; what is left in the buffer may
	// still be read (the bus' drain goroutine competes for it)
	for i := 0; i < 64; i++ {
		select {
		case v, ok := <-s.ch:
			if !ok {
				return
			}
			s.post = append(s.post, readRec{v: v})
		default:
			s.notClosed = true
			return
		}
	}
}

func (h *harness) runBurst(b *burst) {
	defer h.guard(fmt.Sprintf("Emit on emitter %d", b.em))
	em := h.ems[b.em].em
	for i, r := range b.recs {
		for k := 0; i > 0 && k < b.yield; k++ {
			runtime.Gosched() // stretch the burst so that racing actions fall inside it
		}
		ev := mkEvent(r.typ, r.em, r.n)
		r.begin = h.now()
		err := em.Emit(ev)
		r.err = err
		r.end = h.now()
		b.done.Store(int32(i + 1))
	}
	b.finished.Store(true)
}

// launch starts the accepted actions of one step at the same instant and waits for
// quiescence.
func (h *harness) launch(acc []action) {
	_, stall := h.analyse(acc) // before the model is updated
	var start atomic.Bool
	var arrived, lined atomic.Int32
	var descs []string
	for _, a := range acc {
		a := a
		descs = append(descs, a.String())
		var body func()
		run := &running{desc: a.String()}
		switch a.K {
		case "emit":
			e := h.ems[a.E]
			b := &burst{id: len(h.bursts), w: a.W, em: a.E, typ: e.typ, step: h.stepNo, yield: a.Y % 3}
			for i := 0; i < a.N; i++ {
				r := &emitRec{em: a.E, typ: e.typ, n: e.nextN, burst: b.id, idx: i, step: h.stepNo}
				e.nextN++
				b.recs = append(b.recs, r)
				h.recs[evKey{r.em, r.n}] = r
				h.all = append(h.all, r)
			}
			h.bursts = append(h.bursts, b)
			h.workers[a.W] = b
			h.anyEmit[e.typ] = true
			if e.closeIssued {
				h.label("emit-on-closed-emitter")
			}
			run = nil // emits may legitimately stay blocked
			body = func() { h.runBurst(b) }
		case "sub":
			s := h.subs[a.S]
			s.created = true
			s.eager = s.spec.Eager
			body = func() { h.doSubscribe(s) }
		case "closeSub":
			s := h.subs[a.S]
			s.closeIssued = true
			s.closeStep = h.stepNo
			var second *running
			if a.Twice {
				second = &running{desc: a.String() + " (second call)"}
				h.pending = append(h.pending, second)
			}
			for _, b := range h.workers {
				if b != nil && !b.finished.Load() && b.step < h.stepNo && s.matches(b.typ) {
					h.label("close-sub-while-emit-blocked")
				}
			}
			body = func() { h.doCloseSub(s, a.Twice, second) }
		case "resume":
			s := h.subs[a.S]
			s.eager = true
			body = func() { h.doCtl(s, -1) }
		case "grant":
			s := h.subs[a.S]
			s.granted += a.N
			body = func() { h.doCtl(s, a.N) }
		case "closeEm":
			e := h.ems[a.E]
			e.closeIssued = true
			e.closedTwice = a.Twice
			var second *running
			if a.Twice {
				second = &running{desc: a.String() + " (second call)"}
				h.pending = append(h.pending, second)
			}
			for _, b := range h.workers {
				if b != nil && !b.finished.Load() && b.step < h.stepNo && b.em == a.E {
					h.label("close-emitter-while-emit-blocked")
				}
			}
			body = func() { h.doCloseEm(e, a.Twice, second) }
		case "bad":
			r := &badRec{spec: h.sc.Bad[a.B], idx: a.B, step: h.stepNo}
			h.bads = append(h.bads, r)
			for _, b := range h.workers {
				if b != nil && !b.finished.Load() && b.step < h.stepNo {
					h.label("refused-call-while-emit-blocked")
				}
			}
			body = func() { h.doBad(r) }
		case "newEm":
			e := h.ems[a.E]
			e.created = true
			e.midHistory = true
			body = func() { h.doNewEm(e) }
		case "query":
			q := &queryRec{step: h.stepNo}
			h.queries = append(h.queries, q)
			for _, b := range h.workers {
				if b != nil && !b.finished.Load() && b.step < h.stepNo {
					q.emitBlocked = true
				}
			}
			for _, o := range acc {
				switch o.K {
				case "sub", "closeSub", "closeEm", "newEm", "bad":
					q.busWriter = true
				}
			}
			var s *subState
			if a.S >= 0 && h.subs[a.S].ready() {
				s = h.subs[a.S] // returned by a Subscribe of an earlier step
			}
			body = func() { h.doQuery(q, s) }
		}
		if run != nil {
			h.pending = append(h.pending, run)
		}
		go func() {
			defer h.guard(a.String())
			// spin (yielding) instead of parking on a channel: all actions of the step are
			// then running on their own Ps when the step is released and overlap for real
			arrived.Add(1)
			for !start.Load() {
				runtime.Gosched()
			}
			if h.sc.Tight {
				lined.Add(1)
				for k := 0; k < 50000 && int(lined.Load()) < len(acc); k++ {
				}
			}
			for i := 0; i < a.Y; i++ {
				runtime.Gosched()
			}
			body()
			if run != nil {
				run.done.Store(true)
			}
		}()
	}
	// a subscription that cannot get a retained event needs no replay tracking
	for _, a := range acc {
		if a.K != "sub" {
			continue
		}
		s := h.subs[a.S]
		possible := false
		for t := 0; t < nTypes; t++ {
			if s.types[t] && h.mayReplay[t] && h.anyEmit[t] {
				possible = true
			}
		}
		s.replayDone = !possible
	}
	sort.Strings(descs)
	h.trace = append(h.trace, strings.Join(descs, ","))
	for int(arrived.Load()) < len(acc) {
		runtime.Gosched()
	}
	start.Store(true)
	h.quiesce()
	for _, q := range h.queries {
		if q.step != h.stepNo || !q.emitBlocked {
			continue
		}
		for _, b := range h.workers {
			if b != nil && !b.finished.Load() && b.step < h.stepNo {
				q.outlasted = true
			}
		}
	}
	// a subscription that could absorb everything sent to it in this step has no stalled sender
	for _, s := range h.subs {
		if s.ready() && !stall[s.id] {
			s.replayDone = true
		}
	}
}

// quiesce waits until every goroutine of the bubble is durably blocked, then compares
// what happened so far with the oracles.
func (h *harness) quiesce() {
	synctest.Wait()
	for _, r := range h.pending {
		if !r.done.Load() {
			h.fail("%s has not returned at the quiescence point (blocked for good)", r.desc)
		}
	}
	h.pending = h.pending[:0]
	for _, s := range h.subs {
		if s.ready() && !s.replayDone && (s.eager || s.closeIssued || s.budgetRemaining() > 0 || len(s.ch) < cap(s.ch)) {
			s.replayDone = true
		}
	}
	if h.failure == "" {
		h.check()
	}
}

// ---------------------------------------------------------------------------

func newHarness(sc *scenario) *harness {
	js, _ := json.Marshal(sc)
	h := &harness{sc: sc, scJSON: string(js), recs: map[evKey]*emitRec{}, labels: map[string]bool{}}
	h.mayReplay = sc.Stateful
	if len(sc.EmStateful) == len(sc.Ems) {
		h.mayReplay = [nTypes]bool{}
	}
	for i, t := range sc.Ems {
		e := &emState{id: i, typ: t, stateful: sc.Stateful[t]}
		if len(sc.EmStateful) == len(sc.Ems) {
			e.stateful = sc.EmStateful[i]
			h.mayReplay[t] = h.mayReplay[t] || e.stateful
		}
		h.ems = append(h.ems, e)
	}
	for i, sp := range sc.Subs {
		s := &subState{id: i, spec: sp, wild: sp.Kind == "wild"}
		for _, t := range sp.Types {
			s.types[t] = true
		}
		h.subs = append(h.subs, s)
	}
	h.workers = make([]*burst, sc.Workers)
	return h
}

// runScenario executes sc against a fresh bus. It must be called inside a synctest bubble.
func runScenario(sc *scenario) *result {
	h := newHarness(sc)
	if sc.Tracer {
		h.tracer = &countingTracer{real: sc.RealTracer}
		if sc.RealTracer {
			h.bus = eventbus.NewBus(eventbus.WithMetricsTracer(eventbus.NewMetricsTracer(eventbus.WithRegisterer(prometheus.NewRegistry()))))
		} else {
			h.bus = eventbus.NewBus(eventbus.WithMetricsTracer(h.tracer))
		}
	} else {
		h.bus = eventbus.NewBus()
	}
	for _, s := range h.subs {
		s.ctl, s.stop, s.gone = make(chan int), make(chan struct{}), make(chan struct{})
	}
	h.stepNo = -1
	func() {
		defer h.guard("setup")
		for i := 0; i < sc.PreEms && i < len(h.ems); i++ {
			h.ems[i].created = true
			h.doNewEm(h.ems[i])
		}
		for i := 0; i < sc.PreSubs && i < len(h.subs); i++ {
			s := h.subs[i]
			s.created, s.eager, s.replayDone = true, s.spec.Eager, true
			h.doSubscribe(s)
		}
	}()
	h.quiesce()

	for i, st := range sc.Steps {
		if h.failure != "" {
			break
		}
		h.stepNo = i
		if st.GapMs > 0 {
			for _, b := range h.workers {
				if b != nil && !b.finished.Load() && st.GapMs >= 1000 {
					h.label("emit-stalled-past-1s-warning")
				}
			}
			time.Sleep(time.Duration(st.GapMs) * time.Millisecond)
		}
		acc := h.plan(st.Acts)
		if len(acc) == 0 {
			h.trace = append(h.trace, "-")
			continue
		}
		h.launch(acc)
	}

	// Wind-down 1: every remaining subscriber reads continuously; every Emit must return.
	h.stepNo = len(sc.Steps)
	var acc []action
	for _, s := range h.subs {
		if s.ready() && !s.closeIssued && !s.eager {
			acc = append(acc, action{K: "resume", S: s.id})
		}
	}
	anyBlocked := false
	for _, b := range h.bursts {
		if !b.finished.Load() {
			anyBlocked = true
		}
	}
	if len(acc) > 0 {
		if anyBlocked {
			h.label("resume-while-emit-blocked")
		}
		h.launch(acc)
	}
	for _, b := range h.bursts {
		if !b.finished.Load() {
			h.fail("Emit of %v has not returned although every open subscriber reads continuously and the queues are drained", b.recs[b.done.Load()])
		}
	}

	// Wind-down 2: close every subscription and emitter concurrently, racing with a last
	// round of emits (nothing can stall: all readers are eager).
	h.stepNo++
	if h.failure == "" {
		acc = nil
		k := 0
		y := func() int {
			k++
			if len(sc.FinalY) == 0 {
				return 0
			}
			return sc.FinalY[k%len(sc.FinalY)]
		}
		cands := append([]action{}, sc.FinalBursts...)
		for _, s := range h.subs {
			if s.ready() && !s.closeIssued {
				cands = append(cands, action{K: "closeSub", S: s.id, Y: y()})
			}
		}
		for _, e := range h.ems {
			if e.ready() && !e.closeIssued {
				cands = append(cands, action{K: "closeEm", E: e.id, Y: y()})
			}
		}
		if acc = h.plan(cands); len(acc) > 0 {
			h.launch(acc)
		}
		for _, b := range h.bursts {
			if !b.finished.Load() {
				h.fail("Emit of %v has not returned after every subscription was closed", b.recs[b.done.Load()])
			}
		}
	} else {
		h.abort()
	}

	// Wind-down 3: stop the readers; the bubble must be able to exit now.
	for _, s := range h.subs {
		close(s.stop)
	}
	synctest.Wait()
	if h.failure == "" {
		h.stepNo++
		h.check()
	}
	return h.summary()
}

// abort winds the bus down after a failure as well as it can so that the first failure,
// not the goroutines it leaves behind, is what gets reported.
func (h *harness) abort() {
	for _, s := range h.subs {
		if s.ready() {
			s := s
			go func() {
				for {
					select {
					case _, ok := <-s.ch:
						if !ok {
							return
						}
					case <-s.stop:
						return
					}
				}
			}()
		}
	}
	synctest.Wait()
	for _, b := range h.bursts {
		if !b.finished.Load() {
			// An Emit is stuck although every subscription is being drained: it keeps its
			// node lock for good, and a Close that needs that lock would wait on a mutex, which
			// freezes the bubble instead of ending it. Leave everything as it is; the stuck
			// goroutines are reported together with the first failure.
			h.stuck = true
			return
		}
	}
	for _, s := range h.subs {
		if s.ready() && !s.closeIssued {
			s.closeIssued = true
			s.closeFlag.Store(true)
			s.sub.Close()
		}
	}
	for _, e := range h.ems {
		if e.ready() && !e.closeIssued {
			e.closeIssued = true
			e.em.Close()
		}
	}
	synctest.Wait()
}
