package scratch

import (
		"runtime"
	"strings"
	"sync/atomic"
	"testing"
	"time"

	"github.com/libp2p/go-libp2p/p2p/host/eventbus"
)

type T0 struct{}
type T1 struct{}
type T2 struct{}
type T3 struct{}

func TestRepro(t *testing.T) {
	for attempt := 0; attempt < 200000; attempt++ {
		bus := eventbus.NewBus()
		em, _ := bus.Emitter(new(T0), eventbus.Stateful)
		em.Emit(T0{})
		var start atomic.Bool
		var arrived atomic.Int32
		done := make(chan struct{})
		go func() {
			arrived.Add(1)
			for !start.Load() {
				runtime.Gosched()
			}
			sub, err := bus.Subscribe([]any{new(T0), new(T1), new(T2), new(T3)}, eventbus.BufSize(0))
			if err != nil {
				panic(err)
			}
			go func() {
				for range sub.Out() {
				}
			}()
			sub.Close()
			close(done)
		}()
		go func() {
			arrived.Add(1)
			for !start.Load() {
				runtime.Gosched()
			}
			for k := 0; k < 40; k++ {
				e2, _ := bus.Emitter(new(T0), eventbus.Stateful)
				e2.Close()
			}
		}()
		for arrived.Load() < 2 {
			runtime.Gosched()
		}
		start.Store(true)
		select {
		case <-done:
		case <-time.After(2 * time.Second):
			buf := make([]byte, 1<<20)
			buf = buf[:runtime.Stack(buf, true)]
			for _, g := range strings.Split(string(buf), "\n\n") {
				_ = g
			}
			t.Logf("deadlock at attempt %d", attempt); return
		}
	}
}
