package c15

import (
	"sync"
	"testing"
	"testing/synctest"
	"time"
	"fmt"
)

func TestProbeMutexWedge(t *testing.T) {
	done := make(chan struct{})
	go func() {
		select {
		case <-done:
		case <-time.After(3 * time.Second):
			fmt.Println("WEDGED (real 3s)")
			panic("wedged")
		}
	}()
	synctest.Test(t, func(t *testing.T) {
		var mu sync.Mutex
		ch := make(chan int)
		go func() { mu.Lock(); ch <- 1; mu.Unlock() }()
		synctest.Wait()
		go func() { mu.Lock(); mu.Unlock() }()
		synctest.Wait()
		fmt.Println("wait returned with mutex waiter")
		<-ch
	})
	close(done)
}
