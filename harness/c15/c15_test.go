package c15

import (
	"encoding/json"
	"fmt"
	"log/slog"
	"os"
	"strings"
	"testing"
	"time"

	logging "github.com/libp2p/go-libp2p/gologshim"
	"pgregory.net/rapid"

	"verif/internal/hx"
	"verif/internal/stats"
)

func TestMain(m *testing.M) {
	// The bus warns through its package logger when an emit stalls for 1 s (virtual);
	// thousands of such lines would bury the results. Process-global, set once.
	logging.SetDefaultHandler(slog.DiscardHandler)
	stats.Describe("exploration",
		"A case is a schedule run against a fresh bus inside a synctest bubble; the bus is built either plain, eventbus.NewBus(), or with a metrics tracer, "+
			"eventbus.NewBus(eventbus.WithMetricsTracer(t)) with t a tracer that only counts its calls or t the library's own Prometheus tracer, "+
			"eventbus.NewMetricsTracer(eventbus.WithRegisterer(<fresh registry>)), the one libp2p.New installs (plain: half of the generated schedules; the others with either kind of tracer, label bus:metrics-tracer:library-prometheus-tracer counts the second kind; "+
			"both enumerations below run every shape plain and with the counting tracer): the statement speaks of the event bus however it was constructed, so every oracle applies to both alike and the tracer's "+
			"counts are used for coverage labels only (bus:metrics-tracer:events-received-by:<kind>/buf:<n> = a subscription of that kind and BufSize on a bus with a "+
			"tracer received events). 3 event types (each stateful or not), 1-4 emitters "+
			"(each opened with or without eventbus.Stateful: by default as its type says, but where a type has several emitters each of them may disagree - "+
			"stateful then plain, plain then stateful, two against one, the first one closed before the next is opened; emitters are opened before step 0 in "+
			"generated number and order or by a step in the middle of the history, after events of the type; TestStatefulEmittersDisagree concentrates on "+
			"2-4 emitters of mostly one type, half of them disagreeing, with Emitter creation / Close a quarter of all actions), "+
			"1-5 subscriptions (single type / several types / wildcard; BufSize 0,1,2,16 or default; created with eventbus.Name or without - no subscription of the case named, each named or not on its own "+
			"with names from a window of a pool of 32768 so that most are new to the process and two subscriptions sometimes share one, or one explicit name for all; a name is a metrics label and changes no rule; "+
			"reading eagerly, or only when granted N reads / resumed), 1-3 emit goroutines, and steps at increasing virtual instants; all actions of a step (Emit bursts, Subscribe, "+
			"Subscription.Close (also twice), resume/grant reads, Emitter creation/Close (also twice), calls the bus has to refuse, read-only queries) start together and race "+
			"for real (in part of the TestBusConcurrentRaces and most of the TestConcurrentEmitsMetricsBus schedules, label steps-released-by-non-yielding-barrier, the actions of a step are released by a second, non-yielding barrier, each holding a processor "+
			"of its own at that instant). TestConcurrentEmitsMetricsBus concentrates on emit goroutines that run at the same time on a bus with the Prometheus tracer: always that tracer, 2-3 emit goroutines, 2-4 emitters, "+
			"3-8 subscriptions (half wildcard, mostly with names of their own), 60 % of the actions Emit bursts, Subscribe racing with them (labels prometheus-tracer:concurrent-emits...: two Emit calls of different "+
			"goroutines overlapped by their call stamps; :wildcard-subscriber / :different-types say why the bus does not serialise them). TestManyGoroutinesEmitTogether is the plain fan-in shape without the schedule engine: "+
			"2-8 goroutines, each with an emitter of its own (one type for all or spread over the three), emit bursts of 1-5 released together, in 1-3 rounds; each round has 1-8 fresh eagerly read subscriptions "+
			"(wildcard / one type / several; BufSize 0,1,2,16 or default; names as above); bus with the Prometheus tracer (most cases) / with the counting tracer / plain (labels bus:...); oracle = quiescent completeness: once every Emit of the round has "+
			"returned and the bubble is quiescent every subscription of the round has read exactly the round's events of its types, each once, per emitter in order, nothing else; NON-TRIVIAL there = some subscription "+
			"hears two or more of the goroutines; DISTINCT = distinct case with names abstracted to their sharing pattern. The tracer's own records are never judged. Read-only queries (about 1 action in 10, and in a quarter of the final rounds): Bus.GetAllEventTypes, alone or followed by Name / Out of a generated subscription that exists by then; "+
			"they are scheduled at any instant, in particular next to Subscribe / Close / Emitter calls while an Emit of an earlier step is stalled on a slow subscriber and stays stalled past the step "+
			"(labels query:while-emit-blocked...; TestBlockedEmitEnumerated makes them during every enumerated stall, alone, next to the Close of an unrelated type's only subscription and next to "+
			"Subscribe + Emitter of an unrelated type); their answers are not judged (the statement says nothing about them), a query changes nothing, so every oracle below applies to the rest of the "+
			"history unchanged, and the query itself has to have returned at the next quiescence point like every call other than a justified blocked Emit. Refused calls (in 40 % of the schedules, each any number of times, also during the final round): Subscribe with an offending element at a "+
			"generated position of a generated list of 0-3 well-formed types (a non-pointer: int, event value instead of pointer, string, empty struct; or the "+
			"wildcard inside a list), Subscribe / Emitter with an option that returns an error (before or after BufSize / Stateful), Emitter for a non-pointer or "+
			"for the wildcard; they create no subscriber, so the oracles below apply to the rest of the history unchanged. The case ends with "+
			"every reader resumed, then a last round of emits racing with the concurrent Close of everything. Events carry (emitter, number); "+
			"every call is bracketed by logical stamps. Oracles at every quiescence point: completeness for drained subscribers, queued-count for "+
			"slow ones (blocks, never drops), no duplicates, per-emitter order, gap-free prefix before Close was called, retained event first and "+
			"most recent for stateful types (a type is stateful from the moment any emitter opened with Stateful was returned, and stays so while the type is in "+
			"use, whichever emitters - with or without Stateful - are opened or closed for it afterwards, the declaring one included; every later Emit of any of "+
			"its emitters becomes the remembered event; before any emitter declared the type stateful nothing emitted earlier may be replayed), "+
			"nothing of a closed subscription / failed Emit / later Emit delivered, closed channel after Close, "+
			"every blocked Emit justified by a full unread subscriber (one that Subscribe returned: never a refused call) and released by read or Close, "+
			"every other call (refused ones included) returned, bubble exits. "+
			"NON-TRIVIAL = a Subscription.Close or Emitter.Close overlapped an Emit that could reach it (blocked or in flight), or a Subscribe to a "+
			"stateful type that already had an event overlapped an Emit of that type, or the retained event was demanded from and checked on a subscriber "+
			"to a type whose emitters disagreed on Stateful at that point, or a refused Subscribe named well-formed types before its offending "+
			"element and more events of such a type than the buffer it asked for were emitted afterwards. DISTINCT = distinct (specification, executed step trace).",
		"a data race or unsynchronised map inside a delivery has no deterministic symptom: the quick tier sees it only when the Go runtime's concurrent-map check ends the process (reported as process-crash) or the events come out wrong; the thorough tier re-runs TestBusConcurrentRaces, TestStatefulReplay, TestConcurrentEmitsMetricsBus and TestManyGoroutinesEmitTogether under the race detector",
		"interleavings inside one virtual instant come from the Go scheduler (plus generated runtime.Gosched counts); they are sampled, not enumerated",
		"actions that could leave a goroutine waiting on a bus mutex behind an emit stalled past the end of the step are not scheduled (a mutex wait is invisible to synctest); a stall is always resolvable within a step by resume/close",
		"one goroutine at a time uses a given emitter for a burst only when no other burst of it is unfinished on the same emit goroutine; order is asserted between events of one emitter whose Emit calls did not overlap",
		"a retained event is demanded only when, by the call stamps alone, the type was in use without interruption (a chain of overlapping lifetimes of emitters returned and not yet asked to close, and of typed subscriptions) from the moment the Stateful emitter that declared it was returned, over the Emit of the event, until Subscribe returned: the bus documents that a type's state lives as long as it has emitters or subscribers; an Emitter call that the bus refuses declares nothing",
		"a bubble that cannot reach quiescence within the harness watchdog is reported as a violation (mutex deadlock of the bus)",
		"a read-only query (Bus.GetAllEventTypes, Subscription.Name / Out) is planned as a call that never waits for a subscriber: it is scheduled whatever is stalled and has to have returned at the next quiescence point; a query that waits behind a stalled Emit holding a lock that Subscribe / Close / Emitter need is what 'closing concurrently with emits never deadlocks' rules out (inside a bubble it shows up as a bubble that cannot reach quiescence)",
		"refused calls are the ones the API documents as errors (element that is not a pointer, wildcard inside a list, option error, Emitter for a non-pointer / the wildcard); nil elements (the bus panics on them) and lists naming one type twice (accepted by the bus) are not generated; a refused call is planned as a transient user of the locks the accepted call would take",
	)
	hx.Main(m)
}

// ---------------------------------------------------------------------------
// Generators.

type profile struct {
	name        string
	allStateful bool
	maxSteps    int
	minActs     int
	maxActs     int
	gaps        []int // candidate gaps (ms)
	kinds       []int // weights: emit sub closeSub resume grant closeEm newEm bad query
	badPct      int   // share of scenarios that contain calls the bus has to refuse
	eagerPct    int
	bufs        []int
	bursts      []int
	preAllSubs  bool
	disagreePct int   // per emitter of a type that has several: chance that its Stateful option differs from the type's
	sameTypePct int   // per emitter after the first: chance that it gets the type of the first (0 = one in three)
	minEms      int   // at least this many emitters (0 = 1)
	lateEmsPct  int   // chance that only the first emitter exists before step 0 (the others are opened by steps of the history)
	realPct     int   // of the schedules on a bus with a metrics tracer: share whose tracer is the library's Prometheus tracer (0 = 50; 100 = every schedule has one)
	minWorkers  int   // at least this many emit goroutines (0 = 1)
	tightPct    int   // share of the schedules whose steps are released by the non-yielding barrier (scenario.Tight)
	minSubs     int   // at least this many subscriptions (0 = 1)
	maxSubs     int   // at most this many subscriptions (0 = 5)
	subKinds    []int // weights single / multi / wild (nil = 45 25 30)
	nameModes   []int // weights: each subscription named or not on its own / none named / all share one name (nil = 50 35 15)
}

var kindNames = []string{"emit", "sub", "closeSub", "resume", "grant", "closeEm", "newEm", "bad", "query"}

var (
	profGeneral = profile{name: "general", maxSteps: 6, minActs: 1, maxActs: 5, gaps: []int{0, 1, 1, 600, 1100},
		kinds: []int{42, 11, 10, 7, 10, 7, 6, 12, 9}, badPct: 40, eagerPct: 45, bufs: []int{0, 0, 1, 1, 2, 2, 16, -1}, bursts: []int{1, 1, 2, 3, 3, 5, 18}, disagreePct: 15}
	profRaces = profile{name: "races", maxSteps: 3, minActs: 3, maxActs: 9, gaps: []int{0, 0, 1},
		kinds: []int{40, 18, 16, 4, 4, 9, 9, 14, 10}, badPct: 40, eagerPct: 75, bufs: []int{0, 1, 2, 16, 16, -1}, bursts: []int{1, 2, 3, 4, 6}, disagreePct: 15, tightPct: 25}
	profStateful = profile{name: "stateful", allStateful: true, maxSteps: 5, minActs: 1, maxActs: 5, gaps: []int{0, 1, 1, 1100},
		kinds: []int{45, 22, 8, 6, 8, 5, 6, 12, 8}, badPct: 40, eagerPct: 60, bufs: []int{0, 1, 2, 2, 16, -1}, bursts: []int{1, 1, 2, 3}, disagreePct: 15}
	// several emitters of (mostly) one type that disagree on Stateful, opened and closed all
	// along the history, with subscriptions arriving in between
	profEmitters = profile{name: "emitters", maxSteps: 7, minActs: 1, maxActs: 4, gaps: []int{0, 1, 1, 1, 600},
		kinds: []int{32, 20, 6, 4, 5, 12, 17, 4, 6}, badPct: 15, eagerPct: 70, bufs: []int{0, 1, 2, 16, 16, -1}, bursts: []int{1, 1, 2, 3},
		disagreePct: 50, sameTypePct: 75, minEms: 2, lateEmsPct: 50}
	// emit goroutines that really run at the same time on a bus with the library's Prometheus
	// tracer: 2-3 emit goroutines, 2-4 emitters, 3-8 subscriptions (half of them wildcard) with
	// names of their own, bursts started together at one instant, subscriptions joining meanwhile
	profMetrics = profile{name: "metrics", maxSteps: 3, minActs: 3, maxActs: 7, gaps: []int{0, 0, 1},
		kinds: []int{60, 16, 6, 3, 3, 3, 4, 2, 3}, badPct: 10, eagerPct: 85, bufs: []int{1, 2, 16, 16, 16, -1}, bursts: []int{1, 2, 3, 4, 6},
		disagreePct: 15, minEms: 2, realPct: 100, minWorkers: 2, tightPct: 70, minSubs: 3, maxSubs: 8, subKinds: []int{25, 25, 50}, nameModes: []int{80, 10, 10}}
)

func weighted(rt *rapid.T, label string, w []int) int {
	sum := 0
	for _, x := range w {
		sum += x
	}
	r := rapid.IntRange(0, sum-1).Draw(rt, label)
	for i, x := range w {
		if r < x {
			return i
		}
		r -= x
	}
	return 0
}

// genBad draws one call the bus has to refuse (see badSpec): the list shape, the offending
// element and its position are all generated.
func genBad(rt *rapid.T, p profile, live []int) badSpec {
	b := badSpec{Buf: rapid.SampledFrom(p.bufs).Draw(rt, "badBuf")}
	// well-formed elements: a prefix of a permutation of the types, rotated so that a type
	// with an emitter (one that will see traffic) tends to come first
	types := func(lo, hi int) []int {
		perm := rapid.Permutation([]int{0, 1, 2}).Draw(rt, "badTypes")
		n := rapid.IntRange(lo, hi).Draw(rt, "badN")
		if n > 0 && rapid.IntRange(0, 2).Draw(rt, "badLiveFirst") > 0 {
			first := rapid.SampledFrom(live).Draw(rt, "badFirst")
			for i, t := range perm {
				if t == first {
					perm[0], perm[i] = perm[i], perm[0]
				}
			}
		}
		return append([]int{}, perm[:n]...)
	}
	if rapid.IntRange(0, 3).Draw(rt, "badCall") > 0 {
		b.Call = "sub"
		switch weighted(rt, "badWhy", []int{60, 20, 20}) {
		case 0:
			b.Why = "nonptr"
			b.Types = types(0, 3)
			b.Pos = rapid.IntRange(0, len(b.Types)).Draw(rt, "badPos")
			b.Val = rapid.IntRange(0, 3).Draw(rt, "badVal")
			b.Bare = len(b.Types) == 0 && rapid.Bool().Draw(rt, "badBare")
		case 1:
			b.Why = "wildcard"
			b.Types = types(1, 3)
			b.Pos = rapid.IntRange(0, len(b.Types)).Draw(rt, "badPos")
		default:
			b.Why = "opt"
			b.OptFirst = rapid.Bool().Draw(rt, "badOptFirst")
			if b.Wild = rapid.IntRange(0, 3).Draw(rt, "badWild") == 0; !b.Wild {
				b.Types = types(1, 3)
				b.Bare = len(b.Types) == 1 && rapid.Bool().Draw(rt, "badBare")
			}
		}
		return b
	}
	b.Call = "em"
	b.Types = []int{rapid.IntRange(0, nTypes-1).Draw(rt, "badEmType")}
	switch weighted(rt, "badWhy", []int{40, 20, 40}) {
	case 0:
		b.Why = "nonptr"
		b.Val = rapid.IntRange(0, 3).Draw(rt, "badVal")
	case 1:
		b.Why = "wildcard"
	default:
		b.Why = "opt"
		b.OptFirst = rapid.Bool().Draw(rt, "badOptFirst")
	}
	b.Stateful = rapid.Bool().Draw(rt, "badStatefulOpt")
	return b
}

func genScenario(rt *rapid.T, p profile) *scenario {
	// how the bus is built: plain, or with a (counting) metrics tracer
	sc := &scenario{Tracer: p.realPct == 100 || rapid.Bool().Draw(rt, "metricsTracer")}
	if sc.Tracer {
		// the counting tracer of the harness, or the library's own Prometheus tracer
		pct := p.realPct
		if pct == 0 {
			pct = 50
		}
		sc.RealTracer = rapid.IntRange(0, 99).Draw(rt, "realTracer") < pct
	}
	sc.Tight = p.tightPct > 0 && rapid.IntRange(0, 99).Draw(rt, "tightStart") < p.tightPct
	var typeStateful [nTypes]bool
	for t := 0; t < nTypes; t++ {
		typeStateful[t] = p.allStateful || rapid.Bool().Draw(rt, "stateful")
	}
	sc.Workers = rapid.IntRange(max(1, p.minWorkers), 3).Draw(rt, "workers")
	nEm := rapid.IntRange(max(1, p.minEms), 4).Draw(rt, "emitters")
	usedType := [nTypes]bool{}
	emsOfType := [nTypes]int{}
	for i := 0; i < nEm; i++ {
		t := rapid.IntRange(0, nTypes-1).Draw(rt, "emType")
		same := false
		if i > 0 && p.sameTypePct == 0 {
			same = rapid.IntRange(0, 2).Draw(rt, "sameType") == 0
		} else if i > 0 {
			same = rapid.IntRange(0, 99).Draw(rt, "sameTypePct") < p.sameTypePct
		}
		if same {
			t = sc.Ems[0] // several emitters of one type are the interesting case
		}
		sc.Ems = append(sc.Ems, t)
		usedType[t] = true
		emsOfType[t]++
	}
	// Which emitters ask for Stateful: by default all emitters of a stateful type and none of
	// a plain one; where a type has several emitters, each of them may disagree with that
	// (stateful then plain, plain then stateful, two against one, ... in creation order: the
	// first PreEms emitters are opened in index order before step 0, the others by newEm
	// actions at generated steps in generated order; closeEm actions fall in between).
	for _, t := range sc.Ems {
		st := typeStateful[t]
		if emsOfType[t] > 1 && rapid.IntRange(0, 99).Draw(rt, "disagree") < p.disagreePct {
			st = !st
		}
		sc.EmStateful = append(sc.EmStateful, st)
	}
	for t := 0; t < nTypes; t++ {
		sc.Stateful[t] = typeStateful[t] && emsOfType[t] == 0 // no emitter: irrelevant, keep what was drawn
	}
	for i, t := range sc.Ems {
		sc.Stateful[t] = sc.Stateful[t] || sc.EmStateful[i]
	}
	var live []int
	for t := 0; t < nTypes; t++ {
		if usedType[t] {
			live = append(live, t)
		}
	}
	nSub := rapid.IntRange(max(1, p.minSubs), max(5, p.maxSubs)).Draw(rt, "subs")
	// Subscription names (eventbus.Name): none given (the bus then names every subscription of
	// the case after the one calling line), each subscription named or not on its own (names
	// from a window of a pool of 32768, so that most are new to the process and two
	// subscriptions of a case sometimes share one), or one explicit name for all.
	subKinds, nameModes := p.subKinds, p.nameModes
	if subKinds == nil {
		subKinds = []int{45, 25, 30}
	}
	if nameModes == nil {
		nameModes = []int{50, 35, 15}
	}
	nameMode := weighted(rt, "nameMode", nameModes)
	nameBase := 16 * rapid.IntRange(0, 2047).Draw(rt, "nameBase")
	for i := 0; i < nSub; i++ {
		sp := subSpec{Buf: rapid.SampledFrom(p.bufs).Draw(rt, "buf"), Eager: rapid.IntRange(0, 99).Draw(rt, "eager") < p.eagerPct}
		switch nameMode {
		case 0:
			if k := rapid.IntRange(-1, max(7, 2*nSub)).Draw(rt, "name"); k >= 0 {
				sp.Name = fmt.Sprintf("c15-sub-%d", nameBase+k)
			}
		case 2:
			sp.Name = fmt.Sprintf("c15-sub-%d", nameBase)
		}
		switch weighted(rt, "subKind", subKinds) {
		case 0:
			sp.Kind = "single"
			t := rapid.SampledFrom(live).Draw(rt, "subType")
			if rapid.IntRange(0, 9).Draw(rt, "anyType") == 0 {
				t = rapid.IntRange(0, nTypes-1).Draw(rt, "subTypeAny")
			}
			sp.Types = []int{t}
		case 1:
			sp.Kind = "multi"
			perm := rapid.Permutation([]int{0, 1, 2}).Draw(rt, "multiTypes")
			sp.Types = append([]int{}, perm[:rapid.IntRange(2, 3).Draw(rt, "multiN")]...)
		default:
			sp.Kind = "wild"
		}
		sc.Subs = append(sc.Subs, sp)
	}
	if rapid.IntRange(0, 99).Draw(rt, "withBad") < p.badPct {
		for i, n := 0, rapid.IntRange(1, 2).Draw(rt, "bads"); i < n; i++ {
			sc.Bad = append(sc.Bad, genBad(rt, p, live))
		}
	}
	sc.PreEms = rapid.IntRange(1, nEm).Draw(rt, "preEms")
	if p.lateEmsPct > 0 && rapid.IntRange(0, 99).Draw(rt, "lateEms") < p.lateEmsPct {
		sc.PreEms = 1
	}
	sc.PreSubs = rapid.IntRange(0, nSub).Draw(rt, "preSubs")
	if p.preAllSubs {
		sc.PreSubs = nSub
	}

	// optimistic static model (every action accepted) used only to aim the actions; the
	// runner re-validates against what really happened
	emReadyAt := make([]int, nEm) // step from which usable, -1 = pre-created, 1<<30 = not created
	subReadyAt := make([]int, nSub)
	emClosed, subClosed, subEager := make([]bool, nEm), make([]bool, nSub), make([]bool, nSub)
	for i := range emReadyAt {
		emReadyAt[i] = 1 << 30
		if i < sc.PreEms {
			emReadyAt[i] = -1
		}
	}
	for i := range subReadyAt {
		subReadyAt[i] = 1 << 30
		if i < sc.PreSubs {
			subReadyAt[i] = -1
			subEager[i] = sc.Subs[i].Eager
		}
	}
	nSteps := rapid.IntRange(1, p.maxSteps).Draw(rt, "steps")
	for si := 0; si < nSteps; si++ {
		st := step{GapMs: rapid.SampledFrom(p.gaps).Draw(rt, "gap")}
		nActs := rapid.IntRange(p.minActs, p.maxActs).Draw(rt, "acts")
		emitsInStep := 0
		for ai := 0; ai < nActs; ai++ {
			sel := func(ok func(i int) bool, n int, label string) int {
				var c []int
				for i := 0; i < n; i++ {
					if ok(i) {
						c = append(c, i)
					}
				}
				if len(c) == 0 {
					return -1
				}
				return rapid.SampledFrom(c).Draw(rt, label)
			}
			a := action{K: kindNames[weighted(rt, "kind", p.kinds)], Y: rapid.SampledFrom([]int{0, 0, 0, 1, 2, 5}).Draw(rt, "yield")}
			aimed := false
			switch a.K {
			case "sub":
				if a.S = sel(func(i int) bool { return subReadyAt[i] == 1<<30 }, nSub, "subNew"); a.S >= 0 {
					aimed = true
					subReadyAt[a.S] = si + 1
					subEager[a.S] = sc.Subs[a.S].Eager
				}
			case "closeSub":
				if a.S = sel(func(i int) bool { return subReadyAt[i] <= si && !subClosed[i] }, nSub, "subClose"); a.S >= 0 {
					aimed = true
					subClosed[a.S] = true
					a.Twice = rapid.IntRange(0, 5).Draw(rt, "twice") == 0
				}
			case "resume", "grant":
				if a.S = sel(func(i int) bool { return subReadyAt[i] <= si && !subClosed[i] && !subEager[i] }, nSub, "subSlow"); a.S >= 0 {
					aimed = true
					if a.K == "resume" {
						subEager[a.S] = true
					} else {
						a.N = rapid.SampledFrom([]int{1, 1, 2, 3, 17}).Draw(rt, "grantN")
					}
				}
			case "closeEm":
				if a.E = sel(func(i int) bool { return emReadyAt[i] <= si && !emClosed[i] }, nEm, "emClose"); a.E >= 0 {
					aimed = true
					emClosed[a.E] = true
					a.Twice = rapid.IntRange(0, 4).Draw(rt, "twiceEm") == 0
				}
			case "newEm":
				if a.E = sel(func(i int) bool { return emReadyAt[i] == 1<<30 }, nEm, "emNew"); a.E >= 0 {
					aimed = true
					emReadyAt[a.E] = si + 1
				}
			case "bad":
				if len(sc.Bad) > 0 {
					aimed = true
					a.B = rapid.IntRange(0, len(sc.Bad)-1).Draw(rt, "badWhich")
				}
			case "query":
				// always possible, whatever is stalled; -1 = the bus query alone
				aimed = true
				a.S = rapid.IntRange(-1, nSub-1).Draw(rt, "querySub")
			}
			if !aimed {
				// an emit burst (also the fallback when the drawn kind has no target)
				if emitsInStep >= sc.Workers {
					continue
				}
				emitsInStep++
				a = action{K: "emit", Y: a.Y}
				a.W = rapid.IntRange(0, sc.Workers-1).Draw(rt, "worker")
				alsoClosed := rapid.IntRange(0, 7).Draw(rt, "closedEm") == 0
				if a.E = sel(func(i int) bool { return emReadyAt[i] <= si && (alsoClosed || !emClosed[i]) }, nEm, "emitter"); a.E < 0 {
					a.E = sel(func(i int) bool { return emReadyAt[i] <= si }, nEm, "emitterAny")
				}
				if a.E < 0 {
					a.E = 0
				}
				a.N = rapid.SampledFrom(p.bursts).Draw(rt, "burst")
			}
			st.Acts = append(st.Acts, a)
		}
		sc.Steps = append(sc.Steps, st)
	}
	nFinal := rapid.IntRange(0, sc.Workers).Draw(rt, "finalBursts")
	for w := 0; w < nFinal; w++ {
		sc.FinalBursts = append(sc.FinalBursts, action{K: "emit", W: w, E: rapid.IntRange(0, nEm-1).Draw(rt, "finalEm"),
			N: rapid.IntRange(1, 4).Draw(rt, "finalN"), Y: rapid.IntRange(0, 3).Draw(rt, "finalY")})
	}
	if len(sc.Bad) > 0 && rapid.IntRange(0, 2).Draw(rt, "finalBad") == 0 {
		// a refused call racing with the final round of emits and the Close of everything
		sc.FinalBursts = append(sc.FinalBursts, action{K: "bad", B: rapid.IntRange(0, len(sc.Bad)-1).Draw(rt, "finalBadWhich"), Y: rapid.IntRange(0, 3).Draw(rt, "finalBadY")})
	}
	if rapid.IntRange(0, 3).Draw(rt, "finalQuery") == 0 {
		// a query racing with the final round of emits and the Close of everything
		sc.FinalBursts = append(sc.FinalBursts, action{K: "query", S: rapid.IntRange(-1, nSub-1).Draw(rt, "finalQuerySub"), Y: rapid.IntRange(0, 3).Draw(rt, "finalQueryY")})
	}
	sc.FinalY = rapid.SliceOfN(rapid.SampledFrom([]int{0, 0, 1, 2, 4}), 1, 6).Draw(rt, "finalYields")
	return sc
}

func specString(sc *scenario) string {
	var b strings.Builder
	fmt.Fprintf(&b, "tracer=%v/%v tight=%v st=%v/%v w=%d em=%v pre=%d/%d", sc.Tracer, sc.RealTracer, sc.Tight, sc.Stateful, sc.EmStateful, sc.Workers, sc.Ems, sc.PreEms, sc.PreSubs)
	// names are abstracted to their pattern: 0 = option omitted, k = the k-th distinct name of the case
	nameIdx := map[string]int{"": 0}
	for _, s := range sc.Subs {
		if _, ok := nameIdx[s.Name]; !ok {
			nameIdx[s.Name] = len(nameIdx)
		}
		fmt.Fprintf(&b, " %s%v/%d/%v/n%d", s.Kind, s.Types, s.Buf, s.Eager, nameIdx[s.Name])
	}
	for _, bad := range sc.Bad {
		fmt.Fprintf(&b, " !%v", bad)
	}
	for _, st := range sc.Steps {
		fmt.Fprintf(&b, " @%d", st.GapMs)
	}
	return b.String()
}

func runCase(t *testing.T, rt *rapid.T, name string, sc *scenario) *result {
	var res *result
	defer func() {
		if res != nil && res.failure != "" {
			rt.Logf("C15 first failure: %s\nexecuted: %s", res.failure, res.trace)
		}
	}()
	// diagnostics only (no verdict): if the bubble hangs, hx's watchdog reports it a little
	// later; say which scenario it was
	done := make(chan struct{})
	go func() {
		select {
		case <-done:
		case <-time.After(100 * time.Second):
			js, _ := json.Marshal(sc)
			fmt.Fprintf(os.Stderr, "C15: this scenario has not finished after 100 s (bus deadlocked on its mutexes?): %s\n", js)
		}
	}()
	defer close(done)
	res = bubbleRun(t, rt, sc, "")
	record(name, sc, res)
	if res.failure != "" {
		rt.Fatalf("%s\nexecuted steps: %s", res.failure, res.trace)
	}
	return res
}

// bubbleRun runs sc in a fresh bubble. When the run failed and left an Emit blocked for good
// (the bubble then cannot shut down, which hx.Bubble reports in its own words), the failure
// of the oracle is raised inside the bubble so that it is the one that gets reported.
func bubbleRun(t *testing.T, rt *rapid.T, sc *scenario, ctx string) *result {
	var res *result
	hx.Bubble(t, rt, func() {
		res = runScenario(sc)
		if res.failure != "" && res.stuck {
			rt.Fatalf("%s%s (and the Emit stays blocked although every subscription is drained)\nexecuted steps: %s", ctx, res.failure, res.trace)
		}
	})
	return res
}

func record(name string, sc *scenario, res *result) {
	if res.excluded {
		stats.Excluded(name)
	}
	labels := append([]string{}, res.labels...)
	if res.emits == 0 {
		labels = append(labels, "no-emit-at-all")
	}
	stats.Case(name, specString(sc)+" || "+res.trace, res.nontrivial, labels...)
	if stats.WantSample(name) {
		stats.Sample(name, map[string]any{"scenario": sc, "executed": res.trace, "labels": res.labels})
	}
}

func propSchedules(t *testing.T, p profile, quick, thorough int) {
	name := t.Name()
	hx.Check(t, quick, thorough, 0, func(rt *rapid.T) {
		sc := genScenario(rt, p)
		runCase(t, rt, name, sc)
	})
}

// TestBusSchedules: the general schedule space (slow subscribers, long stalls, closes of
// every kind in every order).
func TestBusSchedules(t *testing.T) { propSchedules(t, profGeneral, 22000, 900000) }

// TestBusConcurrentRaces: few instants, many racing actions (Subscribe / Close / Emit /
// Emitter.Close at the same instant); also the -race pass.
func TestBusConcurrentRaces(t *testing.T) { propSchedules(t, profRaces, 18000, 750000) }

// TestStatefulReplay: every type stateful, subscriptions arriving between and during emits.
// Several goroutines emit at the same time - to wildcard subscribers, and on different event
// types - on a bus that reports to the library's own Prometheus tracer, with named
// subscriptions, most of them created before the first emit or racing with it: "Emit from
// several emitters and goroutines" on the bus as libp2p.New builds it. Same oracles as
// everywhere; a crash of the process (the runtime's fatal error on an unsynchronised map
// inside a delivery cannot be recovered) is reported by the driver as process-crash, and the
// thorough tier re-runs the test under the race detector.
func TestConcurrentEmitsMetricsBus(t *testing.T) { propSchedules(t, profMetrics, 12000, 400000) }

func TestStatefulReplay(t *testing.T) { propSchedules(t, profStateful, 9000, 350000) }

// TestStatefulEmittersDisagree: two to four emitters, mostly of one type, half of which
// disagree with the others on Stateful; emitters are opened and closed all along the
// history (Emitter creation / Emitter.Close are a quarter of the actions), subscriptions
// arrive in between. "A subscriber to a stateful event type first receives the most recent
// earlier event": a type is stateful once any of its emitters declared it so, whichever
// emitters were opened or closed for it afterwards, and every later emit refreshes the
// remembered event.
func TestStatefulEmittersDisagree(t *testing.T) { propSchedules(t, profEmitters, 9000, 300000) }

// TestBlockedEmitEnumerated enumerates the basic stall shapes completely: one slow
// subscriber of each kind and buffer size (optionally next to an eager one), a burst of
// cap+2 events that must stall after exactly cap of them, a stall shorter or longer than
// the 1 s slow-consumer warning, resolved by resume / Close / double Close / a grant of one
// read followed by Close; without a stateful type, and with one and a retained event where
// both emitters of the type, only the first or only the second one asked for Stateful; each
// shape on a plain bus and on a bus built with a metrics tracer; and, at an instant of its
// own while the Emit is stalled: nothing, a read-only query (Bus.GetAllEventTypes and the slow
// subscription's Name / Out), the query racing with the Close of the only subscription of an
// unrelated type, or the query racing with a Subscribe and an Emitter call for an unrelated
// type - every call other than the stalled Emit has to have returned at the next quiescence
// point, and the resolution that follows has to release the Emit as in the plain shape.
func TestBlockedEmitEnumerated(t *testing.T) {
	name := t.Name()
	// one rapid "case" per shard carries the whole (sharded) enumeration, so that the
	// bubbles run under hx.Bubble (failure plumbing, watchdog); nothing is drawn
	hx.Check(t, 1, 1, 0, func(rt *rapid.T) { enumerateBlocked(t, rt, name) })
	stats.Exhaustive(name)
}

func enumerateBlocked(t *testing.T, rt *rapid.T, name string) {
	idx := 0
	for _, kind := range []string{"single", "multi", "wild"} {
		for _, buf := range []int{0, 1, 2, 16, -1} {
			for _, gap := range []int{1, 1500} {
				for _, resolve := range []string{"resume", "close", "close2", "grant-close", "grant-resume"} {
					// who asks for Stateful: neither emitter, both, only the first one opened (e0,
					// which emits the burst), only the second one (e1, which emits the event that
					// is to be remembered); in the last three the type is stateful
					for _, stMode := range []string{"none", "both", "first-only", "second-only"} {
						stateful := stMode != "none"
						// next to an eager subscriber or not; on a plain bus or on one built with a
						// metrics tracer
						for combo := 0; combo < 16; combo++ {
							withEager, tracer := combo&1 != 0, combo&2 != 0
							// while the Emit is stalled (its own instant between the burst and the
							// resolution): nothing; a read-only query (GetAllEventTypes plus the slow
							// subscription's accessors); the query racing with the Close of the only
							// subscription of an unrelated type; the query racing with a Subscribe and
							// an Emitter call for an unrelated type
							during := []string{"", "query", "query+close-unrelated", "query+open-unrelated"}[combo>>2]
							idx++
							// scattered over the shards (the plain index would give a shard the same
							// few (stMode, withEager, tracer) combinations throughout: the inner loops
							// have 16 combinations, the shard counts are 4 and 16)
							if !hx.Mine(int((uint32(idx) * 2654435761) >> 7)) {
								continue
							}
							sp := subSpec{Kind: kind, Buf: buf}
							switch kind {
							case "single":
								sp.Types = []int{0}
							case "multi":
								sp.Types = []int{1, 0}
							}
							sc := &scenario{Tracer: tracer, Workers: 2, Ems: []int{0, 0}, Subs: []subSpec{sp}, PreEms: 2, PreSubs: 0}
							sc.Stateful[0] = stateful
							sc.EmStateful = []bool{stMode == "both" || stMode == "first-only", stMode == "both" || stMode == "second-only"}
							if withEager {
								sc.Subs = append(sc.Subs, subSpec{Kind: "single", Types: []int{0}, Buf: 1, Eager: true})
							}
							c := sp.capacity()
							// step 0: one event before anybody subscribed (becomes the retained event)
							sc.Steps = append(sc.Steps, step{Acts: []action{{K: "emit", W: 0, E: 1, N: 1}}})
							// step 1: subscribe (sequentially before the burst: own instant)
							if withEager {
								sc.Steps = append(sc.Steps, step{GapMs: 1, Acts: []action{{K: "sub", S: 1}}})
							}
							sc.Steps = append(sc.Steps, step{GapMs: 1, Acts: []action{{K: "sub", S: 0}}})
							// step 2: burst that overfills the slow subscriber by 2. An unbuffered slow
							// subscriber of a stateful type first stalls the replay of the retained event
							// (which keeps the node lock): let it read that one and wait for one more.
							n := c + 2
							if stateful && c == 0 && kind != "wild" {
								sc.Steps = append(sc.Steps, step{GapMs: 1, Acts: []action{{K: "grant", S: 0, N: 2}}})
								n++
							}
							sc.Steps = append(sc.Steps, step{GapMs: 1, Acts: []action{{K: "emit", W: 0, E: 0, N: n}}})
							// while it is stalled: type C has nothing to do with the stall
							if during != "" {
								other := len(sc.Subs)
								sc.Subs = append(sc.Subs, subSpec{Kind: "single", Types: []int{2}, Buf: 1, Eager: true})
								acts := []action{{K: "query", S: 0}}
								switch during {
								case "query+close-unrelated":
									sc.Steps = append([]step{{Acts: []action{{K: "sub", S: other}}}}, sc.Steps...)
									acts = append(acts, action{K: "closeSub", S: other, Y: 1})
								case "query+open-unrelated":
									sc.Ems = append(sc.Ems, 2)
									sc.EmStateful = append(sc.EmStateful, false)
									acts = append(acts, action{K: "sub", S: other, Y: 1}, action{K: "newEm", E: 2, Y: 2})
								}
								sc.Steps = append(sc.Steps, step{GapMs: 1, Acts: acts})
							}
							// step 3..: resolution after the gap
							switch resolve {
							case "resume":
								sc.Steps = append(sc.Steps, step{GapMs: gap, Acts: []action{{K: "resume", S: 0}}})
							case "close":
								sc.Steps = append(sc.Steps, step{GapMs: gap, Acts: []action{{K: "closeSub", S: 0}}})
							case "close2":
								sc.Steps = append(sc.Steps, step{GapMs: gap, Acts: []action{{K: "closeSub", S: 0, Twice: true}}})
							case "grant-close":
								sc.Steps = append(sc.Steps, step{GapMs: gap, Acts: []action{{K: "grant", S: 0, N: 1}}},
									step{GapMs: gap, Acts: []action{{K: "closeSub", S: 0}}})
							case "grant-resume":
								sc.Steps = append(sc.Steps, step{GapMs: gap, Acts: []action{{K: "grant", S: 0, N: 2}}},
									step{GapMs: 1, Acts: []action{{K: "resume", S: 0}}})
							}
							sc.FinalBursts = []action{{K: "emit", W: 0, E: 0, N: 2}, {K: "emit", W: 1, E: 1, N: 2}}
							res := bubbleRun(t, rt, sc, fmt.Sprintf("kind=%s buf=%d gap=%d resolve=%s stateful=%v withEager=%v tracer=%v during-stall=%q: ", kind, buf, gap, resolve, stMode, withEager, tracer, during))
							stats.CaseEnumerated(name, res.nontrivial, res.labels...)
							if stats.WantSample(name) {
								stats.Sample(name, map[string]any{"scenario": sc, "executed": res.trace, "labels": res.labels})
							}
							if res.failure != "" {
								rt.Fatalf("kind=%s buf=%d gap=%d resolve=%s stateful=%v withEager=%v tracer=%v during-stall=%q: %s\nexecuted: %s", kind, buf, gap, resolve, stMode, withEager, tracer, during, res.failure, res.trace)
							}
							// the enumeration is only meaningful if the stall really happened
							stalled := false
							want := map[string]string{"": "", "query": "query:while-emit-blocked:stall-outlasts-the-step",
								"query+close-unrelated": "query:while-emit-blocked:stall-outlasts-the-step:next-to-subscribe-close-or-emitter-call",
								"query+open-unrelated":  "query:while-emit-blocked:stall-outlasts-the-step:next-to-subscribe-close-or-emitter-call"}[during]
							queried := want == ""
							for _, l := range res.labels {
								if l == "emit-blocked-at-quiescence" {
									stalled = true
								}
								if l == want {
									queried = true
								}
								if during != "" && strings.HasPrefix(l, "dropped:") {
									rt.Fatalf("kind=%s buf=%d resolve=%s during-stall=%q: harness: an action of the enumeration was not executed (%s; executed: %s)", kind, buf, resolve, during, l, res.trace)
								}
							}
							if !queried {
								rt.Fatalf("kind=%s buf=%d resolve=%s during-stall=%q: harness: the query was not made while the Emit was stalled (executed: %s)", kind, buf, resolve, during, res.trace)
							}
							if !stalled {
								rt.Fatalf("kind=%s buf=%d resolve=%s: harness: the burst of cap+2 events never stalled (executed: %s)", kind, buf, resolve, res.trace)
							}
						}
					}
				}
			}
		}
	}
}

// TestRefusedCallsEnumerated enumerates the calls the bus has to refuse completely over
// their small shape space: every offending element (4 non-pointer values, the wildcard) at
// every position of every list of 0-3 well-formed types (2 orders), option errors for typed,
// multi-type and wildcard Subscribe and for Emitter (option order, Stateful present or not),
// Emitter for non-pointers and the wildcard; every BufSize; types stateful or not; the call
// made once or three times at one instant; on a plain bus or on one built with a metrics
// tracer. Around the call: one emitter per type that has
// already emitted once (retained event), an eager subscriber to all three types, a slow
// wildcard subscriber with room for everything; afterwards every emitter emits 2 more events
// than the refused call asked buffer for, all bursts at the same instant. The ordinary
// oracles decide: every Emit returns (nothing but a real subscriber may stall it), the eager
// subscriber has received everything once and in order, the slow one has everything queued.
func TestRefusedCallsEnumerated(t *testing.T) {
	name := t.Name()
	hx.Check(t, 1, 1, 0, func(rt *rapid.T) { enumerateRefused(t, rt, name) })
	stats.Exhaustive(name)
}

func refusedSpecs() []badSpec {
	var out []badSpec
	lists := [][]int{{}, {0}, {1, 0}, {2, 1}, {0, 1, 2}, {2, 0, 1}}
	for _, l := range lists {
		for pos := 0; pos <= len(l); pos++ {
			for val := 0; val < 4; val++ {
				out = append(out, badSpec{Call: "sub", Why: "nonptr", Types: l, Pos: pos, Val: val})
				if len(l) == 0 {
					out = append(out, badSpec{Call: "sub", Why: "nonptr", Types: l, Pos: pos, Val: val, Bare: true})
				}
			}
			if len(l) > 0 {
				out = append(out, badSpec{Call: "sub", Why: "wildcard", Types: l, Pos: pos})
			}
		}
		for _, first := range []bool{false, true} {
			if len(l) == 0 {
				out = append(out, badSpec{Call: "sub", Why: "opt", Wild: true, OptFirst: first})
				continue
			}
			out = append(out, badSpec{Call: "sub", Why: "opt", Types: l, OptFirst: first})
			if len(l) == 1 {
				out = append(out, badSpec{Call: "sub", Why: "opt", Types: l, OptFirst: first, Bare: true})
			}
		}
	}
	for typ := 0; typ < nTypes; typ++ {
		for _, st := range []bool{false, true} {
			for val := 0; val < 4; val++ {
				out = append(out, badSpec{Call: "em", Why: "nonptr", Types: []int{typ}, Val: val, Stateful: st})
			}
			out = append(out, badSpec{Call: "em", Why: "wildcard", Types: []int{typ}, Stateful: st})
			for _, first := range []bool{false, true} {
				out = append(out, badSpec{Call: "em", Why: "opt", Types: []int{typ}, Stateful: st, OptFirst: first})
			}
		}
	}
	return out
}

func enumerateRefused(t *testing.T, rt *rapid.T, name string) {
	idx := 0
	for _, stateful := range []bool{false, true} {
		for _, spec := range refusedSpecs() {
			bufs := []int{0, 1, 2, 16, -1}
			if spec.Call == "em" {
				bufs = []int{-1} // an emitter has no buffer
			}
			for _, buf := range bufs {
				// the call made once or three times; on a plain bus or on one built with a metrics tracer
				for combo := 0; combo < 4; combo++ {
					times, tracer := 1+2*(combo&1), combo&2 != 0
					idx++
					// scattered over the shards (see enumerateBlocked)
					if !hx.Mine(int((uint32(idx) * 2654435761) >> 7)) {
						continue
					}
					spec.Buf = buf
					sc := &scenario{Tracer: tracer, Workers: 3, Ems: []int{0, 1, 2}, PreEms: 3, PreSubs: 2, Bad: []badSpec{spec},
						Subs: []subSpec{{Kind: "multi", Types: []int{0, 1, 2}, Buf: 1, Eager: true}, {Kind: "wild", Buf: 16}}}
					sc.Stateful = [nTypes]bool{stateful, stateful, stateful}
					// the slow wildcard subscriber has room for exactly what is emitted: 3*(1+n+1) <= 16 holds for n <= 3 only;
					// beyond that it is resumed together with the big bursts
					n := spec.capacity() + 2
					sc.Steps = append(sc.Steps, step{Acts: []action{{K: "emit", W: 0, E: 0, N: 1}, {K: "emit", W: 1, E: 1, N: 1}, {K: "emit", W: 2, E: 2, N: 1}}})
					var calls []action
					for k := 0; k < times; k++ {
						calls = append(calls, action{K: "bad", B: 0, Y: k})
					}
					sc.Steps = append(sc.Steps, step{GapMs: 1, Acts: calls})
					burst := []action{{K: "emit", W: 0, E: 0, N: n}, {K: "emit", W: 1, E: 1, N: n}, {K: "emit", W: 2, E: 2, N: n}}
					if 3*(n+2) > 16 {
						burst = append([]action{{K: "resume", S: 1}}, burst...)
					}
					sc.Steps = append(sc.Steps, step{GapMs: 1, Acts: burst})
					sc.FinalBursts = []action{{K: "emit", W: 0, E: 0, N: 1}, {K: "emit", W: 1, E: 1, N: 1}, {K: "bad", B: 0}}
					res := bubbleRun(t, rt, sc, fmt.Sprintf("refused call %v stateful=%v times=%d tracer=%v: ", spec, stateful, times, tracer))
					stats.CaseEnumerated(name, res.nontrivial, res.labels...)
					if stats.WantSample(name) {
						stats.Sample(name, map[string]any{"scenario": sc, "executed": res.trace, "labels": res.labels})
					}
					if res.failure != "" {
						rt.Fatalf("refused call %v stateful=%v times=%d tracer=%v: %s\nexecuted: %s", spec, stateful, times, tracer, res.failure, res.trace)
					}
					// the enumeration is only meaningful if the calls were made and the traffic followed
					made, emitted := 0, false
					for _, l := range res.labels {
						if l == "refused:"+spec.class() {
							made++
						}
						if strings.HasPrefix(l, "dropped:") {
							rt.Fatalf("refused call %v stateful=%v times=%d: harness: an action of the enumeration was not executed (%s; executed: %s)", spec, stateful, times, l, res.trace)
						}
					}
					emitted = res.emits == 3*(1+n)+2
					if made == 0 || !emitted {
						rt.Fatalf("refused call %v: harness: enumeration not executed as written (made=%d emits=%d; executed: %s)", spec, made, res.emits, res.trace)
					}
				}
			}
		}
	}
}
