package c11

import (
	"net"
	"testing"

	asnutil "github.com/libp2p/go-libp2p-asn-util"
)

func TestScratchASN(t *testing.T) {
	for _, s := range []string{"2a03:2880:f003:c07:face:b00c::1", "2a03:2880:f003:c08::1", "2001:4860:4860::8888", "fd00::1", "2600:1f00::1", "2606:4700::1111", "2001:db8::1"} {
		t.Logf("%s -> %d", s, asnutil.AsnForIPv6(net.ParseIP(s)))
	}
}
