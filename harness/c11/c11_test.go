// Package c11 checks property C11: circuit relay v2 honours reservations, ACL, caps and
// per-circuit limits, and gives back counters, tags and reserved memory however a
// reservation or circuit attempt ends.
package c11

import (
	"fmt"
	"strings"
	"testing"
	"testing/synctest"
	"time"

	"github.com/libp2p/go-libp2p/core/peer"
	pbv2 "github.com/libp2p/go-libp2p/p2p/protocol/circuitv2/pb"
	"pgregory.net/rapid"

	"verif/internal/hx"
	"verif/internal/relayhost"
	"verif/internal/stats"
)

func TestMain(m *testing.M) {
	stats.Describe("exploration",
		"Relay: rapid histories (1-14 steps + a closing phase) of RESERVE / CONNECT / refresh / open+close connection / clock advance "+
			"(around the reservation TTL, the collection tick and Limit.Duration) / batches of 2-4 requests started at one virtual instant / operations on open circuits, "+
			"against the real relay service on a fake host (real peerstore, rcmgr, BasicConnMgr) inside a synctest bubble; population of 2-5 peers with 1-3 connections drawn from "+
			"12 address templates (shared IPv4, IPv6 in two known ASNs and one unknown, /p2p-circuit limited and unlimited); generated ACL tables; small caps; "+
			"the CONNECTION SET between the relay host and a reserving peer is generated: direct connections and limited ones (relayed through another relay) to the same peer coexist "+
			"(at the start, or opened next to a reservation holder's direct connection), close one or several at a time in generated orders, and after a peer's last direct connection closed "+
			"while a limited one stays the relay is asked about it (CONNECT to that peer, RESERVE by others from its address) - labels connset:*; "+
			"one fault per request at a step of the hop/stop exchange (reset, malformed, oversized, partial+timeout, wrong type, lost reply, resource refusal at "+
			"SetService/ReserveMemory/BeginSpan, NewStream error/timeout, stop reply non-OK/wrong type/garbage/reset/EOF/silence, source reset or either party disconnecting mid-handshake); "+
			"payload chunks around Limit.Data in both directions; "+
			"PREVIOUS TAG VALUES are generated: about a third of the peers carry 1-2 connection-manager tags of other subsystems (weights 1-50) before their first request; the TagInfo (Tags map AND total Value) of "+
			"every peer is snapshotted before any request and compared at every audit at which the model says the peer holds neither a reservation nor a circuit - after disconnect of the last direct connection, "+
			"expiry + collection, any number of granted refreshes and repeated circuits - and once more after the relay is Closed at the end of every history (Close ends all reservations) - labels tagvalue:*, relay-closed-*; "+
			"Oracle: reference model written from the statement (see DESIGN C11); a peer has disconnected once no direct "+
			"(non-limited) connection to it is left (Connectedness is not Connected): from then on it holds no reservation, whatever limited connections remain - its slot does not count "+
			"against the caps, it carries no reservation tag, and a well-formed CONNECT to a peer without reservation from a direct, ACL-permitted source with room on both sides is answered NO_RESERVATION. "+
			"NON-TRIVIAL = the history contains a refused request AND (an injected fault OR a disconnect / expiry of a live reservation). "+
			"DISTINCT = distinct (configuration, sequence of steps with their outcomes). "+
			"Client: client.Reserve against a scripted relay whose reply is a valid one with 0-2 mutations out of 40 (reply fields, voucher domain/codec/signature/signer/peer/expiry, transport faults), identities of four key types; non-trivial = at least one mutation; distinct = distinct mutation list + key roles.",
		"the relay's collection runs every minute counted from relay.New (\"next collection\")",
		"asnutil.AsnForIPv6 and multiaddr IP extraction are trusted classifications",
		"record.ConsumeEnvelope is trusted to verify envelope signatures (covered by C08)",
		"host.NewStream, the connection manager notifications and stream scopes of the fake host follow the swarm/basic host (Connectedness: Limited when only limited connections remain; stream scope released by the first Close/Reset; streams reset when their connection closes)",
		"between a reservation's expiry and the next collection either answer is accepted",
		"the connection manager forgets a peer (tags of other subsystems included) when its last connection closes; while a peer holds a reservation or a circuit its tag value is not judged",
		"a relayed connection that is not limited (Stat().Limited false) keeps the peer Connected, as in the swarm",
		"the interleaving inside one batch is whatever the Go scheduler produces; batches are judged by order-independent invariants",
	)
	hx.Main(m)
}

func peerIDFromBytes(b []byte) peer.ID {
	id, err := peer.IDFromBytes(b)
	if err != nil {
		return ""
	}
	return id
}

// ---------------------------------------------------------------------------
// drawing steps

func (w *world) draw(label string, n int) int {
	if n <= 1 {
		return 0
	}
	return rapid.IntRange(0, n-1).Draw(w.rt, label)
}

func (w *world) drawPeer(label string) *peerSt { return w.peers[w.draw(label, len(w.peers))] }

// drawConn picks an open connection of p, opening one if there is none.
func (w *world) drawConn(p *peerSt, label string) *connSt {
	oc := p.openConns()
	if len(oc) == 0 {
		cs := w.addConn(p, drawTpl(w.rt, label+"-tpl"))
		synctest.Wait()
		w.trace = append(w.trace, "NEWCONN "+cs.name)
		return cs
	}
	return oc[w.draw(label, len(oc))]
}

func (w *world) drawDst(label string) *peerSt {
	if w.draw(label+"-pref", 100) < 65 {
		now := time.Now()
		var live []*peerSt
		for _, p := range w.peers {
			if w.mayLive(p, now) {
				live = append(live, p)
			}
		}
		if len(live) > 0 {
			return live[w.draw(label+"-live", len(live))]
		}
	}
	return w.drawPeer(label)
}

func (w *world) drawSizes(label string) []int {
	n := w.draw(label+"-n", 3)
	var out []int
	for i := 0; i < n; i++ {
		if w.cfg.Limited {
			l := int(w.cfg.Data)
			out = append(out, []int{1, l - 1, l, l + 1, 3 * l, 2}[w.draw(label, 6)])
		} else {
			out = append(out, []int{1, 17, 100, 5000}[w.draw(label, 4)])
		}
	}
	return out
}

func (w *world) drawUsage() usage {
	ends := []string{"close", "close", "half", "srcReset", "dstReset", "leave", "leave", "leave"}
	if w.cfg.Limited {
		ends = append(ends, "idle", "idle")
	}
	return usage{AB: w.drawSizes("ab"), BA: w.drawSizes("ba"), End: ends[w.draw("end", len(ends))]}
}

var stopReplies = []string{"status", "noStatus", "wrongType", "garbage", "oversize", "reset", "close", "silent", "partial"}

func (w *world) drawConnectFaults() (hopFault, spanFault string, sc stopScript) {
	x := w.draw("cfault", 100)
	switch {
	case x < 55:
	case x < 68:
		fs := append(append([]string(nil), hopFaults...), "noPeer", "badPeerID")
		hopFault = fs[w.draw("hopFault", len(fs))]
	case x < 74:
		spanFault = []string{"begin", "reserve"}[w.draw("spanFault", 2)]
	case x < 82:
		sc.NS = []string{"error", "hang", "failSetService", "failReserveMemory"}[w.draw("ns", 4)]
	case x < 89:
		sc.Pre = []string{"srcReset", "srcDisc", "dstDisc"}[w.draw("pre", 3)]
	default:
		sc.Reply = stopReplies[w.draw("stopReply", len(stopReplies))]
	}
	return
}

func (w *world) drawAdvance() time.Duration {
	ttl := w.cfg.TTL
	opts := []time.Duration{time.Second, 10 * time.Second, 29 * time.Second, 59 * time.Second, 61 * time.Second, 2 * time.Minute,
		ttl - time.Second, ttl, ttl + time.Second, ttl + 61*time.Second}
	if w.cfg.Limited {
		opts = append(opts, w.cfg.Dur-time.Second, w.cfg.Dur)
	}
	d := opts[w.draw("advance", len(opts))]
	if d > 10*time.Minute { // TTL = 1h: keep the jump but rarely
		if w.draw("longjump", 4) != 0 {
			d = 45 * time.Second
		}
	}
	return d
}

func (w *world) step() {
	if w.probeCaps > 0 {
		w.probeCaps--
		now := time.Now()
		var cand []*peerSt
		for _, p := range w.peers {
			if !w.mayLive(p, now) {
				cand = append(cand, p)
			}
		}
		if len(cand) > 0 && w.draw("probe?", 100) < 70 {
			p := cand[w.draw("probe", len(cand))]
			w.label("probe-after-refused-refresh")
			cs := w.drawConn(p, "probec")
			if w.draw("probe-ip", 100) < 60 {
				for _, q := range w.peers {
					if q.rs.desynced && w.mayLive(q, now) {
						cs = w.connAtIP(p, q.rs.ip)
					}
				}
			}
			w.opReserve(p, cs, "")
			return
		}
	}
	if w.refreshProbeN > 0 {
		w.refreshProbeN--
		rp := w.refreshProbe
		if now := time.Now(); w.draw("refreshProbe?", 100) < 70 && now.Before(rp.newExp.Add(-3*time.Second)) {
			if !now.After(rp.origExp) {
				// just past the instant the reservation would have ended without the refresh
				d := rp.origExp.Sub(now) + time.Duration(1+w.draw("pastOrig", 2))*time.Second
				if now.Add(d).Before(rp.newExp.Add(-2 * time.Second)) {
					w.label("clock-passes-original-expiry-of-a-refreshed-reservation")
					w.advance(d)
				}
			}
			now = time.Now()
			var cand []*peerSt
			for _, p := range w.peers {
				if !w.mayLive(p, now) {
					cand = append(cand, p)
				}
			}
			if len(cand) > 0 {
				p := cand[w.draw("refreshProbePeer", len(cand))]
				if now.After(rp.origExp) {
					w.label("reserve-from-the-address-of-a-refreshed-reservation-past-its-original-expiry")
				}
				w.opReserve(p, w.connAtIP(p, rp.ip), "")
				return
			}
		}
	}
	if w.goneProbeN > 0 {
		w.goneProbeN--
		if g := w.goneProbe; g.limitedOnly() && w.draw("gone?", 100) < 75 && w.stepProbeLimitedOnly(g) {
			return
		}
	}
	if w.regrantN > 0 {
		w.regrantN--
		if g := w.regrant; g.usableConn() != nil && w.openCount(g, false) > 0 && w.draw("regrant?", 100) < 75 && w.stepRegrant(g) {
			return
		}
	}
	if w.mixedPending > 0 {
		w.mixedPending--
		if w.draw("mixed?", 100) < 40 {
			if p := w.drawMixedHolder(); p != nil {
				w.sawEnd = w.sawEnd || w.mustLive(p, time.Now())
				oc := p.openConns()
				w.disconnect(p, oc[w.draw("mc", len(oc))])
				for len(p.openConns()) > 0 && w.draw("mmore", 100) < w.moreCloses(p, 50) {
					oc = p.openConns()
					w.label("connset:several-closed-in-one-step")
					w.disconnect(p, oc[w.draw("mc2", len(oc))])
				}
				return
			}
		}
	}
	x := w.draw("op", 100)
	if x >= 16 && x < 22 && w.stepCrossRefresh() {
		return
	}
	switch {
	case x < 22: // RESERVE
		p := w.drawPeer("rp")
		cs := w.drawConn(p, "rc")
		fault := ""
		if w.draw("rfault?", 100) < 25 {
			fs := append(append([]string(nil), hopFaults...), "lostReply", "lostReply")
			fault = fs[w.draw("rfault", len(fs))]
		}
		w.opReserve(p, cs, fault)
	case x < 50: // CONNECT
		w.stepConnect()
	case x < 62:
		w.advance(w.drawAdvance())
	case x < 72: // disconnect, preferably a direct connection of a peer that holds something
		p := w.drawPeer("dp")
		if w.draw("dpref", 100) < 60 {
			now := time.Now()
			var holders []*peerSt
			for _, q := range w.peers {
				if (w.mayLive(q, now) || w.openCount(q, false) > 0) && len(q.openConns()) > 0 {
					holders = append(holders, q)
				}
			}
			if len(holders) > 0 {
				p = holders[w.draw("dholder", len(holders))]
			}
		}
		mixed := false
		if w.draw("dmixed", 100) < 35 {
			if q := w.drawMixedHolder(); q != nil {
				p, mixed = q, true
			}
		}
		if oc := p.openConns(); len(oc) > 0 {
			cs := oc[w.draw("dc", len(oc))]
			if !mixed && tpls[cs.tpl].relayed && w.draw("ddirect", 100) < 70 {
				for _, c := range oc {
					if !tpls[c.tpl].relayed {
						cs = c
					}
				}
			}
			w.sawEnd = w.sawEnd || w.mustLive(p, time.Now())
			w.disconnect(p, cs)
			// the connection set of one peer shrinks further, in a generated order
			more := 30
			if mixed {
				more = 50
			}
			for len(p.openConns()) > 0 && w.draw("dmore", 100) < w.moreCloses(p, more) {
				oc = p.openConns()
				w.label("connset:several-closed-in-one-step")
				w.disconnect(p, oc[w.draw("dc2", len(oc))])
			}
		}
	case x < 80: // new connection
		p := w.drawPeer("np")
		tpl := -1
		if w.draw("nlimited", 100) < 45 {
			// a limited connection (through another relay) next to the direct one(s) of a peer
			// that holds a reservation
			now := time.Now()
			var cand []*peerSt
			for _, q := range w.peers {
				if w.mayLive(q, now) && q.usableConn() != nil && len(q.limitedConns()) == 0 && len(q.openConns()) < 3 {
					cand = append(cand, q)
				}
			}
			if len(cand) > 0 {
				p = cand[w.draw("nholder", len(cand))]
				tpl = 9 + w.draw("nlimtpl", 2)
			}
		}
		if len(p.openConns()) < 3 {
			if tpl < 0 {
				tpl = drawSecondTpl(w.rt, "ntpl")
			}
			cs := w.addConn(p, tpl)
			synctest.Wait()
			w.trace = append(w.trace, "NEWCONN "+cs.name)
			w.noteConnSet(p)
		}
	case x < 90:
		w.batch()
	default:
		if len(w.circuits) == 0 {
			w.stepConnect()
			return
		}
		c := w.circuits[w.draw("circ", len(w.circuits))]
		switch w.draw("cop", 3) {
		case 0:
			for _, n := range w.drawSizes("cab") {
				w.send(c, true, n)
			}
		case 1:
			for _, n := range w.drawSizes("cba") {
				w.send(c, false, n)
			}
		default:
			w.endCircuit(c, []string{"close", "half", "srcReset", "dstReset", "idle"}[w.draw("cend", 5)])
		}
	}
}

// connAtIP returns an open direct connection of p from the given IP, opening one if needed.
func (w *world) connAtIP(p *peerSt, ip string) *connSt {
	for _, cs := range p.openConns() {
		if t := tpls[cs.tpl]; t.ip == ip && !t.relayed {
			return cs
		}
	}
	for i, t := range tpls {
		if t.ip == ip && !t.relayed {
			cs := w.addConn(p, i)
			synctest.Wait()
			w.trace = append(w.trace, "NEWCONN "+cs.name)
			return cs
		}
	}
	return w.drawConn(p, "anyconn")
}

// moreCloses: the chance (percent) that one more connection of p closes in the same step; small
// once p is left with limited connections only, so that this state is also met by later steps.
func (w *world) moreCloses(p *peerSt, pct int) int {
	if p.limitedOnly() {
		return 15
	}
	return pct
}

// drawMixedHolder picks a peer that (possibly) holds a reservation and has direct and limited
// connections side by side; its connections then close in a generated order.
func (w *world) drawMixedHolder() *peerSt {
	var cand []*peerSt
	for _, q := range w.peers {
		if q.rs.may && q.usableConn() != nil && len(q.limitedConns()) > 0 {
			cand = append(cand, q)
		}
	}
	if len(cand) == 0 {
		return nil
	}
	return cand[w.draw("mixedp", len(cand))]
}

// stepProbeLimitedOnly: g has just lost its last direct connection and keeps a limited one, so
// its reservation is gone. Ask the relay: a CONNECT to g from a direct source, or a RESERVE by
// a peer without reservation (preferably from the address g reserved from, so that the
// per-IP / per-ASN slot matters as well as the total).
func (w *world) stepProbeLimitedOnly(g *peerSt) bool {
	now := time.Now()
	if w.draw("gone-kind", 100) < 50 {
		var srcs []*peerSt
		for _, s := range w.peers {
			if s != g {
				srcs = append(srcs, s)
			}
		}
		src := srcs[w.draw("gone-src", len(srcs))]
		cs := src.usableConn()
		if cs == nil || tpls[cs.tpl].relayed {
			cs = w.connAtIP(src, tpls[w.draw("gone-srctpl", 4)].ip)
		}
		w.label("connset:probe-connect-to-limited-only-peer")
		w.opConnect(src, cs, g, "", "", stopScript{}, w.drawUsage())
		return true
	}
	var cand []*peerSt
	for _, q := range w.peers {
		if q != g && !w.mayLive(q, now) {
			cand = append(cand, q)
		}
	}
	if len(cand) == 0 {
		return false
	}
	q := cand[w.draw("gone-asker", len(cand))]
	var cs *connSt
	if w.goneIP != "" && w.draw("gone-ip", 100) < 60 {
		cs = w.connAtIP(q, w.goneIP)
	} else {
		cs = w.drawConn(q, "gone-c")
	}
	w.label("connset:probe-reserve-after-limited-only-disconnect")
	w.opReserve(q, cs, "")
	return true
}

// stepRegrant: g's reservation was collected while g still takes part in open circuits. g
// reserves again; once it holds a reservation, a well-formed CONNECT is directed at it (the
// circuits opened before the collection still count towards MaxCircuits).
func (w *world) stepRegrant(g *peerSt) bool {
	now := time.Now()
	if !w.mayLive(g, now) {
		w.label("re-reserve-after-collection-with-circuit-open")
		w.opReserve(g, g.usableConn(), "")
		return true
	}
	var srcs []*peerSt
	for _, s := range w.peers {
		if s != g && len(s.openConns()) > 0 {
			srcs = append(srcs, s)
		}
	}
	if len(srcs) == 0 {
		return false
	}
	src := srcs[w.draw("regrant-src", len(srcs))]
	cs := src.usableConn()
	if cs == nil {
		cs = w.drawConn(src, "regrant-c")
	}
	w.label("connect-to-re-reserved-peer-with-older-circuit")
	w.opConnect(src, cs, g, "", "", stopScript{}, usage{AB: w.drawSizes("rg-ab"), End: "leave"})
	return true
}

// stepCrossRefresh: a peer holding a reservation asks again over a connection that shares
// its IP with another reserved peer.
func (w *world) stepCrossRefresh() bool {
	now := time.Now()
	var holders []*peerSt
	for _, p := range w.peers {
		if w.mustLive(p, now) && p.rs.ipCertain {
			holders = append(holders, p)
		}
	}
	if len(holders) < 2 {
		return false
	}
	p := holders[w.draw("xr-p", len(holders))]
	var others []*peerSt
	for _, q := range holders {
		if q != p && q.rs.ip != p.rs.ip {
			others = append(others, q)
		}
	}
	if len(others) == 0 {
		return false
	}
	q := others[w.draw("xr-q", len(others))]
	w.label("cross-ip-refresh")
	w.opReserve(p, w.connAtIP(p, q.rs.ip), "")
	return true
}

func (w *world) stepConnect() {
	src := w.drawPeer("cs")
	cs := w.drawConn(src, "cc")
	dst := w.drawDst("cd")
	hf, sf, sc := w.drawConnectFaults()
	w.opConnect(src, cs, dst, hf, sf, sc, w.drawUsage())
}

// ---------------------------------------------------------------------------
// batches: several requests started at the same virtual instant

type batchReq struct {
	kind   string // "reserve" | "connect"
	p      *peerSt
	cs     *connSt
	dst    *peerSt
	reply  string // stop reply for connects
	hop    *relayhost.Stream
	ep     *endpoint
	st     *stopSide
	pre    connPre
	wasMay bool
	out    hopOutcome
}

func (w *world) batch() {
	w.label("batch")
	n := 2 + w.draw("bn", 3)
	var reqs []*batchReq
	focus := w.drawDst("bfocus") // most CONNECTs of a batch go to one destination so that they contend
	// connections are chosen (and opened if needed) before the instant of the race
	for i := 0; i < n; i++ {
		r := &batchReq{}
		if w.draw("bkind", 100) >= 60 {
			r.kind = "reserve"
			r.p = w.drawPeer("bp")
			r.cs = w.drawConn(r.p, "bc")
		} else {
			r.kind = "connect"
			r.p = w.drawPeer("bs")
			r.cs = w.drawConn(r.p, "bc")
			r.dst = focus
			if w.draw("bfocus?", 100) >= 70 {
				r.dst = w.drawDst("bd")
			}
			r.reply = []string{"ok", "ok", "ok", "status", "reset"}[w.draw("breply", 5)]
		}
		reqs = append(reqs, r)
	}
	// the stop side cannot tell two requests of the same (src,dst) pair apart: keep pairs distinct
	// (requests sharing only the source or only the destination still race on the counters)
	for i, r := range reqs {
		for _, q := range reqs[:i] {
			if r.kind == "connect" && q.kind == "connect" && q.p == r.p && q.dst == r.dst {
				r.kind, r.dst = "reserve", nil
			}
		}
	}
	at := time.Now()
	reservesInBatch := map[*peerSt]bool{}
	for _, r := range reqs {
		if r.kind == "reserve" {
			reservesInBatch[r.p] = true
		}
	}
	for _, r := range reqs {
		r.wasMay = w.mayLive(r.p, at)
		if r.kind == "reserve" {
			for _, q := range reqs {
				if q != r && q.kind == "reserve" && q.p == r.p {
					r.wasMay = true // the other request may have been granted first
				}
			}
		}
		if r.kind == "connect" {
			r.pre = w.connectPre(r.p, r.cs, r.dst, at)
			r.pre.dstMay = r.pre.dstMay || reservesInBatch[r.dst]
			if r.reply != "ok" {
				w.sawFault = true
			}
		}
	}
	// coverage: does the batch contend for a counter (more plausible grants than room)?
	{
		want := map[*peerSt]int{}
		for _, r := range reqs {
			if r.kind == "connect" && r.pre.dstMay && !r.pre.relayed && r.pre.acl && r.reply == "ok" {
				want[r.p]++
				if r.dst != r.p {
					want[r.dst]++
				}
			}
		}
		for p, n := range want {
			if n >= 2 {
				w.label("batch:circuits-shared-party")
			}
			if n >= 2 && w.openCount(p, false)+n > w.cfg.MaxCirc {
				w.label("batch:circuits-contended")
			}
		}
		nres := 0
		askers := map[*peerSt]bool{}
		for _, r := range reqs {
			if r.kind == "reserve" && !r.wasMay && !askers[r.p] && !tpls[r.cs.tpl].relayed && w.aclReserve(r.p, r.cs) {
				askers[r.p] = true
				nres++
			}
		}
		live := 0
		for _, p := range w.peers {
			if w.mustLive(p, at) {
				live++
			}
		}
		if nres >= 2 && live+nres > w.cfg.MaxRes {
			w.label("batch:reservations-contended")
		}
	}
	for _, r := range reqs {
		if r.kind == "reserve" {
			r.hop, r.ep = w.startHop(r.cs, "", &pbv2.HopMessage{Type: pbv2.HopMessage_RESERVE.Enum()})
		} else {
			r.hop, r.ep = w.startHop(r.cs, "", connectMsg(r.dst, ""))
		}
	}
	for round := 0; round < 4; round++ {
		synctest.Wait()
		stops := w.takePendingStops()
		if len(stops) == 0 {
			break
		}
		for _, st := range stops {
			src := w.readStop(st)
			if src == nil {
				st.ep.c.Close()
				continue
			}
			var match *batchReq
			for _, r := range reqs {
				if r.kind == "connect" && r.st == nil && r.p == src && r.dst == st.dst {
					match = r
					break
				}
			}
			if match == nil {
				w.failf("batch: stop CONNECT to p%d names p%d, which has no such request outstanding", st.dst.idx, src.idx)
			}
			match.st = st
			w.replyStop(st, match.reply)
		}
	}
	synctest.Wait()
	var desc []string
	grants := map[*peerSt][]*batchReq{}
	for _, r := range reqs {
		r.out = w.readHop(r.ep)
		if r.kind == "reserve" {
			desc = append(desc, fmt.Sprintf("RESERVE %s -> %s", r.cs.name, r.out))
		} else {
			desc = append(desc, fmt.Sprintf("CONNECT %s -> p%d stop=%s -> %s", r.cs.name, r.dst.idx, r.reply, r.out))
		}
	}
	w.trace = append(w.trace, "BATCH { "+strings.Join(desc, " | ")+" }")
	for _, r := range reqs {
		if r.kind != "reserve" {
			continue
		}
		w.judgeReserve(r.p, r.cs, "", r.out, at, r.wasMay, false)
		if r.out.ok {
			grants[r.p] = append(grants[r.p], r)
		}
		r.ep.c.Close()
	}
	// a refusal may have come after a grant to the same peer in this batch (refused refresh)
	for _, r := range reqs {
		if r.kind == "reserve" && !r.out.ok && r.wasMay && r.p.rs.may && !tpls[r.cs.tpl].relayed && w.aclReserve(r.p, r.cs) {
			r.p.rs.desynced = true
		}
	}
	for p, gs := range grants {
		for _, g := range gs[1:] {
			if tpls[g.cs.tpl].ip != tpls[gs[0].cs.tpl].ip {
				p.rs.ipCertain = false // which grant came last is unknown
			}
		}
	}
	if v := w.capViolation(at); v != "" {
		w.failf("batch: reservations granted beyond the caps: %s", v)
	}
	for _, r := range reqs {
		if r.kind != "connect" {
			continue
		}
		w.label("connect:" + r.out.String())
		if r.out.weird != "" {
			w.failf("batch CONNECT %s -> p%d: %s", r.cs.name, r.dst.idx, r.out.weird)
		}
		if !r.out.ok {
			w.sawRefusal = true
			r.ep.c.Close()
			if r.st != nil {
				r.st.ep.c.Close()
			}
			continue
		}
		w.judgeConnectOK(r.p, r.cs, r.dst, r.pre, "", "", stopScript{Reply: r.reply}, r.st, false)
		w.newCircuit(r.p, r.cs, r.dst, r.hop, r.ep, r.st, at)
	}
	if v := w.circuitViolation(); v != "" {
		w.failf("batch: %s", v)
	}
	synctest.Wait()
}

// ---------------------------------------------------------------------------
// closing phase: behaviourally, a peer can again open MaxCircuits circuits

func (w *world) closingPhase() {
	for _, c := range append([]*circ(nil), w.circuits...) {
		w.endCircuit(c, "close")
	}
	w.audit("closing phase, all circuits closed")
	w.closingProbeLimitedOnly()
	now := time.Now()
	var src, dst *peerSt
	var scs *connSt
	for _, d := range w.peers {
		if !w.mustLive(d, now) || d.usableConn() == nil {
			continue
		}
		for _, s := range w.peers {
			if s == d {
				continue
			}
			for _, cs := range s.openConns() {
				if !tpls[cs.tpl].relayed && w.aclConnect(s, cs, d) {
					src, dst, scs = s, d, cs
				}
			}
		}
	}
	if src == nil {
		return
	}
	w.label("closing-phase-refill")
	for i := 0; i < w.cfg.MaxCirc; i++ {
		w.opConnect(src, scs, dst, "", "", stopScript{}, usage{AB: []int{1}, End: "leave"})
	}
	if len(w.circuits) == w.cfg.MaxCirc { // none ended meanwhile (no time passes here)
		w.opConnect(src, scs, dst, "", "", stopScript{}, usage{End: "leave"})
	}
	w.audit("closing phase, MaxCircuits circuits open")
	for _, c := range append([]*circ(nil), w.circuits...) {
		w.endCircuit(c, "close")
	}
	w.audit("closing phase, end")
}

// closingProbeLimitedOnly: every peer that ends the history with limited connections only
// holds no reservation; a CONNECT to it from a direct, permitted source says so.
func (w *world) closingProbeLimitedOnly() {
	for _, g := range w.peers {
		if !g.limitedOnly() {
			continue
		}
		var src *peerSt
		var scs *connSt
		for _, s := range w.peers {
			if cs := s.usableConn(); s != g && cs != nil && !tpls[cs.tpl].relayed && w.aclConnect(s, cs, g) {
				src, scs = s, cs
			}
		}
		if src == nil {
			continue
		}
		if g.tagExcuse {
			w.label("connset:closing-probe-connect-to-limited-only-former-holder")
		}
		w.opConnect(src, scs, g, "", "", stopScript{}, usage{End: "close"})
	}
}

func (w *world) run() {
	n := 1 + w.draw("steps", 14)
	for i := 0; i < n; i++ {
		w.step()
		w.audit(fmt.Sprintf("after step %d", i+1))
	}
	w.closingPhase()
	w.closeRelay()
}

// ---------------------------------------------------------------------------

func TestRelayHistories(t *testing.T) {
	name := t.Name()
	hx.Check(t, 24000, 2000000, 0, func(rt *rapid.T) {
		cfg := drawConfig(rt)
		var w *world
		hx.Bubble(t, rt, func() {
			w = newWorld(rt, cfg)
			defer w.shutdown()
			w.run()
		})
		var labels []string
		for l := range w.labels {
			labels = append(labels, l)
		}
		if cfg.Limited {
			labels = append(labels, "relay:limited")
		} else {
			labels = append(labels, "relay:unlimited")
		}
		if cfg.ACL {
			labels = append(labels, "acl")
		}
		nontrivial := w.sawRefusal && (w.sawFault || w.sawEnd)
		if w.excluded {
			stats.Excluded(name)
		}
		fp := fmt.Sprintf("%+v|%s", cfg, strings.Join(w.trace, ";"))
		stats.Case(name, fp, nontrivial, labels...)
		if stats.WantSample(name) {
			stats.Sample(name, map[string]any{"config": cfg, "history": w.trace})
		}
	})
}
