package c11

import (
	"context"
	"errors"
	"fmt"
	"net"
	"sync"
	"testing/synctest"
	"time"

	asnutil "github.com/libp2p/go-libp2p-asn-util"
	"github.com/libp2p/go-libp2p/core/network"
	"github.com/libp2p/go-libp2p/core/peer"
	"github.com/libp2p/go-libp2p/core/protocol"
	"github.com/libp2p/go-libp2p/p2p/protocol/circuitv2/relay"
	ma "github.com/multiformats/go-multiaddr"
	"pgregory.net/rapid"

	"verif/internal/keys"
	"verif/internal/kf"
	"verif/internal/relayhost"
)

const (
	kfDesync = "C11-refused-refresh-drops-cap-accounting"
	kfTag    = "C11-reservation-tag-kept-on-partial-disconnect"

	hopProto  = protocol.ID("/libp2p/circuit/relay/0.2.0/hop")
	stopProto = protocol.ID("/libp2p/circuit/relay/0.2.0/stop")

	voucherDomain = "libp2p-relay-rsvp"

	// documented / assumed timing constants of the service
	gcPeriod         = time.Minute      // "at the next collection": assumed to run every minute from relay start
	streamTimeout    = time.Minute      // relay.StreamTimeout
	connectTimeout   = 30 * time.Second // relay.ConnectTimeout
	handshakeTimeout = time.Minute      // relay.HandshakeTimeout

	tagHop  = "relay-v2-hop"
	tagRsvp = "relay-reservation"
)

// ---------------------------------------------------------------------------
// address population

type addrTpl struct {
	name    string
	ip      string // textual IP; two templates with the same ip share the per-IP cap
	v6      bool
	relayed bool // /p2p-circuit address: the peer reached the relay through another relay
	limited bool // Stat().Limited of such a connection
	format  string
	weight  int
}

var otherRelay = keys.Ed(2)

var tpls = []addrTpl{
	{"v4a", "1.2.3.4", false, false, false, "/ip4/1.2.3.4/tcp/%d", 25},
	{"v4a-quic", "1.2.3.4", false, false, false, "/ip4/1.2.3.4/udp/%d/quic-v1", 8},
	{"v4b", "1.2.3.5", false, false, false, "/ip4/1.2.3.5/tcp/%d", 10},
	{"v4c", "5.6.7.8", false, false, false, "/ip4/5.6.7.8/tcp/%d", 7},
	{"v6a1", "2a03:2880:f003:c07::1", true, false, false, "/ip6/2a03:2880:f003:c07::1/tcp/%d", 10},
	{"v6a2", "2a03:2880:f003:c08::1", true, false, false, "/ip6/2a03:2880:f003:c08::1/tcp/%d", 10},
	{"v6a3", "2a03:2880:f003:c09::1", true, false, false, "/ip6/2a03:2880:f003:c09::1/udp/%d/quic-v1", 6},
	{"v6b", "2001:4860:4860::8888", true, false, false, "/ip6/2001:4860:4860::8888/tcp/%d", 6},
	{"v6n", "2600:1f00::1", true, false, false, "/ip6/2600:1f00::1/tcp/%d", 4},
	{"relay4", "9.9.9.9", false, true, true, "/ip4/9.9.9.9/tcp/%d/p2p/" + otherRelay.ID.String() + "/p2p-circuit", 6},
	{"relay4-shared", "1.2.3.4", false, true, true, "/ip4/1.2.3.4/tcp/%d/p2p/" + otherRelay.ID.String() + "/p2p-circuit", 4},
	{"relay6-unlimited", "2a03:2880:f003:c07::1", true, true, false, "/ip6/2a03:2880:f003:c07::1/tcp/%d/p2p/" + otherRelay.ID.String() + "/p2p-circuit", 4},
}

var tplASN = func() []uint32 {
	out := make([]uint32, len(tpls))
	for i, t := range tpls {
		if t.v6 {
			out[i] = asnutil.AsnForIPv6(net.ParseIP(t.ip))
		}
	}
	return out
}()

func drawTpl(rt *rapid.T, label string) int {
	total := 0
	for _, t := range tpls {
		total += t.weight
	}
	x := rapid.IntRange(0, total-1).Draw(rt, label)
	for i, t := range tpls {
		if x < t.weight {
			return i
		}
		x -= t.weight
	}
	return 0
}

// drawSecondTpl draws the template of an additional connection: relayed ones are common
// so that peers holding a direct and a relayed connection occur.
func drawSecondTpl(rt *rapid.T, label string) int {
	if rapid.IntRange(0, 99).Draw(rt, label+"-relayed") < 35 {
		return 9 + rapid.IntRange(0, 2).Draw(rt, label+"-which")
	}
	return drawTpl(rt, label)
}

// ---------------------------------------------------------------------------
// configuration of one case

type config struct {
	NPeers   int           `json:"peers"`
	MaxRes   int           `json:"maxReservations"`
	PerIP    int           `json:"perIP"`
	PerASN   int           `json:"perASN"`
	MaxCirc  int           `json:"maxCircuits"`
	TTL      time.Duration `json:"ttl"`
	Buf      int           `json:"bufferSize"`
	Limited  bool          `json:"limited"`
	Data     int64         `json:"limitData"`
	Dur      time.Duration `json:"limitDuration"`
	ACL      bool          `json:"acl"`
	DenyRes  []int         `json:"denyReserve,omitempty"`
	DenyIP   []string      `json:"denyReserveIP,omitempty"`
	DenyConn [][2]int      `json:"denyConnect,omitempty"`
	DenySrc  []string      `json:"denyConnectSrcIP,omitempty"`
	Init     [][]int       `json:"initialConns"`
	// PreTags: connection-manager tags (name index, weight) that other subsystems of the relay
	// host put on a peer before it first asks the relay for anything: the "previous values"
	PreTags [][][2]int `json:"preTags,omitempty"`
}

// foreignTags are tag names of other subsystems; the relay never uses them.
var foreignTags = []string{"kad", "bitswap", "pubsub"}
var foreignWeights = []int{1, 5, 10, 20, 50}

func drawConfig(rt *rapid.T) config {
	c := config{
		NPeers:  rapid.IntRange(2, 5).Draw(rt, "peers"),
		MaxRes:  rapid.IntRange(1, 4).Draw(rt, "maxRes"),
		PerIP:   rapid.IntRange(1, 3).Draw(rt, "perIP"),
		PerASN:  rapid.IntRange(1, 2).Draw(rt, "perASN"),
		MaxCirc: rapid.IntRange(1, 3).Draw(rt, "maxCirc"),
		TTL:     rapid.SampledFrom([]time.Duration{30 * time.Second, 90 * time.Second, 150 * time.Second, time.Hour}).Draw(rt, "ttl"),
		Buf:     rapid.SampledFrom([]int{16, 64, 2048}).Draw(rt, "buf"),
		Limited: rapid.IntRange(0, 3).Draw(rt, "limited") != 0,
	}
	if c.Limited {
		c.Data = rapid.SampledFrom([]int64{1, 10, 100, 5000}).Draw(rt, "data")
		c.Dur = rapid.SampledFrom([]time.Duration{5 * time.Second, 45 * time.Second, 120 * time.Second}).Draw(rt, "dur")
	}
	c.ACL = rapid.IntRange(0, 2).Draw(rt, "acl") != 0
	if c.ACL {
		for i := 0; i < c.NPeers; i++ {
			if rapid.IntRange(0, 7).Draw(rt, "denyRes") == 0 {
				c.DenyRes = append(c.DenyRes, i)
			}
		}
		if rapid.IntRange(0, 5).Draw(rt, "denyIP") == 0 {
			c.DenyIP = append(c.DenyIP, tpls[drawTpl(rt, "denyIPtpl")].ip)
		}
		if rapid.IntRange(0, 7).Draw(rt, "denySrc") == 0 {
			c.DenySrc = append(c.DenySrc, tpls[drawTpl(rt, "denySrctpl")].ip)
		}
		nd := rapid.IntRange(0, 3).Draw(rt, "nDenyConn")
		for i := 0; i < nd; i++ {
			c.DenyConn = append(c.DenyConn, [2]int{rapid.IntRange(0, c.NPeers-1).Draw(rt, "dcs"), rapid.IntRange(0, c.NPeers-1).Draw(rt, "dcd")})
		}
	}
	for i := 0; i < c.NPeers; i++ {
		n := 1
		if rapid.IntRange(0, 3).Draw(rt, "twoConns") == 0 {
			n = 2
		}
		var l []int
		for j := 0; j < n; j++ {
			if j == 0 {
				l = append(l, drawTpl(rt, "tpl"))
			} else {
				l = append(l, drawSecondTpl(rt, "tpl2"))
			}
		}
		c.Init = append(c.Init, l)
	}
	// previous tag values: about a third of the peers carry 1-2 tags of other subsystems
	c.PreTags = make([][][2]int, c.NPeers)
	for i := 0; i < c.NPeers; i++ {
		if rapid.IntRange(0, 2).Draw(rt, "preTagged") != 0 {
			continue
		}
		first := rapid.IntRange(0, len(foreignTags)-1).Draw(rt, "preTag")
		n := rapid.IntRange(1, 2).Draw(rt, "nPreTags")
		for j := 0; j < n; j++ {
			c.PreTags[i] = append(c.PreTags[i], [2]int{(first + j) % len(foreignTags), rapid.SampledFrom(foreignWeights).Draw(rt, "preTagWeight")})
		}
	}
	return c
}

// tableACL is the generated ACL; the oracle reads the same tables.
type tableACL struct {
	denyRes                    map[peer.ID]bool
	denyIP                     map[string]bool
	denySrc                    map[string]bool
	denyConn                   map[[2]peer.ID]bool
	mu                         sync.Mutex
	reserveCalls, connectCalls int
}

func ipOf(a ma.Multiaddr) string {
	if v, err := a.ValueForProtocol(ma.P_IP4); err == nil {
		return v
	}
	if v, err := a.ValueForProtocol(ma.P_IP6); err == nil {
		return net.ParseIP(v).String()
	}
	return ""
}

func (a *tableACL) AllowReserve(p peer.ID, addr ma.Multiaddr) bool {
	a.mu.Lock()
	a.reserveCalls++
	a.mu.Unlock()
	return !a.denyRes[p] && !a.denyIP[ipOf(addr)]
}

func (a *tableACL) AllowConnect(src peer.ID, srcAddr ma.Multiaddr, dest peer.ID) bool {
	a.mu.Lock()
	a.connectCalls++
	a.mu.Unlock()
	return !a.denyConn[[2]peer.ID{src, dest}] && !a.denySrc[ipOf(srcAddr)]
}

// ---------------------------------------------------------------------------
// world: the relay under test on a fake host, the peer population and the model

type connSt struct {
	c    *relayhost.Conn
	tpl  int
	addr ma.Multiaddr
	open bool
	name string
}

// rsv is the model's knowledge about one peer's reservation.
type rsv struct {
	must      bool // a grant was observed; definitely live while now < mustUntil
	mustUntil time.Time
	may       bool // possibly live until the first collection after mayUntil
	mayUntil  time.Time
	ip        string
	asn       uint32
	ipCertain bool
	desynced  bool // known finding kfDesync: not counted against the caps by the relay any more
}

type peerSt struct {
	idx       int
	id        peer.ID
	conns     []*connSt
	rs        rsv
	tagExcuse bool // known finding kfTag

	// connection-manager state of the peer as it was before it first asked the relay for
	// anything (observed, not computed); emptied when the peer's last connection closes
	// (the connection manager forgets a peer without connections)
	base tagSnap
	// since the peer last held nothing: it held a reservation / a circuit at some audit,
	// granted refreshes, circuits it took part in
	held, heldRsvp bool
	refreshes      int
	circs          int
}

// tagSnap is what GetTagInfo reports about a peer: the tags and the total value.
type tagSnap struct {
	known bool // the connection manager has an entry for the peer
	tags  map[string]int
	value int
}

func (w *world) tagSnapOf(p *peerSt) tagSnap {
	ts := tagSnap{tags: map[string]int{}}
	if ti := w.h.CM.GetTagInfo(p.id); ti != nil {
		ts.known = true
		ts.value = ti.Value
		for k, v := range ti.Tags {
			ts.tags[k] = v
		}
	}
	return ts
}

func (a tagSnap) sameAs(b tagSnap) bool {
	if a.value != b.value || len(a.tags) != len(b.tags) {
		return false
	}
	for k, v := range a.tags {
		if bv, ok := b.tags[k]; !ok || bv != v {
			return false
		}
	}
	return true
}

type circ struct {
	seq              int
	src, dst         *peerSt
	srcConn, dstConn *connSt
	hop, stop        *relayhost.Stream
	A, B             *endpoint
	start            time.Time
	deadline         time.Time // zero: unlimited
	sentAB, recvB    []byte
	sentBA, recvA    []byte
	gone             bool // ended and removed from the model
	abClosed         bool // the harness half-closed A->B
	baClosed         bool
}

type stopSide struct {
	s   *relayhost.Stream
	ep  *endpoint
	dst *peerSt
	cs  *connSt
}

type world struct {
	rt    *rapid.T
	cfg   config
	h     *relayhost.Host
	r     *relay.Relay
	acl   *tableACL
	t0    time.Time
	peers []*peerSt
	byID  map[peer.ID]*peerSt

	circuits []*circ
	circSeq  int
	connSeq  int
	memPer   int64 // learned memory per open circuit in the service scope (-1 unknown)
	baseSvc  network.ScopeStat
	baseSys  network.ScopeStat

	mu           sync.Mutex
	nsMode       map[peer.ID]stopScript // how NewStream to that peer behaves right now
	pendingStops []*stopSide
	nsCalls      int

	known1, known2 bool
	probeCaps      int // generator heuristic: after a refused refresh, let other peers ask for reservations
	// generator heuristic: after a granted same-address refresh, move past the original expiry and
	// let other peers ask from that address (see step)
	refreshProbe  *refreshProbe
	refreshProbeN int
	// generator heuristic: a reservation just ended because the peer's last direct connection
	// closed while a limited one stays; the next steps ask the relay about it (CONNECT to that
	// peer, RESERVE by others at its address)
	goneProbe *peerSt
	// generator heuristic: a reservation holder has direct and limited connections side by
	// side; some of the next steps close its connections in a generated order
	mixedPending int
	// generator heuristic: a peer whose reservation was collected while it still takes part in
	// open circuits; some of the next steps let it reserve again and open further circuits to it
	regrant  *peerSt
	regrantN int
	goneProbeN   int
	goneIP       string
	excluded     bool

	trace      []string
	labels     map[string]bool
	sawRefusal bool
	sawFault   bool
	sawEnd     bool // disconnect or expiry of a live reservation
	closed     bool
}

func (w *world) label(l string) { w.labels[l] = true }

func (w *world) failf(format string, a ...any) {
	if w.rt == nil {
		panic(fmt.Sprintf(format, a...))
	}
	w.rt.Fatalf("%s\nconfig: %+v\nhistory:\n  %s", fmt.Sprintf(format, a...), w.cfg, joinLines(w.trace))
}

func joinLines(l []string) string {
	out := ""
	for i, s := range l {
		if i > 0 {
			out += "\n  "
		}
		out += s
	}
	return out
}

func newWorld(rt *rapid.T, cfg config) *world {
	w := &world{rt: rt, cfg: cfg, labels: map[string]bool{}, byID: map[peer.ID]*peerSt{}, memPer: -1,
		nsMode: map[peer.ID]stopScript{}, known1: kf.Known(kfDesync), known2: kf.Known(kfTag)}
	id := keys.Ed(1)
	h, err := relayhost.New(id.Priv, id.ID, ma.StringCast("/ip4/8.8.4.4/tcp/4001"), ma.StringCast("/ip4/192.168.1.1/tcp/4001"))
	if err != nil {
		rt.Fatalf("host: %v", err)
	}
	w.h = h
	h.OnNewStream = w.onNewStream
	for i := 0; i < cfg.NPeers; i++ {
		p := &peerSt{idx: i, id: keys.Ed(20 + i).ID}
		w.peers = append(w.peers, p)
		w.byID[p.id] = p
	}
	rc := relay.Resources{
		ReservationTTL: cfg.TTL, MaxReservations: cfg.MaxRes, MaxCircuits: cfg.MaxCirc, BufferSize: cfg.Buf,
		MaxReservationsPerPeer: 1, MaxReservationsPerIP: cfg.PerIP, MaxReservationsPerASN: cfg.PerASN,
	}
	if cfg.Limited {
		rc.Limit = &relay.RelayLimit{Duration: cfg.Dur, Data: cfg.Data}
	}
	opts := []relay.Option{relay.WithResources(rc)}
	if cfg.ACL {
		a := &tableACL{denyRes: map[peer.ID]bool{}, denyIP: map[string]bool{}, denySrc: map[string]bool{}, denyConn: map[[2]peer.ID]bool{}}
		for _, i := range cfg.DenyRes {
			a.denyRes[w.peers[i].id] = true
		}
		for _, ip := range cfg.DenyIP {
			a.denyIP[ip] = true
		}
		for _, ip := range cfg.DenySrc {
			a.denySrc[ip] = true
		}
		for _, pr := range cfg.DenyConn {
			a.denyConn[[2]peer.ID{w.peers[pr[0]].id, w.peers[pr[1]].id}] = true
		}
		w.acl = a
		opts = append(opts, relay.WithACL(a))
	}
	w.t0 = time.Now()
	r, err := relay.New(h, opts...)
	if err != nil {
		h.Close()
		rt.Fatalf("relay.New: %v", err)
	}
	w.r = r
	synctest.Wait()
	w.baseSvc, w.baseSys = w.svcStat(), w.sysStat()
	// harness instants are offset by 500ms from the relay's start so that they never
	// coincide with one of its collection ticks
	time.Sleep(500 * time.Millisecond)
	for i, l := range cfg.Init {
		for _, tpl := range l {
			w.addConn(w.peers[i], tpl)
		}
	}
	synctest.Wait()
	for i, l := range cfg.PreTags {
		for _, tg := range l {
			h.CM.TagPeer(w.peers[i].id, foreignTags[tg[0]], tg[1])
			w.label("tagvalue:peer-with-previous-tags")
		}
	}
	// the previous values: what the connection manager says about every peer before any request
	for _, p := range w.peers {
		p.base = w.tagSnapOf(p)
	}
	return w
}

func (w *world) shutdown() {
	if w.closed {
		return
	}
	w.closed = true
	for _, c := range w.circuits {
		c.A.c.Close()
		c.B.c.Close()
	}
	w.mu.Lock()
	ps := w.pendingStops
	w.pendingStops = nil
	w.mu.Unlock()
	for _, s := range ps {
		s.ep.c.Reset()
	}
	if w.r != nil {
		w.r.Close()
	}
	w.h.Close()
	synctest.Wait()
}

func (w *world) svcStat() (st network.ScopeStat) {
	w.h.RealRM.ViewService(relay.ServiceName, func(s network.ServiceScope) error { st = s.Stat(); return nil })
	return
}

func (w *world) sysStat() (st network.ScopeStat) {
	w.h.RealRM.ViewSystem(func(s network.ResourceScope) error { st = s.Stat(); return nil })
	return
}

func (w *world) addConn(p *peerSt, tpl int) *connSt {
	w.connSeq++
	t := tpls[tpl]
	addr := ma.StringCast(fmt.Sprintf(t.format, 1000+w.connSeq))
	cs := &connSt{tpl: tpl, addr: addr, open: true, name: fmt.Sprintf("p%d.c%d(%s)", p.idx, len(p.conns), t.name)}
	cs.c = w.h.Net.AddConn(p.id, addr, t.limited, network.DirInbound)
	p.conns = append(p.conns, cs)
	return cs
}

func (p *peerSt) openConns() []*connSt {
	var out []*connSt
	for _, c := range p.conns {
		if c.open {
			out = append(out, c)
		}
	}
	return out
}

// limitedConns: the open limited connections (relayed through another relay, Stat().Limited).
func (p *peerSt) limitedConns() []*connSt {
	var out []*connSt
	for _, c := range p.conns {
		if c.open && tpls[c.tpl].limited {
			out = append(out, c)
		}
	}
	return out
}

// limitedOnly: the peer is reachable over limited connections only (Connectedness is Limited,
// not Connected): it has disconnected in the statement's sense.
func (p *peerSt) limitedOnly() bool {
	return p.usableConn() == nil && len(p.openConns()) > 0
}

// usableConn is a connection that makes the peer Connected and that a NoDial NewStream
// would use: an open one that is not limited.
func (p *peerSt) usableConn() *connSt {
	for _, c := range p.conns {
		if c.open && !tpls[c.tpl].limited {
			return c
		}
	}
	return nil
}

// ---------------------------------------------------------------------------
// scripted host.NewStream (the relay opening the STOP stream to the destination)

type stopScript struct {
	NS    string `json:"newStream,omitempty"` // "", "error", "hang", "failSetService", "failReserveMemory"
	Pre   string `json:"pre,omitempty"`       // "", "srcReset", "srcDisc", "dstDisc"
	Reply string `json:"reply,omitempty"`     // "ok", "status", "wrongType", "garbage", "oversize", "reset", "close", "silent", "partial", "noStatus"
}

func (s stopScript) faulty() bool {
	return s.NS != "" || s.Pre != "" || (s.Reply != "ok" && s.Reply != "")
}

var errScriptedNewStream = errors.New("scripted: NewStream failed")

func (w *world) onNewStream(ctx context.Context, p peer.ID, pids []protocol.ID) (network.Stream, error) {
	w.mu.Lock()
	w.nsCalls++
	sc := w.nsMode[p]
	w.mu.Unlock()
	if len(pids) != 1 || pids[0] != stopProto {
		return nil, fmt.Errorf("unexpected protocols %v", pids)
	}
	switch sc.NS {
	case "error":
		return nil, errScriptedNewStream
	case "hang":
		<-ctx.Done()
		return nil, ctx.Err()
	}
	dst := w.byID[p]
	if dst == nil {
		return nil, network.ErrNoConn
	}
	cs := dst.usableConn()
	if cs == nil {
		if len(dst.openConns()) > 0 {
			return nil, network.ErrLimitedConn
		}
		return nil, network.ErrNoConn
	}
	s, err := w.h.OpenOutbound(cs.c, stopProto)
	if err != nil {
		return nil, err
	}
	switch sc.NS {
	case "failSetService":
		s.FailSetService = relayhost.ErrInjected
	case "failReserveMemory":
		s.FailReserveMemory = relayhost.ErrInjected
	}
	w.mu.Lock()
	w.pendingStops = append(w.pendingStops, &stopSide{s: s, ep: &endpoint{c: s.Remote}, dst: dst, cs: cs})
	w.mu.Unlock()
	return s, nil
}

func (w *world) takePendingStops() []*stopSide {
	w.mu.Lock()
	defer w.mu.Unlock()
	ps := w.pendingStops
	w.pendingStops = nil
	return ps
}

// ---------------------------------------------------------------------------
// model queries

// collectedAfter: a collection ran strictly after e and strictly before now.
func (w *world) collectedAfter(e, now time.Time) bool {
	k := e.Sub(w.t0)/gcPeriod + 1
	return now.After(w.t0.Add(k * gcPeriod))
}

func (w *world) mayLive(p *peerSt, now time.Time) bool {
	return p.rs.may && !w.collectedAfter(p.rs.mayUntil, now)
}

func (w *world) mustLive(p *peerSt, now time.Time) bool {
	return p.rs.must && now.Before(p.rs.mustUntil)
}

func (w *world) aclReserve(p *peerSt, cs *connSt) bool {
	if w.acl == nil {
		return true
	}
	return !w.acl.denyRes[p.id] && !w.acl.denyIP[tpls[cs.tpl].ip]
}

func (w *world) aclConnect(src *peerSt, cs *connSt, dst *peerSt) bool {
	if w.acl == nil {
		return true
	}
	return !w.acl.denyConn[[2]peer.ID{src.id, dst.id}] && !w.acl.denySrc[tpls[cs.tpl].ip]
}

// openCount: circuits in which p takes part (a circuit from a peer to itself counts
// once, or twice with double=true for the conservative direction).
func (w *world) openCount(p *peerSt, double bool) int {
	n := 0
	for _, c := range w.circuits {
		if c.src == p {
			n++
		}
		if c.dst == p && (c.src != p || double) {
			n++
		}
	}
	return n
}

// capViolation checks the reservation caps over the reservations that are
// definitely live now.
func (w *world) capViolation(now time.Time) string {
	total := 0
	perIP := map[string]int{}
	perASN := map[uint32]int{}
	for _, p := range w.peers {
		if !w.mustLive(p, now) {
			continue
		}
		if p.rs.desynced && w.known1 {
			w.excluded = true
			continue
		}
		total++
		if p.rs.ipCertain {
			perIP[p.rs.ip]++
			if p.rs.asn != 0 {
				perASN[p.rs.asn]++
			}
		}
	}
	if total > w.cfg.MaxRes {
		return fmt.Sprintf("%d live reservations, MaxReservations=%d", total, w.cfg.MaxRes)
	}
	for ip, n := range perIP {
		if n > w.cfg.PerIP {
			return fmt.Sprintf("%d live reservations from IP %s, MaxReservationsPerIP=%d", n, ip, w.cfg.PerIP)
		}
	}
	for asn, n := range perASN {
		if n > w.cfg.PerASN {
			return fmt.Sprintf("%d live reservations from ASN %d, MaxReservationsPerASN=%d", n, asn, w.cfg.PerASN)
		}
	}
	return ""
}

// mustGrantCaps: even if every possibly-live reservation of another peer is counted,
// a reservation of p from cs fits under the caps.
func (w *world) mustGrantCaps(p *peerSt, cs *connSt, now time.Time) bool {
	t := tpls[cs.tpl]
	asn := tplASN[cs.tpl]
	total, ipn, asnn := 0, 0, 0
	for _, q := range w.peers {
		if q == p || !w.mayLive(q, now) {
			continue
		}
		total++
		if !q.rs.ipCertain || q.rs.ip == t.ip {
			ipn++
		}
		if asn != 0 && (!q.rs.ipCertain || q.rs.asn == asn) {
			asnn++
		}
	}
	return total < w.cfg.MaxRes && ipn < w.cfg.PerIP && (asn == 0 || asnn < w.cfg.PerASN)
}

func (w *world) circuitViolation() string {
	for _, p := range w.peers {
		if n := w.openCount(p, false); n > w.cfg.MaxCirc {
			return fmt.Sprintf("peer p%d takes part in %d open circuits, MaxCircuits=%d", p.idx, n, w.cfg.MaxCirc)
		}
	}
	return ""
}

type refreshProbe struct {
	ip              string
	origExp, newExp time.Time
}
