package c11

import (
	"encoding/binary"
	"errors"
	"io"
	"os"
	"time"

	"google.golang.org/protobuf/proto"

	"verif/internal/memnet"
)

// endpoint is the harness' end of a fake stream. All reads are non-blocking: they are
// done at quiescence points (after synctest.Wait) and take what has arrived.
type endpoint struct {
	c   *memnet.Conn
	buf []byte
}

func (e *endpoint) pull() {
	for n := e.c.Pending(); n > 0; n = e.c.Pending() {
		b := make([]byte, n)
		k, _ := e.c.Read(b)
		e.buf = append(e.buf, b[:k]...)
		if k == 0 {
			return
		}
	}
}

// takeMsg parses one length-delimited protobuf message from what has arrived.
// complete=false: no complete message is available.
func (e *endpoint) takeMsg(m proto.Message) (complete bool, err error) {
	e.pull()
	l, n := binary.Uvarint(e.buf)
	if n <= 0 {
		return false, nil
	}
	if l > 1<<20 {
		return true, errors.New("absurd length prefix")
	}
	if len(e.buf) < n+int(l) {
		return false, nil
	}
	err = proto.Unmarshal(e.buf[n:n+int(l)], m)
	e.buf = e.buf[n+int(l):]
	return true, err
}

// take returns every byte that has arrived and was not consumed yet.
func (e *endpoint) take() []byte {
	e.pull()
	b := e.buf
	e.buf = nil
	return b
}

// state classifies the stream as seen from the harness' end once everything that
// arrived has been taken: "open" (a read would block), "eof" (the other side closed
// its write side or the stream), "reset", "closed" (the harness closed its own end),
// "data" (bytes arrived meanwhile).
func (e *endpoint) state() string {
	if e.c.Closed() {
		return "closed"
	}
	e.pull()
	e.c.SetReadDeadline(time.Now())
	var b [1]byte
	n, err := e.c.Read(b[:])
	e.c.SetReadDeadline(time.Time{})
	switch {
	case n > 0:
		e.buf = append(e.buf, b[0])
		return "data"
	case err == io.EOF:
		return "eof"
	case errors.Is(err, memnet.ErrReset):
		return "reset"
	case errors.Is(err, os.ErrDeadlineExceeded):
		return "open"
	default:
		return "closed"
	}
}

// ended: the other side will deliver nothing more and accepts nothing more.
func (e *endpoint) ended() bool {
	s := e.state()
	return s == "eof" || s == "reset" || s == "closed"
}

func frame(m proto.Message) []byte {
	b, err := proto.Marshal(m)
	if err != nil {
		panic(err)
	}
	return append(binary.AppendUvarint(nil, uint64(len(b))), b...)
}

func (e *endpoint) writeMsg(m proto.Message) error {
	_, err := e.c.Write(frame(m))
	return err
}

// payload expands (seed, offset) deterministically into n bytes.
func payload(seed uint64, off, n int) []byte {
	b := make([]byte, n)
	for i := range b {
		x := seed + uint64(off+i)*0x9e3779b97f4a7c15
		x ^= x >> 29
		x *= 0xbf58476d1ce4e5b9
		x ^= x >> 32
		b[i] = byte(x)
	}
	return b
}
