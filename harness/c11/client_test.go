package c11

import (
	"bytes"
	"context"
	"encoding/binary"
	"fmt"
	"strings"
	"testing"
	"testing/synctest"
	"time"

	"github.com/libp2p/go-libp2p/core/network"
	"github.com/libp2p/go-libp2p/core/peer"
	"github.com/libp2p/go-libp2p/core/protocol"
	"github.com/libp2p/go-libp2p/core/record"
	"github.com/libp2p/go-libp2p/p2p/protocol/circuitv2/client"
	pbv2 "github.com/libp2p/go-libp2p/p2p/protocol/circuitv2/pb"
	circproto "github.com/libp2p/go-libp2p/p2p/protocol/circuitv2/proto"
	ma "github.com/multiformats/go-multiaddr"
	"pgregory.net/rapid"

	"verif/internal/hx"
	"verif/internal/keys"
	"verif/internal/relayhost"
	"verif/internal/stats"
)

// foreignRecord seals arbitrary payload bytes under a chosen domain / codec (never
// registered with the record registry).
type foreignRecord struct {
	domain  string
	codec   []byte
	payload []byte
}

func (r *foreignRecord) Domain() string                 { return r.domain }
func (r *foreignRecord) Codec() []byte                  { return r.codec }
func (r *foreignRecord) MarshalRecord() ([]byte, error) { return r.payload, nil }
func (r *foreignRecord) UnmarshalRecord([]byte) error   { return nil }

// reply describes what the scripted relay answers to client.Reserve.
type reply struct {
	Transport string `json:"transport,omitempty"` // "", reset, eof, partial, oversize, garbage, silent
	MsgType   string `json:"type"`
	Status    string `json:"status"`
	HasRsvp   bool   `json:"reservation"`
	ExpireOff int64  `json:"expireOffsetSec"` // relative to now; math.MinInt64 = 0 absolute
	ExpireAbs bool   `json:"expireZero,omitempty"`
	Voucher   string `json:"voucher"` // valid, absent, empty, garbage, truncated, flipSig, flipPayload, wrongDomain, peerRecord, otherCodec
	Signer    string `json:"signer"`  // relay | other
	VRelay    string `json:"voucherRelay"`
	VPeer     string `json:"voucherPeer"` // self | other | relay
	VExpOff   int64  `json:"voucherExpireOffsetSec"`
	Limit     string `json:"limit"` // normal, none, zero
	BadAddr   bool   `json:"badAddr,omitempty"`

	status *pbv2.Status
	mtype  pbv2.HopMessage_Type
}

type mutation struct {
	name  string
	apply func(*reply)
}

func statusMut(s pbv2.Status) mutation {
	return mutation{"status=" + s.String(), func(r *reply) { r.status = s.Enum(); r.Status = s.String() }}
}

var mutations = []mutation{
	{"no-reservation", func(r *reply) { r.HasRsvp = false }},
	{"expire-past", func(r *reply) { r.ExpireOff = -2 }},
	{"expire-zero", func(r *reply) { r.ExpireAbs = true }},
	{"expire-now", func(r *reply) { r.ExpireOff = 0 }},
	{"voucher-absent", func(r *reply) { r.Voucher = "absent" }},
	{"voucher-empty", func(r *reply) { r.Voucher = "empty" }},
	{"voucher-garbage", func(r *reply) { r.Voucher = "garbage" }},
	{"voucher-truncated", func(r *reply) { r.Voucher = "truncated" }},
	{"voucher-flip-signature", func(r *reply) { r.Voucher = "flipSig" }},
	{"voucher-flip-payload", func(r *reply) { r.Voucher = "flipPayload" }},
	{"voucher-wrong-domain", func(r *reply) { r.Voucher = "wrongDomain" }},
	{"voucher-is-peer-record", func(r *reply) { r.Voucher = "peerRecord" }},
	{"voucher-other-codec", func(r *reply) { r.Voucher = "otherCodec" }},
	{"signed-by-other-naming-relay", func(r *reply) { r.Signer = "other" }},
	{"signed-by-other-naming-itself", func(r *reply) { r.Signer = "other"; r.VRelay = "other" }},
	{"signed-by-relay-naming-other", func(r *reply) { r.VRelay = "other" }},
	{"voucher-for-other-peer", func(r *reply) { r.VPeer = "other" }},
	{"voucher-for-relay", func(r *reply) { r.VPeer = "relay" }},
	{"voucher-expired", func(r *reply) { r.VExpOff = -3600 }},
	{"voucher-expiry-differs", func(r *reply) { r.VExpOff = 7200 }},
	{"limit-none", func(r *reply) { r.Limit = "none" }},
	{"limit-zero", func(r *reply) { r.Limit = "zero" }},
	{"bad-addr", func(r *reply) { r.BadAddr = true }},
	{"transport-reset", func(r *reply) { r.Transport = "reset" }},
	{"transport-eof", func(r *reply) { r.Transport = "eof" }},
	{"transport-partial", func(r *reply) { r.Transport = "partial" }},
	{"transport-oversize", func(r *reply) { r.Transport = "oversize" }},
	{"transport-garbage", func(r *reply) { r.Transport = "garbage" }},
	{"transport-silent", func(r *reply) { r.Transport = "silent" }},
	statusMut(pbv2.Status_RESERVATION_REFUSED), statusMut(pbv2.Status_RESOURCE_LIMIT_EXCEEDED), statusMut(pbv2.Status_PERMISSION_DENIED),
	statusMut(pbv2.Status_CONNECTION_FAILED), statusMut(pbv2.Status_NO_RESERVATION), statusMut(pbv2.Status_MALFORMED_MESSAGE),
	statusMut(pbv2.Status_UNEXPECTED_MESSAGE), statusMut(pbv2.Status_UNUSED),
	{"status-missing", func(r *reply) { r.status = nil; r.Status = "missing" }},
	{"type=RESERVE", func(r *reply) { r.mtype = pbv2.HopMessage_RESERVE; r.MsgType = "RESERVE" }},
	{"type=CONNECT", func(r *reply) { r.mtype = pbv2.HopMessage_CONNECT; r.MsgType = "CONNECT" }},
}

func TestClientReserve(t *testing.T) {
	name := t.Name()
	hx.Check(t, 8000, 400000, 0, func(rt *rapid.T) {
		r := reply{MsgType: "STATUS", Status: "OK", HasRsvp: true, ExpireOff: 3600, Voucher: "valid", Signer: "relay", VRelay: "relay", VPeer: "self", VExpOff: 3600, Limit: "normal",
			status: pbv2.Status_OK.Enum(), mtype: pbv2.HopMessage_STATUS}
		nm := rapid.SampledFrom([]int{0, 1, 1, 1, 1, 2, 2}).Draw(rt, "nmut")
		var names []string
		for i := 0; i < nm; i++ {
			m := mutations[rapid.IntRange(0, len(mutations)-1).Draw(rt, "mut")]
			m.apply(&r)
			names = append(names, m.name)
		}
		selfKind := rapid.SampledFrom([]string{"ed25519", "ed25519", "ecdsa", "secp256k1", "rsa"}).Draw(rt, "selfKey")
		relayKind := rapid.SampledFrom([]string{"ed25519", "ed25519", "ecdsa", "secp256k1", "rsa"}).Draw(rt, "relayKey")
		subsec := rapid.SampledFrom([]time.Duration{0, 250 * time.Millisecond, 999 * time.Millisecond}).Draw(rt, "subsec")
		withAddrs := rapid.Bool().Draw(rt, "withAddrs")
		self, relayID, other := keys.Get(selfKind, 40), keys.Get(relayKind, 41), keys.Get("ed25519", 42)

		var verdict string
		hx.Bubble(t, rt, func() {
			time.Sleep(subsec)
			h, err := relayhost.New(self.Priv, self.ID, ma.StringCast("/ip4/192.168.1.5/tcp/4001"))
			if err != nil {
				rt.Fatalf("host: %v", err)
			}
			defer h.Close()
			conn := h.Net.AddConn(relayID.ID, ma.StringCast("/ip4/8.8.4.4/tcp/4001"), false, network.DirOutbound)
			var streams []*relayhost.Stream
			h.OnNewStream = func(ctx context.Context, p peer.ID, pids []protocol.ID) (network.Stream, error) {
				if p != relayID.ID || len(pids) != 1 || pids[0] != hopProto {
					return nil, fmt.Errorf("unexpected NewStream(%s, %v)", p, pids)
				}
				s, err := h.OpenOutbound(conn, pids[0])
				if err == nil {
					streams = append(streams, s)
				}
				return s, err
			}
			ai := peer.AddrInfo{ID: relayID.ID}
			if withAddrs {
				ai.Addrs = []ma.Multiaddr{ma.StringCast("/ip4/8.8.4.4/tcp/4001")}
			}
			type result struct {
				res *client.Reservation
				err error
			}
			done := make(chan result, 1)
			go func() {
				res, err := client.Reserve(context.Background(), h, ai)
				done <- result{res, err}
			}()
			synctest.Wait()
			if len(streams) != 1 {
				rt.Fatalf("client.Reserve opened %d streams", len(streams))
			}
			ep := &endpoint{c: streams[0].Remote}
			var req pbv2.HopMessage
			if complete, err := ep.takeMsg(&req); !complete || err != nil || req.GetType() != pbv2.HopMessage_RESERVE {
				rt.Fatalf("client.Reserve did not send a RESERVE message (complete=%v err=%v type=%v)", complete, err, req.GetType())
			}

			now := time.Now()
			expire := uint64(now.Unix() + r.ExpireOff)
			if r.ExpireAbs {
				expire = 0
			}
			pick := func(k string) *keys.Identity {
				switch k {
				case "other":
					return other
				case "self":
					return self
				}
				return relayID
			}
			signer := pick(r.Signer)
			v := &circproto.ReservationVoucher{Relay: pick(r.VRelay).ID, Peer: pick(r.VPeer).ID, Expiration: time.Unix(now.Unix()+r.VExpOff, 0)}
			payloadBytes, _ := v.MarshalRecord()
			seal := func(rec record.Record) []byte {
				env, err := record.Seal(rec, signer.Priv)
				if err != nil {
					rt.Fatalf("seal: %v", err)
				}
				b, err := env.Marshal()
				if err != nil {
					rt.Fatalf("marshal: %v", err)
				}
				return b
			}
			flipIn := func(blob, part []byte) []byte {
				i := bytes.Index(blob, part)
				if i < 0 || len(part) == 0 {
					rt.Fatalf("harness: cannot locate the part to corrupt")
				}
				out := append([]byte(nil), blob...)
				out[i+len(part)/2] ^= 0x01
				return out
			}
			var vb []byte
			switch r.Voucher {
			case "valid":
				vb = seal(v)
			case "absent":
			case "empty":
				vb = []byte{}
			case "garbage":
				vb = payload(7, 0, 80)
			case "truncated":
				b := seal(v)
				vb = b[:len(b)-5]
			case "flipSig":
				// the signature is the last field of the marshalled envelope
				vb = seal(v)
				vb[len(vb)-1] ^= 0x01
			case "flipPayload":
				vb = flipIn(seal(v), payloadBytes)
			case "wrongDomain":
				vb = seal(&foreignRecord{domain: "libp2p-relay-rsvp-x", codec: circproto.RecordCodec, payload: payloadBytes})
			case "peerRecord":
				pr := peer.NewPeerRecord()
				pr.PeerID = signer.ID
				pr.Addrs = []ma.Multiaddr{ma.StringCast("/ip4/8.8.4.4/tcp/4001")}
				vb = seal(pr)
			case "otherCodec":
				vb = seal(&foreignRecord{domain: voucherDomain, codec: []byte{0x03, 0x7f}, payload: payloadBytes})
			}
			msg := &pbv2.HopMessage{Type: r.mtype.Enum(), Status: r.status}
			if r.HasRsvp {
				msg.Reservation = &pbv2.Reservation{Expire: &expire, Voucher: vb}
				msg.Reservation.Addrs = [][]byte{ma.StringCast("/ip4/8.8.4.4/tcp/4001/p2p/" + relayID.ID.String()).Bytes()}
				if r.BadAddr {
					msg.Reservation.Addrs = append(msg.Reservation.Addrs, []byte{0xff, 0x01, 0x02})
				}
			}
			dur, data := uint32(120), uint64(1<<17)
			switch r.Limit {
			case "normal":
				msg.Limit = &pbv2.Limit{Duration: &dur, Data: &data}
			case "zero":
				dur, data = 0, 0
				msg.Limit = &pbv2.Limit{Duration: &dur, Data: &data}
			}
			switch r.Transport {
			case "":
				ep.writeMsg(msg)
			case "reset":
				ep.c.Reset()
			case "eof":
				ep.c.Close()
			case "partial":
				f := frame(msg)
				ep.c.Write(f[:len(f)/2])
			case "oversize":
				ep.c.Write(append(binary.AppendUvarint(nil, 100000), make([]byte, 128)...))
			case "garbage":
				ep.c.Write([]byte{0x03, 0x08, 0xff, 0xff})
			case "silent":
			}
			synctest.Wait()
			if r.Transport == "partial" || r.Transport == "silent" {
				time.Sleep(client.ReserveTimeout + time.Second)
				synctest.Wait()
			}
			var out result
			select {
			case out = <-done:
			default:
				rt.Fatalf("client.Reserve has not returned (transport=%q)", r.Transport)
			}
			ep.c.Close()

			// ---- oracle (written from what was sent)
			replyIsOK := r.Transport == "" && r.mtype == pbv2.HopMessage_STATUS && r.status != nil && *r.status == pbv2.Status_OK && r.HasRsvp
			expired := r.ExpireAbs || r.ExpireOff < 0    // strictly in the past
			boundary := !r.ExpireAbs && r.ExpireOff == 0 // expiry == now (sub-second part aside): either answer
			voucherPresent := r.HasRsvp && r.Voucher != "absent"
			voucherValid := r.Voucher == "valid" && signer.ID == v.Relay && v.Peer == self.ID
			if out.err == nil {
				verdict = "accepted"
				if !replyIsOK {
					rt.Fatalf("client.Reserve accepted a reply that is not an OK reservation: %+v (mutations %v)", r, names)
				}
				if expired {
					rt.Fatalf("client.Reserve accepted a reservation that expired %ds ago (mutations %v)", -r.ExpireOff, names)
				}
				if out.res == nil {
					rt.Fatalf("nil reservation without error")
				}
				if out.res.Expiration.Before(time.Now()) && !boundary {
					rt.Fatalf("client.Reserve returned an expired reservation: %v < now %v", out.res.Expiration, time.Now())
				}
				if uint64(out.res.Expiration.Unix()) != expire {
					rt.Fatalf("client.Reserve reports expiry %d, the relay said %d", out.res.Expiration.Unix(), expire)
				}
				if got := out.res.Voucher; got != nil {
					verdict = "accepted+voucher"
					if !voucherPresent {
						rt.Fatalf("client.Reserve returned a voucher although none was sent")
					}
					if !voucherValid {
						rt.Fatalf("client.Reserve accepted an invalid voucher: mode=%s signer=%s voucher.Relay=%s voucher.Peer=%s (mutations %v)", r.Voucher, r.Signer, r.VRelay, r.VPeer, names)
					}
					if got.Relay != v.Relay || got.Peer != v.Peer || got.Expiration.Unix() != v.Expiration.Unix() {
						rt.Fatalf("client.Reserve returned voucher %+v, the relay sealed %+v", got, v)
					}
				} else if voucherPresent && voucherValid {
					rt.Fatalf("client.Reserve dropped a valid voucher (mutations %v)", names)
				}
			} else {
				verdict = "rejected"
				if replyIsOK && !expired && !boundary && (!voucherPresent || voucherValid) {
					rt.Fatalf("client.Reserve rejected a valid reservation: %v (mutations %v)", out.err, names)
				}
			}
			synctest.Wait()
		})
		labels := []string{verdict, "self:" + selfKind, "relay:" + relayKind}
		for _, n := range names {
			labels = append(labels, "mut:"+n)
		}
		fp := fmt.Sprintf("%s|%s|%s|%v|%v", strings.Join(names, ","), selfKind, relayKind, subsec, withAddrs)
		stats.Case(name, fp, len(names) > 0, labels...)
		if stats.WantSample(name) {
			stats.Sample(name, map[string]any{"mutations": names, "reply": r, "verdict": verdict, "selfKey": selfKind, "relayKey": relayKind})
		}
	})
}
