package c11

import (
	"context"
	"fmt"
	"io"
	"testing"
	"time"

	"github.com/libp2p/go-libp2p/core/host"
	"github.com/libp2p/go-libp2p/core/network"
	"github.com/libp2p/go-libp2p/core/peer"
	"github.com/libp2p/go-libp2p/core/sec"
	"github.com/libp2p/go-libp2p/core/transport"
	bhost "github.com/libp2p/go-libp2p/p2p/host/blank"
	"github.com/libp2p/go-libp2p/p2p/host/eventbus"
	"github.com/libp2p/go-libp2p/p2p/host/peerstore/pstoremem"
	"github.com/libp2p/go-libp2p/p2p/muxer/yamux"
	"github.com/libp2p/go-libp2p/p2p/net/swarm"
	tptu "github.com/libp2p/go-libp2p/p2p/net/upgrader"
	"github.com/libp2p/go-libp2p/p2p/protocol/circuitv2/client"
	"github.com/libp2p/go-libp2p/p2p/protocol/circuitv2/relay"
	"github.com/libp2p/go-libp2p/p2p/security/noise"
	"github.com/libp2p/go-libp2p/p2p/transport/tcp"
	ma "github.com/multiformats/go-multiaddr"

	"verif/internal/hx"
	"verif/internal/keys"
	"verif/internal/stats"
)

// realHost builds a host from the real swarm, TCP over loopback, Noise and yamux.
func realHost(t *testing.T, k *keys.Identity) (host.Host, transport.Upgrader) {
	ps, err := pstoremem.NewPeerstore()
	if err != nil {
		t.Fatal(err)
	}
	ps.AddPrivKey(k.ID, k.Priv)
	ps.AddPubKey(k.ID, k.Pub)
	bus := eventbus.NewBus()
	sw, err := swarm.NewSwarm(k.ID, ps, bus)
	if err != nil {
		t.Fatal(err)
	}
	nt, err := noise.New(noise.ID, k.Priv, nil)
	if err != nil {
		t.Fatal(err)
	}
	up, err := tptu.New([]sec.SecureTransport{nt}, []tptu.StreamMuxer{{ID: yamux.ID, Muxer: yamux.DefaultTransport}}, nil, &network.NullResourceManager{}, nil)
	if err != nil {
		t.Fatal(err)
	}
	tt, err := tcp.NewTCPTransport(up, nil, nil)
	if err != nil {
		t.Fatal(err)
	}
	if err := sw.AddTransport(tt); err != nil {
		t.Fatal(err)
	}
	if err := sw.Listen(ma.StringCast("/ip4/127.0.0.1/tcp/0")); err != nil {
		t.Skipf("inconclusive: cannot listen on loopback: %v", err)
	}
	return bhost.NewBlankHost(sw, bhost.WithEventBus(bus)), up
}

// TestEndToEndSmoke (thorough tier, real time, loopback TCP): the same statements on
// the real stack for a handful of data sizes: CONNECT to a peer without reservation
// fails; with a reservation the circuit is a limited connection; the destination never
// receives more than Limit.Data payload bytes and what it receives is a prefix.
// Timeouts are inconclusive (skip), never a violation.
func TestEndToEndSmoke(t *testing.T) {
	hx.Shard0(t)
	if !hx.Thorough() {
		t.Skip("thorough tier only")
	}
	name := t.Name()
	const limit = 8192
	for i, size := range []int{1000, limit / 2, limit, 3 * limit} {
		func() {
			ctx, cancel := context.WithTimeout(context.Background(), 60*time.Second)
			defer cancel()
			rh, _ := realHost(t, keys.Ed(60))
			dst, dup := realHost(t, keys.Ed(61))
			src, sup := realHost(t, keys.Ed(62))
			bare, bup := realHost(t, keys.Ed(63))
			defer rh.Close()
			defer dst.Close()
			defer src.Close()
			defer bare.Close()
			for _, x := range []struct {
				h host.Host
				u transport.Upgrader
			}{{dst, dup}, {src, sup}, {bare, bup}} {
				if err := client.AddTransport(x.h, x.u); err != nil {
					t.Fatal(err)
				}
			}
			rc := relay.DefaultResources()
			rc.Limit = &relay.RelayLimit{Duration: 30 * time.Second, Data: limit}
			r, err := relay.New(rh, relay.WithResources(rc))
			if err != nil {
				t.Fatal(err)
			}
			defer r.Close()
			rinfo := peer.AddrInfo{ID: rh.ID(), Addrs: rh.Addrs()}
			for _, h := range []host.Host{dst, src, bare} {
				if err := h.Connect(ctx, rinfo); err != nil {
					t.Skipf("inconclusive: cannot connect to the relay over loopback: %v", err)
				}
			}
			// no reservation: refused
			noRsvp := ma.StringCast(fmt.Sprintf("/p2p/%s/p2p-circuit/p2p/%s", rh.ID(), bare.ID()))
			if err := src.Connect(ctx, peer.AddrInfo{ID: bare.ID(), Addrs: []ma.Multiaddr{noRsvp}}); err == nil {
				t.Fatalf("circuit to a peer without reservation was established")
			}
			rsvp, err := client.Reserve(ctx, dst, rinfo)
			if err != nil {
				if ctx.Err() != nil {
					t.Skipf("inconclusive: %v", err)
				}
				t.Fatalf("reservation refused on an empty relay: %v", err)
			}
			if rsvp.Voucher == nil || rsvp.Voucher.Peer != dst.ID() || rsvp.Voucher.Relay != rh.ID() {
				t.Fatalf("voucher %+v does not name the reserving peer %s and the relay %s", rsvp.Voucher, dst.ID(), rh.ID())
			}
			type got struct {
				data []byte
			}
			res := make(chan got, 1)
			dst.SetStreamHandler("/c11/sink", func(s network.Stream) {
				defer s.Reset()
				var all []byte
				buf := make([]byte, 4096)
				for {
					s.SetReadDeadline(time.Now().Add(20 * time.Second))
					n, err := s.Read(buf)
					all = append(all, buf[:n]...)
					if err != nil {
						break
					}
				}
				res <- got{all}
			})
			via := ma.StringCast(fmt.Sprintf("/p2p/%s/p2p-circuit/p2p/%s", rh.ID(), dst.ID()))
			if err := src.Connect(ctx, peer.AddrInfo{ID: dst.ID(), Addrs: []ma.Multiaddr{via}}); err != nil {
				if ctx.Err() != nil {
					t.Skipf("inconclusive: %v", err)
				}
				t.Fatalf("circuit to a reserved peer failed: %v", err)
			}
			for _, c := range src.Network().ConnsToPeer(dst.ID()) {
				if !c.Stat().Limited {
					t.Fatalf("connection through a limited relay is not marked limited: %s", c.RemoteMultiaddr())
				}
			}
			s, err := src.NewStream(network.WithAllowLimitedConn(ctx, "c11"), dst.ID(), "/c11/sink")
			if err != nil {
				t.Skipf("inconclusive: stream over the circuit: %v", err)
			}
			sent := payload(uint64(99+i), 0, size)
			s.SetWriteDeadline(time.Now().Add(20 * time.Second))
			_, werr := s.Write(sent)
			if werr == nil {
				s.CloseWrite()
			}
			var g got
			select {
			case g = <-res:
			case <-ctx.Done():
				t.Skipf("inconclusive: sink did not finish")
			}
			io.Copy(io.Discard, s)
			s.Reset()
			if len(g.data) > limit {
				t.Fatalf("%d payload bytes crossed a circuit with Limit.Data=%d", len(g.data), limit)
			}
			if string(sent[:len(g.data)]) != string(g.data) {
				t.Fatalf("the %d bytes received are not a prefix of what was sent", len(g.data))
			}
			t.Logf("sent %d, received %d (write error: %v)", size, len(g.data), werr)
			stats.CaseEnumerated(name, true, fmt.Sprintf("size=%d", size))
		}()
	}
}
