package c11

import (
	"bytes"
	"encoding/binary"
	"fmt"
	"testing/synctest"
	"time"

	"github.com/libp2p/go-libp2p/core/record"
	pbv2 "github.com/libp2p/go-libp2p/p2p/protocol/circuitv2/pb"
	circproto "github.com/libp2p/go-libp2p/p2p/protocol/circuitv2/proto"

	"verif/internal/relayhost"
)

// ---------------------------------------------------------------------------
// the source side of a hop request

var hopFaults = []string{"resetBefore", "garbage", "oversize", "partial", "wrongType", "failSetService", "failReserveMemory"}

func isMalformed(f string) bool {
	switch f {
	case "resetBefore", "garbage", "oversize", "partial", "wrongType", "noPeer", "badPeerID":
		return true
	}
	return false
}

// startHop injects a hop stream on cs and writes the request (or its faulty variant).
func (w *world) startHop(cs *connSt, fault string, msg *pbv2.HopMessage) (*relayhost.Stream, *endpoint) {
	s, err := w.h.Inject(cs.c, hopProto, func(s *relayhost.Stream) {
		switch fault {
		case "failSetService":
			s.FailSetService = relayhost.ErrInjected
		case "failReserveMemory":
			s.FailReserveMemory = relayhost.ErrInjected
		}
	})
	if err != nil {
		w.failf("harness: cannot inject hop stream on %s: %v", cs.name, err)
	}
	ep := &endpoint{c: s.Remote}
	switch fault {
	case "resetBefore":
		ep.c.Reset()
	case "garbage":
		ep.c.Write([]byte{0x03, 0x08, 0xff, 0xff})
	case "oversize":
		ep.c.Write(append(binary.AppendUvarint(nil, 5000), make([]byte, 64)...))
	case "partial":
		ep.c.Write([]byte{0x0a, 0x08, 0x01, 0x12})
	case "wrongType":
		ep.writeMsg(&pbv2.HopMessage{Type: pbv2.HopMessage_STATUS.Enum(), Status: pbv2.Status_OK.Enum()})
	case "lostReply":
		ep.writeMsg(msg)
		ep.c.CloseRead()
	default:
		ep.writeMsg(msg)
	}
	if fault != "" {
		w.sawFault = true
		w.label("fault:hop-" + fault)
	}
	return s, ep
}

type hopOutcome struct {
	got    bool // a well-formed STATUS message arrived
	ok     bool
	status pbv2.Status
	msg    *pbv2.HopMessage
	weird  string
}

func (o hopOutcome) String() string {
	switch {
	case o.weird != "":
		return "weird:" + o.weird
	case !o.got:
		return "no-reply"
	default:
		return o.status.String()
	}
}

func (w *world) readHop(ep *endpoint) hopOutcome {
	var m pbv2.HopMessage
	complete, err := ep.takeMsg(&m)
	if !complete {
		return hopOutcome{}
	}
	if err != nil {
		return hopOutcome{weird: "unparsable reply: " + err.Error()}
	}
	if m.GetType() != pbv2.HopMessage_STATUS {
		return hopOutcome{weird: "reply of type " + m.GetType().String()}
	}
	return hopOutcome{got: true, ok: m.GetStatus() == pbv2.Status_OK, status: m.GetStatus(), msg: &m}
}

// ---------------------------------------------------------------------------
// RESERVE

func (w *world) checkVoucher(m *pbv2.HopMessage, p *peerSt, at time.Time) {
	rs := m.GetReservation()
	if rs == nil {
		w.failf("RESERVE by p%d answered OK without reservation info", p.idx)
	}
	want := uint64(at.Add(w.cfg.TTL).Unix())
	if rs.GetExpire() != want {
		w.failf("RESERVE by p%d: reply expiry %d, want %d (request instant + ReservationTTL)", p.idx, rs.GetExpire(), want)
	}
	vb := rs.GetVoucher()
	if vb == nil {
		w.failf("RESERVE by p%d answered OK without a voucher", p.idx)
	}
	env, rec, err := record.ConsumeEnvelope(vb, voucherDomain)
	if err != nil {
		w.failf("RESERVE by p%d: voucher does not validate in domain %q: %v", p.idx, voucherDomain, err)
	}
	if !env.PublicKey.Equals(w.h.Priv.GetPublic()) {
		w.failf("RESERVE by p%d: voucher is not signed with the relay's key", p.idx)
	}
	v, ok := rec.(*circproto.ReservationVoucher)
	if !ok {
		w.failf("RESERVE by p%d: voucher record has type %T", p.idx, rec)
	}
	if v.Relay != w.h.Self {
		w.failf("RESERVE by p%d: voucher names relay %s, want %s", p.idx, v.Relay, w.h.Self)
	}
	if v.Peer != p.id {
		w.failf("RESERVE by p%d: voucher names peer %s, want the reserving peer %s", p.idx, v.Peer, p.id)
	}
	if uint64(v.Expiration.Unix()) != rs.GetExpire() {
		w.failf("RESERVE by p%d: voucher expiry %d differs from the reply's expiry %d", p.idx, v.Expiration.Unix(), rs.GetExpire())
	}
}

// noteGrant installs an observed grant in the model.
func (w *world) noteGrant(p *peerSt, cs *connSt, at time.Time, ipCertain bool) {
	exp := at.Add(w.cfg.TTL)
	p.rs = rsv{must: true, mustUntil: exp, may: true, mayUntil: exp, ip: tpls[cs.tpl].ip, asn: tplASN[cs.tpl], ipCertain: ipCertain}
}

// noteLostReply: the request may or may not have been granted.
func (w *world) noteLostReply(p *peerSt, cs *connSt, at time.Time, wasMay bool) {
	exp := at.Add(w.cfg.TTL)
	t := tpls[cs.tpl]
	if !wasMay {
		p.rs = rsv{may: true, mayUntil: exp, ip: t.ip, asn: tplASN[cs.tpl], ipCertain: true}
		return
	}
	if exp.After(p.rs.mayUntil) {
		p.rs.mayUntil = exp
	}
	if p.rs.ip != t.ip || !p.rs.ipCertain {
		p.rs.ipCertain = false
		p.rs.desynced = true
	}
}

// judgeReserve compares one RESERVE outcome with the model and updates the model.
// sequential=false (request raced with others): only the safety direction is judged and
// the caps are checked by the caller after the whole batch.
func (w *world) judgeReserve(p *peerSt, cs *connSt, fault string, out hopOutcome, at time.Time, wasMay, sequential bool) {
	t := tpls[cs.tpl]
	local := !t.relayed && w.aclReserve(p, cs)
	w.label("reserve:" + out.String())
	if out.weird != "" {
		w.failf("RESERVE by %s: %s", cs.name, out.weird)
	}
	if out.ok {
		if isMalformed(fault) || fault == "failSetService" || fault == "failReserveMemory" {
			w.failf("RESERVE by %s with fault %q was answered OK", cs.name, fault)
		}
		if t.relayed {
			w.failf("RESERVE by %s granted although the peer reached the relay through another relay", cs.name)
		}
		if !w.aclReserve(p, cs) {
			w.failf("RESERVE by %s granted although the ACL forbids it", cs.name)
		}
		w.checkVoucher(out.msg, p, at)
		if wasMay {
			p.refreshes++
			w.label("refresh-granted")
			if p.rs.ip != t.ip {
				w.label("refresh-granted-other-ip")
			}
		}
		if wasMay && sequential && p.rs.ip == t.ip && p.rs.ipCertain && p.rs.mayUntil.After(at) {
			// generator heuristic: let the clock pass the ORIGINAL expiry of a refreshed reservation and
			// have other peers ask from the same address while the refreshed one is still live
			w.refreshProbe, w.refreshProbeN = &refreshProbe{ip: t.ip, origExp: p.rs.mayUntil, newExp: at.Add(w.cfg.TTL)}, 3
		}
		w.noteGrant(p, cs, at, true)
		w.noteConnSet(p)
		if sequential {
			if v := w.capViolation(at); v != "" {
				w.failf("RESERVE by %s granted beyond the caps: %s", cs.name, v)
			}
		}
		return
	}
	w.sawRefusal = true
	if fault == "lostReply" {
		if local {
			w.noteLostReply(p, cs, at, wasMay)
		}
		return
	}
	if fault != "" {
		return
	}
	if !out.got {
		w.failf("RESERVE by %s: no reply at all (stream state %s)", cs.name, "?")
	}
	if local && wasMay {
		// a refused refresh: the old reservation stays (possibly) live
		w.label("refresh-refused")
		p.rs.desynced = true
		w.probeCaps = 2
	}
	if sequential && local && w.mustGrantCaps(p, cs, at) {
		w.failf("RESERVE by %s refused (%s) although not relayed, allowed by the ACL and within every cap", cs.name, out.status)
	}
}

func (w *world) opReserve(p *peerSt, cs *connSt, fault string) {
	at := time.Now()
	wasMay := w.mayLive(p, at)
	_, ep := w.startHop(cs, fault, &pbv2.HopMessage{Type: pbv2.HopMessage_RESERVE.Enum()})
	synctest.Wait()
	if fault == "partial" {
		time.Sleep(streamTimeout + time.Second)
		synctest.Wait()
	}
	out := w.readHop(ep)
	ep.c.Close()
	w.trace = append(w.trace, fmt.Sprintf("RESERVE %s fault=%q -> %s", cs.name, fault, out))
	w.judgeReserve(p, cs, fault, out, at, wasMay, true)
	synctest.Wait()
}

// ---------------------------------------------------------------------------
// CONNECT

type usage struct {
	AB  []int  `json:"ab,omitempty"`
	BA  []int  `json:"ba,omitempty"`
	End string `json:"end"`
}

func connectMsg(dst *peerSt, hopFault string) *pbv2.HopMessage {
	m := &pbv2.HopMessage{Type: pbv2.HopMessage_CONNECT.Enum(), Peer: &pbv2.Peer{Id: []byte(dst.id)}}
	switch hopFault {
	case "noPeer":
		m.Peer = nil
	case "badPeerID":
		m.Peer.Id = []byte{1, 2, 3}
	}
	return m
}

// readStop reads and validates the relay's STOP CONNECT message; it returns the
// source peer named in it.
func (w *world) readStop(st *stopSide) *peerSt {
	var m pbv2.StopMessage
	complete, err := st.ep.takeMsg(&m)
	if !complete && err == nil && st.s.Finished() {
		return nil // the relay gave the stream up before the handshake (resource refusal)
	}
	if !complete || err != nil {
		w.failf("relay opened a stop stream to p%d but sent no well-formed message (complete=%v err=%v)", st.dst.idx, complete, err)
	}
	if m.GetType() != pbv2.StopMessage_CONNECT {
		w.failf("stop message to p%d has type %s", st.dst.idx, m.GetType())
	}
	src := w.byID[peerIDFromBytes(m.GetPeer().GetId())]
	if src == nil {
		w.failf("stop CONNECT to p%d names an unknown source %x", st.dst.idx, m.GetPeer().GetId())
	}
	return src
}

func (w *world) replyStop(st *stopSide, how string) {
	switch how {
	case "", "ok":
		st.ep.writeMsg(&pbv2.StopMessage{Type: pbv2.StopMessage_STATUS.Enum(), Status: pbv2.Status_OK.Enum()})
	case "status":
		st.ep.writeMsg(&pbv2.StopMessage{Type: pbv2.StopMessage_STATUS.Enum(), Status: pbv2.Status_CONNECTION_FAILED.Enum()})
	case "noStatus":
		st.ep.writeMsg(&pbv2.StopMessage{Type: pbv2.StopMessage_STATUS.Enum()})
	case "wrongType":
		st.ep.writeMsg(&pbv2.StopMessage{Type: pbv2.StopMessage_CONNECT.Enum(), Status: pbv2.Status_OK.Enum()})
	case "garbage":
		st.ep.c.Write([]byte{0x03, 0x08, 0xff, 0xff})
	case "oversize":
		st.ep.c.Write(append(binary.AppendUvarint(nil, 5000), make([]byte, 64)...))
	case "partial":
		st.ep.c.Write([]byte{0x0a, 0x08, 0x01})
	case "reset":
		st.ep.c.Reset()
	case "close":
		st.ep.c.Close()
	case "silent":
	}
}

type connPre struct {
	dstMay, dstMust bool
	relayed         bool
	acl             bool
	roomOnce        bool // counting a self circuit once
	roomTwice       bool // conservative
	dstUsable       bool
	dstLimitedOnly  bool
}

func connNames(p *peerSt) string {
	out := "["
	for i, c := range p.openConns() {
		if i > 0 {
			out += " "
		}
		out += c.name
	}
	return out + "]"
}

func (w *world) connectPre(src *peerSt, cs *connSt, dst *peerSt, at time.Time) connPre {
	return connPre{
		dstMay: w.mayLive(dst, at), dstMust: w.mustLive(dst, at),
		relayed:   tpls[cs.tpl].relayed,
		acl:       w.aclConnect(src, cs, dst),
		roomOnce:  w.openCount(src, false) < w.cfg.MaxCirc && w.openCount(dst, false) < w.cfg.MaxCirc,
		roomTwice: w.openCount(src, true) < w.cfg.MaxCirc && w.openCount(dst, true) < w.cfg.MaxCirc,
		dstUsable: dst.usableConn() != nil, dstLimitedOnly: dst.limitedOnly(),
	}
}

// judgeConnectOK checks the conditions the statement attaches to a granted CONNECT.
func (w *world) judgeConnectOK(src *peerSt, cs *connSt, dst *peerSt, pre connPre, hopFault, spanFault string, sc stopScript, st *stopSide, checkRoom bool) {
	what := fmt.Sprintf("CONNECT %s -> p%d", cs.name, dst.idx)
	if hopFault != "" || spanFault != "" {
		w.failf("%s with fault %q/%q was answered OK", what, hopFault, spanFault)
	}
	if !pre.dstMay {
		w.failf("%s granted although the destination holds no reservation (model: %+v)", what, dst.rs)
	}
	if pre.relayed {
		w.failf("%s granted although the source reached the relay through another relay", what)
	}
	if !pre.acl {
		w.failf("%s granted although the ACL forbids it", what)
	}
	if checkRoom && !pre.roomOnce {
		w.failf("%s granted although a party already has MaxCircuits=%d circuits (src %d, dst %d)", what, w.cfg.MaxCirc, w.openCount(src, false), w.openCount(dst, false))
	}
	if st == nil || sc.NS != "" || sc.Pre != "" || (sc.Reply != "" && sc.Reply != "ok") {
		w.failf("%s answered OK without a successful stop handshake with the destination (script %+v, stop stream opened=%v)", what, sc, st != nil)
	}
}

func (w *world) newCircuit(src *peerSt, cs *connSt, dst *peerSt, hop *relayhost.Stream, ep *endpoint, st *stopSide, at time.Time) *circ {
	w.circSeq++
	c := &circ{seq: w.circSeq, src: src, dst: dst, srcConn: cs, dstConn: st.cs, hop: hop, stop: st.s, A: ep, B: st.ep, start: at}
	if w.cfg.Limited {
		c.deadline = at.Add(w.cfg.Dur)
	}
	w.circuits = append(w.circuits, c)
	src.circs++
	if dst != src {
		dst.circs++
	}
	return c
}

func (w *world) opConnect(src *peerSt, cs *connSt, dst *peerSt, hopFault, spanFault string, sc stopScript, u usage) {
	at := time.Now()
	pre := w.connectPre(src, cs, dst, at)
	w.mu.Lock()
	w.nsMode[dst.id] = sc
	w.mu.Unlock()
	switch spanFault {
	case "begin":
		w.h.Faults.RefuseNextSpanBegin(1)
	case "reserve":
		w.h.Faults.RefuseNextSpanReserve(1)
	}
	if spanFault != "" {
		w.sawFault = true
		w.label("fault:span-" + spanFault)
	}
	if sc.faulty() {
		w.sawFault = true
		w.label("fault:stop-" + sc.NS + sc.Pre + "/" + sc.Reply)
	}
	hop, ep := w.startHop(cs, hopFault, connectMsg(dst, hopFault))
	synctest.Wait()
	stops := w.takePendingStops()
	if len(stops) > 1 {
		w.failf("one CONNECT made the relay open %d stop streams", len(stops))
	}
	var st *stopSide
	if len(stops) == 1 {
		st = stops[0]
		named := w.readStop(st)
		if named == nil {
			st.ep.c.Close()
			st = nil
		} else if named != src {
			w.failf("stop CONNECT to p%d names p%d as the source, the request came from p%d", dst.idx, named.idx, src.idx)
		}
	}
	if st != nil {
		switch sc.Pre {
		case "srcReset":
			ep.c.Reset()
		case "srcDisc":
			w.disconnect(src, cs)
		case "dstDisc":
			w.disconnect(dst, st.cs)
		}
		w.replyStop(st, sc.Reply)
		synctest.Wait()
	}
	switch {
	case hopFault == "partial":
		time.Sleep(streamTimeout + time.Second)
	case sc.NS == "hang":
		time.Sleep(connectTimeout + time.Second)
	case st != nil && (sc.Reply == "silent" || sc.Reply == "partial"):
		time.Sleep(handshakeTimeout + time.Second)
	}
	synctest.Wait()
	w.h.Faults.Clear()
	w.mu.Lock()
	delete(w.nsMode, dst.id)
	w.mu.Unlock()
	out := w.readHop(ep)
	w.label("connect:" + out.String())
	w.trace = append(w.trace, fmt.Sprintf("CONNECT %s -> p%d hop=%q span=%q stop=%+v -> %s", cs.name, dst.idx, hopFault, spanFault, sc, out))
	if out.weird != "" {
		w.failf("CONNECT %s -> p%d: %s", cs.name, dst.idx, out.weird)
	}
	if !out.ok {
		w.sawRefusal = true
		ep.c.Close()
		if st != nil {
			st.ep.c.Close()
		}
		if hopFault == "" && spanFault == "" && !sc.faulty() {
			if !out.got {
				w.failf("CONNECT %s -> p%d: no reply at all", cs.name, dst.idx)
			}
			if !pre.dstMay && !pre.relayed && pre.acl && pre.roomTwice {
				// the only condition of the statement that fails is the destination's reservation
				w.label("connect-refusal-reason-checked")
				if pre.dstLimitedOnly && dst.tagExcuse {
					w.label("connset:connect-to-limited-only-former-holder")
				}
				if out.status != pbv2.Status_NO_RESERVATION {
					w.failf("CONNECT %s -> p%d answered %s: the destination holds no reservation (model %+v, open connections %s), the source is direct, the ACL allows it and both have room: want NO_RESERVATION",
						cs.name, dst.idx, out.status, dst.rs, connNames(dst))
				}
			}
			if pre.dstMust && !pre.relayed && pre.acl && pre.roomTwice && pre.dstUsable && src != dst {
				w.failf("CONNECT %s -> p%d refused (%s) although the destination holds a live reservation, the source is direct, the ACL allows it and both have room (src %d, dst %d of %d)",
					cs.name, dst.idx, out.status, w.openCount(src, true), w.openCount(dst, true), w.cfg.MaxCirc)
			}
		}
		synctest.Wait()
		return
	}
	w.judgeConnectOK(src, cs, dst, pre, hopFault, spanFault, sc, st, true)
	c := w.newCircuit(src, cs, dst, hop, ep, st, at)
	if v := w.circuitViolation(); v != "" {
		w.failf("after CONNECT %s -> p%d: %s", cs.name, dst.idx, v)
	}
	w.runUsage(c, u)
}

// ---------------------------------------------------------------------------
// established circuits

func (w *world) removeCircuit(c *circ) {
	c.gone = true
	for i, x := range w.circuits {
		if x == c {
			w.circuits = append(w.circuits[:i:i], w.circuits[i+1:]...)
			return
		}
	}
}

func (w *world) checkEnded(c *circ, why string) {
	if !c.hop.Finished() || !c.stop.Finished() {
		w.failf("circuit #%d (p%d -> p%d) %s but the relay has not released its streams (hop released=%v, stop released=%v)",
			c.seq, c.src.idx, c.dst.idx, why, c.hop.Finished(), c.stop.Finished())
	}
	if !c.A.ended() || !c.B.ended() {
		w.failf("circuit #%d (p%d -> p%d) %s but an end is still open (source side %s, destination side %s)",
			c.seq, c.src.idx, c.dst.idx, why, c.A.state(), c.B.state())
	}
	c.A.c.Close()
	c.B.c.Close()
}

// send writes n bytes at one end and checks what reaches the other end.
func (w *world) send(c *circ, ab bool, n int) {
	from, to := c.A, c.B
	sent, recv := &c.sentAB, &c.recvB
	halfClosed := c.abClosed
	dir := "source->destination"
	if !ab {
		from, to = c.B, c.A
		sent, recv = &c.sentBA, &c.recvA
		halfClosed = c.baClosed
		dir = "destination->source"
	}
	if n <= 0 || halfClosed || c.gone || from.c.Closed() {
		return
	}
	seed := uint64(c.seq)*2 + 1
	if !ab {
		seed++
	}
	data := payload(seed, len(*sent), n)
	if k, _ := from.c.Write(data); k > 0 {
		*sent = append(*sent, data[:k]...)
	}
	synctest.Wait()
	*recv = append(*recv, to.take()...)
	if !bytes.HasPrefix(*sent, *recv) {
		w.failf("circuit #%d %s: the %d bytes received are not a prefix of the %d bytes sent", c.seq, dir, len(*recv), len(*sent))
	}
	if w.cfg.Limited {
		if int64(len(*recv)) > w.cfg.Data {
			w.failf("circuit #%d %s: %d bytes forwarded, Limit.Data=%d", c.seq, dir, len(*recv), w.cfg.Data)
		}
		switch d := int64(len(*sent)) - w.cfg.Data; {
		case d == -1:
			w.label("data:limit-1")
		case d == 0:
			w.label("data:limit")
		case d == 1:
			w.label("data:limit+1")
		case d > 1:
			w.label("data:over")
		}
	}
	if (!w.cfg.Limited || int64(len(*sent)) <= w.cfg.Data) && len(*recv) != len(*sent) {
		w.failf("circuit #%d %s: %d of %d bytes arrived although the data limit (%v/%d) is not reached", c.seq, dir, len(*recv), len(*sent), w.cfg.Limited, w.cfg.Data)
	}
	w.settle(c)
}

// settle: once both directions are finished (half-closed or Limit.Data used up) the
// relay ends the circuit by itself.
func (w *world) settle(c *circ) bool {
	if c.gone || !w.dirDone(c, true) || !w.dirDone(c, false) {
		return false
	}
	w.label("circuit-ended-both-directions-finished")
	w.checkEnded(c, "has both directions finished")
	w.removeCircuit(c)
	return true
}

// dirDone: the relay has stopped reading from that party (its direction was half-closed
// or has used up Limit.Data), so it cannot notice that the party went away.
func (w *world) dirDone(c *circ, fromSrc bool) bool {
	if fromSrc {
		return c.abClosed || (w.cfg.Limited && int64(len(c.recvB)) >= w.cfg.Data)
	}
	return c.baClosed || (w.cfg.Limited && int64(len(c.recvA)) >= w.cfg.Data)
}

// partyGone: one party reset its stream or lost its connection. The circuit ends at
// once when the relay is still reading from that party; otherwise the relay only finds
// out when the other party writes or closes (or at Limit.Duration): the other party
// closes here.
func (w *world) partyGone(c *circ, srcSide bool, why string) {
	synctest.Wait()
	if w.dirDone(c, srcSide) {
		w.label("party-gone-after-its-direction-finished")
		if srcSide {
			c.B.c.Close()
		} else {
			c.A.c.Close()
		}
		synctest.Wait()
	}
	w.checkEnded(c, why)
	w.removeCircuit(c)
}

func (w *world) endCircuit(c *circ, how string) {
	if c.gone {
		return
	}
	w.label("end:" + how)
	switch how {
	case "close":
		c.A.c.Close()
		c.B.c.Close()
		synctest.Wait()
		w.checkEnded(c, "was closed by both parties")
		w.removeCircuit(c)
	case "half":
		c.A.c.CloseWrite()
		c.abClosed = true
		synctest.Wait()
		if w.settle(c) {
			break
		}
		w.send(c, false, 3)
		if c.gone {
			break
		}
		c.B.c.CloseWrite()
		c.baClosed = true
		synctest.Wait()
		w.settle(c)
	case "srcReset":
		c.A.c.Reset()
		w.partyGone(c, true, "was reset by the source")
	case "dstReset":
		c.B.c.Reset()
		w.partyGone(c, false, "was reset by the destination")
	case "idle":
		if !c.deadline.IsZero() {
			if d := time.Until(c.deadline); d > 0 {
				w.advance(d)
			}
		}
	case "leave":
	}
	w.trace = append(w.trace, fmt.Sprintf("  circuit #%d ab=%d/%d ba=%d/%d end=%s", c.seq, len(c.recvB), len(c.sentAB), len(c.recvA), len(c.sentBA), how))
}

func (w *world) runUsage(c *circ, u usage) {
	for _, n := range u.AB {
		w.send(c, true, n)
	}
	for _, n := range u.BA {
		w.send(c, false, n)
	}
	w.endCircuit(c, u.End)
}

// expireCircuits: a limited circuit must have ended by start + Limit.Duration.
func (w *world) expireCircuits(now time.Time) {
	for _, c := range append([]*circ(nil), w.circuits...) {
		if !c.deadline.IsZero() && !now.Before(c.deadline) {
			w.label("circuit-ended-by-duration")
			w.checkEnded(c, fmt.Sprintf("is past Limit.Duration=%v (opened %v ago)", w.cfg.Dur, now.Sub(c.start)))
			w.removeCircuit(c)
		}
	}
}

// ---------------------------------------------------------------------------
// time, connections

func (w *world) advance(d time.Duration) {
	before := time.Now()
	time.Sleep(d)
	synctest.Wait()
	now := time.Now()
	for _, p := range w.peers {
		if w.mustLive(p, before) && !w.mustLive(p, now) {
			w.sawEnd = true
			w.label("reservation-expired")
		}
		if p.rs.may && !now.Before(p.rs.mayUntil) && w.mayLive(p, now) {
			w.label("between-expiry-and-collection")
		}
	}
	w.trace = append(w.trace, fmt.Sprintf("ADVANCE %v", d))
	w.expireCircuits(now)
	// generator heuristic: a reservation was collected while circuits of its holder go on; the
	// next steps let that peer reserve again and direct further CONNECTs at it (see step)
	for _, p := range w.peers {
		if p.rs.may && w.mayLive(p, before) && !w.mayLive(p, now) && w.openCount(p, false) > 0 && p.usableConn() != nil {
			w.label("circuit-outlives-collected-reservation")
			w.regrant, w.regrantN = p, 3
		}
	}
}

func (w *world) disconnect(p *peerSt, cs *connSt) {
	if !cs.open {
		return
	}
	cs.open = false
	cs.c.Close()
	synctest.Wait()
	w.trace = append(w.trace, "DISCONNECT "+cs.name)
	for _, c := range append([]*circ(nil), w.circuits...) {
		if c.srcConn == cs || c.dstConn == cs {
			w.label("circuit-ended-by-disconnect")
			if c.srcConn == cs && c.dstConn == cs {
				w.checkEnded(c, "lost the connection of both parties")
				w.removeCircuit(c)
			} else {
				w.partyGone(c, c.srcConn == cs, "lost the connection of a party")
			}
		}
	}
	switch {
	case len(p.openConns()) == 0:
		if w.mustLive(p, time.Now()) {
			w.sawEnd = true
		}
		if p.rs.may {
			w.label("reservation-ended-by-disconnect")
		}
		p.rs = rsv{}
		p.tagExcuse = false
		// the connection manager forgets a peer without connections, foreign tags included
		p.base = tagSnap{tags: map[string]int{}}
	case p.usableConn() == nil:
		// Only limited connections (relayed through another relay) remain: the peer is not
		// Connected any more (Connectedness is Limited), it has disconnected in the statement's
		// sense and its reservation is gone: CONNECT to it finds no reservation, its slot does
		// not count against the caps and it carries no reservation tag.
		if w.mustLive(p, time.Now()) {
			w.sawEnd = true
		}
		if p.rs.may {
			w.label("reservation-ended-by-disconnect")
			w.label("connset:last-direct-closed-limited-left")
			if len(p.conns) > 2 {
				w.label("connset:last-direct-closed-limited-left-3+conns")
			}
			w.goneProbe, w.goneProbeN, w.goneIP = p, 3, p.rs.ip
			p.tagExcuse = true
		}
		p.rs = rsv{}
	default:
		// a connection closed and a direct one is left: the reservation stays
		if p.rs.may && tpls[cs.tpl].limited {
			w.label("connset:limited-closed-direct-left")
		} else if p.rs.may && len(p.limitedConns()) > 0 {
			w.label("connset:direct-closed-direct+limited-left")
		}
	}
}

// noteConnSet labels the connection set of a peer that holds a reservation.
func (w *world) noteConnSet(p *peerSt) {
	if p.rs.may && p.usableConn() != nil && len(p.limitedConns()) > 0 {
		w.label("connset:holder-direct+limited")
		if w.mixedPending == 0 {
			w.mixedPending = 3
		}
	}
}

// ---------------------------------------------------------------------------
// audit at quiescence

func (w *world) audit(where string) {
	now := time.Now()
	w.expireCircuits(now)
	nOpen := len(w.circuits)
	w.auditTags(where, now)
	svc, sys := w.svcStat(), w.sysStat()
	if svc.NumStreamsInbound-w.baseSvc.NumStreamsInbound != nOpen || svc.NumStreamsOutbound-w.baseSvc.NumStreamsOutbound != nOpen {
		w.failf("%s: relay service scope holds %d inbound / %d outbound streams with %d open circuits (baseline %d/%d)", where,
			svc.NumStreamsInbound, svc.NumStreamsOutbound, nOpen, w.baseSvc.NumStreamsInbound, w.baseSvc.NumStreamsOutbound)
	}
	if sys.NumStreamsInbound-w.baseSys.NumStreamsInbound != nOpen || sys.NumStreamsOutbound-w.baseSys.NumStreamsOutbound != nOpen {
		w.failf("%s: %d inbound / %d outbound streams are still held (system scope) with %d open circuits: a stream handed to the relay was neither closed nor reset", where,
			sys.NumStreamsInbound, sys.NumStreamsOutbound, nOpen)
	}
	mem := svc.Memory - w.baseSvc.Memory
	switch {
	case nOpen == 0:
		if mem != 0 {
			w.failf("%s: relay service scope holds %d bytes of reserved memory with no open circuit (baseline %d)", where, mem, w.baseSvc.Memory)
		}
	case w.memPer < 0:
		if mem%int64(nOpen) != 0 {
			w.failf("%s: %d bytes reserved in the service scope for %d open circuits", where, mem, nOpen)
		}
		w.memPer = mem / int64(nOpen)
	default:
		if mem != w.memPer*int64(nOpen) {
			w.failf("%s: relay service scope holds %d bytes with %d open circuits, %d per circuit were observed before", where, mem, nOpen, w.memPer)
		}
	}
	if sys.Memory-w.baseSys.Memory != mem {
		w.failf("%s: system scope memory %d differs from the service scope's %d", where, sys.Memory-w.baseSys.Memory, mem)
	}
}

// auditTags: the connection-manager view of every peer. A peer that (by the model) holds
// neither a reservation nor a circuit carries exactly the tags it carried before it first asked
// the relay for anything, and its total value is the previous one as well - however the
// reservation ended (disconnect of the last direct connection, expiry + collection, relay
// Close), after any number of refreshes and circuits.
func (w *world) auditTags(where string, now time.Time) {
	for _, p := range w.peers {
		cur := w.tagSnapOf(p)
		tags := cur.tags
		if _, ok := tags[tagHop]; ok && w.openCount(p, false) == 0 {
			w.failf("%s: peer p%d still carries the %q tag without an open circuit", where, p.idx, tagHop)
		}
		excused := false
		if _, ok := tags[tagRsvp]; ok && !w.mayLive(p, now) {
			if w.known2 && p.tagExcuse {
				w.excluded = true
				excused = true
			} else {
				w.failf("%s: peer p%d carries the %q tag but holds no reservation (model %+v)", where, p.idx, tagRsvp, p.rs)
			}
		}
		for tg := range tags {
			if _, was := p.base.tags[tg]; !was && tg != tagHop && tg != tagRsvp {
				w.failf("%s: unexpected tag %q on p%d", where, tg, p.idx)
			}
		}
		holdsRsvp, holdsCirc := w.mayLive(p, now), w.openCount(p, false) > 0
		if holdsRsvp || holdsCirc {
			p.held = true
			p.heldRsvp = p.heldRsvp || holdsRsvp
			continue
		}
		if !excused && !cur.sameAs(p.base) {
			w.failf("%s: peer p%d holds neither a reservation nor a circuit, but its connection-manager tags did not return to their previous values: "+
				"tags %v total value %d, before its first request tags %v total value %d (since then: %d granted refreshes, %d circuits)",
				where, p.idx, cur.tags, cur.value, p.base.tags, p.base.value, p.refreshes, p.circs)
		}
		if p.held && cur.known {
			// the connection manager still knows the peer (a connection is left), so the
			// comparison says something
			w.label("tagvalue:restored-after-end-conn-kept")
			if p.heldRsvp {
				w.label("tagvalue:restored-after-reservation-end-conn-kept")
				if p.refreshes >= 1 {
					w.label("tagvalue:restored-after-refreshed-reservation-end-conn-kept")
				}
				if p.refreshes >= 2 {
					w.label("tagvalue:restored-after-2+-refreshes-conn-kept")
				}
			}
			if p.circs >= 1 {
				w.label("tagvalue:restored-after-circuits-end-conn-kept")
			}
			if p.circs >= 2 {
				w.label("tagvalue:restored-after-repeated-circuits-conn-kept")
			}
			if p.base.value != 0 {
				w.label("tagvalue:restored-to-nonzero-previous-value")
			}
		}
		p.held, p.heldRsvp, p.refreshes, p.circs = false, false, 0, 0
	}
}

// closeRelay ends the history: Close ends every reservation that is left (no circuit is open
// any more), so every peer's tags and total value are the previous ones.
func (w *world) closeRelay() {
	now := time.Now()
	for _, p := range w.peers {
		if w.mayLive(p, now) {
			w.label("relay-closed-with-live-reservation")
			if len(p.openConns()) > 0 && p.refreshes >= 1 {
				w.label("relay-closed-with-refreshed-reservation")
			}
		}
	}
	if len(w.circuits) != 0 {
		return
	}
	w.r.Close()
	synctest.Wait()
	w.trace = append(w.trace, "RELAY CLOSE")
	for _, p := range w.peers {
		p.rs = rsv{}
	}
	w.auditTags("after relay Close", time.Now())
}
