package c11

import (
	"fmt"
	"testing"
	"testing/synctest"
	"time"

	pbv2 "github.com/libp2p/go-libp2p/p2p/protocol/circuitv2/pb"

	"verif/internal/hx"
	"verif/internal/kf"
)

func inBubble(t *testing.T, f func() (bool, string)) (violated bool, detail string) {
	synctest.Test(t, func(*testing.T) { violated, detail = f() })
	return
}

// plain request helpers (no oracle): they return the status the relay answered.

func (w *world) rawReserve(cs *connSt) hopOutcome {
	_, ep := w.startHop(cs, "", &pbv2.HopMessage{Type: pbv2.HopMessage_RESERVE.Enum()})
	synctest.Wait()
	out := w.readHop(ep)
	ep.c.Close()
	synctest.Wait()
	return out
}

// rawConnect plays a destination that accepts; the circuit (if any) is closed at once.
func (w *world) rawConnect(cs *connSt, dst *peerSt) hopOutcome {
	_, ep := w.startHop(cs, "", connectMsg(dst, ""))
	synctest.Wait()
	stops := w.takePendingStops()
	for _, st := range stops {
		var m pbv2.StopMessage
		st.ep.takeMsg(&m)
		w.replyStop(st, "ok")
	}
	synctest.Wait()
	out := w.readHop(ep)
	ep.c.Close()
	for _, st := range stops {
		st.ep.c.Close()
	}
	synctest.Wait()
	return out
}

const (
	tV4a = 0 // 1.2.3.4
	tV4b = 2 // 1.2.3.5
	tV4c = 3 // 5.6.7.8
	tRel = 9 // limited /p2p-circuit connection
)

// History: caps MaxReservations=2, MaxReservationsPerIP=1. A (1.2.3.4) and B (1.2.3.5)
// reserve; A asks again over a second connection from B's IP and is refused (per-IP cap);
// C (5.6.7.8) then asks and must be refused (two live reservations), but is granted, and
// the relay serves CONNECTs to all three.
func TestWitness_RefusedRefreshDropsCapAccounting(t *testing.T) {
	hx.Shard0(t)
	kf.Witness(t, kfDesync, func() (bool, string) {
		return inBubble(t, func() (bool, string) {
			cfg := config{NPeers: 4, MaxRes: 2, PerIP: 1, PerASN: 8, MaxCirc: 4, TTL: time.Hour, Buf: 64,
				Init: [][]int{{tV4a, tV4b}, {tV4b}, {tV4c}, {tV4a}}}
			w := newWorld(nil, cfg)
			defer w.shutdown()
			a, b, c, d := w.peers[0], w.peers[1], w.peers[2], w.peers[3]
			var log []string
			step := func(what string, out hopOutcome) pbv2.Status {
				log = append(log, fmt.Sprintf("%s -> %s", what, out))
				return out.status
			}
			if step("RESERVE A@1.2.3.4", w.rawReserve(a.conns[0])) != pbv2.Status_OK ||
				step("RESERVE B@1.2.3.5", w.rawReserve(b.conns[0])) != pbv2.Status_OK {
				return false, fmt.Sprintf("setup did not behave as expected: %v", log)
			}
			if step("RESERVE A@1.2.3.5 (refresh over second connection)", w.rawReserve(a.conns[1])) == pbv2.Status_OK {
				return false, fmt.Sprintf("cross-IP refresh was granted: %v", log)
			}
			third := step("RESERVE C@5.6.7.8", w.rawReserve(c.conns[0]))
			live := 0
			for i, dst := range []*peerSt{a, b, c} {
				if step(fmt.Sprintf("CONNECT D -> %c", 'A'+i), w.rawConnect(d.conns[0], dst)) == pbv2.Status_OK {
					live++
				}
			}
			if third == pbv2.Status_OK && live > cfg.MaxRes {
				return true, fmt.Sprintf("MaxReservations=%d but the relay granted a third reservation and serves CONNECT to %d reserved peers: %v", cfg.MaxRes, live, log)
			}
			return false, ""
		})
	})
}

// History: A holds a direct and a limited (relayed) connection, reserves over the direct
// one, then loses the direct one. The relay drops the reservation (CONNECT answers
// NO_RESERVATION) but the "relay-reservation" tag stays on A for as long as the limited
// connection lives, also past expiry and collection.
func TestWitness_ReservationTagKeptOnPartialDisconnect(t *testing.T) {
	hx.Shard0(t)
	kf.Witness(t, kfTag, func() (bool, string) {
		return inBubble(t, func() (bool, string) {
			cfg := config{NPeers: 2, MaxRes: 4, PerIP: 4, PerASN: 8, MaxCirc: 4, TTL: 30 * time.Second, Buf: 64,
				Init: [][]int{{tV4a, tRel}, {tV4b}}}
			w := newWorld(nil, cfg)
			defer w.shutdown()
			a, b := w.peers[0], w.peers[1]
			if out := w.rawReserve(a.conns[0]); !out.ok {
				return false, "setup: reservation refused: " + out.String()
			}
			tagged := func() bool {
				ti := w.h.CM.GetTagInfo(a.id)
				if ti == nil {
					return false
				}
				_, ok := ti.Tags[tagRsvp]
				return ok
			}
			if !tagged() {
				return false, "no reservation tag after the grant (the witness does not apply)"
			}
			a.conns[0].open = false
			a.conns[0].c.Close()
			synctest.Wait()
			out := w.rawConnect(b.conns[0], a)
			time.Sleep(3 * time.Minute)
			synctest.Wait()
			if out.got && out.status == pbv2.Status_NO_RESERVATION && tagged() {
				return true, fmt.Sprintf("after losing its direct connection A has no reservation (CONNECT -> %s) but still carries the %q tag 3 minutes later (TTL 30s)", out, tagRsvp)
			}
			return false, ""
		})
	})
}
