package c03

import (
	"fmt"
	"math"
	"net/netip"
	"sort"
	"strings"
	"sync"
	"sync/atomic"
	"testing"

	"github.com/libp2p/go-libp2p/core/network"
	rcmgr "github.com/libp2p/go-libp2p/p2p/host/resource-manager"
	ma "github.com/multiformats/go-multiaddr"
	"pgregory.net/rapid"

	"verif/internal/hx"
	"verif/internal/stats"
)

// Concurrent property: the same operations from several goroutines (each on its own
// holders, sharing peers / protocols / services and the system-level scopes). Acceptance
// is not predicted (it depends on the interleaving); what must hold for every
// interleaving is: (a) no scope ever reports more than its limit or less than zero
// (sampled continuously by a monitor and after every operation), (b) at quiescence every
// scope reports exactly the sum of the holders that are still open, as recorded by the
// goroutines that own them, (c) after everything is released every scope reads zero.

type cop struct {
	kind string
	a, b int
	dir  network.Direction
	fd   bool
	size int64
	prio uint8
}

type cholder struct {
	kind    holderKind
	conn    network.ConnManagementScope
	stream  network.StreamManagementScope
	base    usage
	mem     int64
	charges []string
	peer    int
	proto   int
	svc     int
	done    bool
	ip      netip.Addr
}

func drawScript(rt *rapid.T, g int) []cop {
	n := rapid.IntRange(5, 40).Draw(rt, fmt.Sprintf("n%d", g))
	ops := make([]cop, n)
	for i := range ops {
		k := rapid.SampledFrom([]string{"openConn", "openConn", "setPeer", "openStream", "openStream", "setProtocol", "setProtocol", "setService", "reserve", "reserve", "release", "done", "done", "done", "gc"}).Draw(rt, "k")
		ops[i] = cop{
			kind: k,
			a:    rapid.IntRange(0, 7).Draw(rt, "a"),
			b:    rapid.IntRange(0, 2).Draw(rt, "b"),
			dir:  network.Direction(rapid.SampledFrom([]int{int(network.DirInbound), int(network.DirOutbound)}).Draw(rt, "dir")),
			fd:   rapid.Bool().Draw(rt, "fd"),
			size: rapid.SampledFrom([]int64{0, 1, 16, 64, 100, 256, 1000}).Draw(rt, "size"),
			prio: uint8(rapid.SampledFrom([]int{0, 101, 203, 255}).Draw(rt, "prio")),
		}
	}
	return ops
}

var concEndpoints = []int{0, 1, 2, 3, 4, 8, 9, 10, 11, 12} // no allow-listed endpoints (see known finding)

func TestConcurrentBoundsAndQuiescentSum(t *testing.T) {
	name := t.Name()
	hx.Check(t, 300, 60000, 0, func(rt *rapid.T) {
		cfg := drawConfig(rt)
		// make the top scopes finite but roomy so that both admission and refusal happen under contention
		for _, n := range []string{sSystem, sTransient} {
			l := cfg.limits[n]
			for _, f := range []*int{&l.Streams, &l.StreamsInbound, &l.StreamsOutbound, &l.Conns, &l.ConnsInbound, &l.ConnsOutbound, &l.FD} {
				if *f < 4 {
					*f = rapid.IntRange(4, 12).Draw(rt, n+"-roomy")
				}
			}
			if l.Memory < 2000 {
				l.Memory = 2000
			}
			cfg.limits[n] = l
		}
		cfg.connLim, cfg.strLim = unlimited, unlimited
		G := rapid.IntRange(2, 8).Draw(rt, "goroutines")
		scripts := make([][]cop, G)
		for g := range scripts {
			scripts[g] = drawScript(rt, g)
		}
		w := newWorld(rt, cfg)
		slowLimiter := rapid.SampledFrom([]int{0, 0, 3, 20}).Draw(rt, "limiterYields")
		w.lim.yields.Store(int32(slowLimiter))
		napEvery := rapid.SampledFrom([]int{0, 1, 1, 2, 3}).Draw(rt, "napEvery")
		w.lim.napEvery.Store(int32(napEvery))
		w.lim.napMicros.Store(int32(rapid.SampledFrom([]int{200, 1000, 3000}).Draw(rt, "napMicros")))
		defer w.rm.Close()

		scopes := []string{sSystem, sTransient, sPeer(0), sPeer(1), sPeer(2), sProto(0), sProto(1), sSvc(0), sSvc(1)}
		// the per-peer sub-scopes of protocols and services (read from the manager's trace)
		for p := 0; p < 3; p++ {
			for j := 0; j < nProtos; j++ {
				scopes = append(scopes, sProtoPeer(j, p))
			}
			for k := 0; k < nSvcs; k++ {
				scopes = append(scopes, sSvcPeer(k, p))
			}
		}
		var failure atomic.Pointer[string]
		setFail := func(s string) { failure.CompareAndSwap(nil, &s) }
		checkBounds := func(when string) {
			for _, n := range scopes {
				got := w.observed(n)
				l := cfg.limitOf(n)
				if got.mem < 0 || got.sIn < 0 || got.sOut < 0 || got.cIn < 0 || got.cOut < 0 || got.nfd < 0 {
					setFail(fmt.Sprintf("%s: scope %s reports negative usage %v", when, n, got))
				}
				if (l.Memory != math.MaxInt64 && got.mem > l.Memory) || got.sIn > l.StreamsInbound || got.sOut > l.StreamsOutbound || got.sIn+got.sOut > l.Streams ||
					got.cIn > l.ConnsInbound || got.cOut > l.ConnsOutbound || got.cIn+got.cOut > l.Conns || got.nfd > l.FD {
					setFail(fmt.Sprintf("%s: scope %s usage %v exceeds its limit %+v", when, n, got, l))
				}
			}
		}
		stop := make(chan struct{})
		var mon sync.WaitGroup
		mon.Add(1)
		go func() {
			defer mon.Done()
			for {
				select {
				case <-stop:
					return
				default:
					checkBounds("monitor")
				}
			}
		}()

		holders := make([][]*cholder, G)
		var refusals, reparent, gcs atomic.Int64
		var wg sync.WaitGroup
		for g := 0; g < G; g++ {
			wg.Add(1)
			go func(g int) {
				defer wg.Done()
				var hs []*cholder
				pick := func(kind holderKind, i int) *cholder {
					var c []*cholder
					for _, h := range hs {
						if h.kind == kind && !h.done {
							c = append(c, h)
						}
					}
					if len(c) == 0 {
						return nil
					}
					return c[i%len(c)]
				}
				for _, o := range scripts[g] {
					switch o.kind {
					case "openConn":
						e := endpoints[concEndpoints[o.a%len(concEndpoints)]]
						c, err := w.rm.OpenConnection(o.dir, o.fd, ma.StringCast(e.addr))
						if err != nil {
							refusals.Add(1)
							continue
						}
						h := &cholder{kind: hConn, conn: c, charges: []string{sTransient, sSystem}, peer: -1, ip: e.ip}
						if o.dir == network.DirInbound {
							h.base.cIn = 1
						} else {
							h.base.cOut = 1
						}
						if o.fd {
							h.base.nfd = 1
						}
						hs = append(hs, h)
					case "setPeer":
						h := pick(hConn, o.a)
						if h == nil || h.peer >= 0 {
							continue
						}
						if err := h.conn.SetPeer(peerIDs[o.b]); err != nil {
							refusals.Add(1)
							continue
						}
						reparent.Add(1)
						h.peer, h.charges = o.b, []string{sPeer(o.b), sSystem}
					case "openStream":
						s, err := w.rm.OpenStream(peerIDs[o.b], o.dir)
						if err != nil {
							refusals.Add(1)
							continue
						}
						h := &cholder{kind: hStream, stream: s, peer: o.b, proto: -1, svc: -1, charges: []string{sPeer(o.b), sTransient, sSystem}}
						if o.dir == network.DirInbound {
							h.base.sIn = 1
						} else {
							h.base.sOut = 1
						}
						hs = append(hs, h)
					case "setProtocol":
						h := pick(hStream, o.a)
						if h == nil || h.proto >= 0 {
							continue
						}
						j := o.b % nProtos
						if err := h.stream.SetProtocol(protoIDs[j]); err != nil {
							refusals.Add(1)
							continue
						}
						reparent.Add(1)
						h.proto, h.charges = j, []string{sPeer(h.peer), sProtoPeer(j, h.peer), sProto(j), sSystem}
					case "setService":
						h := pick(hStream, o.a)
						if h == nil || h.proto < 0 || h.svc >= 0 {
							continue
						}
						k := o.b % nSvcs
						if err := h.stream.SetService(svcNames[k]); err != nil {
							refusals.Add(1)
							continue
						}
						reparent.Add(1)
						h.svc, h.charges = k, []string{sPeer(h.peer), sProtoPeer(h.proto, h.peer), sSvcPeer(k, h.peer), sProto(h.proto), sSvc(k), sSystem}
					case "gc":
						// a collection of unused scopes (the manager's once-a-minute background pass) in
						// the middle of the other goroutines' operations
						if rcmgr.VerifGC(w.rm) {
							gcs.Add(1)
						}
					case "reserve":
						h := pick(holderKind(o.b%2), o.a)
						if h == nil {
							continue
						}
						var err error
						if h.kind == hConn {
							err = h.conn.ReserveMemory(int(o.size), o.prio)
						} else {
							err = h.stream.ReserveMemory(int(o.size), o.prio)
						}
						if err != nil {
							refusals.Add(1)
							if !isLimitErr(err) {
								setFail(fmt.Sprintf("ReserveMemory on an open holder failed with a non-limit error: %v", err))
							}
							continue
						}
						h.mem += o.size
					case "release":
						h := pick(holderKind(o.b%2), o.a)
						if h == nil || h.mem == 0 {
							continue
						}
						sz := min(o.size, h.mem)
						if h.kind == hConn {
							h.conn.ReleaseMemory(int(sz))
						} else {
							h.stream.ReleaseMemory(int(sz))
						}
						h.mem -= sz
					case "done":
						h := pick(holderKind(o.b%2), o.a)
						if h == nil {
							continue
						}
						if h.kind == hConn {
							h.conn.Done()
						} else {
							h.stream.Done()
						}
						h.done = true
					}
					checkBounds(fmt.Sprintf("goroutine %d after %s", g, o.kind))
				}
				holders[g] = hs
			}(g)
		}
		wg.Wait()
		close(stop)
		mon.Wait()
		if f := failure.Load(); f != nil {
			rt.Fatalf("%s", *f)
		}
		// quiescent sum
		want := map[string]usage{}
		open := 0
		for _, hs := range holders {
			for _, h := range hs {
				if h.done {
					continue
				}
				open++
				u := h.base
				u.mem = h.mem
				for _, c := range h.charges {
					want[c] = want[c].add(u)
				}
			}
		}
		for _, n := range scopes {
			if got := w.observed(n); got != want[n] {
				rt.Fatalf("at quiescence scope %s reports %v, the %d holders still open sum to %v", n, got, open, want[n])
			}
		}
		for _, hs := range holders {
			for _, h := range hs {
				if h.done {
					continue
				}
				if h.kind == hConn {
					h.conn.Done()
				} else {
					h.stream.Done()
				}
			}
		}
		for _, n := range scopes {
			if got := w.observed(n); got != (usage{}) {
				rt.Fatalf("after the last holder was released scope %s still reports %v", n, got)
			}
		}
		var kinds []string
		for _, sc := range scripts {
			var b strings.Builder
			for _, o := range sc {
				b.WriteByte(o.kind[0])
				b.WriteByte(o.kind[len(o.kind)-1])
			}
			kinds = append(kinds, b.String())
		}
		sort.Strings(kinds)
		lbls := []string{fmt.Sprintf("goroutines=%d", G)}
		if gcs.Load() > 0 {
			lbls = append(lbls, "scope-collection-among-concurrent-operations")
		}
		stats.Case(name, strings.Join(kinds, "|"), refusals.Load() > 0 && reparent.Load() > 0, lbls...)
		if stats.WantSample(name) {
			stats.Sample(name, map[string]any{"goroutines": G, "scripts": kinds, "refusals": refusals.Load(), "reparentings": reparent.Load()})
		}
	})
}
