// Package c03 checks property C03: resource-manager usage equals the sum of holders and
// never exceeds limits.
package c03

import (
	"errors"
	"fmt"
	"math"
	"net/netip"
	"sort"
	"strings"
	"sync"
	"testing"
	"testing/synctest"
	"time"

	"github.com/libp2p/go-libp2p/core/network"
	"github.com/libp2p/go-libp2p/core/peer"
	"github.com/libp2p/go-libp2p/core/protocol"
	rcmgr "github.com/libp2p/go-libp2p/p2p/host/resource-manager"
	"github.com/libp2p/go-libp2p/x/rate"
	ma "github.com/multiformats/go-multiaddr"
	"pgregory.net/rapid"

	"verif/internal/hx"
	"verif/internal/keys"
	"verif/internal/kf"
	"verif/internal/stats"
)

func TestMain(m *testing.M) {
	stats.Describe("exploration",
		"rapid state machine over OpenConnection/SetPeer/OpenStream/SetProtocol/SetService/ReserveMemory/ReleaseMemory/BeginSpan/Done/View*-reservations/scope GC "+
			"against the real manager built from a generated limit table (fields from {0,1,2,3,MaxInt}), allow list, per-subnet and per-prefix caps, audited after every step "+
			"against a reference model (usage of a scope = sum of the holders charged to it; acceptance decided in both directions; refused re-parenting must leave the holder in a legal scope set); "+
			"hidden scopes (allow-listed system/transient, per-peer sub-scopes) are read from the public trace reporter. "+
			"Non-trivial = history contains a step refused for a limit AND an accepted re-parenting step; distinct = distinct (rule, outcome) sequence.",
		"connection rate limiter disabled through WithConnRateLimiters(&rate.Limiter{}) (time-based admission is not part of the statement)",
		"SetPeer/SetProtocol/SetService are not issued on holders that are already Done; sizes are >= 0 and never overflow int64",
	)
	hx.Main(m)
}

const (
	nPeers  = 3
	nProtos = 2
	nSvcs   = 2
)

var (
	peerIDs  = []peer.ID{keys.Ed(30).ID, keys.Ed(31).ID, keys.Ed(32).ID}
	protoIDs = []protocol.ID{"/p/a", "/p/b"}
	svcNames = []string{"svcA", "svcB"}
)

var endpoints = []endpoint{
	{name: "v4a", addr: "/ip4/1.2.3.4/tcp/1", ip: netip.MustParseAddr("1.2.3.4"), allowPeer: -1},
	{name: "v4a-quic", addr: "/ip4/1.2.3.4/udp/1/quic-v1", ip: netip.MustParseAddr("1.2.3.4"), allowPeer: -1},
	{name: "v4b-same24", addr: "/ip4/1.2.3.5/tcp/1", ip: netip.MustParseAddr("1.2.3.5"), allowPeer: -1},
	{name: "v4c", addr: "/ip4/1.2.4.4/tcp/1", ip: netip.MustParseAddr("1.2.4.4"), allowPeer: -1},
	{name: "v4-inprefix", addr: "/ip4/10.1.1.1/tcp/1", ip: netip.MustParseAddr("10.1.1.1"), allowPeer: -1},
	{name: "v4-allow", addr: "/ip4/9.9.9.9/tcp/1", ip: netip.MustParseAddr("9.9.9.9"), allowAny: true, allowPeer: -1},
	{name: "v4-allownet", addr: "/ip4/9.9.8.7/tcp/1", ip: netip.MustParseAddr("9.9.8.7"), allowAny: true, allowPeer: -1},
	{name: "v4-allowpeer0", addr: "/ip4/8.8.8.8/tcp/1", ip: netip.MustParseAddr("8.8.8.8"), allowPeer: 0},
	{name: "v6a", addr: "/ip6/2001:db8:1:1::1/tcp/1", ip: netip.MustParseAddr("2001:db8:1:1::1"), allowPeer: -1},
	{name: "v6b-same56", addr: "/ip6/2001:db8:1:1::2/tcp/1", ip: netip.MustParseAddr("2001:db8:1:1::2"), allowPeer: -1},
	{name: "v6c-same48", addr: "/ip6/2001:db8:1:100::1/tcp/1", ip: netip.MustParseAddr("2001:db8:1:100::1"), allowPeer: -1},
	{name: "v4mapped", addr: "/ip6/::ffff:1.2.3.4/tcp/1", ip: netip.MustParseAddr("::ffff:1.2.3.4"), allowPeer: -1},
	{name: "noip", addr: "/dns4/example.com/tcp/1", allowPeer: -1},
}

var allowlistAddrs = func() []ma.Multiaddr {
	return []ma.Multiaddr{
		ma.StringCast("/ip4/9.9.9.9"),
		ma.StringCast("/ip4/9.9.8.0/ipcidr/24"),
		ma.StringCast("/ip4/8.8.8.8/p2p/" + peerIDs[0].String()),
	}
}()

// ---------------------------------------------------------------------------
// generators

func drawInt(rt *rapid.T, label string) int {
	return rapid.SampledFrom([]int{0, 1, 1, 2, 2, 3, math.MaxInt, math.MaxInt}).Draw(rt, label)
}

func drawMem(rt *rapid.T, label string) int64 {
	return rapid.SampledFrom([]int64{0, 1, 64, 256, 1000, 1000, 4096, 4096, math.MaxInt64, math.MaxInt64, math.MaxInt64, math.MaxInt64,
		// finite limits whose product with (1+priority) does not fit an int64
		math.MaxInt64 - 1, math.MaxInt64 - 255, 1<<62 + 77, 1<<56 + 129, 1<<55 + 1}).Draw(rt, label)
}

func drawLim(rt *rapid.T, label string) lim {
	if rapid.IntRange(0, 3).Draw(rt, label+"-unl") == 0 {
		return unlimited
	}
	l := lim{
		StreamsInbound: drawInt(rt, label+"-si"), StreamsOutbound: drawInt(rt, label+"-so"), Streams: drawInt(rt, label+"-s"),
		ConnsInbound: drawInt(rt, label+"-ci"), ConnsOutbound: drawInt(rt, label+"-co"), Conns: drawInt(rt, label+"-c"),
		FD: drawInt(rt, label+"-fd"), Memory: drawMem(rt, label+"-mem"),
	}
	return l
}

func drawConfig(rt *rapid.T) *config {
	c := &config{limits: map[string]lim{}, def: unlimited}
	// the two top scopes are more often generous so that inner limits get exercised too
	for _, n := range []string{sSystem, sTransient, sALSystem, sALTransient} {
		c.limits[n] = drawLim(rt, n)
	}
	for p := 0; p < nPeers; p++ {
		c.limits[sPeer(p)] = drawLim(rt, sPeer(p))
	}
	for j := 0; j < nProtos; j++ {
		c.limits[sProto(j)] = drawLim(rt, sProto(j))
		c.limits[fmt.Sprintf("protopeer:%d", j)] = drawLim(rt, fmt.Sprintf("protopeer:%d", j))
	}
	for k := 0; k < nSvcs; k++ {
		c.limits[sSvc(k)] = drawLim(rt, sSvc(k))
		c.limits[fmt.Sprintf("svcpeer:%d", k)] = drawLim(rt, fmt.Sprintf("svcpeer:%d", k))
	}
	// own limits of connection / stream scopes: one conn or stream, some memory
	c.connLim = unlimited
	c.strLim = unlimited
	if rapid.IntRange(0, 3).Draw(rt, "connlim") == 0 {
		c.connLim.Memory = drawMem(rt, "connmem")
	}
	if rapid.IntRange(0, 3).Draw(rt, "strlim") == 0 {
		c.strLim.Memory = drawMem(rt, "strmem")
	}
	capv := func(l string) int { return rapid.SampledFrom([]int{1, 2, 3, 1000}).Draw(rt, l) }
	c.v4 = []subnetCap{{32, capv("v4/32")}}
	if rapid.Bool().Draw(rt, "v4/24?") {
		c.v4 = append(c.v4, subnetCap{24, capv("v4/24")})
	}
	c.v6 = []subnetCap{{56, capv("v6/56")}, {48, capv("v6/48")}}
	c.np4 = []prefixCap{{netip.MustParsePrefix("10.0.0.0/8"), capv("np10")}}
	// the manager registers every unconstrained allow-listed network as a prefix limited
	// by the allow-listed system scope's total connection limit (NewResourceManager docs)
	alCap := c.limits[sALSystem].Conns
	c.np4 = append(c.np4, prefixCap{netip.MustParsePrefix("9.9.9.9/32"), alCap}, prefixCap{netip.MustParsePrefix("9.9.8.0/24"), alCap})
	sort.SliceStable(c.np4, func(i, j int) bool { return c.np4[i].prefix.Bits() > c.np4[j].prefix.Bits() })
	return c
}

// ---------------------------------------------------------------------------
// trace recorder: last reported usage per scope name (implementation names)

type recorder struct {
	mu sync.Mutex
	u  map[string]usage
}

func (r *recorder) ConsumeEvent(e rcmgr.TraceEvt) {
	r.mu.Lock()
	defer r.mu.Unlock()
	if e.Name == "" {
		return
	}
	u := r.u[e.Name]
	switch e.Type {
	case rcmgr.TraceReserveMemoryEvt, rcmgr.TraceReleaseMemoryEvt:
		u.mem = e.Memory
	case rcmgr.TraceAddStreamEvt, rcmgr.TraceRemoveStreamEvt:
		u.sIn, u.sOut = e.StreamsIn, e.StreamsOut
	case rcmgr.TraceAddConnEvt, rcmgr.TraceRemoveConnEvt:
		u.cIn, u.cOut, u.nfd = e.ConnsIn, e.ConnsOut, e.FD
	case rcmgr.TraceCreateScopeEvt, rcmgr.TraceDestroyScopeEvt:
		u = usage{}
	default:
		return
	}
	r.u[e.Name] = u
}

func (r *recorder) get(name string) usage {
	r.mu.Lock()
	defer r.mu.Unlock()
	return r.u[name]
}

// implName maps a model scope name to the implementation's scope name in traces.
func implName(n string) string {
	var a, b int
	switch {
	case n == sSystem || n == sTransient || n == sALSystem || n == sALTransient:
		return n
	}
	if k, _ := fmt.Sscanf(n, "proto:%d.peer:%d", &a, &b); k == 2 {
		return fmt.Sprintf("protocol:%s.peer:%s", protoIDs[a], peerIDs[b])
	}
	if k, _ := fmt.Sscanf(n, "svc:%d.peer:%d", &a, &b); k == 2 {
		return fmt.Sprintf("service:%s.peer:%s", svcNames[a], peerIDs[b])
	}
	if k, _ := fmt.Sscanf(n, "peer:%d", &a); k == 1 {
		return fmt.Sprintf("peer:%s", peerIDs[a])
	}
	if k, _ := fmt.Sscanf(n, "proto:%d", &a); k == 1 {
		return fmt.Sprintf("protocol:%s", protoIDs[a])
	}
	if k, _ := fmt.Sscanf(n, "svc:%d", &a); k == 1 {
		return fmt.Sprintf("service:%s", svcNames[a])
	}
	return n
}

// ---------------------------------------------------------------------------

const kfTransfer = "C03-allowlist-transfer-refused"

type world struct {
	lim   *limiter
	name  string
	rt    *rapid.T
	cfg   *config
	m     *model
	rm    network.ResourceManager
	rec   *recorder
	trace []string
	// statistics
	refused, reparented int
	labels              map[string]bool
}

func (w *world) label(l string) {
	if w.labels == nil {
		w.labels = map[string]bool{}
	}
	w.labels[l] = true
}

func (w *world) step(s string) { w.trace = append(w.trace, s) }

func (w *world) fail(format string, args ...any) {
	w.rt.Fatalf("%s\nhistory: %s", fmt.Sprintf(format, args...), strings.Join(w.trace, "; "))
}

func newWorld(rt *rapid.T, cfg *config) *world {
	w := &world{rt: rt, cfg: cfg, m: newModel(cfg), rec: &recorder{u: map[string]usage{}}}
	l := &limiter{c: cfg, peers: peerIDs, protos: protoIDs, svcs: svcNames}
	var v4, v6 []rcmgr.ConnLimitPerSubnet
	for _, s := range cfg.v4 {
		v4 = append(v4, rcmgr.ConnLimitPerSubnet{PrefixLength: s.bits, ConnCount: s.cap})
	}
	for _, s := range cfg.v6 {
		v6 = append(v6, rcmgr.ConnLimitPerSubnet{PrefixLength: s.bits, ConnCount: s.cap})
	}
	np4 := []rcmgr.NetworkPrefixLimit{{Network: netip.MustParsePrefix("10.0.0.0/8"), ConnCount: cfg.np4Cap("10.0.0.0/8")}}
	var use rcmgr.Limiter = l
	if cfg.stock {
		use = stockLimiter(cfg)
	}
	rm, err := rcmgr.NewResourceManager(use,
		rcmgr.WithMetricsDisabled(),
		rcmgr.WithConnRateLimiters(&rate.Limiter{}),
		rcmgr.WithAllowlistedMultiaddrs(allowlistAddrs),
		rcmgr.WithLimitPerSubnet(v4, v6),
		rcmgr.WithNetworkPrefixLimit(np4, []rcmgr.NetworkPrefixLimit{}),
		rcmgr.WithTraceReporter(w.rec),
	)
	if err != nil {
		rt.Fatalf("NewResourceManager: %v", err)
	}
	w.rm = rm
	w.lim = l
	return w
}

func (c *config) np4Cap(p string) int {
	for _, np := range c.np4 {
		if np.prefix.String() == p {
			return np.cap
		}
	}
	return math.MaxInt
}

func (w *world) openIPs() []netip.Addr {
	var out []netip.Addr
	for _, h := range w.m.holders {
		if h.kind == hConn && !h.done {
			out = append(out, h.ip)
		}
	}
	return out
}

func isLimitErr(err error) bool { return errors.Is(err, network.ErrResourceLimitExceeded) }

// observed reads the implementation's usage of a model scope.
func (w *world) observed(n string) usage {
	var st network.ScopeStat
	var a int
	switch {
	case n == sSystem:
		w.rm.ViewSystem(func(s network.ResourceScope) error { st = s.Stat(); return nil })
		return fromStat(st)
	case n == sTransient:
		w.rm.ViewTransient(func(s network.ResourceScope) error { st = s.Stat(); return nil })
		return fromStat(st)
	case n == sALSystem || n == sALTransient || strings.Contains(n, ".peer:"):
		return w.rec.get(implName(n))
	}
	if k, _ := fmt.Sscanf(n, "peer:%d", &a); k == 1 {
		w.rm.ViewPeer(peerIDs[a], func(s network.PeerScope) error { st = s.Stat(); return nil })
		return fromStat(st)
	}
	if k, _ := fmt.Sscanf(n, "proto:%d", &a); k == 1 {
		w.rm.ViewProtocol(protoIDs[a], func(s network.ProtocolScope) error { st = s.Stat(); return nil })
		return fromStat(st)
	}
	if k, _ := fmt.Sscanf(n, "svc:%d", &a); k == 1 {
		w.rm.ViewService(svcNames[a], func(s network.ServiceScope) error { st = s.Stat(); return nil })
		return fromStat(st)
	}
	panic("unknown scope " + n)
}

// audit compares every scope with the model and checks the bounds of the statement.
func (w *world) audit(when string) {
	for _, n := range w.m.scopeNames() {
		want := w.m.usageOf(n)
		got := w.observed(n)
		if got != want {
			w.fail("%s: scope %s reports %v, the holders charged to it sum to %v", when, n, got, want)
		}
		if got.mem < 0 || got.sIn < 0 || got.sOut < 0 || got.cIn < 0 || got.cOut < 0 || got.nfd < 0 {
			w.fail("%s: scope %s reports negative usage %v", when, n, got)
		}
		l := w.m.limitOf(n)
		if (l.Memory != math.MaxInt64 && got.mem > l.Memory) || got.sIn > l.StreamsInbound || got.sOut > l.StreamsOutbound || got.sIn+got.sOut > l.Streams ||
			got.cIn > l.ConnsInbound || got.cOut > l.ConnsOutbound || got.cIn+got.cOut > l.Conns || got.nfd > l.FD {
			w.fail("%s: scope %s usage %v exceeds its limit %+v", when, n, got, l)
		}
	}
	// holders' own scopes
	for _, h := range w.m.holders {
		var got usage
		switch {
		case h.kind == hConn && !h.done:
			got = fromStat(h.conn.Stat())
		case h.kind == hStream && !h.done:
			got = fromStat(h.stream.Stat())
		default:
			continue
		}
		if want := h.total(); got != want {
			w.fail("%s: holder %s-%d reports %v, model %v", when, [...]string{"conn", "stream"}[h.kind], h.id, got, want)
		}
	}
	// per-subnet caps
	w.checkSubnets(when)
}

func (w *world) checkSubnets(when string) {
	ips := w.openIPs()
	for _, fam := range []bool{false, true} {
		subs, nps := w.cfg.v4, w.cfg.np4
		if fam {
			subs, nps = w.cfg.v6, w.cfg.np6
		}
		for _, np := range nps {
			n := 0
			for _, ip := range ips {
				if ip.IsValid() && ip.Is6() == fam && w.cfg.firstPrefix(ip) == np.prefix {
					n++
				}
			}
			if n > np.cap {
				w.fail("%s: %d open connections from network prefix %s, cap %d", when, n, np.prefix, np.cap)
			}
		}
		for _, sc := range subs {
			counts := map[netip.Prefix]int{}
			for _, ip := range ips {
				if !ip.IsValid() || ip.Is6() != fam || w.cfg.firstPrefix(ip).IsValid() {
					continue
				}
				p, _ := ip.Prefix(sc.bits)
				counts[p]++
			}
			for p, n := range counts {
				if n > sc.cap {
					w.fail("%s: %d open connections from subnet %s, per-/%d cap %d", when, n, p, sc.bits, sc.cap)
				}
			}
		}
	}
}

// ---------------------------------------------------------------------------
// rules

func (w *world) live(kind holderKind) []*holder {
	var out []*holder
	for _, h := range w.m.holders {
		if h.kind == kind && !h.done {
			out = append(out, h)
		}
	}
	return out
}

func (w *world) all(kind holderKind) []*holder {
	var out []*holder
	for _, h := range w.m.holders {
		if h.kind == kind {
			out = append(out, h)
		}
	}
	return out
}

func hname(h *holder) string {
	switch h.kind {
	case hConn:
		return fmt.Sprintf("conn%d", h.id)
	case hStream:
		return fmt.Sprintf("stream%d", h.id)
	}
	return "view(" + h.view + ")"
}

func (w *world) openConn(rt *rapid.T) {
	ep := rapid.IntRange(0, len(endpoints)-1).Draw(rt, "endpoint")
	dir := network.Direction(rapid.SampledFrom([]int{int(network.DirInbound), int(network.DirOutbound)}).Draw(rt, "dir"))
	usefd := rapid.Bool().Draw(rt, "usefd")
	e := endpoints[ep]
	h := &holder{kind: hConn, id: w.m.nextID, dir: dir, usefd: usefd, endpoint: ep, peer: -1, proto: -1, svc: -1, own: w.cfg.connLim, ip: e.ip}
	w.m.nextID++
	if dir == network.DirInbound {
		h.base.cIn = 1
	} else {
		h.base.cOut = 1
	}
	if usefd {
		h.base.nfd = 1
	}
	admitted := w.cfg.limiterAdmits(w.openIPs(), e.ip)
	ownOK := fits(usage{}, h.base, h.own, 255)
	stdOK, _ := w.m.fitsAll([]string{sTransient, sSystem}, h.base, 255)
	alOK, _ := w.m.fitsAll([]string{sALTransient, sALSystem}, h.base, 255)
	allowlisted := e.ip.IsValid() && (e.allowAny || e.allowPeer >= 0)
	want := admitted && ownOK && (stdOK || (allowlisted && alOK))
	conn, err := w.rm.OpenConnection(dir, usefd, ma.StringCast(e.addr))
	w.step(fmt.Sprintf("OpenConn(%s,%s,fd=%v)=%v", e.name, dir, usefd, err == nil))
	if (err == nil) != want {
		w.fail("OpenConnection(%s): got err=%v, model expects success=%v (limiter admits=%v own=%v standard=%v allowlisted=%v/%v)", e.name, err, want, admitted, ownOK, stdOK, allowlisted, alOK)
	}
	if err != nil {
		if admitted && !isLimitErr(err) {
			w.fail("OpenConnection(%s) refused by a scope limit but the error does not wrap ErrResourceLimitExceeded: %v", e.name, err)
		}
		if !admitted {
			w.label("refused:subnet-cap")
		} else {
			w.label("refused:OpenConnection")
		}
		w.refused++
		return
	}
	h.conn = conn
	if stdOK {
		h.charges = []string{sTransient, sSystem}
	} else {
		h.charges = []string{sALTransient, sALSystem}
		h.allowlist = true
		w.label("conn-via-allowlist")
	}
	w.m.holders = append(w.m.holders, h)
}

// legalConnSets lists every scope set a connection may consistently be charged to.
func (w *world) legalConnSets(h *holder, p int) [][]string {
	sets := [][]string{{sTransient, sSystem}, {sPeer(p), sSystem}}
	if h.allowlist {
		sets = append(sets, []string{sALTransient, sALSystem}, []string{sPeer(p), sALSystem})
	}
	return sets
}

func (w *world) adopt(h *holder, sets [][]string, what string) {
	old := h.charges
	for _, s := range sets {
		h.charges = s
		ok := true
		for _, n := range w.m.scopeNames() {
			if w.observed(n) != w.m.usageOf(n) {
				ok = false
				break
			}
		}
		// also the scopes of the previous set (they may have dropped out of scopeNames)
		for _, n := range old {
			if w.observed(n) != w.m.usageOf(n) {
				ok = false
			}
		}
		if ok {
			return
		}
	}
	h.charges = old
	var obs []string
	seen := map[string]bool{}
	for _, s := range sets {
		for _, n := range s {
			if !seen[n] {
				seen[n] = true
				obs = append(obs, fmt.Sprintf("%s=%v", n, w.observed(n)))
			}
		}
	}
	w.fail("%s was refused and left %s (holding %v) charged to no consistent scope set; candidates %v; observed %s", what, hname(h), h.total(), sets, strings.Join(obs, " "))
}

func (w *world) setPeer(rt *rapid.T) {
	conns := w.live(hConn)
	if len(conns) == 0 {
		rt.Skip("no conn")
	}
	h := conns[rapid.IntRange(0, len(conns)-1).Draw(rt, "conn")]
	p := rapid.IntRange(0, nPeers-1).Draw(rt, "peer")
	if h.peer >= 0 {
		err := h.conn.SetPeer(peerIDs[p])
		w.step(fmt.Sprintf("SetPeer(conn%d,p%d)=%v", h.id, p, err == nil))
		if err == nil {
			w.fail("SetPeer on conn%d, which already has a peer, succeeded", h.id)
		}
		return
	}
	e := endpoints[h.endpoint]
	st := h.total()
	if h.allowlist && !(e.allowAny || e.allowPeer == p) && kf.Known(kfTransfer) {
		if f, _ := w.m.fitsAll([]string{sSystem, sTransient}, st, 255); !f {
			// known finding: this refusal leaves the connection charged nowhere; excluded by construction
			stats.Excluded(w.name)
			w.step(fmt.Sprintf("SetPeer(conn%d,p%d)=excluded", h.id, p))
			return
		}
	}
	err := h.conn.SetPeer(peerIDs[p])
	w.step(fmt.Sprintf("SetPeer(conn%d,p%d)=%v", h.id, p, err == nil))
	target := []string{sPeer(p), sSystem}
	ok := true
	if h.allowlist {
		if e.allowAny || e.allowPeer == p {
			target = []string{sPeer(p), sALSystem}
		} else {
			// leaves the allow-listed scopes: has to fit into the standard ones first
			if f, _ := w.m.fitsAll([]string{sSystem, sTransient}, st, 255); !f {
				ok = false
			}
		}
	}
	if ok {
		// the peer scope has to take it; system is unchanged (already charged) unless it moves from the allow-listed set
		if f, _ := w.m.fitsAll([]string{sPeer(p)}, st, 255); !f {
			ok = false
		}
	}
	if (err == nil) != ok {
		w.fail("SetPeer(conn%d -> peer%d) err=%v, model expects success=%v", h.id, p, err, ok)
	}
	if err == nil {
		if h.allowlist && target[1] == sSystem {
			w.label("allowlist->standard-transfer")
		} else if h.allowlist {
			w.label("allowlisted-setpeer")
		}
		h.charges = target
		h.peer = p
		if target[1] == sSystem {
			h.allowlist = false
		}
		w.reparented++
		return
	}
	w.label("refused:SetPeer")
	if !isLimitErr(err) {
		w.fail("SetPeer(conn%d -> peer%d) refused for a limit but the error does not wrap ErrResourceLimitExceeded: %v", h.id, p, err)
	}
	w.refused++
	// a refused step must leave the connection charged exactly once in a consistent set
	w.adopt(h, w.legalConnSets(h, p), fmt.Sprintf("SetPeer(conn%d -> peer%d)", h.id, p))
	if len(h.charges) == 2 && h.charges[0] == sTransient {
		h.allowlist = false
	}
}

func (w *world) openStream(rt *rapid.T) {
	p := rapid.IntRange(0, nPeers-1).Draw(rt, "peer")
	dir := network.Direction(rapid.SampledFrom([]int{int(network.DirInbound), int(network.DirOutbound)}).Draw(rt, "dir"))
	h := &holder{kind: hStream, id: w.m.nextID, dir: dir, peer: p, proto: -1, svc: -1, own: w.cfg.strLim}
	w.m.nextID++
	if dir == network.DirInbound {
		h.base.sIn = 1
	} else {
		h.base.sOut = 1
	}
	want, _ := w.m.fitsAll([]string{sPeer(p), sTransient, sSystem}, h.base, 255)
	want = want && fits(usage{}, h.base, h.own, 255)
	s, err := w.rm.OpenStream(peerIDs[p], dir)
	w.step(fmt.Sprintf("OpenStream(p%d,%s)=%v", p, dir, err == nil))
	if (err == nil) != want {
		w.fail("OpenStream(peer%d,%s): err=%v, model expects success=%v", p, dir, err, want)
	}
	if err != nil {
		if !isLimitErr(err) {
			w.fail("OpenStream refused but the error does not wrap ErrResourceLimitExceeded: %v", err)
		}
		w.refused++
		return
	}
	h.stream = s
	h.charges = []string{sPeer(p), sTransient, sSystem}
	w.m.holders = append(w.m.holders, h)
}

func (w *world) setProtocol(rt *rapid.T) {
	ss := w.live(hStream)
	if len(ss) == 0 {
		rt.Skip("no stream")
	}
	h := ss[rapid.IntRange(0, len(ss)-1).Draw(rt, "stream")]
	j := rapid.IntRange(0, nProtos-1).Draw(rt, "proto")
	err := h.stream.SetProtocol(protoIDs[j])
	w.step(fmt.Sprintf("SetProtocol(stream%d,%d)=%v", h.id, j, err == nil))
	if h.proto >= 0 {
		if err == nil {
			w.fail("SetProtocol on stream%d, which already has a protocol, succeeded", h.id)
		}
		return
	}
	ok, _ := w.m.fitsAll([]string{sProto(j), sProtoPeer(j, h.peer)}, h.total(), 255)
	if (err == nil) != ok {
		w.fail("SetProtocol(stream%d -> proto%d) err=%v, model expects success=%v", h.id, j, err, ok)
	}
	if err == nil {
		h.proto = j
		h.charges = []string{sPeer(h.peer), sProtoPeer(j, h.peer), sProto(j), sSystem}
		w.reparented++
		return
	}
	if !isLimitErr(err) {
		w.fail("SetProtocol refused for a limit but the error does not wrap ErrResourceLimitExceeded: %v", err)
	}
	w.refused++
	w.label("refused:SetProtocol")
	w.adopt(h, [][]string{{sPeer(h.peer), sTransient, sSystem}, {sPeer(h.peer), sProtoPeer(j, h.peer), sProto(j), sSystem}}, fmt.Sprintf("SetProtocol(stream%d -> proto%d)", h.id, j))
	if len(h.charges) == 4 {
		h.proto = j
	}
}

func (w *world) setService(rt *rapid.T) {
	ss := w.live(hStream)
	if len(ss) == 0 {
		rt.Skip("no stream")
	}
	h := ss[rapid.IntRange(0, len(ss)-1).Draw(rt, "stream")]
	k := rapid.IntRange(0, nSvcs-1).Draw(rt, "svc")
	err := h.stream.SetService(svcNames[k])
	w.step(fmt.Sprintf("SetService(stream%d,%d)=%v", h.id, k, err == nil))
	if h.svc >= 0 || h.proto < 0 {
		if err == nil {
			w.fail("SetService on stream%d (svc=%d proto=%d) succeeded although it must be attached to a protocol first and to no service", h.id, h.svc, h.proto)
		}
		return
	}
	ok, _ := w.m.fitsAll([]string{sSvc(k), sSvcPeer(k, h.peer)}, h.total(), 255)
	if (err == nil) != ok {
		w.fail("SetService(stream%d -> svc%d) err=%v, model expects success=%v", h.id, k, err, ok)
	}
	withSvc := []string{sPeer(h.peer), sProtoPeer(h.proto, h.peer), sSvcPeer(k, h.peer), sProto(h.proto), sSvc(k), sSystem}
	if err == nil {
		h.svc = k
		h.charges = withSvc
		w.reparented++
		return
	}
	if !isLimitErr(err) {
		w.fail("SetService refused for a limit but the error does not wrap ErrResourceLimitExceeded: %v", err)
	}
	w.refused++
	w.label("refused:SetService")
	w.adopt(h, [][]string{h.charges, withSvc}, fmt.Sprintf("SetService(stream%d -> svc%d)", h.id, k))
	if len(h.charges) == 6 {
		h.svc = k
	}
}

// target of a memory operation: a holder or one of its spans
type target struct {
	h *holder
	s *span // nil: the holder itself
}

func (w *world) drawTarget(rt *rapid.T, needLive bool) (target, bool) {
	var ts []target
	var walk func(h *holder, ss []*span)
	walk = func(h *holder, ss []*span) {
		for _, s := range ss {
			ts = append(ts, target{h, s})
			walk(h, s.children)
		}
	}
	for _, h := range w.m.holders {
		ts = append(ts, target{h, nil})
		walk(h, h.spans)
	}
	// view scopes that were not touched yet
	for _, n := range []string{sSystem, sTransient, sPeer(0), sPeer(1), sProto(0), sSvc(0)} {
		if _, ok := w.m.views[n]; !ok {
			ts = append(ts, target{w.m.view(n), nil})
		}
	}
	if len(ts) == 0 {
		return target{}, false
	}
	return ts[rapid.IntRange(0, len(ts)-1).Draw(rt, "target")], true
}

func (t target) name() string {
	if t.s == nil {
		return hname(t.h)
	}
	return fmt.Sprintf("%s.span%d", hname(t.h), t.s.id)
}

func (t target) dead() bool {
	if t.s != nil {
		return t.s.dead()
	}
	return t.h.done
}

// viewScope runs f on the live implementation scope behind a view holder.
func (w *world) viewScope(n string, f func(network.ResourceScope) error) error {
	var a int
	switch {
	case n == sSystem:
		return w.rm.ViewSystem(f)
	case n == sTransient:
		return w.rm.ViewTransient(f)
	}
	if k, _ := fmt.Sscanf(n, "peer:%d", &a); k == 1 {
		return w.rm.ViewPeer(peerIDs[a], func(s network.PeerScope) error { return f(s) })
	}
	if k, _ := fmt.Sscanf(n, "proto:%d", &a); k == 1 {
		return w.rm.ViewProtocol(protoIDs[a], func(s network.ProtocolScope) error { return f(s) })
	}
	if k, _ := fmt.Sscanf(n, "svc:%d", &a); k == 1 {
		return w.rm.ViewService(svcNames[a], func(s network.ServiceScope) error { return f(s) })
	}
	panic("bad view " + n)
}

func (w *world) withScope(t target, f func(network.ResourceScope) error) error {
	if t.s != nil {
		return f(t.s.h)
	}
	switch t.h.kind {
	case hConn:
		return f(t.h.conn)
	case hStream:
		return f(t.h.stream)
	}
	return w.viewScope(t.h.view, f)
}

// memChain lists (usage, limit) pairs constraining a reservation on t, innermost first.
func (w *world) memFits(t target, size int64, prio uint8) bool {
	d := usage{mem: size}
	for s := t.s; s != nil; s = s.parent {
		// a span carries its owner's limit
		if !fits(usage{mem: s.subtree()}, d, w.ownLimit(t.h), prio) {
			return false
		}
	}
	if t.h.kind != hView {
		if !fits(t.h.total(), d, t.h.own, prio) {
			return false
		}
	}
	ok, _ := w.m.fitsAll(t.h.charges, d, prio)
	return ok
}

func (w *world) ownLimit(h *holder) lim {
	if h.kind == hView {
		return w.m.limitOf(h.view)
	}
	return h.own
}

func (w *world) reserve(rt *rapid.T) {
	t, ok := w.drawTarget(rt, false)
	if !ok {
		rt.Skip("no target")
	}
	size := rapid.SampledFrom([]int64{0, 1, 1, 16, 63, 64, 65, 255, 256, 257, 999, 1000, 1001, 4096, 1 << 40}).Draw(rt, "size")
	prio := uint8(rapid.SampledFrom([]int{0, 1, 101, 152, 203, 254, 255}).Draw(rt, "prio"))
	// no scope, limited or not, is driven past what an int64 can count (the manager does not
	// claim anything there): room is what the roots can still take
	room := math.MaxInt64 - 1 - w.m.usageOf(sSystem).mem - w.m.usageOf(sALSystem).mem
	if !t.dead() && room > 0 && rapid.IntRange(0, 3).Draw(rt, "edge") == 0 && w.memFits(t, 0, prio) && !w.memFits(t, room, prio) {
		// the largest reservation the model still admits here at this priority, and its neighbours
		lo, hi := int64(0), room
		for hi-lo > 1 {
			if mid := lo + (hi-lo)/2; w.memFits(t, mid, prio) {
				lo = mid
			} else {
				hi = mid
			}
		}
		size = max(0, lo+rapid.SampledFrom([]int64{-1, 0, 0, 1, 1}).Draw(rt, "edgeoff"))
		w.label("reserve:at-threshold")
		if lo > 1<<50 {
			w.label("reserve:at-threshold:huge")
		}
	}
	if size > room {
		size = 0
	}
	want := !t.dead() && w.memFits(t, size, prio)
	err := w.withScope(t, func(s network.ResourceScope) error { return s.ReserveMemory(int(size), prio) })
	w.step(fmt.Sprintf("Reserve(%s,%d,prio%d)=%v", t.name(), size, prio, err == nil))
	if (err == nil) != want {
		w.fail("ReserveMemory(%s, %d, prio %d): err=%v, model expects success=%v (dead=%v)", t.name(), size, prio, err, want, t.dead())
	}
	if err != nil {
		if !t.dead() {
			if !isLimitErr(err) {
				w.fail("ReserveMemory refused for a limit but the error does not wrap ErrResourceLimitExceeded: %v", err)
			}
			w.refused++
			w.label("refused:ReserveMemory")
		} else {
			w.label("op-on-closed-scope")
		}
		return
	}
	if t.s != nil && t.s.parent != nil {
		w.label("reserve-on-nested-span")
	}
	if t.h.kind == hView {
		w.label("reserve-on-view-scope")
	}
	if t.s != nil {
		t.s.mem += size
	} else {
		t.h.mem += size
	}
}

func (w *world) release(rt *rapid.T) {
	var ts []target
	var walk func(h *holder, ss []*span)
	walk = func(h *holder, ss []*span) {
		for _, s := range ss {
			if !s.dead() && s.mem > 0 {
				ts = append(ts, target{h, s})
			}
			walk(h, s.children)
		}
	}
	for _, h := range w.m.holders {
		if !h.done && h.mem > 0 {
			ts = append(ts, target{h, nil})
		}
		walk(h, h.spans)
	}
	if len(ts) == 0 {
		rt.Skip("nothing to release")
	}
	t := ts[rapid.IntRange(0, len(ts)-1).Draw(rt, "target")]
	have := t.h.mem
	if t.s != nil {
		have = t.s.mem
	}
	size := have
	if rapid.Bool().Draw(rt, "partial") {
		size = rapid.Int64Range(0, have).Draw(rt, "size")
	}
	w.withScope(t, func(s network.ResourceScope) error { s.ReleaseMemory(int(size)); return nil })
	w.step(fmt.Sprintf("Release(%s,%d)", t.name(), size))
	if t.s != nil {
		t.s.mem -= size
	} else {
		t.h.mem -= size
	}
}

func (w *world) beginSpan(rt *rapid.T) {
	t, ok := w.drawTarget(rt, false)
	if !ok {
		rt.Skip("no target")
	}
	var sp network.ResourceScopeSpan
	err := w.withScope(t, func(s network.ResourceScope) error {
		var e error
		sp, e = s.BeginSpan()
		return e
	})
	w.step(fmt.Sprintf("BeginSpan(%s)=%v", t.name(), err == nil))
	// a span can be opened on any scope that is not closed itself
	selfDone := t.h.done
	if t.s != nil {
		selfDone = t.s.done
	}
	if (err == nil) != !selfDone {
		w.fail("BeginSpan(%s): err=%v but the scope's own done=%v", t.name(), err, selfDone)
	}
	if err != nil {
		return
	}
	s := &span{id: w.m.nextID, parent: t.s, root: t.h, h: sp}
	w.m.nextID++
	if t.s != nil {
		t.s.children = append(t.s.children, s)
	} else {
		t.h.spans = append(t.h.spans, s)
	}
}

func (w *world) done(rt *rapid.T) {
	var ts []target
	var walk func(h *holder, ss []*span)
	walk = func(h *holder, ss []*span) {
		for _, s := range ss {
			ts = append(ts, target{h, s})
			walk(h, s.children)
		}
	}
	for _, h := range w.m.holders {
		if h.kind != hView {
			ts = append(ts, target{h, nil})
		}
		walk(h, h.spans)
	}
	if len(ts) == 0 {
		rt.Skip("nothing to close")
	}
	t := ts[rapid.IntRange(0, len(ts)-1).Draw(rt, "target")]
	w.step(fmt.Sprintf("Done(%s)", t.name()))
	if t.s != nil {
		t.s.h.Done()
		if !t.s.dead() {
			// releases everything reserved through this span (its whole subtree)
			t.s.done = true
		} else {
			t.s.done = true
		}
		return
	}
	switch t.h.kind {
	case hConn:
		t.h.conn.Done()
	case hStream:
		t.h.stream.Done()
	}
	t.h.done = true
}

func (w *world) gc(rt *rapid.T) {
	w.step("GC")
	time.Sleep(61 * time.Second)
	synctest.Wait()
	w.m.gc()
}

func (w *world) closeAll() {
	for _, h := range w.m.holders {
		if h.done || h.kind == hView {
			continue
		}
		if h.kind == hConn {
			h.conn.Done()
		} else {
			h.stream.Done()
		}
		h.done = true
	}
	// release view reservations and close their spans
	for _, v := range w.m.views {
		var closeSpans func(ss []*span)
		closeSpans = func(ss []*span) {
			for _, s := range ss {
				closeSpans(s.children)
				if !s.done {
					s.h.Done()
					s.done = true
				}
			}
		}
		closeSpans(v.spans)
		if v.mem > 0 {
			m := v.mem
			w.viewScope(v.view, func(s network.ResourceScope) error { s.ReleaseMemory(int(m)); return nil })
			v.mem = 0
		}
	}
}

func runHistory(t *testing.T, rt *rapid.T, name string) {
	cfg := drawConfig(rt)
	cfg.stock = rapid.IntRange(0, 2).Draw(rt, "stockLimiter") == 0
	var w *world
	hx.Bubble(t, rt, func() {
		w = newWorld(rt, cfg)
		w.name = name
		if cfg.stock {
			w.label("limiter:the-library's-fixed-limiter")
		}
		defer w.rm.Close()
		rt.Repeat(map[string]func(*rapid.T){
			"openConn":    w.openConn,
			"setPeer":     w.setPeer,
			"openStream":  w.openStream,
			"setProtocol": w.setProtocol,
			"setService":  w.setService,
			"reserve":     w.reserve,
			"release":     w.release,
			"beginSpan":   w.beginSpan,
			"done":        w.done,
			"gc":          w.gc,
			"": func(*rapid.T) {
				last := "start"
				if len(w.trace) > 0 {
					last = w.trace[len(w.trace)-1]
				}
				w.audit("after " + last)
			},
		})
		w.step("CloseAll")
		w.closeAll()
		w.audit("after closing everything")
		time.Sleep(61 * time.Second)
		synctest.Wait()
		w.m.gc()
		for _, n := range append(w.m.scopeNames(), sPeer(0), sPeer(1), sPeer(2), sProto(0), sProto(1), sSvc(0), sSvc(1)) {
			if got := w.observed(n); got != (usage{}) {
				w.fail("after the last holder was released scope %s still reports %v", n, got)
			}
		}
	})
	var seq []string
	for _, s := range w.trace {
		seq = append(seq, s)
	}
	nontrivial := w.refused > 0 && w.reparented > 0
	var labels []string
	for l := range w.labels {
		labels = append(labels, l)
	}
	sort.Strings(labels)
	if w.refused > 0 {
		labels = append(labels, "has-refusal")
	}
	if w.reparented > 0 {
		labels = append(labels, "has-reparenting")
	}
	stats.Case(name, strings.Join(seq, ";"), nontrivial, labels...)
	if stats.WantSample(name) {
		stats.Sample(name, map[string]any{"limits": fmt.Sprintf("%+v", cfg.limits), "subnets": fmt.Sprintf("v4=%v v6=%v np4=%v", cfg.v4, cfg.v6, cfg.np4), "history": w.trace})
	}
}

func TestSequentialAgainstModel(t *testing.T) {
	name := t.Name()
	hx.Check(t, 15000, 2000000, 40, func(rt *rapid.T) { runHistory(t, rt, name) })
}
