package c03

import (
	"fmt"
	"math"
	"net/netip"
	"testing"
	"testing/synctest"

	"github.com/libp2p/go-libp2p/core/network"
	ma "github.com/multiformats/go-multiaddr"

	"verif/internal/hx"
	"verif/internal/kf"
)

func witnessConfig() *config {
	c := &config{limits: map[string]lim{}, def: unlimited, connLim: unlimited, strLim: unlimited}
	c.v4 = []subnetCap{{32, 3}}
	c.v6 = []subnetCap{{56, 3}, {48, 3}}
	c.np4 = []prefixCap{{netip.MustParsePrefix("9.9.9.9/32"), math.MaxInt}, {netip.MustParsePrefix("9.9.8.0/24"), math.MaxInt}, {netip.MustParsePrefix("10.0.0.0/8"), 3}}
	return c
}

// An allow-listed connection whose peer turns out not to be allow-listed has to move to the
// standard scopes; when those refuse it, the connection is left charged to no system or
// transient scope at all (genuine defect, recorded as a known finding: the correct repair
// contradicts an existing test of the repository, see DESIGN.md).
func TestWitness_AllowlistTransferRefused(t *testing.T) {
	hx.Shard0(t)
	kf.Witness(t, kfTransfer, func() (violated bool, detail string) {
		synctest.Test(t, func(*testing.T) {
			cfg := witnessConfig()
			none := unlimited
			none.Conns, none.ConnsInbound, none.ConnsOutbound = 0, 0, 0
			cfg.limits[sSystem] = none // standard scopes take no connection
			w := newWorld(nil, cfg)
			defer w.rm.Close()
			conn, err := w.rm.OpenConnection(network.DirInbound, false, ma.StringCast("/ip4/8.8.8.8/tcp/1"))
			if err != nil {
				violated, detail = true, "allow-listed connection refused: "+err.Error()
				return
			}
			defer conn.Done()
			if err := conn.SetPeer(peerIDs[1]); err == nil { // entry is constrained to peer 0
				violated, detail = true, "SetPeer succeeded although the standard scopes have no room"
				return
			}
			var sys usage
			w.rm.ViewSystem(func(s network.ResourceScope) error { sys = fromStat(s.Stat()); return nil })
			tr := w.observed(sTransient)
			als, alt := w.observed(sALSystem), w.observed(sALTransient)
			if sys.cIn+als.cIn != 1 || tr.cIn+alt.cIn != 1 {
				violated = true
				detail = fmt.Sprintf("after the refused SetPeer the open connection is charged to system=%d transient=%d allowlistedSystem=%d allowlistedTransient=%d (want exactly one system-level and one transient-level scope)",
					sys.cIn, tr.cIn, als.cIn, alt.cIn)
			}
		})
		return
	})
}

// Allow-listed connections that spill over into the allow-list scopes used to give their
// connection-limiter slot back: any number could be open from one address. Repaired.
func TestWitness_AllowlistSpilloverNotCounted(t *testing.T) {
	hx.Shard0(t)
	kf.Witness(t, "C03-allowlist-spillover-uncounted", func() (violated bool, detail string) {
		synctest.Test(t, func(*testing.T) {
			cfg := witnessConfig()
			none := unlimited
			none.Conns, none.ConnsInbound, none.ConnsOutbound = 0, 0, 0
			cfg.limits[sSystem] = none
			w := newWorld(nil, cfg)
			defer w.rm.Close()
			open := 0
			for i := 0; i < 10; i++ { // 8.8.8.8 is allow-listed for a peer, per-/32 cap is 3
				c, err := w.rm.OpenConnection(network.DirInbound, false, ma.StringCast("/ip4/8.8.8.8/tcp/1"))
				if err == nil {
					open++
					defer c.Done()
				}
			}
			if open > 3 {
				violated, detail = true, fmt.Sprintf("%d simultaneously open connections from 8.8.8.8 under a per-/32 cap of 3", open)
			}
		})
		return
	})
}
