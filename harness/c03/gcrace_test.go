package c03

import (
	"fmt"
	"strings"
	"sync"
	"testing"
	"time"

	"github.com/libp2p/go-libp2p/core/network"
	rcmgr "github.com/libp2p/go-libp2p/p2p/host/resource-manager"
	"pgregory.net/rapid"

	"verif/internal/hx"
	"verif/internal/stats"
)

// Collection of unused scopes racing with the first use of a collected scope.
//
// The manager collects peer, protocol and service scopes nobody uses (once a minute in the
// background; here through the verif hook, at a generated instant) together with the per-peer
// sub-scopes that idle peers left behind in protocols and services still in use. The statement's
// accounting clauses hold for every interleaving of that pass with other operations: a stream that
// is open is counted in every scope it is attached to, so no per-peer limit of a protocol or
// service can be exceeded and every scope reads zero once everything is released.
//
// The schedule is owned by the harness as far as the API allows: a generated sequential prefix
// leaves some peers idle with sub-scopes in protocols / services that other peers keep alive; then
// three actors start at generated offsets: a "napper" whose first use of a (protocol|service, peer)
// pair makes the manager look up a limit while it holds that protocol's / service's lock, and the
// harness' limiter takes its time there (real time, 1-4 ms), a collector (one collection pass), and
// a "user" that opens streams for the idle peers and attaches them. Which interleaving results is
// not reproducible exactly; the verdict does not depend on timing: it is taken after all actors
// have returned, from the holders still open (recorded by the goroutines that own them).

type gcStream struct {
	peer, proto, svc int // svc -1: none
	keep             bool
}

func drawGCStream(rt *rapid.T, label string) gcStream {
	return gcStream{
		peer:  rapid.IntRange(0, 2).Draw(rt, label+"-peer"),
		proto: rapid.IntRange(0, nProtos-1).Draw(rt, label+"-proto"),
		svc:   rapid.IntRange(-1, nSvcs-1).Draw(rt, label+"-svc"),
		keep:  rapid.Bool().Draw(rt, label+"-keep"),
	}
}

func (g gcStream) String() string {
	return fmt.Sprintf("{p%d proto%d svc%d keep=%v}", g.peer, g.proto, g.svc, g.keep)
}

func TestCollectionRacesFirstUse(t *testing.T) {
	name := t.Name()
	hx.Check(t, 200, 30000, 0, func(rt *rapid.T) {
		cfg := drawConfig(rt)
		// the top scopes and the stream scopes are roomy: the property is about the sub-scopes
		for n := range cfg.limits {
			cfg.limits[n] = unlimited
		}
		for _, n := range []string{"protopeer:0", "protopeer:1", "svcpeer:0", "svcpeer:1"} {
			if _, ok := cfg.limits[n]; !ok {
				panic("no such limit class: " + n)
			}
			if rapid.Bool().Draw(rt, n+"-limited") {
				l := unlimited
				l.StreamsOutbound = rapid.IntRange(1, 3).Draw(rt, n+"-so")
				l.Streams = l.StreamsOutbound
				cfg.limits[n] = l
			}
		}
		cfg.connLim, cfg.strLim = unlimited, unlimited
		prefix := make([]gcStream, rapid.IntRange(2, 6).Draw(rt, "nprefix"))
		for i := range prefix {
			prefix[i] = drawGCStream(rt, "prefix")
		}
		napper := make([]gcStream, rapid.IntRange(1, 2).Draw(rt, "nnapper"))
		for i := range napper {
			napper[i] = drawGCStream(rt, "napper")
		}
		user := make([]gcStream, rapid.IntRange(1, 4).Draw(rt, "nuser"))
		for i := range user {
			user[i] = drawGCStream(rt, "user")
		}
		offs := []int{0, 0, 50, 200, 600, 1500}
		gcAt := rapid.SampledFrom(offs).Draw(rt, "gcAtMicros")
		userAt := rapid.SampledFrom(offs).Draw(rt, "userAtMicros")
		if rapid.IntRange(0, 3).Draw(rt, "aimed") != 0 {
			// aim at the class the property is about instead of waiting for it: an idle peer that left a
			// sub-scope in a protocol (and service) another peer keeps alive; the user comes back for
			// that peer shortly after the collection started; the napper's first use is of another pair
			idle := rapid.IntRange(0, 2).Draw(rt, "idlePeer")
			other := (idle + 1 + rapid.IntRange(0, 1).Draw(rt, "otherPeer")) % 3
			x := rapid.IntRange(0, nProtos-1).Draw(rt, "x")
			sv := rapid.IntRange(-1, nSvcs-1).Draw(rt, "sv")
			for i := range prefix {
				if prefix[i].peer == idle {
					prefix[i].keep = false
				}
			}
			prefix = append(prefix, gcStream{idle, x, sv, false}, gcStream{other, x, sv, true})
			user[0] = gcStream{idle, x, rapid.SampledFrom([]int{sv, sv, -1}).Draw(rt, "usersv"), rapid.IntRange(0, 3).Draw(rt, "userkeep") != 0}
			for i := range napper {
				if napper[i].peer == idle {
					napper[i].peer = other
				}
			}
			userAt = rapid.SampledFrom([]int{50, 200, 500, 1500}).Draw(rt, "userAfterGC")
		}
		nap := rapid.SampledFrom([]int{1000, 2000, 4000}).Draw(rt, "napMicros")
		gcs := rapid.IntRange(1, 2).Draw(rt, "ngc")

		w := newWorld(rt, cfg)
		defer w.rm.Close()

		var mu sync.Mutex
		var holders []*cholder
		refused := 0
		open := func(g gcStream) {
			s, err := w.rm.OpenStream(peerIDs[g.peer], network.DirOutbound)
			if err != nil {
				mu.Lock()
				refused++
				mu.Unlock()
				return
			}
			h := &cholder{kind: hStream, stream: s, peer: g.peer, proto: -1, svc: -1, charges: []string{sPeer(g.peer), sTransient, sSystem}}
			h.base.sOut = 1
			if err := s.SetProtocol(protoIDs[g.proto]); err == nil {
				h.proto, h.charges = g.proto, []string{sPeer(g.peer), sProtoPeer(g.proto, g.peer), sProto(g.proto), sSystem}
				if g.svc >= 0 {
					if err := s.SetService(svcNames[g.svc]); err == nil {
						h.svc = g.svc
						h.charges = []string{sPeer(g.peer), sProtoPeer(g.proto, g.peer), sSvcPeer(g.svc, g.peer), sProto(g.proto), sSvc(g.svc), sSystem}
					}
				}
			}
			if !g.keep {
				s.Done()
				h.done = true
			}
			mu.Lock()
			holders = append(holders, h)
			mu.Unlock()
		}
		for _, g := range prefix {
			open(g)
		}
		// which peers are idle now, and do they have a sub-scope somebody else keeps alive?
		busy := map[int]bool{}
		for _, h := range holders {
			if !h.done {
				busy[h.peer] = true
			}
		}
		idleWithLeftovers := false
		for _, h := range holders {
			if h.done && !busy[h.peer] && h.proto >= 0 {
				for _, o := range holders {
					if !o.done && (o.proto == h.proto || (h.svc >= 0 && o.svc == h.svc)) {
						idleWithLeftovers = true
					}
				}
			}
		}
		userTouchesIdle := false
		for _, g := range user {
			if !busy[g.peer] {
				userTouchesIdle = true
			}
		}

		// The napper's first lookup of a per-peer sub-scope limit is held inside the limiter (the manager
		// holds that protocol's / service's lock meanwhile) until the harness lets it go: the collection
		// is started once the napper is in there, the user a generated moment later; the napper is let go
		// when the user has finished or has been stuck for userWait (it is stuck whenever the collection,
		// itself waiting for the napper's lock, still holds the manager's lock).
		gate := &limGate{entered: make(chan struct{}), release: make(chan struct{})}
		w.lim.gate.Store(gate)
		run := func(f func()) chan struct{} {
			done := make(chan struct{})
			go func() { defer close(done); f() }()
			return done
		}
		napperDone := run(func() {
			for _, g := range napper {
				open(g)
			}
		})
		gated := false
		select {
		case <-gate.entered:
			gated = true
		case <-napperDone:
		}
		time.Sleep(time.Duration(gcAt) * time.Microsecond)
		gcDone := run(func() {
			for i := 0; i < gcs; i++ {
				rcmgr.VerifGC(w.rm)
			}
		})
		time.Sleep(time.Duration(userAt) * time.Microsecond)
		userDone := run(func() {
			for _, g := range user {
				open(g)
			}
		})
		userStuck := false
		select {
		case <-userDone:
		case <-time.After(time.Duration(nap) * time.Microsecond):
			userStuck = true
		}
		close(gate.release)
		<-napperDone
		<-gcDone
		<-userDone
		w.lim.gate.Store(nil)

		hist := fmt.Sprintf("prefix=%v napper=%v (held in a limit lookup: %v) user=%v (stuck until the napper went on: %v) gc %dus after the napper x%d, user %dus after the gc, napper let go after at most %dus",
			prefix, napper, gated, user, userStuck, gcAt, gcs, userAt, nap)
		scopes := []string{sSystem, sTransient, sPeer(0), sPeer(1), sPeer(2)}
		for j := 0; j < nProtos; j++ {
			scopes = append(scopes, sProto(j))
			for p := 0; p < 3; p++ {
				scopes = append(scopes, sProtoPeer(j, p))
			}
		}
		for k := 0; k < nSvcs; k++ {
			scopes = append(scopes, sSvc(k))
			for p := 0; p < 3; p++ {
				scopes = append(scopes, sSvcPeer(k, p))
			}
		}
		want := map[string]usage{}
		nOpen := 0
		for _, h := range holders {
			if h.done {
				continue
			}
			nOpen++
			for _, c := range h.charges {
				want[c] = want[c].add(h.base)
			}
		}
		for _, n := range scopes {
			got := w.observed(n)
			if got != want[n] {
				rt.Fatalf("after a scope collection among concurrent first uses, scope %s reports %v, the %d streams still open sum to %v\nhistory: %s", n, got, nOpen, want[n], hist)
			}
			l := cfg.limitOf(n)
			if got.sOut > l.StreamsOutbound || got.sIn+got.sOut > l.Streams {
				rt.Fatalf("scope %s usage %v exceeds its limit %+v\nhistory: %s", n, got, l, hist)
			}
		}
		// per-peer sub-scope limits, from the holders' own records (independent of what the manager reports)
		for n, u := range want {
			if strings.Contains(n, ".peer:") {
				if l := cfg.limitOf(n); u.sOut > l.StreamsOutbound || u.sOut > l.Streams {
					rt.Fatalf("%d streams are open in %s, its limit is %+v\nhistory: %s", u.sOut, n, l, hist)
				}
			}
		}
		for _, h := range holders {
			if !h.done {
				h.stream.Done()
			}
		}
		for _, n := range scopes {
			if got := w.observed(n); got != (usage{}) {
				rt.Fatalf("after the last stream was released scope %s still reports %v\nhistory: %s", n, got, hist)
			}
		}
		var labels []string
		if idleWithLeftovers {
			labels = append(labels, "idle-peer-with-sub-scope-in-a-live-protocol-or-service")
		}
		if idleWithLeftovers && userTouchesIdle {
			labels = append(labels, "collected-peer-used-again-around-the-collection")
		}
		if refused > 0 {
			labels = append(labels, "some-stream-refused")
		}
		if gated {
			labels = append(labels, "collection-while-a-first-use-holds-a-scope-lock")
			if userStuck {
				labels = append(labels, "user-waited-for-the-collection")
			} else {
				labels = append(labels, "user-ran-while-the-collection-waited")
			}
		}
		stats.Case(name, hist, idleWithLeftovers && userTouchesIdle, labels...)
		if stats.WantSample(name) {
			stats.Sample(name, map[string]any{"history": hist})
		}
	})
}
