package c03

import (
	"fmt"
	"math"
	"math/big"
	"net/netip"
	"runtime"
	"sort"
	"strings"
	"sync/atomic"
	"time"

	"github.com/libp2p/go-libp2p/core/network"
	"github.com/libp2p/go-libp2p/core/peer"
	"github.com/libp2p/go-libp2p/core/protocol"
	rcmgr "github.com/libp2p/go-libp2p/p2p/host/resource-manager"
)

// ---------------------------------------------------------------------------
// Reference model of the resource manager, written from the property statement and the
// package README: a set of live holders, each charged to a set of scopes; the usage of a
// scope is by definition the sum over the holders charged to it.

type usage struct {
	mem                       int64
	sIn, sOut, cIn, cOut, nfd int
}

func (u usage) add(v usage) usage {
	return usage{u.mem + v.mem, u.sIn + v.sIn, u.sOut + v.sOut, u.cIn + v.cIn, u.cOut + v.cOut, u.nfd + v.nfd}
}

func (u usage) String() string {
	return fmt.Sprintf("{mem:%d streams:%d/%d conns:%d/%d fd:%d}", u.mem, u.sIn, u.sOut, u.cIn, u.cOut, u.nfd)
}

func fromStat(s network.ScopeStat) usage {
	return usage{s.Memory, s.NumStreamsInbound, s.NumStreamsOutbound, s.NumConnsInbound, s.NumConnsOutbound, s.NumFD}
}

// limits of one scope
type lim = rcmgr.BaseLimit

// memThreshold: floor(limit*(1+prio)/256), computed with big integers.
func memThreshold(limit int64, prio uint8) int64 {
	if limit == math.MaxInt64 {
		return math.MaxInt64
	}
	b := big.NewInt(limit)
	b.Mul(b, big.NewInt(1+int64(prio)))
	b.Rsh(b, 8)
	return b.Int64()
}

// fits reports whether adding d (memory at priority prio) to u stays within l.
func fits(u usage, d usage, l lim, prio uint8) bool {
	if d.mem != 0 || true {
		if l.Memory != math.MaxInt64 {
			sum := new(big.Int).Add(big.NewInt(u.mem), big.NewInt(d.mem))
			if sum.Cmp(big.NewInt(memThreshold(l.Memory, prio))) > 0 {
				return false
			}
		}
	}
	if d.sIn > 0 && u.sIn+d.sIn > l.StreamsInbound {
		return false
	}
	if d.sOut > 0 && u.sOut+d.sOut > l.StreamsOutbound {
		return false
	}
	if u.sIn+d.sIn+u.sOut+d.sOut > l.Streams && (d.sIn > 0 || d.sOut > 0) {
		return false
	}
	if d.cIn > 0 && u.cIn+d.cIn > l.ConnsInbound {
		return false
	}
	if d.cOut > 0 && u.cOut+d.cOut > l.ConnsOutbound {
		return false
	}
	if u.cIn+d.cIn+u.cOut+d.cOut > l.Conns && (d.cIn > 0 || d.cOut > 0) {
		return false
	}
	if d.nfd > 0 && u.nfd+d.nfd > l.FD {
		return false
	}
	return true
}

// scope names
const (
	sSystem      = "system"
	sTransient   = "transient"
	sALSystem    = "allowlistedSystem"
	sALTransient = "allowlistedTransient"
)

func sPeer(p int) string         { return fmt.Sprintf("peer:%d", p) }
func sProto(j int) string        { return fmt.Sprintf("proto:%d", j) }
func sProtoPeer(j, p int) string { return fmt.Sprintf("proto:%d.peer:%d", j, p) }
func sSvc(k int) string          { return fmt.Sprintf("svc:%d", k) }
func sSvcPeer(k, p int) string   { return fmt.Sprintf("svc:%d.peer:%d", k, p) }
func isPeerScope(n string) (int, bool) {
	var p int
	k, _ := fmt.Sscanf(n, "peer:%d", &p)
	return p, k == 1 && n == sPeer(p)
}
func isProtoScope(n string) (int, bool) {
	var p int
	k, _ := fmt.Sscanf(n, "proto:%d", &p)
	return p, k == 1 && n == sProto(p)
}

// span is a node of a span tree; mem is what was reserved directly on it.
type span struct {
	id       int
	parent   *span // nil: child of the root holder
	root     *holder
	mem      int64 // reserved directly on this span
	done     bool
	children []*span
	h        network.ResourceScopeSpan
}

func (s *span) subtree() int64 {
	if s.done {
		return 0
	}
	m := s.mem
	for _, c := range s.children {
		m += c.subtree()
	}
	return m
}

func (s *span) dead() bool { // an ancestor (or itself) is done
	for x := s; x != nil; x = x.parent {
		if x.done {
			return true
		}
	}
	return s.root.done
}

type holderKind int

const (
	hConn holderKind = iota
	hStream
	hView // direct reservations on a long-lived scope
)

type holder struct {
	kind    holderKind
	id      int
	done    bool
	charges []string // scopes this holder is charged to (besides its own scope)
	own     lim      // the holder's own limit (conn / stream scope); unused for views
	base    usage    // the 1 conn / 1 stream (+fd)
	mem     int64    // reserved directly on the holder
	spans   []*span  // top-level spans

	// conn
	dir       network.Direction
	usefd     bool
	endpoint  int
	peer      int // -1 none
	allowlist bool
	ip        netip.Addr
	// stream
	proto, svc int // -1 none
	// view
	view string

	conn   network.ConnManagementScope
	stream network.StreamManagementScope
}

func (h *holder) total() usage {
	if h.done {
		return usage{}
	}
	u := h.base
	u.mem = h.mem
	for _, s := range h.spans {
		u.mem += s.subtree()
	}
	return u
}

type model struct {
	cfg     *config
	holders []*holder
	views   map[string]*holder
	nextID  int
}

func newModel(cfg *config) *model {
	m := &model{cfg: cfg, views: map[string]*holder{}}
	return m
}

// viewCharges: the scopes a direct reservation on scope n is charged to.
func viewCharges(n string) []string {
	if n == sSystem {
		return []string{sSystem}
	}
	return []string{n, sSystem}
}

func (m *model) view(n string) *holder {
	if h, ok := m.views[n]; ok {
		return h
	}
	h := &holder{kind: hView, view: n, charges: viewCharges(n), peer: -1, proto: -1, svc: -1}
	m.views[n] = h
	m.holders = append(m.holders, h)
	return h
}

func (m *model) limitOf(scope string) lim { return m.cfg.limitOf(scope) }

// usageOf sums the holders charged to scope.
func (m *model) usageOf(scope string) usage {
	var u usage
	for _, h := range m.holders {
		if h.done {
			continue
		}
		for _, c := range h.charges {
			if c == scope {
				u = u.add(h.total())
				break
			}
		}
	}
	return u
}

// fitsAll: would adding d to every scope in scopes stay within limits?
func (m *model) fitsAll(scopes []string, d usage, prio uint8) (bool, string) {
	for _, s := range scopes {
		if !fits(m.usageOf(s), d, m.limitOf(s), prio) {
			return false, s
		}
	}
	return true, ""
}

// scopesInUse lists every long-lived scope name that can carry usage now.
func (m *model) scopeNames() []string {
	set := map[string]bool{sSystem: true, sTransient: true, sALSystem: true, sALTransient: true}
	for _, h := range m.holders {
		for _, c := range h.charges {
			set[c] = true
		}
	}
	var out []string
	for k := range set {
		out = append(out, k)
	}
	sort.Strings(out)
	return out
}

// gc applies the documented scope collection: peer and protocol scopes without
// connections, streams or spans are dropped, and with them whatever was reserved
// directly on them.
func (m *model) gc() {
	for n, v := range m.views {
		_, isP := isPeerScope(n)
		_, isPr := isProtoScope(n)
		if !isP && !isPr {
			continue
		}
		inUse := false
		for _, s := range v.spans {
			if !s.done {
				inUse = true
			}
		}
		for _, h := range m.holders {
			if h.done || h.kind == hView {
				continue
			}
			for _, c := range h.charges {
				if c == n {
					inUse = true
				}
			}
		}
		if !inUse {
			v.mem = 0
		}
	}
}

// ---------------------------------------------------------------------------
// configuration: limit table, allow list, subnet caps, endpoints

type endpoint struct {
	name      string
	addr      string
	ip        netip.Addr // invalid: no IP
	allowAny  bool       // matches an unconstrained allow-list entry
	allowPeer int        // matches an allow-list entry constrained to this peer (-1: none)
}

type subnetCap struct {
	bits int
	cap  int
}

type prefixCap struct {
	prefix netip.Prefix
	cap    int
}

type config struct {
	limits   map[string]lim
	connLim  lim
	strLim   lim
	def      lim
	v4, v6   []subnetCap
	np4, np6 []prefixCap
	// stock: the manager gets the library's own fixed limiter (NewFixedLimiter over a limit
	// configuration built from this table) instead of the harness' table-driven Limiter
	stock bool
}

// stockLimiter builds the library's fixed limiter from the table: every scope class the model knows
// gets its explicit value, everything else is unlimited.
func stockLimiter(c *config) rcmgr.Limiter {
	v := func(x int) rcmgr.LimitVal {
		switch {
		case x == math.MaxInt:
			return rcmgr.Unlimited
		case x == 0:
			return rcmgr.BlockAllLimit
		}
		return rcmgr.LimitVal(x)
	}
	v64 := func(x int64) rcmgr.LimitVal64 {
		switch {
		case x == math.MaxInt64:
			return rcmgr.Unlimited64
		case x == 0:
			return rcmgr.BlockAllLimit64
		}
		return rcmgr.LimitVal64(x)
	}
	rl := func(l lim) rcmgr.ResourceLimits {
		return rcmgr.ResourceLimits{Streams: v(l.Streams), StreamsInbound: v(l.StreamsInbound), StreamsOutbound: v(l.StreamsOutbound),
			Conns: v(l.Conns), ConnsInbound: v(l.ConnsInbound), ConnsOutbound: v(l.ConnsOutbound), FD: v(l.FD), Memory: v64(l.Memory)}
	}
	unl := rl(unlimited)
	pc := rcmgr.PartialLimitConfig{
		System: rl(c.limitOf(sSystem)), Transient: rl(c.limitOf(sTransient)),
		AllowlistedSystem: rl(c.limitOf(sALSystem)), AllowlistedTransient: rl(c.limitOf(sALTransient)),
		ServiceDefault: unl, ServicePeerDefault: unl, ProtocolDefault: unl, ProtocolPeerDefault: unl, PeerDefault: unl,
		Service: map[string]rcmgr.ResourceLimits{}, ServicePeer: map[string]rcmgr.ResourceLimits{},
		Protocol: map[protocol.ID]rcmgr.ResourceLimits{}, ProtocolPeer: map[protocol.ID]rcmgr.ResourceLimits{},
		Peer: map[peer.ID]rcmgr.ResourceLimits{},
		Conn: rl(c.connLim), Stream: rl(c.strLim),
	}
	for k, n := range svcNames {
		pc.Service[n] = rl(c.limitOf(sSvc(k)))
		pc.ServicePeer[n] = rl(c.limitOf(sSvcPeer(k, 0)))
	}
	for j, id := range protoIDs {
		pc.Protocol[id] = rl(c.limitOf(sProto(j)))
		pc.ProtocolPeer[id] = rl(c.limitOf(sProtoPeer(j, 0)))
	}
	for i, id := range peerIDs {
		pc.Peer[id] = rl(c.limitOf(sPeer(i)))
	}
	return rcmgr.NewFixedLimiter(pc.Build(rcmgr.InfiniteLimits))
}

func (c *config) limitOf(scope string) lim {
	if l, ok := c.limits[scope]; ok {
		return l
	}
	// sub-scopes share the limit of their class
	var a, b int
	if n, _ := fmt.Sscanf(scope, "proto:%d.peer:%d", &a, &b); n == 2 {
		return c.limits[fmt.Sprintf("protopeer:%d", a)]
	}
	if n, _ := fmt.Sscanf(scope, "svc:%d.peer:%d", &a, &b); n == 2 {
		return c.limits[fmt.Sprintf("svcpeer:%d", a)]
	}
	return c.def
}

var unlimited = lim{Streams: math.MaxInt, StreamsInbound: math.MaxInt, StreamsOutbound: math.MaxInt, Conns: math.MaxInt, ConnsInbound: math.MaxInt,
	ConnsOutbound: math.MaxInt, FD: math.MaxInt, Memory: math.MaxInt64}

// limiter implements rcmgr.Limiter from the table.
type limiter struct {
	c      *config
	peers  []peer.ID
	protos []protocol.ID
	svcs   []string
	// yields: how often a limit lookup gives way to other goroutines before answering. The
	// manager consults the limiter when it creates a scope on first use; a lookup that takes
	// its time stretches that moment for the concurrent property.
	yields atomic.Int32
	// napEvery > 0: every napEvery-th lookup of a per-peer sub-scope limit (made while the manager
	// holds that protocol's or service's lock, and no other) takes napMicros of real time. Only the
	// concurrent property, which runs in real time, sets it.
	napEvery, napMicros atomic.Int32
	subLookups          atomic.Int64
	// gate: the first lookup of a per-peer sub-scope limit after it was installed announces itself and
	// then waits to be released (at most 200 ms): a harness-owned schedule point inside the manager
	gate atomic.Pointer[limGate]
}

type limGate struct {
	taken   atomic.Bool
	name    string // which lookup was held (valid once entered is closed)
	entered chan struct{}
	release chan struct{}
}

func (l *limiter) bl(name string) rcmgr.Limit {
	for i := l.yields.Load(); i > 0; i-- {
		runtime.Gosched()
	}
	if g := l.gate.Load(); g != nil && strings.Contains(name, ".peer:") && g.taken.CompareAndSwap(false, true) {
		g.name = name
		close(g.entered)
		select {
		case <-g.release:
		case <-time.After(200 * time.Millisecond):
		}
	}
	if e := l.napEvery.Load(); e > 0 && strings.Contains(name, ".peer:") && l.subLookups.Add(1)%int64(e) == 0 {
		time.Sleep(time.Duration(l.napMicros.Load()) * time.Microsecond)
	}
	x := l.c.limitOf(name)
	return &x
}

func (l *limiter) GetSystemLimits() rcmgr.Limit               { return l.bl(sSystem) }
func (l *limiter) GetTransientLimits() rcmgr.Limit            { return l.bl(sTransient) }
func (l *limiter) GetAllowlistedSystemLimits() rcmgr.Limit    { return l.bl(sALSystem) }
func (l *limiter) GetAllowlistedTransientLimits() rcmgr.Limit { return l.bl(sALTransient) }
func (l *limiter) GetServiceLimits(svc string) rcmgr.Limit {
	for k, s := range l.svcs {
		if s == svc {
			return l.bl(sSvc(k))
		}
	}
	return l.bl("?")
}
func (l *limiter) GetServicePeerLimits(svc string) rcmgr.Limit {
	for k, s := range l.svcs {
		if s == svc {
			return l.bl(fmt.Sprintf("svc:%d.peer:0", k))
		}
	}
	return l.bl("?")
}
func (l *limiter) GetProtocolLimits(p protocol.ID) rcmgr.Limit {
	for k, s := range l.protos {
		if s == p {
			return l.bl(sProto(k))
		}
	}
	return l.bl("?")
}
func (l *limiter) GetProtocolPeerLimits(p protocol.ID) rcmgr.Limit {
	for k, s := range l.protos {
		if s == p {
			return l.bl(fmt.Sprintf("proto:%d.peer:0", k))
		}
	}
	return l.bl("?")
}
func (l *limiter) GetPeerLimits(p peer.ID) rcmgr.Limit {
	for k, s := range l.peers {
		if s == p {
			return l.bl(sPeer(k))
		}
	}
	return l.bl("?")
}
func (l *limiter) GetStreamLimits(peer.ID) rcmgr.Limit { x := l.c.strLim; return &x }
func (l *limiter) GetConnLimits() rcmgr.Limit          { x := l.c.connLim; return &x }

var _ rcmgr.Limiter = (*limiter)(nil)

// subnet accounting oracle (from the option docs): a connection whose IP lies in a
// configured network prefix (most specific first) counts against that prefix only;
// otherwise it counts against every per-subnet limit of its address family.
func (c *config) limiterAdmits(open []netip.Addr, ip netip.Addr) bool {
	if !ip.IsValid() {
		return true
	}
	nps, subs := c.np4, c.v4
	if ip.Is6() {
		nps, subs = c.np6, c.v6
	}
	for _, np := range nps { // sorted most specific first
		if np.prefix.Contains(ip) {
			n := 0
			for _, o := range open {
				if o.IsValid() && o.Is6() == ip.Is6() && c.firstPrefix(o) == np.prefix {
					n++
				}
			}
			return n+1 <= np.cap
		}
	}
	for _, sc := range subs {
		pfx, err := ip.Prefix(sc.bits)
		if err != nil {
			return false
		}
		n := 0
		for _, o := range open {
			if !o.IsValid() || o.Is6() != ip.Is6() || c.firstPrefix(o).IsValid() {
				continue
			}
			if op, err := o.Prefix(sc.bits); err == nil && op == pfx {
				n++
			}
		}
		if n+1 > sc.cap {
			return false
		}
	}
	return true
}

func (c *config) firstPrefix(ip netip.Addr) netip.Prefix {
	nps := c.np4
	if ip.Is6() {
		nps = c.np6
	}
	for _, np := range nps {
		if np.prefix.Contains(ip) {
			return np.prefix
		}
	}
	return netip.Prefix{}
}
