// Package c17 checks property C17: observed addresses are advertised only with enough
// independent observers.
//
// The real observedaddrs.Manager is driven through its public surface only
// (NewManager / Start / AddrsFor / Addrs / Close): observations are emitted as
// EvtPeerIdentificationCompleted on a real event bus, connection closes arrive through
// the notifiee the manager registers on a fake network.Network. After every injected
// event (one per quiescence point) everything the manager reports is compared with a
// model that is recomputed from the history alone.
package c17

import (
	"encoding/hex"
	"fmt"
	"net"
	"slices"
	"sort"
	"strings"
	"sync"
	"sync/atomic"
	"testing"
	"testing/synctest"
	"time"

	"github.com/libp2p/go-libp2p/core/event"
	"github.com/libp2p/go-libp2p/core/network"
	"github.com/libp2p/go-libp2p/p2p/host/eventbus"
	"github.com/libp2p/go-libp2p/p2p/host/observedaddrs"
	ma "github.com/multiformats/go-multiaddr"
	"pgregory.net/rapid"

	"verif/internal/hx"
	"verif/internal/keys"
	"verif/internal/stats"
)

func TestMain(m *testing.M) {
	stats.Describe("exploration",
		"A real observedaddrs.Manager (real event bus, fake network.Network) is driven through generated histories of "+
			"observe / re-observe same / observe something else on the same connection / close / observe-after-close / close-again / "+
			"clock advance over a generated population: listen addresses on IPv4 and/or IPv6, unspecified and specific IPs; per local IP "+
			"a generated LISTEN SET = any subset of {tcp, ws, tls/ws, tls/sni/ws} on one TCP port plus any subset of {QUIC, WebTransport, "+
			"WebRTC-direct} on one UDP port in a generated order (one history in three: only tcp and QUIC(+WebTransport)), so that listen addresses share a thin waist with rests that are equal "+
			"prefixes of each other (quic-v1 | quic-v1/webtransport) or DIFFER at an overlapping position (quic-v1 | webrtc-direct, ws | tls/ws), "+
			"split over ListenAddresses / InterfaceListenAddresses (with duplicates and a bare /p2p-circuit); remote observers that share an IPv4 address (different ports), share an IPv6 /56 (different /64, /57) or "+
			"differ only in bit 55; the CONNECTION KIND of every connection drawn from {direct, relayed} (per history 0, 20, 50 or 100 % relayed): a relayed connection runs "+
			"through the drawn remote as a relay, its remote address is <relay address>/p2p/<relay>/p2p-circuit, its local address the (listen or non-listen) address of the connection to the relay, "+
			"and it is held to the same rules as a direct one with the relay's IPv4 address / IPv6 /56 as its observer group (so a relay and the peers behind it are ONE observer); observed addresses that are public, private, loopback, NAT64 (both prefixes), relayed, of the other "+
			"transport, of the other IP family, not thin-waist, or nil; connections arriving at non-listen addresses. After EVERY event "+
			"AddrsFor(every listen address), AddrsFor(every non-listen connection address), Addrs(0) and Addrs(k) are checked against "+
			"group counts recomputed from the history; the listen addresses are asked in a generated order (each history draws 1-4 query plans, every "+
			"check point uses one of them: listed / reversed / a generated permutation / its reverse, rotated, up to three addresses asked "+
			"again after the pass, Addrs before or after the pass). Every answer must be an observed thin waist followed by exactly the rest of the listen address that was asked about, "+
			"whatever was asked before; every non-empty answer is kept (the first 8 of a history plus a window of 24) and must still read the "+
			"same at every later check point. Deterministic sweeps additionally walk every threshold 1..5 across the boundary "+
			"for IPv4 and IPv6 (with direct connections only, relayed only, and one relayed member per group), report every ineligible class on direct and on relayed connections, build >3 qualifying addresses with ties, and (TestSharedWaistSweep) enumerate every >=2-member listen set on "+
			"one TCP / one UDP port x reporting member x every order of asking. "+
			"NON-TRIVIAL = at some check point an observed address has a group count within +-1 of the threshold, or more than three "+
			"addresses qualify for one local thin waist. DISTINCT = threshold + trajectory of the multiset of per-thin-waist group-count "+
			"multisets over the history.",
		"the credited report of a connection is its latest ELIGIBLE one (DESIGN C17): a later ineligible report neither counts nor withdraws the earlier one",
		"'transport inconsistent with the local address' is read at thin-waist level: different IP family or tcp/udp",
		"close = the connection reports IsClosed() and the Disconnected notification is delivered in the same step",
		"'relayed reports never count' is read as: the OBSERVED address contains /p2p-circuit; a plain observed address reported on a relayed connection (remote address contains /p2p-circuit) counts like any other report, its observer being the relay's IP (getObserver takes the IP the remote multiaddr starts with), and is withdrawn on change/close like any other",
		"the set of listen addresses is fixed for the duration of a history; the fake network returns fresh slices like the real swarm",
		"exactly min(3, #qualifying) addresses are expected per listen address (DESIGN: all qualifying ones when <= 3)",
		"an address reported for a listen address = observed thin waist + that listen address's own rest (certhashes included); 'does not change because another listen address was asked' is judged by validating every repeated answer against the model (ties stay free), 'keeps its value' by comparing each returned multiaddr with a component-wise copy taken when it was returned",
	)
	hx.Main(m)
}

// ---------------------------------------------------------------------------
// Test doubles: only what the manager calls (ListenAddresses, InterfaceListenAddresses,
// Notify, StopNotify; LocalMultiaddr, RemoteMultiaddr, IsClosed).

type fakeNet struct {
	network.Network // nil: anything else the manager might call panics loudly
	la, ifa         []ma.Multiaddr

	mu        sync.Mutex
	notifiees []network.Notifiee
}

func (n *fakeNet) ListenAddresses() []ma.Multiaddr { return slices.Clone(n.la) }
func (n *fakeNet) InterfaceListenAddresses() ([]ma.Multiaddr, error) {
	return slices.Clone(n.ifa), nil
}
func (n *fakeNet) Notify(x network.Notifiee) {
	n.mu.Lock()
	defer n.mu.Unlock()
	n.notifiees = append(n.notifiees, x)
}
func (n *fakeNet) StopNotify(x network.Notifiee) {
	n.mu.Lock()
	defer n.mu.Unlock()
	n.notifiees = slices.DeleteFunc(n.notifiees, func(y network.Notifiee) bool { return y == x })
}
func (n *fakeNet) snapshot() []network.Notifiee {
	n.mu.Lock()
	defer n.mu.Unlock()
	return slices.Clone(n.notifiees)
}

type fakeConn struct {
	network.Conn
	local, remote ma.Multiaddr
	closed        atomic.Bool
}

func (c *fakeConn) LocalMultiaddr() ma.Multiaddr  { return c.local }
func (c *fakeConn) RemoteMultiaddr() ma.Multiaddr { return c.remote }
func (c *fakeConn) IsClosed() bool                { return c.closed.Load() }

// ---------------------------------------------------------------------------
// Scenario description (plain data; everything the model needs is attached by
// construction, nothing is parsed back from multiaddrs).

type laddr struct {
	s     string // canonical multiaddr text
	tw    string // canonical thin waist text ("" = the address has none)
	rest  string // text after the thin waist
	fam   int    // 4 / 6
	proto string // "tcp" / "udp"
}

var canonMemo sync.Map // text -> canonical text (a pure function of the text; memoised because scenario generation calls it for every address)

func canon(s string) string {
	if v, ok := canonMemo.Load(s); ok {
		return v.(string)
	}
	m, err := ma.NewMultiaddr(s)
	if err != nil {
		panic(fmt.Sprintf("harness bug: bad multiaddr %q: %v", s, err))
	}
	c := m.String()
	canonMemo.Store(s, c)
	return c
}

func mkLaddr(fam int, ip, proto string, port int, rest string) laddr {
	tw := canon(fmt.Sprintf("/ip%d/%s/%s/%d", fam, ip, proto, port))
	s := canon(tw + rest)
	if !strings.HasPrefix(s, tw) {
		panic("harness bug: canonical form does not start with its thin waist: " + s)
	}
	return laddr{s: s, tw: tw, rest: s[len(tw):], fam: fam, proto: proto}
}

// wireRest is the transport part a remote peer would put into its own address or into
// the address it observed: the local rest without certificate hashes.
func wireRest(rest string) string {
	if i := strings.Index(rest, "/certhash"); i >= 0 {
		return rest[:i]
	}
	return rest
}

type connSpec struct {
	local  laddr
	remote string // multiaddr text
	group  string // observer group derived from the generated IP bytes: IPv4 address or first 56 bits of the IPv6 address
	member int
	via    string // "direct": remote is the observer's own address; "relayed": remote = <relay address>/p2p/<relay>/p2p-circuit, the observer is the relay's IP
}

type obsSpec struct {
	s     string // multiaddr text; "" = nil observation
	tw    string // thin waist text; "" = none
	fam   int
	proto string
	class string // public private loopback nat64 relayed nontw nil
}

type opKind int

const (
	opObserve opKind = iota
	opClose
	opSleep
)

type op struct {
	kind opKind
	conn int
	obs  obsSpec
	dur  time.Duration
	tag  string    // generator intent, for labels only
	q    queryPlan // how the manager is questioned at the check point after this event
}

// queryPlan is the order in which the listen addresses are put to AddrsFor at one check
// point. The zero value is "every distinct listen address once, in listed order, then
// Addrs".
type queryPlan struct {
	mode       int   // 0 listed order, 1 reversed, 2 the scenario's permutation, 3 that permutation reversed
	rot        int   // rotation applied to that order
	again      []int // positions of the order that are asked once more after the first pass (A, ..., B, ..., A)
	addrsFirst bool  // Addrs(0) / Addrs(k) before the AddrsFor pass instead of after it
}

type scenario struct {
	thresh  int
	minObs  int     // extra query Addrs(minObs)
	la, ifa []laddr // ListenAddresses / InterfaceListenAddresses
	probes  []laddr // non-listen connection addresses, queried through AddrsFor
	perm    []int   // a permutation of the distinct listen addresses (queryPlan modes 2 and 3)
	conns   []connSpec
	ops     []op
}

// order resolves a query plan over n distinct listen addresses to the sequence of
// indices to ask.
func (sc *scenario) order(q queryPlan, n int) []int {
	base := make([]int, n)
	for i := range base {
		base[i] = i
	}
	if q.mode >= 2 && len(sc.perm) == n {
		copy(base, sc.perm)
	}
	if q.mode%2 == 1 {
		slices.Reverse(base)
	}
	out := make([]int, 0, n+len(q.again))
	for i := 0; i < n; i++ {
		out = append(out, base[(i+q.rot)%n])
	}
	for _, a := range q.again {
		if n > 0 {
			out = append(out, out[a%n])
		}
	}
	return out
}

// Transport parts ("rests") that can follow a thin waist in a listen address, with their
// components attached by construction. Several of them can be bound to ONE port and then
// share a thin waist: tcp / ws / tls+ws (/ tls+sni+ws) on a TCP port, QUIC / WebTransport /
// WebRTC-direct on a UDP port.
const (
	wtRest     = "/quic-v1/webtransport/certhash/uEgNmb28"
	webrtcRest = "/webrtc-direct/certhash/uEiDDq4_xNyDorZBH3TlGazyJdOWSwvo4PUo5YHFMrvDE8g"
	sniWSRest  = "/tls/sni/example.com/ws"
)

var (
	tcpRests  = []string{"", "/ws", "/tls/ws", sniWSRest}
	udpRests  = []string{"/quic-v1", wtRest, webrtcRest}
	restParts = map[string][]string{
		"":         nil,
		"/ws":      {"/ws"},
		"/tls/ws":  {"/tls", "/ws"},
		sniWSRest:  {"/tls", "/sni/example.com", "/ws"},
		"/quic-v1": {"/quic-v1"},
		wtRest:     {"/quic-v1", "/webtransport", "/certhash/uEgNmb28"},
		webrtcRest: {"/webrtc-direct", "/certhash/uEiDDq4_xNyDorZBH3TlGazyJdOWSwvo4PUo5YHFMrvDE8g"},
	}
)

// restsDiffer: the two rests have different components at a position both of them have
// (quic-v1 vs webrtc-direct, ws vs tls/ws; NOT quic-v1 vs quic-v1/webtransport/.., NOT "" vs ws).
func restsDiffer(a, b string) bool {
	pa, okA := restParts[canonRest(a)]
	pb, okB := restParts[canonRest(b)]
	if !okA || !okB {
		panic(fmt.Sprintf("harness bug: rest %q or %q is not in the rest table", a, b))
	}
	for i := 0; i < min(len(pa), len(pb)); i++ {
		if pa[i] != pb[i] {
			return true
		}
	}
	return false
}

var canonRestMemo sync.Map

// canonRest maps the canonical text of a rest (as stored in laddr.rest) back to its table key.
func canonRest(r string) string {
	if v, ok := canonRestMemo.Load(r); ok {
		return v.(string)
	}
	for k := range restParts {
		if k == r || (k != "" && canon("/ip4/1.2.3.4/tcp/1" + k)[len("/ip4/1.2.3.4/tcp/1"):] == r) {
			canonRestMemo.Store(r, k)
			return k
		}
	}
	panic(fmt.Sprintf("harness bug: rest %q is not in the rest table", r))
}

// remote observer (fam, group index g, member m): members of one group share the IPv4
// address (different ports) or the IPv6 /56 (different /64 or /57, different host).
func remoteOf(fam, g, m int) (ip string, port int, group string) {
	port = 1000 * (m + 1)
	if fam == 4 {
		b := []byte{1, 2, byte(3 + g/100), byte(1 + g%100)}
		if g%6 == 5 {
			b = []byte{192, 168, 1, byte(20 + g%200)} // private observers count as well
		}
		return net.IP(b).String(), port, "4:" + hex.EncodeToString(b)
	}
	b := make([]byte, 16)
	b[0], b[1], b[2], b[3] = 0x26, 0x00, 0x1f, 0x00
	b[5] = 0xa0 + byte(g%2)                 // two /48s
	b[6] = byte(g / 2)                      // bits 48..55: neighbours differ in bit 55 only
	b[7] = [...]byte{0x00, 0x80, 0x01}[m%3] // bits 56..63: same /56, other /57 resp. other /64
	b[15] = byte(1 + m)
	return net.IP(b).String(), port, "6:" + hex.EncodeToString(b[:7])
}

func mkConn(local laddr, g, m int) connSpec {
	ip, port, group := remoteOf(local.fam, g, m)
	r := canon(fmt.Sprintf("/ip%d/%s/%s/%d%s", local.fam, ip, local.proto, port, wireRest(local.rest)))
	return connSpec{local: local, remote: r, group: group, member: m, via: "direct"}
}

// mkRelayedConn is a connection THROUGH the remote (g, m) acting as a relay: it runs over
// our connection to that relay, so its local address is that connection's local address
// (a listen address for QUIC / TCP with port reuse) and its remote address is the relay's
// address followed by /p2p/<relay>/p2p-circuit (circuitv2 client.Conn.RemoteMultiaddr).
// The observer that is counted is the relay's IP: same group as a direct connection from
// that remote.
func mkRelayedConn(local laddr, g, m int) connSpec {
	c := mkConn(local, g, m)
	c.remote = canon(c.remote + "/p2p/" + keys.Ed(10+m).ID.String() + "/p2p-circuit")
	c.via = "relayed"
	return c
}

func mkConnVia(local laddr, g, m int, relayed bool) connSpec {
	if relayed {
		return mkRelayedConn(local, g, m)
	}
	return mkConn(local, g, m)
}

// candidate external addresses (ip, port) per family: same IP with several ports
// (symmetric NAT shape), several IPs, one private.
var (
	okIPs   = map[int][]string{4: {"5.5.5.1", "5.5.5.1", "5.5.5.2", "192.168.7.7", "5.5.5.1", "5.5.5.3", "5.5.5.4", "5.5.5.5"}, 6: {"2600:5::1", "2600:5::1", "2600:5::2", "fd00:7::7", "2600:5::1", "2600:5::3", "2600:5::4", "2600:5::5"}}
	okPorts = []int{4001, 30001, 4001, 4001, 30002, 4001, 4001, 4001}
)

func defaultRest(proto string) string {
	if proto == "udp" {
		return "/quic-v1"
	}
	return ""
}

func okObs(fam int, proto string, i int, rest string) obsSpec {
	ip := okIPs[fam][i]
	tw := canon(fmt.Sprintf("/ip%d/%s/%s/%d", fam, ip, proto, okPorts[i]))
	class := "public"
	if strings.HasPrefix(ip, "192.168.") || strings.HasPrefix(ip, "fd00:") {
		class = "private"
	}
	return obsSpec{s: canon(tw + rest), tw: tw, fam: fam, proto: proto, class: class}
}

func other(proto string) string {
	if proto == "tcp" {
		return "udp"
	}
	return "tcp"
}

var badKinds = []string{"loopback", "nat64", "relayed", "wrongproto", "wrongfam", "nontw-dns", "nontw-bareip", "nil"}

// badObs builds the observation of an ineligible class for a connection arriving at
// local. Each class has one fixed address per (family, transport) so that a filter that
// stops working lets the address accumulate observers.
func badObs(kind string, local laddr, variant int) obsSpec {
	fam, proto, rest := local.fam, local.proto, wireRest(local.rest)
	mk := func(ip, class string) obsSpec {
		tw := canon(fmt.Sprintf("/ip%d/%s/%s/%d", fam, ip, proto, 4001))
		return obsSpec{s: canon(tw + rest), tw: tw, fam: fam, proto: proto, class: class}
	}
	switch kind {
	case "loopback":
		if fam == 4 {
			return mk([]string{"127.0.0.1", "127.8.9.10"}[variant%2], "loopback")
		}
		return mk("::1", "loopback")
	case "nat64":
		if fam == 4 { // no IPv4 form: use the loopback class instead
			return badObs("loopback", local, variant)
		}
		return mk([]string{"64:ff9b::505:501", "64:ff9b:1::505:501"}[variant%2], "nat64")
	case "relayed":
		o := okObs(fam, proto, 0, rest)
		o.s = canon(o.s + "/p2p/" + keys.Ed(7).ID.String() + "/p2p-circuit")
		o.class = "relayed"
		return o
	case "wrongproto":
		return okObs(fam, other(proto), 0, defaultRest(other(proto)))
	case "wrongfam":
		return okObs(10-fam, proto, 0, rest)
	case "nontw-dns":
		return obsSpec{s: canon(fmt.Sprintf("/dns%d/example.com/%s/4001%s", fam, proto, rest)), class: "nontw"}
	case "nontw-bareip":
		return obsSpec{s: canon(fmt.Sprintf("/ip%d/%s", fam, okIPs[fam][0])), class: "nontw"}
	default:
		return obsSpec{class: "nil"}
	}
}

// ---------------------------------------------------------------------------
// The model: written from the statement, evaluated over the history.

type mconn struct {
	open     bool
	credited string // observed thin waist currently credited to the connection ("" = none)
}

type model struct {
	sc       *scenario
	listenTW map[string]bool
	conns    map[int]*mconn
}

func newModel(sc *scenario) *model {
	m := &model{sc: sc, listenTW: map[string]bool{}, conns: map[int]*mconn{}}
	for _, l := range append(slices.Clone(sc.la), sc.ifa...) {
		if l.tw != "" {
			m.listenTW[l.tw] = true
		}
	}
	return m
}

func (m *model) conn(i int) *mconn {
	c := m.conns[i]
	if c == nil {
		c = &mconn{open: true}
		m.conns[i] = c
	}
	return c
}

// eligible: does this report count at all?
func (m *model) eligible(c connSpec, o obsSpec) bool {
	if c.local.tw == "" || !m.listenTW[c.local.tw] {
		return false // the connection did not arrive at a listen address
	}
	switch o.class {
	case "public", "private":
	default:
		return false // loopback, NAT64, relayed, not a thin-waist address, nil
	}
	if o.tw == "" {
		return false
	}
	return o.fam == c.local.fam && o.proto == c.local.proto // transport consistent with the local address
}

func (m *model) apply(o op) {
	switch o.kind {
	case opObserve:
		c := m.conn(o.conn)
		if !c.open {
			return // only open connections vouch for anything
		}
		if m.eligible(m.sc.conns[o.conn], o.obs) {
			c.credited = o.obs.tw // replaces whatever the connection reported before
		}
	case opClose:
		c := m.conn(o.conn)
		c.open = false
		c.credited = ""
	}
}

// counts returns local thin waist -> observed thin waist -> number of distinct
// observer groups among the open connections currently crediting it, plus the number of
// crediting connections (for labels).
func (m *model) counts() (groups map[string]map[string]int, nconns map[string]map[string]int) {
	sets := map[string]map[string]map[string]bool{}
	nconns = map[string]map[string]int{}
	for i, c := range m.conns {
		if !c.open || c.credited == "" {
			continue
		}
		k := m.sc.conns[i].local.tw
		if sets[k] == nil {
			sets[k] = map[string]map[string]bool{}
			nconns[k] = map[string]int{}
		}
		if sets[k][c.credited] == nil {
			sets[k][c.credited] = map[string]bool{}
		}
		sets[k][c.credited][m.sc.conns[i].group] = true
		nconns[k][c.credited]++
	}
	groups = map[string]map[string]int{}
	for k, byObs := range sets {
		groups[k] = map[string]int{}
		for o, g := range byObs {
			groups[k][o] = len(g)
		}
	}
	return groups, nconns
}

// viaCounts is bookkeeping for labels only: the group counts that the DIRECT connections
// alone would give, and whether some observer group vouches for one address both on a
// direct and on a relayed connection (the relay itself and a peer behind it).
func (m *model) viaCounts() (direct map[string]map[string]int, mixed bool) {
	type key struct{ local, obs, group string }
	seen := map[key]map[string]bool{}
	direct = map[string]map[string]int{}
	for i, c := range m.conns {
		if !c.open || c.credited == "" {
			continue
		}
		cs := m.sc.conns[i]
		k := key{cs.local.tw, c.credited, cs.group}
		if seen[k] == nil {
			seen[k] = map[string]bool{}
		}
		if cs.via == "direct" && !seen[k]["direct"] {
			if direct[cs.local.tw] == nil {
				direct[cs.local.tw] = map[string]int{}
			}
			direct[cs.local.tw][c.credited]++
		}
		seen[k][cs.via] = true
		if len(seen[k]) > 1 {
			mixed = true
		}
	}
	return direct, mixed
}

func sortedKeys[V any](m map[string]V) []string {
	ks := make([]string, 0, len(m))
	for k := range m {
		ks = append(ks, k)
	}
	sort.Strings(ks)
	return ks
}

const maxPerLocal = 3

func qualifying(cnt map[string]int, thresh int) int {
	q := 0
	for _, c := range cnt {
		if c >= thresh {
			q++
		}
	}
	return q
}

// validateFor judges the answer for ONE local address whose thin waist has the group
// counts cnt and whose remainder is rest. Ties at the cut are free.
func validateFor(cnt map[string]int, thresh int, rest string, got []string) string {
	keysSorted := sortedKeys(cnt)
	seen := map[string]bool{}
	prev, minRet := 1<<30, 1<<30
	for i, g := range got {
		obs, c := "", 0
		for _, o := range keysSorted {
			if o+rest == g {
				obs, c = o, cnt[o]
				break
			}
		}
		if obs == "" {
			for _, o := range keysSorted {
				if strings.HasPrefix(g, o+"/") || g == o {
					return fmt.Sprintf("returned %s = observed thin waist %s followed by %q, but the rest of this listen address is %q (%d observer group(s) for that thin waist, threshold %d)", g, o, g[len(o):], rest, cnt[o], thresh)
				}
			}
			return fmt.Sprintf("returned %s, which no open connection at this local address currently vouches for (0 observer groups, threshold %d)", g, thresh)
		}
		if seen[obs] {
			return fmt.Sprintf("returned %s twice", g)
		}
		seen[obs] = true
		if c < thresh {
			return fmt.Sprintf("returned %s with %d distinct observer group(s) on open connections, threshold is %d", g, c, thresh)
		}
		if c > prev {
			return fmt.Sprintf("not most-observed first: position %d (%s) has %d groups, the one before has %d", i, g, c, prev)
		}
		prev = c
		minRet = min(minRet, c)
	}
	if len(got) > maxPerLocal {
		return fmt.Sprintf("returned %d addresses for one local address (max %d)", len(got), maxPerLocal)
	}
	if want := min(maxPerLocal, qualifying(cnt, thresh)); len(got) != want {
		return fmt.Sprintf("returned %d address(es) although %d qualify (want %d)", len(got), qualifying(cnt, thresh), want)
	}
	for _, o := range keysSorted {
		if !seen[o] && cnt[o] >= thresh && cnt[o] > minRet {
			return fmt.Sprintf("omitted %s (%d groups) while returning an address with only %d", o+rest, cnt[o], minRet)
		}
	}
	return ""
}

// validateAll judges Addrs(k): the union over all (distinct) listen addresses.
func validateAll(groups map[string]map[string]int, thresh int, listen []laddr, got []string) string {
	// how many listen addresses may legitimately produce a given text / must produce it
	may := map[string]int{}
	must := map[string]bool{}
	total := 0
	for _, l := range listen {
		if l.tw == "" {
			continue
		}
		cnt := groups[l.tw]
		total += min(maxPerLocal, qualifying(cnt, thresh))
		for o, c := range cnt {
			if c < thresh {
				continue
			}
			greater, geOthers := 0, 0
			for o2, c2 := range cnt {
				if c2 > c {
					greater++
				}
				if o2 != o && c2 >= c {
					geOthers++
				}
			}
			if greater < maxPerLocal { // member of at least one valid top-3
				may[o+l.rest]++
			}
			if geOthers < maxPerLocal { // member of every valid top-3
				must[o+l.rest] = true
			}
		}
	}
	mult := map[string]int{}
	for _, g := range got {
		mult[g]++
	}
	for _, g := range sortedKeys(mult) {
		if mult[g] > may[g] {
			return fmt.Sprintf("returned %s %d time(s); the history justifies it for %d listen address(es) (threshold %d)", g, mult[g], may[g], thresh)
		}
	}
	for _, g := range sortedKeys(must) {
		if mult[g] == 0 {
			return fmt.Sprintf("did not return %s, which is among the three most observed qualifying addresses of a listen address (threshold %d)", g, thresh)
		}
	}
	if len(got) != total {
		return fmt.Sprintf("returned %d addresses, expected %d (sum over listen addresses of min(3, qualifying))", len(got), total)
	}
	return ""
}

// ---------------------------------------------------------------------------
// Runner: must be called inside a synctest bubble.

type outcome struct {
	labels     map[string]bool
	traj       []string
	nontrivial bool
	trace      []string
}

func strs(as []ma.Multiaddr) []string {
	out := make([]string, len(as))
	for i, a := range as {
		out[i] = a.String()
	}
	return out
}

func distinctListen(sc *scenario) []laddr {
	var out []laddr
	seen := map[string]bool{}
	for _, l := range append(slices.Clone(sc.la), sc.ifa...) {
		if !seen[l.s] {
			seen[l.s] = true
			out = append(out, l)
		}
	}
	return out
}

func toMA(ls []laddr) []ma.Multiaddr {
	out := make([]ma.Multiaddr, len(ls))
	for i, l := range ls {
		out[i] = ma.StringCast(l.s)
	}
	return out
}

func runScenario(sc *scenario) (out outcome, failure string) {
	out.labels = map[string]bool{}
	prevThresh := observedaddrs.ActivationThresh
	observedaddrs.ActivationThresh = sc.thresh
	defer func() { observedaddrs.ActivationThresh = prevThresh }()

	bus := eventbus.NewBus()
	fn := &fakeNet{la: toMA(sc.la), ifa: toMA(sc.ifa)}
	mgr, err := observedaddrs.NewManager(bus, fn)
	if err != nil {
		return out, "NewManager: " + err.Error()
	}
	mgr.Start(fn)
	defer mgr.Close()
	em, err := bus.Emitter(new(event.EvtPeerIdentificationCompleted))
	if err != nil {
		return out, "emitter: " + err.Error()
	}
	defer em.Close()
	synctest.Wait()
	if len(fn.snapshot()) == 0 {
		return out, "harness: the manager did not register a notifiee on the network"
	}

	mod := newModel(sc)
	listen := distinctListen(sc)
	listenMA := toMA(listen)
	probesMA := toMA(sc.probes)
	fconns := map[int]*fakeConn{}
	getConn := func(i int) *fakeConn {
		if c := fconns[i]; c != nil {
			return c
		}
		c := &fakeConn{local: ma.StringCast(sc.conns[i].local.s), remote: ma.StringCast(sc.conns[i].remote)}
		fconns[i] = c
		return c
	}
	twShared := map[string]int{}
	for _, l := range listen {
		if l.tw != "" {
			twShared[l.tw]++
		}
	}
	for _, n := range twShared {
		if n > 1 {
			out.labels["listen:shared-thin-waist"] = true
		}
	}
	// thin waist -> one pair (i < j, indices into listen) of listen addresses sharing it whose rests differ at an overlapping position
	differPair := map[string][2]int{}
	for i, a := range listen {
		for j := i + 1; j < len(listen); j++ {
			if b := listen[j]; a.tw != "" && a.tw == b.tw && restsDiffer(a.rest, b.rest) {
				if _, ok := differPair[a.tw]; !ok {
					differPair[a.tw] = [2]int{i, j}
				}
			}
		}
	}
	if len(differPair) > 0 {
		out.labels["listen:shared-waist-rests-differ"] = true
	}

	// Values handed out earlier: the slice as returned and an element-wise copy made at that
	// moment. A report the caller holds must keep its value whatever is asked or happens later.
	// a question is an int: i >= 0 = AddrsFor(listen[i]), -1-k = Addrs(k); rendered only for failure messages
	qText := func(q int) string {
		if q < 0 {
			return fmt.Sprintf("Addrs(%d)", -1-q)
		}
		return "AddrsFor(" + listen[q].s + ")"
	}
	qTexts := func(qs []int) []string {
		out := make([]string, len(qs))
		for i, q := range qs {
			out[i] = qText(q)
		}
		return out
	}
	type heldAnswer struct {
		what     int
		step     int
		got, cpy []ma.Multiaddr
	}
	var held []heldAnswer
	const heldFirst, heldMax = 8, 32 // the first 8 non-empty answers stay for the whole history, the rest is a window
	hold := func(what int, step int, got []ma.Multiaddr) {
		if len(got) == 0 {
			return
		}
		cpy := make([]ma.Multiaddr, len(got))
		for i, a := range got {
			cpy[i] = slices.Clone(a)
		}
		if len(held) == heldMax {
			held = slices.Delete(held, heldFirst, heldFirst+1)
		}
		held = append(held, heldAnswer{what: what, step: step, got: got, cpy: cpy})
	}
	verifyHeld := func(step int, asked []int) string {
		for _, h := range held {
			for i := range h.got {
				if !h.got[i].Equal(h.cpy[i]) {
					return fmt.Sprintf("the answer %v that %s returned at check point %d now reads %v (element %d changed in the caller's hands); queries at this check point: %v", strs(h.cpy), qText(h.what), h.step, strs(h.got), i, qTexts(asked))
				}
			}
			if h.step != step {
				out.labels["held:across-event"] = true
			}
		}
		return ""
	}

	check := func(step int, q queryPlan) string {
		groups, nconns := mod.counts()
		// coverage bookkeeping
		direct, mixedVia := mod.viaCounts()
		if mixedVia {
			out.labels["same-group:relayed+direct-conns"] = true
		}
		var state []string
		for _, k := range sortedKeys(groups) {
			var cs []int
			q := 0
			for o, c := range groups[k] {
				cs = append(cs, c)
				if c >= sc.thresh {
					q++
				}
				switch {
				case c == sc.thresh:
					out.labels["count==T"] = true
					out.nontrivial = true
				case c == sc.thresh-1:
					out.labels["count==T-1"] = true
					out.nontrivial = true
				case c == sc.thresh+1:
					out.labels["count==T+1"] = true
					out.nontrivial = true
				}
				if d := direct[k][o]; d < c {
					out.labels["relayed-conn:counted"] = true // some observer group vouches on relayed connections only
					if c >= sc.thresh && d < sc.thresh {
						out.labels["advertised:needs-relayed-conns"] = true
					}
					if c == sc.thresh-1 {
						out.labels["relayed-conn:counted@T-1"] = true
					}
				}
				if nconns[k][o] > c {
					out.labels["same-group-several-conns"] = true
					if c == sc.thresh-1 {
						out.labels["same-group-several-conns@T-1"] = true
					}
				}
			}
			sort.Sort(sort.Reverse(sort.IntSlice(cs)))
			if q > maxPerLocal {
				out.labels[">3-qualify"] = true
				out.nontrivial = true
				if cs[maxPerLocal-1] == cs[maxPerLocal] {
					out.labels[">3-qualify:tie-at-cut"] = true
				}
				if cs[0] != cs[q-1] {
					out.labels[">3-qualify:unequal-counts"] = true
				}
			}
			if q > 0 {
				out.labels["advertised"] = true
			}
			if q > 1 {
				out.labels["advertised:several"] = true
			}
			state = append(state, fmt.Sprint(cs))
		}
		sort.Strings(state)
		if s := strings.Join(state, "|"); len(out.traj) == 0 || out.traj[len(out.traj)-1] != s {
			out.traj = append(out.traj, s)
		}

		var asked []int // the questions of this check point, in order (for failure messages)
		askAll := func() string {
			for _, k := range []int{0, sc.minObs} {
				thresh := sc.thresh
				if k != 0 {
					thresh = k
				}
				asked = append(asked, -1-k)
				gotMA := mgr.Addrs(k)
				got := strs(gotMA)
				if msg := validateAll(groups, thresh, listen, got); msg != "" {
					return fmt.Sprintf("Addrs(%d) = %v: %s; group counts: %v; queries at this check point: %v", k, got, msg, groups, qTexts(asked))
				}
				hold(-1-k, step, gotMA)
			}
			return ""
		}
		if q.addrsFirst {
			out.labels["query:addrs-before-addrsfor"] = true
			if msg := askAll(); msg != "" {
				return msg
			}
		}
		order := sc.order(q, len(listen))
		first := map[int][]string{} // listen index -> its first answer at this check point
		pos := map[int]int{}        // listen index -> position of its first query
		for n, i := range order {
			l := listen[i]
			asked = append(asked, i)
			gotMA := mgr.AddrsFor(listenMA[i])
			got := strs(gotMA)
			prev, again := first[i]
			if !again {
				first[i], pos[i] = got, n
				if n > 0 && order[n-1] > i {
					out.labels["query:order-not-as-listed"] = true
				}
			} else {
				out.labels["query:asked-again"] = true
			}
			if l.tw == "" {
				if len(got) != 0 {
					return fmt.Sprintf("AddrsFor(%s) = %v for an address without thin waist", l.s, got)
				}
				continue
			}
			if msg := validateFor(groups[l.tw], sc.thresh, l.rest, got); msg != "" {
				if again && !slices.Equal(prev, got) {
					msg += fmt.Sprintf(" [the same question was answered %v earlier at this check point, with no event in between]", prev)
				}
				return fmt.Sprintf("AddrsFor(%s) = %v: %s; group counts for this thin waist: %v; queries at this check point: %v", l.s, got, msg, groups[l.tw], qTexts(asked))
			}
			if again && len(got) > 0 {
				out.labels["query:asked-again:advertised"] = true
			}
			hold(i, step, gotMA)
		}
		for _, k := range sortedKeys(differPair) {
			if qualifying(groups[k], sc.thresh) > 0 {
				out.labels["shared-waist-rests-differ:advertised"] = true
				if p := differPair[k]; pos[p[0]] < pos[p[1]] {
					out.labels["shared-waist-rests-differ:advertised:asked-in-listed-order"] = true
				} else {
					out.labels["shared-waist-rests-differ:advertised:asked-in-opposite-order"] = true
				}
			}
		}
		for i, p := range sc.probes {
			if got := strs(mgr.AddrsFor(probesMA[i])); len(got) != 0 {
				return fmt.Sprintf("AddrsFor(%s) = %v although %s is not a listen address: reports on such connections never count", p.s, got, p.tw)
			}
		}
		if !q.addrsFirst {
			if msg := askAll(); msg != "" {
				return msg
			}
		}
		return verifyHeld(step, asked)
	}

	if msg := check(-1, queryPlan{}); msg != "" {
		return out, "before any event: " + msg
	}
	for i, o := range sc.ops {
		switch o.kind {
		case opObserve:
			cs := sc.conns[o.conn]
			fc := getConn(o.conn)
			var observed ma.Multiaddr
			if o.obs.s != "" {
				observed = ma.StringCast(o.obs.s) // a fresh value per report, as identify delivers it
			}
			out.trace = append(out.trace, fmt.Sprintf("%d: conn#%d[local %s, remote %s, group %s] reports %q (%s, %s)", i, o.conn, cs.local.s, cs.remote, cs.group, o.obs.s, o.obs.class, o.tag))
			if err := em.Emit(event.EvtPeerIdentificationCompleted{Conn: fc, ObservedAddr: observed}); err != nil {
				return out, "emit: " + err.Error()
			}
			elig := mod.eligible(cs, o.obs)
			out.labels["op:"+o.tag] = true
			out.labels["obs:"+o.obs.class] = true
			out.labels["conn:"+cs.via] = true
			if cs.via == "relayed" {
				out.labels["relayed-conn:obs:"+o.obs.class] = true
			}
			if !elig && (o.obs.class == "public" || o.obs.class == "private") {
				if !mod.listenTW[cs.local.tw] {
					out.labels["obs:conn-not-at-listen-addr"] = true
				} else if o.obs.fam != cs.local.fam {
					out.labels["obs:wrong-family"] = true
				} else {
					out.labels["obs:wrong-transport"] = true
				}
			}
			if mc := mod.conn(o.conn); mc.open && mc.credited != "" {
				if elig && mc.credited != o.obs.tw {
					out.labels["replace:eligible-by-eligible"] = true
				}
				if !elig {
					out.labels["ineligible-after-eligible"] = true
				}
			}
		case opClose:
			fc := getConn(o.conn)
			out.trace = append(out.trace, fmt.Sprintf("%d: conn#%d[%s] closes (%s)", i, o.conn, sc.conns[o.conn].via, o.tag))
			out.labels["op:"+o.tag] = true
			if mc := mod.conn(o.conn); mc.open && mc.credited != "" {
				out.labels["close:credited-conn"] = true
				if cs := sc.conns[o.conn]; cs.via == "relayed" {
					out.labels["close:credited-relayed-conn"] = true
					if g, n := mod.counts(); g[cs.local.tw][mc.credited] == sc.thresh && n[cs.local.tw][mc.credited] == sc.thresh {
						out.labels["close:credited-relayed-conn:falls-below-T"] = true
					}
				}
			}
			fc.closed.Store(true)
			for _, nf := range fn.snapshot() {
				nf.Disconnected(fn, fc)
			}
		case opSleep:
			out.trace = append(out.trace, fmt.Sprintf("%d: clock +%v", i, o.dur))
			out.labels["op:sleep"] = true
			time.Sleep(o.dur)
		}
		synctest.Wait()
		mod.apply(o)
		if msg := check(i, o.q); msg != "" {
			return out, fmt.Sprintf("after step %d (threshold %d; listen %v + %v):\n  %s\nhistory:\n  %s", i, sc.thresh, laStrs(sc.la), laStrs(sc.ifa), msg, strings.Join(out.trace, "\n  "))
		}
	}
	return out, ""
}

func laStrs(ls []laddr) []string {
	out := make([]string, len(ls))
	for i, l := range ls {
		out[i] = l.s
	}
	return out
}

func (o outcome) labelList(extra ...string) []string {
	ls := sortedKeys(o.labels)
	return append(ls, extra...)
}

// ---------------------------------------------------------------------------
// Generator.

var localIPs = map[int][]string{4: {"0.0.0.0", "192.168.1.10", "7.7.7.7", "10.0.0.7"}, 6: {"::", "fd00::10", "2600:9::10"}}

// drawListenSet draws the listen addresses of one local IP: any subset of the TCP rests
// on the TCP port and any subset of the UDP rests on the UDP port (not both empty), in a
// generated order (the real swarm reports them in map order). One history in three is
// "plain": only tcp and QUIC(+WebTransport) listeners.
func drawListenSet(rt *rapid.T, plain bool, fam int, ip string, tcpPort, udpPort int) []laddr {
	var tcpMask, udpMask int
	if plain { // the common deployment: tcp and/or QUIC(+WebTransport)
		tcpMask = rapid.IntRange(0, 1).Draw(rt, "tcpRests")
		udpMask = rapid.SampledFrom([]int{0, 1, 3, 2}).Draw(rt, "udpRests")
	} else {
		tcpMask = rapid.IntRange(0, 1<<len(tcpRests)-1).Draw(rt, "tcpRests")
		udpMask = rapid.IntRange(0, 1<<len(udpRests)-1).Draw(rt, "udpRests")
	}
	if tcpMask == 0 && udpMask == 0 {
		tcpMask = 1
	}
	var ls []laddr
	for i, r := range tcpRests {
		if tcpMask&(1<<i) != 0 {
			ls = append(ls, mkLaddr(fam, ip, "tcp", tcpPort, r))
		}
	}
	for i, r := range udpRests {
		if udpMask&(1<<i) != 0 {
			ls = append(ls, mkLaddr(fam, ip, "udp", udpPort, r))
		}
	}
	if len(ls) > 1 && rapid.Bool().Draw(rt, "shuffleListenSet") {
		ls = rapid.Permutation(ls).Draw(rt, "listenSetOrder")
	}
	return ls
}

func drawQueryPlan(rt *rapid.T, nListen int) queryPlan {
	q := queryPlan{mode: rapid.IntRange(0, 3).Draw(rt, "queryMode")}
	if nListen > 1 {
		q.rot = rapid.IntRange(0, nListen-1).Draw(rt, "queryRot")
		for n := rapid.IntRange(0, 3).Draw(rt, "queryAgain"); n > 0; n-- {
			q.again = append(q.again, rapid.IntRange(0, nListen-1).Draw(rt, "queryAgainPos"))
		}
	}
	q.addrsFirst = rapid.IntRange(0, 3).Draw(rt, "addrsFirst") == 3
	return q
}

type genConn struct {
	open bool
	last obsSpec
}

func drawScenario(rt *rapid.T) *scenario {
	sc := &scenario{}
	sc.thresh = rapid.SampledFrom([]int{1, 2, 2, 3, 3, 4, 4, 5}).Draw(rt, "thresh")
	sc.minObs = rapid.IntRange(1, 5).Draw(rt, "minObs")
	var fams []int
	switch rapid.IntRange(0, 3).Draw(rt, "families") {
	case 0:
		fams = []int{4}
	case 1:
		fams = []int{6}
	default:
		fams = []int{4, 6}
	}
	tcpPort := rapid.SampledFrom([]int{4001, 4002}).Draw(rt, "tcpPort")
	udpPort := rapid.SampledFrom([]int{4001, 4003}).Draw(rt, "udpPort")
	plainListen := rapid.IntRange(0, 2).Draw(rt, "listenStyle") == 2
	for _, fam := range fams {
		pool := localIPs[fam]
		nIPs := rapid.IntRange(1, 2).Draw(rt, "nLocalIPs")
		i0 := rapid.IntRange(0, len(pool)-1).Draw(rt, "localIP")
		for j := 0; j < nIPs; j++ {
			ip := pool[(i0+j)%len(pool)]
			ls := drawListenSet(rt, plainListen, fam, ip, tcpPort, udpPort)
			if ip == "0.0.0.0" || ip == "::" {
				sc.la = append(sc.la, ls...)
			} else {
				sc.ifa = append(sc.ifa, ls...)
				if rapid.Bool().Draw(rt, "alsoInListenAddresses") {
					sc.la = append(sc.la, ls...)
				}
			}
		}
		// connection addresses that are NOT listen addresses: ephemeral port on a listen IP, listen port on another IP
		firstIP := pool[i0]
		otherIP := map[int]string{4: "172.16.5.5", 6: "fd00:5::5"}[fam]
		sc.probes = append(sc.probes,
			mkLaddr(fam, firstIP, "tcp", 50123, ""),
			mkLaddr(fam, otherIP, "udp", udpPort, "/quic-v1"),
			mkLaddr(fam, otherIP, "tcp", tcpPort, ""))
	}
	if rapid.IntRange(0, 3).Draw(rt, "circuitListener") == 0 {
		sc.la = append(sc.la, laddr{s: "/p2p-circuit"})
	}
	var listenLocals []laddr
	nListen := len(distinctListen(sc))
	for _, l := range distinctListen(sc) {
		if l.tw != "" {
			listenLocals = append(listenLocals, l)
		}
	}
	perm := make([]int, nListen)
	for i := range perm {
		perm[i] = i
	}
	sc.perm = rapid.Permutation(perm).Draw(rt, "queryPerm")
	hot := rapid.IntRange(0, len(listenLocals)-1).Draw(rt, "hotLocal")
	nGroups := rapid.IntRange(2, 7).Draw(rt, "observerGroups")
	nOK := rapid.IntRange(1, 8).Draw(rt, "candidateExternalAddrs")
	spread := rapid.Bool().Draw(rt, "spreadObservations") // uniform over the candidates (many addresses) or biased to the first ones (many observers)
	hotPct := rapid.SampledFrom([]int{5, 7, 9}).Draw(rt, "hotLocalShare")
	// connection kind: share (in tenths) of the connections of this history that are RELAYED,
	// i.e. run through the drawn remote as a relay (remote address .../p2p/<relay>/p2p-circuit)
	relayShare := rapid.SampledFrom([]int{0, 0, 2, 2, 5, 10}).Draw(rt, "relayedConnShare")

	drawObs := func(local laddr) obsSpec {
		if rapid.IntRange(0, 99).Draw(rt, "obsClass") < 78 {
			i := rapid.IntRange(0, nOK-1).Draw(rt, "obsA")
			if !spread {
				i = min(i, rapid.IntRange(0, nOK-1).Draw(rt, "obsB"))
			}
			return okObs(local.fam, local.proto, i, wireRest(local.rest))
		}
		kind := badKinds[rapid.IntRange(0, len(badKinds)-1).Draw(rt, "badKind")]
		return badObs(kind, local, rapid.IntRange(0, 1).Draw(rt, "badVariant"))
	}

	var gen []*genConn
	pick := func(want bool, label string) int { // index of a connection with open == want, or -1
		var idx []int
		for i, c := range gen {
			if c.open == want {
				idx = append(idx, i)
			}
		}
		if len(idx) == 0 {
			return -1
		}
		return idx[rapid.IntRange(0, len(idx)-1).Draw(rt, label)]
	}
	nops := rapid.IntRange(1, 60).Draw(rt, "nops")
	for len(sc.ops) < nops {
		k := rapid.IntRange(0, 99).Draw(rt, "opKind")
		switch {
		case k >= 45 && k < 60: // the connection changes its report
			if i := pick(true, "conn"); i >= 0 {
				o := drawObs(sc.conns[i].local)
				gen[i].last = o
				sc.ops = append(sc.ops, op{kind: opObserve, conn: i, obs: o, tag: "observe-again"})
				continue
			}
		case k >= 60 && k < 68: // the connection repeats its report
			if i := pick(true, "conn"); i >= 0 {
				sc.ops = append(sc.ops, op{kind: opObserve, conn: i, obs: gen[i].last, tag: "reobserve-same"})
				continue
			}
		case k >= 68 && k < 88:
			if i := pick(true, "conn"); i >= 0 {
				gen[i].open = false
				sc.ops = append(sc.ops, op{kind: opClose, conn: i, tag: "close"})
				continue
			}
		case k >= 88 && k < 94:
			if i := pick(false, "closedConn"); i >= 0 {
				sc.ops = append(sc.ops, op{kind: opObserve, conn: i, obs: drawObs(sc.conns[i].local), tag: "observe-after-close"})
				continue
			}
		case k >= 94 && k < 97:
			if i := pick(false, "closedConn"); i >= 0 {
				sc.ops = append(sc.ops, op{kind: opClose, conn: i, tag: "close-again"})
				continue
			}
		case k >= 97:
			d := rapid.SampledFrom([]time.Duration{time.Second, 61 * time.Second, 31 * time.Minute, 3 * time.Hour}).Draw(rt, "sleep")
			sc.ops = append(sc.ops, op{kind: opSleep, dur: d})
			continue
		}
		// new connection + first report
		var local laddr
		switch r := rapid.IntRange(0, 9).Draw(rt, "localChoice"); {
		case r < hotPct:
			local = listenLocals[hot]
		case r < 9 || hotPct == 9 && rapid.Bool().Draw(rt, "otherLocal"):
			local = listenLocals[rapid.IntRange(0, len(listenLocals)-1).Draw(rt, "local")]
		default:
			local = sc.probes[rapid.IntRange(0, len(sc.probes)-1).Draw(rt, "nonListenLocal")]
		}
		g, mem := rapid.IntRange(0, nGroups-1).Draw(rt, "group"), rapid.IntRange(0, 2).Draw(rt, "member")
		relayed := relayShare == 10 || relayShare > 0 && rapid.IntRange(0, 9).Draw(rt, "relayedConn") < relayShare
		c := mkConnVia(local, g, mem, relayed)
		sc.conns = append(sc.conns, c)
		o := drawObs(local)
		gen = append(gen, &genConn{open: true, last: o})
		sc.ops = append(sc.ops, op{kind: opObserve, conn: len(sc.conns) - 1, obs: o, tag: "new-conn"})
	}
	// a few generated ways of asking per history; every check point uses one of them
	plans := make([]queryPlan, rapid.IntRange(1, 4).Draw(rt, "queryPlans"))
	for i := range plans {
		plans[i] = drawQueryPlan(rt, nListen)
	}
	for i := range sc.ops {
		sc.ops[i].q = plans[0]
		if len(plans) > 1 {
			sc.ops[i].q = plans[rapid.IntRange(0, len(plans)-1).Draw(rt, "queryPlan")]
		}
	}
	return sc
}

func (sc *scenario) describe() map[string]any {
	var ops []string
	for _, o := range sc.ops {
		switch o.kind {
		case opObserve:
			c := sc.conns[o.conn]
			ops = append(ops, fmt.Sprintf("c%d[%s <- %s] reports %q (%s)", o.conn, c.local.s, c.remote, o.obs.s, o.obs.class))
		case opClose:
			ops = append(ops, fmt.Sprintf("c%d closes", o.conn))
		case opSleep:
			ops = append(ops, fmt.Sprintf("clock +%v", o.dur))
		}
	}
	return map[string]any{"ActivationThresh": sc.thresh, "ListenAddresses": laStrs(sc.la), "InterfaceListenAddresses": laStrs(sc.ifa), "queryPermutation": sc.perm, "ops": ops}
}

// TestHistories: generated histories against the model.
func TestHistories(t *testing.T) {
	name := t.Name()
	hx.Check(t, 20000, 1500000, 0, func(rt *rapid.T) {
		sc := drawScenario(rt)
		var out outcome
		var failure string
		hx.Bubble(t, rt, func() {
			out, failure = runScenario(sc)
		})
		if failure != "" {
			rt.Fatalf("%s", failure)
		}
		fams := map[int]bool{}
		for _, l := range distinctListen(sc) {
			if l.tw != "" {
				fams[l.fam] = true
			}
		}
		fam := "fam:v4"
		if fams[4] && fams[6] {
			fam = "fam:both"
		} else if fams[6] {
			fam = "fam:v6"
		}
		v6same56 := map[string]map[int]bool{}
		for _, c := range sc.conns {
			if c.local.fam == 6 {
				if v6same56[c.group] == nil {
					v6same56[c.group] = map[int]bool{}
				}
				v6same56[c.group][c.member] = true
			}
		}
		extra := []string{fam, fmt.Sprintf("T=%d", sc.thresh)}
		for _, ms := range v6same56 {
			if len(ms) > 1 {
				extra = append(extra, "v6:same-/56-different-/64")
				break
			}
		}
		stats.Case(name, fmt.Sprintf("T=%d;%s", sc.thresh, strings.Join(out.traj, ";")), out.nontrivial, out.labelList(extra...)...)
		if stats.WantSample(name) {
			stats.Sample(name, sc.describe())
		}
	})
}

// ---------------------------------------------------------------------------
// Deterministic sweeps through the same runner and model.

func bubbleRun(t *testing.T, sc *scenario) (outcome, string) {
	var out outcome
	var failure string
	synctest.Test(t, func(*testing.T) {
		out, failure = runScenario(sc)
	})
	return out, failure
}

func sweepListen(fam int) (la []laddr, tcp, quic, wt laddr) {
	ip := map[int]string{4: "0.0.0.0", 6: "::"}[fam]
	tcp = mkLaddr(fam, map[int]string{4: "192.168.1.10", 6: "fd00::10"}[fam], "tcp", 4001, "")
	quic = mkLaddr(fam, ip, "udp", 4001, "/quic-v1")
	wt = mkLaddr(fam, ip, "udp", 4001, wtRest)
	return []laddr{tcp, quic, wt}, tcp, quic, wt
}

// TestBoundarySweep walks one external address across the threshold, for every
// threshold 1..5, IPv4 and IPv6, TCP and QUIC+WebTransport: every group first sends a
// second connection from the same group (must not count twice), connections are then
// closed one by one (the first close of each group must not lower the count). Each walk
// is done with direct connections only, with relayed connections only (every observer is
// a relay) and with member 1 of every group relayed (a relay and peers behind it).
func TestBoundarySweep(t *testing.T) {
	name := t.Name()
	idx := 0
	for _, fam := range []int{4, 6} {
		for thresh := 1; thresh <= 5; thresh++ {
			for variant := 0; variant < 12; variant++ {
				via := variant / 4
				idx++
				if !hx.Mine(idx) {
					continue
				}
				la, tcp, quic, wt := sweepListen(fam)
				sc := &scenario{thresh: thresh, minObs: 1 + (thresh+variant)%5, la: la}
				if variant%2 == 1 { // listen addresses reported by the interface list as well
					sc.ifa = la
				}
				locals := []laddr{tcp, tcp}
				if variant%4 >= 2 {
					locals = []laddr{quic, wt} // two transports on one thin waist pool their observers
				}
				target := okObs(fam, locals[0].proto, 0, wireRest(locals[0].rest))
				nG := thresh + 1
				for g := 0; g < nG; g++ {
					for m := 0; m < 3; m++ {
						sc.conns = append(sc.conns, mkConnVia(locals[(g+m)%2], g, m, via == 1 || via == 2 && m == 1))
						sc.ops = append(sc.ops, op{kind: opObserve, conn: len(sc.conns) - 1, obs: target, tag: "new-conn"})
					}
				}
				// close member 0 of every group, then member 1, then member 2
				for m := 0; m < 3; m++ {
					for g := 0; g < nG; g++ {
						sc.ops = append(sc.ops, op{kind: opClose, conn: g*3 + m, tag: "close"})
					}
				}
				out, failure := bubbleRun(t, sc)
				stats.CaseEnumerated(name, out.nontrivial, out.labelList(fmt.Sprintf("fam:v%d", fam), fmt.Sprintf("T=%d", thresh), "via:"+[]string{"direct", "relayed", "member1-relayed"}[via])...)
				if failure != "" {
					t.Fatalf("fam=%d thresh=%d variant=%d: %s", fam, thresh, variant, failure)
				}
			}
		}
	}
}

// TestTopThreeSweep builds five external addresses for one local thin waist whose
// group counts are all at or above the threshold, in several count profiles (distinct,
// ties at the cut, all equal), then moves connections between addresses and closes them.
func TestTopThreeSweep(t *testing.T) {
	name := t.Name()
	profiles := [][]int{ // group count above the threshold-1 for address i
		{5, 4, 3, 2, 1},
		{1, 2, 3, 4, 5},
		{2, 5, 1, 4, 3},
		{3, 2, 2, 2, 1},
		{1, 1, 1, 1, 1},
		{2, 2, 2, 1, 0},
		{1, 3, 1, 3, 1},
	}
	idx := 0
	for _, fam := range []int{4, 6} {
		for thresh := 1; thresh <= 3; thresh++ {
			for pi, prof := range profiles {
				idx++
				if !hx.Mine(idx) {
					continue
				}
				la, tcp, quic, wt := sweepListen(fam)
				sc := &scenario{thresh: thresh, minObs: 1 + (thresh+pi)%4, la: la}
				locals := []laddr{quic, wt}
				if pi%2 == 1 {
					locals = []laddr{tcp, tcp}
				}
				g := 0
				firstConnOf := make([]int, len(prof))
				for ai, extra := range prof {
					target := okObs(fam, locals[0].proto, []int{0, 1, 2, 4, 5}[ai], wireRest(locals[0].rest))
					firstConnOf[ai] = len(sc.conns)
					for k := 0; k < thresh-1+extra; k++ {
						sc.conns = append(sc.conns, mkConn(locals[g%2], g, g%3))
						sc.ops = append(sc.ops, op{kind: opObserve, conn: len(sc.conns) - 1, obs: target, tag: "new-conn"})
						g++
					}
				}
				// every address loses its first connection to address 4, then the connections close in order
				moveTo := okObs(fam, locals[0].proto, 5, wireRest(locals[0].rest))
				for ai := range prof {
					if thresh-1+prof[ai] > 0 {
						sc.ops = append(sc.ops, op{kind: opObserve, conn: firstConnOf[ai], obs: moveTo, tag: "observe-again"})
					}
				}
				for c := range sc.conns {
					sc.ops = append(sc.ops, op{kind: opClose, conn: c, tag: "close"})
				}
				out, failure := bubbleRun(t, sc)
				stats.CaseEnumerated(name, out.nontrivial, out.labelList(fmt.Sprintf("fam:v%d", fam), fmt.Sprintf("T=%d", thresh))...)
				if failure != "" {
					t.Fatalf("fam=%d thresh=%d profile=%v: %s", fam, thresh, prof, failure)
				}
			}
		}
	}
}

// TestIneligibleSweep: every ineligible class, reported by threshold+1 distinct
// observer groups, for every transport/family, must never be advertised; the same
// groups then report an eligible address, which must appear. Everything once on direct
// and once on relayed connections (a peer behind a relay normally reports a circuit
// address = class "relayed"; nothing stops it from reporting any other class).
func TestIneligibleSweep(t *testing.T) {
	name := t.Name()
	idx := 0
	for _, fam := range []int{4, 6} {
		for _, kind := range append(slices.Clone(badKinds), "non-listen-local") {
			for thresh := 1; thresh <= 2; thresh++ {
				for li := 0; li < 6; li++ {
					idx++
					if !hx.Mine(idx) {
						continue
					}
					la, tcp, quic, wt := sweepListen(fam)
					local := []laddr{tcp, quic, wt}[li%3]
					relayed := li >= 3
					sc := &scenario{thresh: thresh, minObs: 1, la: la}
					connLocal := local
					if kind == "non-listen-local" {
						connLocal = mkLaddr(fam, map[int]string{4: "192.168.1.10", 6: "fd00::10"}[fam], local.proto, 50000+li%3, local.rest)
						sc.probes = []laddr{connLocal}
					}
					for g := 0; g <= thresh; g++ {
						sc.conns = append(sc.conns, mkConnVia(connLocal, g, 0, relayed))
						var o obsSpec
						if kind == "non-listen-local" {
							o = okObs(fam, local.proto, 0, wireRest(local.rest))
						} else {
							o = badObs(kind, local, g)
						}
						sc.ops = append(sc.ops, op{kind: opObserve, conn: g, obs: o, tag: "new-conn"})
					}
					good := okObs(fam, local.proto, 1, wireRest(local.rest))
					for g := 0; g <= thresh; g++ {
						sc.ops = append(sc.ops, op{kind: opObserve, conn: g, obs: good, tag: "observe-again"})
					}
					for g := 0; g <= thresh; g++ { // back to the ineligible report: the eligible one stays credited (DESIGN reading)
						sc.ops = append(sc.ops, op{kind: opObserve, conn: g, obs: sc.ops[g].obs, tag: "observe-again"})
					}
					for g := 0; g <= thresh; g++ {
						sc.ops = append(sc.ops, op{kind: opClose, conn: g, tag: "close"})
						sc.ops = append(sc.ops, op{kind: opObserve, conn: g, obs: good, tag: "observe-after-close"})
					}
					out, failure := bubbleRun(t, sc)
					stats.CaseEnumerated(name, out.nontrivial, out.labelList(fmt.Sprintf("fam:v%d", fam), "class:"+kind, map[bool]string{false: "via:direct", true: "via:relayed"}[relayed])...)
					if failure != "" {
						t.Fatalf("fam=%d kind=%s thresh=%d local=%s relayed=%v: %s", fam, kind, thresh, local.s, relayed, failure)
					}
				}
			}
		}
	}
}

// permutations of 0..n-1 in lexicographic order.
func permutations(n int) [][]int {
	var out [][]int
	var rec func(cur []int, used int)
	rec = func(cur []int, used int) {
		if len(cur) == n {
			out = append(out, slices.Clone(cur))
			return
		}
		for i := 0; i < n; i++ {
			if used&(1<<i) == 0 {
				rec(append(cur, i), used|1<<i)
			}
		}
	}
	rec(nil, 0)
	return out
}

// TestSharedWaistSweep: every set of two or more transports that can be bound to one
// port (subsets of tcp / ws / tls+ws / tls+sni+ws on a TCP port, of QUIC / WebTransport /
// WebRTC-direct on a UDP port), IPv4 and IPv6, every listen address of the set as the one
// the reporting connections arrive at, every order of asking AddrsFor for the members of
// the set (each pass followed by asking the first two again). One external address is
// taken above the threshold, a second one (reported on connections to the NEXT member of
// the set) exactly to it, then every connection closes. The oracle is the ordinary one:
// each answer is an observed thin waist followed by the rest of the listen address that
// was asked about, whatever was asked before, and answers already handed out keep their
// value.
func TestSharedWaistSweep(t *testing.T) {
	name := t.Name()
	idx := 0
	for _, fam := range []int{4, 6} {
		for _, proto := range []string{"tcp", "udp"} {
			pool, port := tcpRests, 4001
			if proto == "udp" {
				pool, port = udpRests, 4003
			}
			ip := map[int]string{4: "0.0.0.0", 6: "::"}[fam]
			for mask := 1; mask < 1<<len(pool); mask++ {
				var set []laddr
				for i, r := range pool {
					if mask&(1<<i) != 0 {
						set = append(set, mkLaddr(fam, ip, proto, port, r))
					}
				}
				if len(set) < 2 {
					continue
				}
				for reporter := range set {
					for _, perm := range permutations(len(set)) {
						idx++
						if !hx.Mine(idx) {
							continue
						}
						thresh := 1 + idx%3
						// a listener of the other transport on the same IP, not part of the permuted set
						otherL := mkLaddr(fam, ip, other(proto), 4002, defaultRest(other(proto)))
						sc := &scenario{thresh: thresh, minObs: 1 + (idx/3)%3, la: append(slices.Clone(set), otherL)}
						sc.perm = append(slices.Clone(perm), len(set))
						q := queryPlan{mode: 2, again: []int{0, 1}, addrsFirst: idx%4 == 3}
						a, b := set[reporter], set[(reporter+1)%len(set)]
						obsA := okObs(fam, proto, 0, wireRest(a.rest))
						obsB := okObs(fam, proto, 2, wireRest(b.rest))
						for g := 0; g <= thresh; g++ {
							sc.conns = append(sc.conns, mkConn(a, g, 0))
							sc.ops = append(sc.ops, op{kind: opObserve, conn: len(sc.conns) - 1, obs: obsA, tag: "new-conn", q: q})
						}
						for g := 0; g < thresh; g++ {
							sc.conns = append(sc.conns, mkConn(b, thresh+1+g, 1))
							sc.ops = append(sc.ops, op{kind: opObserve, conn: len(sc.conns) - 1, obs: obsB, tag: "new-conn", q: q})
						}
						for c := range sc.conns {
							sc.ops = append(sc.ops, op{kind: opClose, conn: c, tag: "close", q: q})
						}
						out, failure := bubbleRun(t, sc)
						stats.CaseEnumerated(name, out.nontrivial, out.labelList(fmt.Sprintf("fam:v%d", fam), fmt.Sprintf("T=%d", thresh), fmt.Sprintf("set:%s:%d-members", proto, len(set)))...)
						if failure != "" {
							t.Fatalf("fam=%d listen set %v, reports on connections to %s, asked in order %v: %s", fam, laStrs(set), a.s, perm, failure)
						}
					}
				}
			}
		}
	}
}
