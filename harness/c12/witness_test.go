package c12

import (
	"context"
	"fmt"
	"testing"
	"testing/synctest"
	"time"

	"github.com/libp2p/go-libp2p/core/network"
	"github.com/libp2p/go-libp2p/core/peer"
	"github.com/libp2p/go-libp2p/p2p/protocol/holepunch"
	"github.com/libp2p/go-libp2p/p2p/protocol/holepunch/pb"
	"github.com/libp2p/go-msgio/pbio"
	ma "github.com/multiformats/go-multiaddr"

	"verif/internal/hx"
	"verif/internal/kf"
	"verif/internal/memnet"
	"verif/internal/scripted"
)

// TestWitness_HolePunchInitiatorCoordinatesOverDirectConn: minimal history for
// kfInitiatorDirect.
//
//	t=-1s  outbound limited relayed conn to P; the peerstore knows one public address of P
//	       whose dial hangs
//	t=0    DirectConnect(P), direct-dial timeout 1 s: the direct-dial stage starts
//	t=0.5s P's own dial reaches us: an inbound DIRECT connection from P is established
//	t=1s   the direct-dial stage times out; the hole puncher goes on to the hole-punch stage
//	       without looking again, opens /libp2p/dcutr on the best connection -- the direct
//	       one -- and sends CONNECT over it
//
// Expected by the property: hole punching is coordinated only over a relayed connection
// (and with a direct connection in place there is nothing to punch).
func TestWitness_HolePunchInitiatorCoordinatesOverDirectConn(t *testing.T) {
	hx.Shard0(t)
	kf.Witness(t, kfInitiatorDirect, func() (violated bool, detail string) {
		synctest.Test(t, func(t *testing.T) {
			setupAddr := ma.StringCast("/ip4/3.3.3.1/tcp/4001/p2p/" + relayID.String() + "/p2p-circuit")
			pub := ma.StringCast("/ip4/5.5.1.1/tcp/4001")
			w := newWorld(worldOpts{host: true, script: func(addr ma.Multiaddr, p peer.ID, n int) scripted.Script {
				if addr.Equal(setupAddr) && n == 0 {
					l := true
					return scripted.Script{Outcome: scripted.Succeed, Limited: &l}
				}
				if addr.Equal(pub) {
					return scripted.Script{Outcome: scripted.Hang}
				}
				return scripted.Script{Outcome: scripted.Fail}
			}}, t.Fatalf)
			defer w.close()
			var over *conn
			var when time.Time
			w.onDCUtR = func(c *conn, remote *memnet.Conn) {
				var m pb.HolePunch
				if err := pbio.NewDelimitedReader(remote, 4096).ReadMsg(&m); err == nil && m.GetType() == pb.HolePunch_CONNECT && over == nil {
					over, when = c, time.Now()
				}
				remote.Reset()
			}
			rh := &recHost{Host: w.host}
			listen := []ma.Multiaddr{ma.StringCast("/ip4/9.9.9.9/tcp/4001")}
			svc, err := holepunch.NewService(rh, w.host.IDService(), func() []ma.Multiaddr { return listen }, holepunch.DirectDialTimeout(time.Second))
			if err != nil {
				t.Fatal(err)
			}
			defer svc.Close()
			synctest.Wait()
			w.sw.Peerstore().AddAddr(peerP, setupAddr, time.Hour)
			if _, err := w.sw.DialPeer(network.WithAllowLimitedConn(context.Background(), "setup"), peerP); err != nil {
				t.Fatalf("setup: %v", err)
			}
			w.sw.Peerstore().AddAddr(peerP, pub, time.Hour)
			time.Sleep(time.Second)
			synctest.Wait()
			w.t0 = time.Now()
			var dcErr error
			done := make(chan struct{})
			go func() { defer close(done); dcErr = svc.DirectConnect(peerP) }()
			time.Sleep(500 * time.Millisecond)
			w.deliver(w.newInbound(peerP, clsD, 1))
			<-done
			end := time.Now()
			synctest.Wait()
			if over != nil && !over.cls.proxy() {
				violated = true
				detail = fmt.Sprintf("DirectConnect sent a DCUtR CONNECT at %v over conn #%d %s, a DIRECT connection open since %v (DirectConnect returned at %v: %v)",
					when.Sub(w.t0), over.seq, over.RAddr, over.added.Sub(w.t0), end.Sub(w.t0), dcErr)
			}
		})
		return
	})
}
