// Package c12 checks property C12: limited (relayed) connections are never mistaken for
// direct ones.
package c12

import (
	"context"
	"errors"
	"fmt"
	"sort"
	"strings"
	"sync"
	"sync/atomic"
	"testing"
	"testing/synctest"
	"time"

	"github.com/libp2p/go-libp2p/core/network"
	"github.com/libp2p/go-libp2p/core/peer"
	ma "github.com/multiformats/go-multiaddr"
	"pgregory.net/rapid"

	"verif/internal/hx"
	"verif/internal/scripted"
	"verif/internal/stats"
)

func TestMain(m *testing.M) {
	stats.Describe("exploration",
		"rapid schedules in synctest bubbles over a real swarm (TestSwarmSchedules) and a real BasicHost on top of it (TestHostSchedules) with scripted transports "+
			"(tcp, quic, circuit; relayed conns limited or unlimited): initial connection set (none / limited / direct / unlimited-relay / mixed / one closing at t=0; members in the CLOSING state: the transport conn "+
			"already reports IsClosed() and opens no stream while its AcceptStream has not returned, so the swarm still lists it - closing direct next to live limited, closing direct alone, "+
			"closing limited next to live direct, ...), per-address "+
			"dial scripts, per-address FORM in which the local node knows it (the two direct addresses and the relay address are each stored literally, or only behind a name that the swarm has to resolve "+
			"with a madns mock resolver: a /dnsaddr name of its own, one /dnsaddr name shared by several addresses, a nested /dnsaddr alias, TXT records with or without /p2p/<peer>, a /dns4 host name, "+
			"or literally AND behind the shared name), a timeline of inbound connections appearing, connections closing (remote or local), open connections silently entering the closing state (each isolated between "+
			"two quiescence points), closing connections being reaped (remote or through the swarm) or never, and bystander-peer connections, 1-4 callers of NewStream / DialPeer / Connect "+
			"with {allow-limited, force-direct, no-dial}, cancel instants, deadlines and dial-peer timeouts on a shared coarse time grid (equal instants race for real). Oracle = "+
			"validity predicates over the harness' own connection history (permission; a stream at once when a non-limited conn is present; exact release instant and outcome of "+
			"every caller that is certainly waiting (shapes A: limited-only at start, B: own relay dial produced the limited conn, C: no-dial caller seen blocked at a quiescence point); "+
			"force-direct results; proxy-transport dial rule; Connectedness against a reference model (closing conns count as closed: limited-only => Limited, only closing => NotConnected) at every quiescence point; "+
			"the last EvtPeerConnectednessChanged equals the model too, except that after a silent closing it may stay what it was until the harness next makes the swarm add/remove a conn of that peer; Conn.NewStream probes; "+
			"bounded termination and a clean bubble exit after a late direct conn). "+
			"Real stack (TestRealStackRelay): three real BasicHosts over real swarms in one bubble (A, the peer B, a real circuit-v2 relay R with B's reservation) joined by the real TCP transport over in-memory pipes, "+
			"real upgrader (private network / pre-shared key ON or OFF on all nodes, Noise or TLS, yamux) and the real circuit client; relay with limits or without, circuit duration limit, link latency, B with or without a direct address, "+
			"B's addresses known to A literally or behind /dnsaddr / /dns4 names, 2-5 sequential ops (A/B host.NewStream, A DialPeer/Connect with {allow-limited, force-direct, no-dial} and deadlines, B dialling A directly - also while "+
			"an A-side NewStream waits - closing the direct or relayed conns at either end). Ground truth by configuration (relayed = /p2p-circuit in the conn's addresses; limited = relayed through the relay WITH limits); at every "+
			"settled point on BOTH ends: Stat().Limited of every conn, Connectedness and the last connectedness event against the model, Conn.NewStream refusal on limited conns; per call: permission rule, force-direct never returns a relayed conn "+
			"(and fails without any direct route), a waiter without any possible direct conn returns exactly at its deadline with an error, a waiter is released by a direct conn arriving in time. Hole punching (TestHolePunch*): real "+
			"holepunch.Service on a recording host.Host wrapper around the real BasicHost; generated DCUtR dialogues on relayed / direct, inbound / outbound conns and DirectConnect "+
			"with scripted dial outcomes and inbound direct conns. Non-trivial = a waiter that is certainly blocked sees the connection set change (or another caller return) before "+
			"it is released, or a mixed limited/non-limited set exists when a caller starts, or a closing-but-listed conn stands next to a live conn of the other kind (limited vs non-limited) "+
			"at a quiescence point; real stack: a limited relayed conn between A and B was judged at a settled point, or a caller certainly waited; for hole punching: a dialogue that reaches the dial stage with relay addresses mixed in, "+
			"or a stream on a non-relayed conn. Distinct = distinct abstract timeline incl. outcomes.",
		"scripted transports stand in for real transports/relays; Stat().Limited and Transport().Proxy() are set by the harness (limited implies proxy)",
		"events at the same virtual instant race for real; the oracle only judges callers whose stage is certain from the recorded history and accepts either order otherwise",
		"dial orchestration itself (dedup, caps, back-off) is C05's subject and is not re-asserted here",
		"names are resolved by go-multiaddr-dns over a mock zone (no network); the scripted circuit transport lets the swarm resolve /dns4 relay addresses (the real client defers that to the inner dial: covered by TestRealStackRelay)",
		"real stack: only the socket syscalls are replaced (internal/memtpt); all three nodes share the pre-shared key or none has one (mismatched keys are not C12's subject); with link latency a settled point is reached by letting 50 latencies pass; with zero latency concurrent dials (direct vs relay address) complete in the same virtual instant and race for real: either result is accepted",
		"the closing state is produced by the harness' conn wrapper (IsClosed()=true, OpenStream fails, AcceptStream still blocked); it stands for the window between a transport noticing the close and the swarm's accept loop reaping the conn, held open for arbitrary virtual time",
	)
	hx.Main(m)
}

// ---------------------------------------------------------------------------
// scenario

type addrScript struct {
	present bool
	out     scripted.Outcome
	delay   time.Duration
	limited bool // relay address only: the relayed conn is limited
	via     via  // how the local node knows the address: literally, or behind a /dnsaddr or /dns4 name
	txtPeer bool // dnsaddr forms: the TXT record ends in /p2p/<peer>
}

func (a addrScript) String() string {
	if !a.present {
		return "-"
	}
	s := fmt.Sprintf("%s/%v", a.out, a.delay)
	if a.limited {
		s += "/L"
	}
	if a.via != viaLiteral {
		s += "/" + a.via.String()
		if a.txtPeer {
			s += "+p2p"
		}
	}
	return s
}

type evKind int

const (
	evAdd evKind = iota
	evClose
	evAddOther
	evMark // an open conn starts closing: transport reports IsClosed, the swarm is not told
	evReap // a closing conn is really closed (remote) or closed through the swarm (local): it is reaped
)

type tlEvent struct {
	at    time.Duration
	kind  evKind
	cls   class
	pick  int
	local bool
}

func (e tlEvent) String() string {
	switch e.kind {
	case evAdd:
		return fmt.Sprintf("%v:+%s", e.at, e.cls)
	case evClose:
		how := "r"
		if e.local {
			how = "l"
		}
		return fmt.Sprintf("%v:-%d%s", e.at, e.pick, how)
	case evMark:
		return fmt.Sprintf("%v:~%d", e.at, e.pick)
	case evReap:
		how := "r"
		if e.local {
			how = "l"
		}
		return fmt.Sprintf("%v:x%d%s", e.at, e.pick, how)
	}
	return fmt.Sprintf("%v:+Q", e.at)
}

type api int

const (
	apiNewStream api = iota
	apiDialPeer
	apiConnect
)

func (a api) String() string { return [...]string{"NewStream", "DialPeer", "Connect"}[a] }

type callerSpec struct {
	api                 api
	allow, force, nodia bool
	start               time.Duration
	cancelAt            time.Duration // absolute offset; 0 = never
	deadline            time.Duration // relative to start; 0 = none
	peerTimeout         time.Duration // 0 = default
}

func (c callerSpec) String() string {
	var o []string
	if c.allow {
		o = append(o, "allow")
	}
	if c.force {
		o = append(o, "force")
	}
	if c.nodia {
		o = append(o, "nodial")
	}
	return fmt.Sprintf("%s[%s]@%v c%v d%v pt%v", c.api, strings.Join(o, ","), c.start, c.cancelAt, c.deadline, c.peerTimeout)
}

type scenario struct {
	host       bool
	negTimeout time.Duration
	initial    []initConn
	d1, d2, r  addrScript
	events     []tlEvent
	callers    []callerSpec
}

// initConn is a member of the initial connection set. closing: right after the swarm has
// taken the connection, its transport starts reporting IsClosed() without the swarm being told
// (the connection stays listed until it is reaped by a later timeline event or at the end).
type initConn struct {
	cls     class
	closing bool
}

func (i initConn) String() string {
	if i.closing {
		return strings.ToLower(i.cls.String())
	}
	return i.cls.String()
}

// parseInit: 'L' 'D' 'U' = live connection of that class, lower case = closing.
func parseInit(s string) []initConn {
	var out []initConn
	for _, ch := range s {
		ic := initConn{closing: ch >= 'a' && ch <= 'z'}
		switch ch {
		case 'L', 'l':
			ic.cls = clsL
		case 'D', 'd':
			ic.cls = clsD
		case 'U', 'u':
			ic.cls = clsU
		}
		out = append(out, ic)
	}
	return out
}

var (
	addrD1 = ma.StringCast("/ip4/1.2.3.4/tcp/4001")
	addrD2 = ma.StringCast("/ip4/1.2.3.5/udp/4001/quic-v1")
	addrR  = ma.StringCast("/ip4/2.2.2.2/tcp/4001/p2p/" + relayID.String() + "/p2p-circuit")
)

func ms(v int) time.Duration { return time.Duration(v) * time.Millisecond }

var grid = []int{0, 0, 10, 100, 1000, 2000, 3000, 5000, 10000, 12000, 30000, 59000, 60000, 61000, 65000}

func drawAddrScript(rt *rapid.T, label string, relay bool) addrScript {
	a := addrScript{}
	switch rapid.IntRange(0, 5).Draw(rt, label) {
	case 0, 1:
		return a
	case 2, 3:
		a.out = scripted.Succeed
	case 4:
		a.out = scripted.Fail
	case 5:
		a.out = scripted.Hang
	}
	a.present = true
	a.delay = ms(rapid.SampledFrom([]int{0, 50, 300, 1000, 3000}).Draw(rt, label+"-delay"))
	if relay {
		a.limited = rapid.IntRange(0, 3).Draw(rt, label+"-limited") != 0
	}
	a.via, a.txtPeer = drawVia(rt, label)
	return a
}

// Themes bias the generator towards the interesting regions; theme 0 is unbiased.
//
//	1 waiters:    only limited conns at the start, callers that did not allow them, direct conns
//	              arriving later (inbound, or dialled by a force-direct caller), conns closing
//	2 dial-first: no conn at the start, the relay address yields a limited conn, callers dial
//	3 closing:    a conn is closing at the very instant the callers start
//	4 closing-state: conns whose transport reports IsClosed() while the swarm still lists them
//	              (initially and on the timeline), next to live conns of the other kind; reaped later or never
func drawScenario(rt *rapid.T, host bool) *scenario {
	sc := &scenario{host: host}
	theme := rapid.SampledFrom([]int{0, 0, 1, 1, 1, 2, 2, 3, 4, 4}).Draw(rt, "theme")
	if host {
		sc.negTimeout = ms(rapid.SampledFrom([]int{-1, -1, 0, 3000}).Draw(rt, "negTimeout"))
	}
	inits := []string{"", "L", "L", "L", "L", "LL", "D", "U", "LD", "DL", "LU", "LLD", "Ld", "d"}
	switch theme {
	case 1:
		inits = []string{"L", "L", "L", "LL"}
	case 2:
		inits = []string{""}
	case 3:
		inits = []string{"L", "LL", "LD", "DL", "LU", "D"}
	case 4:
		inits = []string{"Ld", "Ld", "dL", "dL", "d", "d", "l", "Ll", "lL", "lD", "Dl", "dD", "Lu", "uL", "u", "LD", "LD", "L", "D", "Ldd", "LLd", "ld", "lLd"}
	}
	sc.initial = parseInit(inits[rapid.IntRange(0, len(inits)-1).Draw(rt, "initial")])
	sc.d1 = drawAddrScript(rt, "d1", false)
	sc.d2 = drawAddrScript(rt, "d2", false)
	if rapid.Bool().Draw(rt, "d2-absent") {
		sc.d2 = addrScript{}
	}
	sc.r = drawAddrScript(rt, "relay", true)
	if theme == 2 && rapid.IntRange(0, 5).Draw(rt, "relay-ok") > 0 {
		sc.r = addrScript{present: true, out: scripted.Succeed, limited: true, delay: ms(rapid.SampledFrom([]int{0, 50, 300, 1000}).Draw(rt, "relay-ok-delay")), via: sc.r.via, txtPeer: sc.r.txtPeer}
		if sc.d1.present && sc.d1.out == scripted.Succeed && sc.d1.delay <= sc.r.delay+500*time.Millisecond && rapid.Bool().Draw(rt, "d1-slower") {
			sc.d1.delay = 3 * time.Second
		}
	}

	nev := rapid.IntRange(0, 4).Draw(rt, "nevents")
	if theme == 4 && nev == 0 {
		nev = 1
	}
	if theme == 3 {
		if rapid.IntRange(0, 2).Draw(rt, "arrive0") == 0 {
			// a limited conn ARRIVES at the very instant the callers start
			if rapid.Bool().Draw(rt, "arrive0-alone") {
				sc.initial = nil
			}
			sc.events = append(sc.events, tlEvent{at: 0, kind: evAdd, cls: clsL})
		} else {
			sc.events = append(sc.events, tlEvent{at: 0, kind: evClose, pick: rapid.IntRange(0, 2).Draw(rt, "close0-pick"), local: rapid.Bool().Draw(rt, "close0-local")})
		}
	}
	for i := 0; i < nev; i++ {
		e := tlEvent{at: ms(rapid.SampledFrom(grid).Draw(rt, "ev-at"))}
		k := rapid.IntRange(0, 11).Draw(rt, "ev-kind")
		if theme == 4 {
			// mostly conns starting to close and being reaped; the rest as everywhere
			k = []int{10, 10, 10, 10, 11, 11, 0, 5, 6, 9, 4, 10}[k]
		}
		switch k {
		case 10:
			e.kind = evMark
			e.pick = rapid.IntRange(0, 3).Draw(rt, "ev-pick")
		case 11:
			e.kind = evReap
			e.pick = rapid.IntRange(0, 3).Draw(rt, "ev-pick")
			e.local = rapid.IntRange(0, 2).Draw(rt, "ev-local") == 0
		case 0, 1, 2, 3:
			e.kind, e.cls = evAdd, clsD
		case 4:
			e.kind, e.cls = evAdd, clsU
		case 5:
			e.kind, e.cls = evAdd, clsL
		case 6, 7, 8:
			e.kind = evClose
			e.pick = rapid.IntRange(0, 3).Draw(rt, "ev-pick")
			e.local = rapid.Bool().Draw(rt, "ev-local")
		case 9:
			e.kind = evAddOther
		}
		sc.events = append(sc.events, e)
	}
	sort.SliceStable(sc.events, func(i, j int) bool { return sc.events[i].at < sc.events[j].at })

	nc := rapid.IntRange(1, 4).Draw(rt, "ncallers")
	for i := 0; i < nc; i++ {
		cs := callerSpec{}
		k := rapid.IntRange(0, 9).Draw(rt, "api")
		switch {
		case k <= 6:
			cs.api = apiNewStream
		case k <= 8 || !host:
			cs.api = apiDialPeer
			if host && k == 8 {
				cs.api = apiConnect
			}
		default:
			cs.api = apiConnect
		}
		if cs.api == apiNewStream {
			cs.allow = rapid.IntRange(0, 4).Draw(rt, "allow") == 0
			cs.nodia = rapid.IntRange(0, 2).Draw(rt, "nodial") == 0
			cs.force = rapid.IntRange(0, 5).Draw(rt, "force") == 0
			if theme == 2 && rapid.IntRange(0, 3).Draw(rt, "plain") > 0 {
				cs.allow, cs.nodia, cs.force = false, false, false
			}
			if theme == 3 && rapid.Bool().Draw(rt, "nodial3") {
				cs.nodia, cs.allow = true, false
			}
		} else {
			cs.force = rapid.IntRange(0, 1).Draw(rt, "force") == 0
			cs.allow = rapid.IntRange(0, 5).Draw(rt, "allow") == 0
			if theme == 1 && rapid.IntRange(0, 3).Draw(rt, "force1") > 0 {
				cs.force = true
			}
		}
		starts := []int{0, 0, 0, 10, 100, 1000, 2000, 5000, 10000}
		if theme == 4 {
			starts = []int{0, 0, 10, 100, 1000, 2000, 5000}
		}
		if theme == 3 {
			starts = []int{0, 0, 0, 0, 10, 1000}
		}
		if theme == 1 && cs.api != apiNewStream {
			starts = []int{100, 1000, 2000, 5000, 10000, 30000}
		}
		cs.start = ms(rapid.SampledFrom(starts).Draw(rt, "start"))
		switch rapid.IntRange(0, 5).Draw(rt, "ctl") {
		case 0, 1:
			// the grid is shared with the events so that cancels coincide with arrivals now and then
			g := rapid.SampledFrom(grid[2:]).Draw(rt, "cancel")
			cs.cancelAt = ms(g)
			if cs.cancelAt <= cs.start {
				cs.cancelAt = cs.start + ms(rapid.SampledFrom([]int{1, 90, 900, 4000}).Draw(rt, "cancel-delta"))
			}
		case 2:
			cs.deadline = ms(rapid.SampledFrom([]int{500, 1000, 3000, 10000, 60000}).Draw(rt, "deadline"))
		}
		if rapid.IntRange(0, 2).Draw(rt, "pt") == 0 {
			cs.peerTimeout = ms(rapid.SampledFrom([]int{2000, 10000, 20000}).Draw(rt, "peerTimeout"))
		}
		sc.callers = append(sc.callers, cs)
	}
	return sc
}

func (sc *scenario) String() string {
	var evs, cs, in []string
	for _, e := range sc.events {
		evs = append(evs, e.String())
	}
	for _, c := range sc.callers {
		cs = append(cs, c.String())
	}
	for _, c := range sc.initial {
		in = append(in, c.String())
	}
	return fmt.Sprintf("host=%v neg=%v init=[%s] d1=%s d2=%s r=%s ev=[%s] callers=[%s]", sc.host, sc.negTimeout, strings.Join(in, ""), sc.d1, sc.d2, sc.r,
		strings.Join(evs, " "), strings.Join(cs, "; "))
}

// ---------------------------------------------------------------------------
// execution

type callRes struct {
	spec     callerSpec
	started  atomic.Bool
	returned atomic.Bool
	start    time.Time
	end      time.Time
	err      error
	// NewStream
	gotStream   bool
	sconn       *conn
	statLimited bool
	// DialPeer
	dconn  *conn
	dproxy bool // RemoteMultiaddr of the returned conn is a relay address
	dnil   bool
}

func (cr *callRes) outcome() string {
	switch {
	case !cr.returned.Load():
		return "blocked"
	case cr.err == nil && cr.gotStream:
		return "stream:" + cr.sconn.cls.String()
	case cr.err == nil && cr.dconn != nil:
		return "conn:" + cr.dconn.cls.String()
	case cr.err == nil:
		return "ok"
	case errors.Is(cr.err, context.Canceled):
		return "err:canceled"
	case errors.Is(cr.err, context.DeadlineExceeded):
		return "err:deadline"
	case errors.Is(cr.err, network.ErrLimitedConn):
		return "err:limited"
	case errors.Is(cr.err, network.ErrNoConn):
		return "err:noconn"
	}
	return "err:other"
}

type qpoint struct {
	at      time.Time
	blocked []bool // per caller: started and not returned at this quiescence point
}

const (
	horizon   = 200 * time.Second
	farFuture = 1000 * time.Hour
)

type run struct {
	rt     *rapid.T
	sc     *scenario
	w      *world
	calls  []*callRes
	qs     []qpoint
	labels map[string]bool
	nontr  bool
	// stale: a connection of the peer started closing without the swarm being told, and the swarm
	// has not certainly handled a connection of that peer since: the last published event may
	// still be the (then correct) one recorded here.
	stale  map[peer.ID]network.Connectedness
	judged bool
	zone   *zone
}

// listed: the swarm lists the connection.
func (r *run) listed(c *conn) bool {
	for _, nc := range r.w.sw.ConnsToPeer(c.peer) {
		if connOf(nc) == c {
			return true
		}
	}
	return false
}

// visible: the harness has just made the swarm add or remove a connection of p (program order:
// after every closing mark so far). The swarm recomputes the peer's connectedness for the event
// it publishes, so by the next quiescence point the last event must be the model's value again.
func (r *run) visible(p peer.ID) {
	sfx := ""
	if r.judged {
		sfx = "-postlude" // the late direct conn / teardown after the callers were judged
	}
	if _, ok := r.stale[p]; ok {
		r.labels["event-recomputed-after-silent-closing"+sfx] = true
	}
	delete(r.stale, p)
	for _, c := range r.w.connsTo(p) {
		if c.closingListed() {
			r.labels["swarm-handles-conn-while-closing-conn-listed"+sfx] = true
			break
		}
	}
}

// markClosing moves an open connection into the closing state, isolated between two quiescence
// points: nothing else happens in between and nothing in the swarm can react to it.
func (r *run) markClosing(c *conn, what string) {
	r.quiesce(what + " (before conn #" + fmt.Sprint(c.seq) + " starts closing)")
	r.stale[c.peer] = r.w.lastEvt[c.peer] // validated just now
	c.markClosing()
	r.labels["conn-starts-closing-"+c.cls.String()] = true
	r.quiesce(what + " (conn #" + fmt.Sprint(c.seq) + " closing, not reaped)")
}

// closeRemote: the remote side kills an open connection.
func (r *run) closeRemote(c *conn) {
	if r.listed(c) {
		r.visible(c.peer)
	}
	c.remoteClose()
}

// closeLocal closes the connection through the swarm (falls back to the remote side when the
// swarm does not list it).
func (r *run) closeLocal(c *conn, orElse func()) {
	for _, nc := range r.w.sw.ConnsToPeer(c.peer) {
		if connOf(nc) == c {
			r.visible(c.peer)
			nc.Close()
			return
		}
	}
	orElse()
}

func (r *run) fail(format string, args ...any) {
	var cs []string
	for i, cr := range r.calls {
		s := fmt.Sprintf("\n  caller#%d %s", i, cr.spec)
		if cr.started.Load() {
			s += fmt.Sprintf(" start=%v", cr.start.Sub(r.w.t0))
		}
		if cr.returned.Load() {
			s += fmt.Sprintf(" end=%v -> %s (%v)", cr.end.Sub(r.w.t0), cr.outcome(), cr.err)
			if cr.sconn != nil {
				s += fmt.Sprintf(" on conn #%d", cr.sconn.seq)
			}
			if cr.dconn != nil {
				s += fmt.Sprintf(" conn #%d", cr.dconn.seq)
			}
		}
		cs = append(cs, s)
	}
	r.w.drainEvents()
	r.rt.Fatalf("%s\nscenario: %s\nknown as: %s\ncallers:%s\nconns:%s\ndials:%s\nevents: %v", fmt.Sprintf(format, args...), r.sc, r.zone, strings.Join(cs, ""), r.w.describeConns(), r.w.describeDials(), r.w.evtLog)
}

func (r *run) script(addr ma.Multiaddr, p peer.ID, n int) scripted.Script {
	var a addrScript
	switch {
	case p != peerP:
		return scripted.Script{Outcome: scripted.Fail}
	case addr.Equal(addrD1):
		a = r.sc.d1
	case addr.Equal(addrD2):
		a = r.sc.d2
	case addr.Equal(addrR):
		a = r.sc.r
	default:
		return scripted.Script{Outcome: scripted.Fail}
	}
	s := scripted.Script{Outcome: a.out, Delay: a.delay}
	if addr.Equal(addrR) {
		l := a.limited
		s.Limited = &l
	}
	return s
}

// quiesce is a quiescence point: Connectedness and the last connectedness event agree with
// the reference model; Conn.NewStream on every open conn obeys the permission rule.
func (r *run) quiesce(what string) {
	synctest.Wait()
	w := r.w
	w.drainEvents()
	for _, p := range []peer.ID{peerP, peerQ} {
		want := w.modelConnectedness(p)
		if got := w.sw.Connectedness(p); got != want {
			r.fail("%s: Connectedness(%s) = %v, but by the open connections known to the harness it must be %v", what, short(p), got, want)
		}
		if got := w.lastEvt[p]; got != want {
			if st, ok := r.stale[p]; !ok || got != st {
				r.fail("%s: last EvtPeerConnectednessChanged for %s says %v, but the peer is %v", what, short(p), got, want)
			}
			r.labels["event-stale-since-silent-closing"] = true
		}
		r.labels["connectedness-"+want.String()] = true
	}
	listed := map[*conn]bool{}
	for _, nc := range w.sw.ConnsToPeer(peerP) {
		mc := connOf(nc)
		if mc == nil {
			r.fail("%s: swarm holds a connection unknown to the harness: %v", what, nc)
		}
		listed[mc] = true
		if nc.Stat().Limited != mc.cls.limited() {
			r.fail("%s: conn #%d (%s) reports Stat().Limited=%v", what, mc.seq, mc.cls, nc.Stat().Limited)
		}
		s, err := nc.NewStream(context.Background())
		if mc.cls.limited() {
			if err == nil {
				s.Reset()
				r.fail("%s: Conn.NewStream on limited conn #%d returned a stream although the context did not allow limited connections", what, mc.seq)
			}
			r.labels["probe-limited-conn-refused"] = true
			s2, err2 := nc.NewStream(network.WithAllowLimitedConn(context.Background(), "probe"))
			if err2 == nil {
				s2.Reset()
				r.labels["probe-limited-conn-allowed"] = true
			}
		} else if err == nil {
			s.Reset()
		}
	}
	// the closing class: which combination of live and closing-but-listed conns was judged here
	var liveL, liveN, clL, clN, clD int
	for _, c := range w.connsTo(peerP) {
		switch {
		case c.closingListed() && listed[c]:
			if c.cls.limited() {
				clL++
			} else {
				clN++
				if c.cls == clsD {
					clD++
				}
			}
		case !c.IsClosed():
			if c.cls.limited() {
				liveL++
			} else {
				liveN++
			}
		}
	}
	switch {
	case clL+clN == 0:
	case liveL+liveN == 0:
		r.labels["closing:only-closing-conns=>NotConnected"] = true
		if clD == clL+clN {
			r.labels["closing:direct-alone=>NotConnected"] = true
		}
	case liveN == 0:
		if clN > 0 {
			r.nontr = true
			r.labels["closing:nonlimited+live-limited=>Limited"] = true
			if clD > 0 {
				r.labels["closing:direct+live-limited=>Limited"] = true
			}
		} else {
			r.labels["closing:limited+live-limited=>Limited"] = true
		}
	default:
		if clL > 0 {
			r.nontr = true
			r.labels["closing:limited+live-nonlimited=>Connected"] = true
		}
		if clN > 0 {
			r.labels["closing:nonlimited+live-nonlimited=>Connected"] = true
		}
	}
	q := qpoint{at: time.Now()}
	for _, cr := range r.calls {
		q.blocked = append(q.blocked, cr.started.Load() && !cr.returned.Load())
	}
	r.qs = append(r.qs, q)
}

func (r *run) caller(cr *callRes, wg *sync.WaitGroup) {
	defer wg.Done()
	cs := cr.spec
	time.Sleep(cs.start)
	ctx, cancel := context.WithCancel(context.Background())
	defer cancel()
	if cs.deadline > 0 {
		var c2 context.CancelFunc
		ctx, c2 = context.WithTimeout(ctx, cs.deadline)
		defer c2()
	}
	if cs.cancelAt > 0 {
		tm := time.AfterFunc(cs.cancelAt-cs.start, cancel)
		defer tm.Stop()
	}
	if cs.allow {
		ctx = network.WithAllowLimitedConn(ctx, "c12")
	}
	if cs.force {
		ctx = network.WithForceDirectDial(ctx, "c12")
	}
	if cs.nodia {
		ctx = network.WithNoDial(ctx, "c12")
	}
	if cs.peerTimeout > 0 {
		ctx = network.WithDialPeerTimeout(ctx, cs.peerTimeout)
	}
	cr.start = time.Now()
	cr.started.Store(true)
	switch cs.api {
	case apiNewStream:
		var s network.Stream
		var err error
		if r.sc.host {
			s, err = r.w.host.NewStream(ctx, peerP, "/test/1")
		} else {
			s, err = r.w.sw.NewStream(ctx, peerP)
		}
		cr.end = time.Now()
		cr.err = err
		if err == nil {
			cr.gotStream = true
			cr.sconn = connOf(s.Conn())
			cr.statLimited = s.Conn().Stat().Limited
			s.Reset()
		}
	case apiDialPeer:
		c, err := r.w.sw.DialPeer(ctx, peerP)
		cr.end = time.Now()
		cr.err = err
		if err == nil {
			if c == nil {
				cr.dnil = true
			} else {
				cr.dconn = connOf(c)
				_, e := c.RemoteMultiaddr().ValueForProtocol(ma.P_CIRCUIT)
				cr.dproxy = e == nil
			}
		}
	case apiConnect:
		cr.err = r.w.host.Connect(ctx, peer.AddrInfo{ID: peerP})
		cr.end = time.Now()
	}
	cr.returned.Store(true)
}

func runScenario(t *testing.T, rt *rapid.T, name string, sc *scenario) {
	r := &run{rt: rt, sc: sc, labels: map[string]bool{}, stale: map[peer.ID]network.Connectedness{}}
	var abstract []string
	hx.Bubble(t, rt, func() {
		// what the local node knows about the peer: addresses as they are dialled, or names
		// (/dnsaddr, /dns4) that only resolve to them
		z := newZone()
		for k, a := range []struct {
			s addrScript
			a ma.Multiaddr
		}{{sc.d1, addrD1}, {sc.d2, addrD2}, {sc.r, addrR}} {
			if a.s.present {
				z.know(peerP, k, a.a, a.s.via, a.s.txtPeer)
			}
		}
		rslv, err := z.resolver()
		if err != nil {
			rt.Fatalf("resolver: %v", err)
		}
		r.zone = z
		w := newWorld(worldOpts{host: sc.host, negTimeout: sc.negTimeout, script: r.script, resolver: rslv}, rt.Fatalf)
		r.w = w
		defer w.close()
		ps := w.sw.Peerstore()
		ps.AddAddrs(peerP, z.entries, time.Hour)
		if sc.host {
			ps.AddProtocols(peerP, "/test/1")
		}
		nk := 0
		for _, ic := range sc.initial {
			nk++
			c := w.newInbound(peerP, ic.cls, nk)
			w.deliver(c)
			r.visible(peerP)
			r.quiesce("initial")
			if ic.closing {
				r.markClosing(c, "initial")
			}
		}
		time.Sleep(time.Second) // the initial set is strictly older than every caller
		synctest.Wait()
		w.t0 = time.Now()
		var wg sync.WaitGroup
		for _, cs := range sc.callers {
			cr := &callRes{spec: cs}
			r.calls = append(r.calls, cr)
			wg.Add(1)
			go r.caller(cr, &wg)
		}
		// instants: every event instant, plus a pure quiescence point 1 ms after each caller start
		inst := map[time.Duration]bool{}
		for _, e := range sc.events {
			inst[e.at] = true
		}
		for _, cs := range sc.callers {
			inst[cs.start+time.Millisecond] = true
		}
		var instants []time.Duration
		for at := range inst {
			instants = append(instants, at)
		}
		sort.Slice(instants, func(i, j int) bool { return instants[i] < instants[j] })
		i := 0
		for _, at := range instants {
			time.Sleep(time.Until(w.t0.Add(at)))
			for ; i < len(sc.events) && sc.events[i].at == at; i++ {
				e := sc.events[i]
				switch e.kind {
				case evAdd:
					nk++
					w.deliver(w.newInbound(peerP, e.cls, nk))
					r.visible(peerP)
				case evAddOther:
					nk++
					w.deliver(w.newInbound(peerQ, clsD, nk))
					r.visible(peerQ)
				case evMark:
					var open []*conn
					for _, c := range w.connsTo(peerP) {
						if !c.IsClosed() {
							open = append(open, c)
						}
					}
					if len(open) == 0 {
						continue
					}
					r.markClosing(open[e.pick%len(open)], fmt.Sprintf("t=%v", at))
				case evReap:
					var cl []*conn
					for _, c := range w.connsTo(peerP) {
						if c.closingListed() {
							cl = append(cl, c)
						}
					}
					if len(cl) == 0 {
						continue
					}
					c := cl[e.pick%len(cl)]
					r.labels["closing-conn-reaped"] = true
					remote := func() {
						if r.listed(c) {
							r.visible(peerP)
						}
						c.release()
					}
					if e.local {
						r.closeLocal(c, remote)
					} else {
						remote()
					}
				case evClose:
					var open []*conn
					for _, c := range w.connsTo(peerP) {
						if !c.IsClosed() {
							open = append(open, c)
						}
					}
					if len(open) == 0 {
						continue
					}
					c := open[e.pick%len(open)]
					if e.local {
						r.closeLocal(c, func() { r.closeRemote(c) })
					} else {
						r.closeRemote(c)
					}
				}
			}
			r.quiesce(fmt.Sprintf("t=%v", at))
		}
		time.Sleep(time.Until(w.t0.Add(horizon)))
		r.quiesce("horizon")
		for i, cr := range r.calls {
			if !cr.returned.Load() {
				r.fail("caller #%d has not returned %v after the case started (every deadline and timeout has long passed)", i, horizon)
			}
		}
		wg.Wait()
		r.judge()
		r.judged = true
		// after all waiters are gone: a later direct connection wakes nobody and nothing is left behind
		nk++
		w.deliver(w.newInbound(peerP, clsD, nk))
		r.visible(peerP)
		r.quiesce("late direct conn")
		for _, c := range w.snapshotConns() {
			switch {
			case !c.IsClosed() && c.seq%2 == 0:
				r.closeRemote(c)
			case c.closingListed() && c.seq%2 == 1:
				if r.listed(c) {
					r.visible(c.peer)
				}
				c.release()
			}
		}
		r.quiesce("teardown")
		for _, cr := range r.calls {
			abstract = append(abstract, fmt.Sprintf("%s=>%v:%s", cr.spec, cr.end.Sub(cr.start), cr.outcome()))
		}
	})
	var ls []string
	for l := range r.labels {
		ls = append(ls, l)
	}
	sort.Strings(ls)
	stats.Case(name, sc.String()+"|"+strings.Join(abstract, ";"), r.nontr, ls...)
	if stats.WantSample(name) {
		stats.Sample(name, map[string]any{"scenario": sc.String(), "calls": abstract, "labels": ls})
	}
}

// ---------------------------------------------------------------------------
// oracle

func minTime(a, b time.Time) time.Time {
	if b.Before(a) {
		return b
	}
	return a
}

// coveredByLimited: at every instant of [a,b] at least one limited connection to P was
// certainly open (chain of overlapping lifetimes).
func coveredByLimited(ps []*conn, a, b time.Time) bool {
	cur := a
	first := true
	for i := 0; i < len(ps)+1; i++ {
		var best time.Time
		found, open := false, false
		for _, c := range ps {
			if !c.cls.limited() {
				continue
			}
			if c.added.After(cur) || (!first && !c.added.Before(cur)) {
				continue
			}
			ct, closed := c.closedAt()
			if !closed {
				open, found = true, true
				break
			}
			if !ct.After(cur) {
				continue
			}
			if !found || ct.After(best) {
				best, found = ct, true
			}
		}
		if !found {
			return false
		}
		if open || best.After(b) {
			return true
		}
		cur, first = best, false
	}
	return false
}

func (r *run) judge() {
	w, sc := r.w, r.sc
	t0 := w.t0
	P := w.connsTo(peerP)
	nonLimPossiblyIn := func(a, b time.Time) bool {
		for _, c := range P {
			if !c.cls.limited() && c.possiblyOpenIn(a, b) {
				return true
			}
		}
		return false
	}
	limPossiblyIn := func(a, b time.Time) bool {
		for _, c := range P {
			if c.cls.limited() && c.possiblyOpenIn(a, b) {
				return true
			}
		}
		return false
	}
	limCertainAt := func(t time.Time) bool {
		for _, c := range P {
			if c.cls.limited() && c.certainlyOpenAt(t) {
				return true
			}
		}
		return false
	}
	dials := w.sw0.Snapshot()

	nCertain := 0
	for i, cr := range r.calls {
		cs := cr.spec
		T := cs.peerTimeout
		if T == 0 {
			T = network.DialPeerTimeout
		}
		ctxEnd := t0.Add(farFuture)
		if cs.cancelAt > 0 {
			ctxEnd = t0.Add(cs.cancelAt)
		}
		if cs.deadline > 0 {
			ctxEnd = minTime(ctxEnd, cr.start.Add(cs.deadline))
		} else if sc.host && cs.api == apiNewStream && sc.negTimeout >= 0 {
			// BasicHost.NewStream gives a context without deadline the negotiation timeout
			nt := sc.negTimeout
			if nt == 0 {
				nt = 10 * time.Second
			}
			ctxEnd = minTime(ctxEnd, cr.start.Add(nt))
			r.labels["host-neg-timeout-applies"] = true
		}
		if limPossiblyIn(cr.start, cr.start) && nonLimPossiblyIn(cr.start, cr.start) {
			r.nontr = true
			r.labels["mixed-set-at-start"] = true
		}
		for _, c := range P {
			if ct, ok := c.closedAt(); ok && ct.Equal(cr.start) {
				r.labels["conn-closing-at-caller-start"] = true
			}
			// a conn in the closing state (closed for the model, still listed by the swarm) when the caller starts
			if ct, ok := c.closedAt(); ok && c.closing.Load() && ct.Before(cr.start) {
				if ns := c.releasedNS.Load(); ns == 0 || time.Unix(0, ns).After(cr.start) {
					r.labels["caller-starts-with-closing-"+c.cls.String()+"-listed"] = true
					if !c.cls.limited() && limCertainAt(cr.start) && !nonLimPossiblyIn(cr.start, cr.start) {
						r.nontr = true
						r.labels["caller-starts-with-closing-nonlimited+live-limited"] = true
					}
				}
			}
		}

		switch cs.api {
		case apiDialPeer:
			if cr.err == nil {
				if cr.dnil || cr.dconn == nil {
					r.fail("caller #%d: DialPeer returned neither an error nor a known connection", i)
				}
				if cr.dconn.peer != peerP {
					r.fail("caller #%d: DialPeer(P) returned a connection to %s", i, short(cr.dconn.peer))
				}
				if cs.force {
					if cr.dconn.cls.proxy() || cr.dproxy {
						r.fail("caller #%d demanded a direct connection (force-direct) and DialPeer returned conn #%d whose transport is a proxy (%s, %s)", i, cr.dconn.seq, cr.dconn.cls, cr.dconn.RAddr)
					}
					r.labels["force-direct-dial-got-direct"] = true
					for _, c := range P {
						if c.cls.proxy() && c.possiblyOpenAt(cr.start) {
							r.labels["force-direct-dial-with-relayed-conn-present"] = true
						}
					}
				} else if cr.dconn.cls.proxy() {
					r.labels["plain-dial-got-relayed"] = true
				}
			} else if cs.force {
				r.labels["force-direct-dial-failed"] = true
			}
			continue
		case apiConnect:
			if cr.err == nil && cs.force {
				ok := false
				for _, c := range P {
					if c.cls == clsD && c.possiblyOpenAt(cr.end) {
						ok = true
					}
				}
				if !ok {
					r.fail("caller #%d: Connect with force-direct returned nil at %v although no direct connection to the peer existed then", i, cr.end.Sub(t0))
				}
				r.labels["host-connect-force-direct-ok"] = true
			}
			continue
		}

		// NewStream
		if cr.err == nil {
			if cr.sconn == nil {
				r.fail("caller #%d: stream on a connection unknown to the harness", i)
			}
			if cr.sconn.peer != peerP {
				r.fail("caller #%d: NewStream(P) returned a stream to %s", i, short(cr.sconn.peer))
			}
			if cr.statLimited != cr.sconn.cls.limited() {
				r.fail("caller #%d: stream's conn #%d (%s) reports Stat().Limited=%v", i, cr.sconn.seq, cr.sconn.cls, cr.statLimited)
			}
			if !cs.allow && (cr.statLimited || cr.sconn.cls.limited()) {
				r.fail("caller #%d did not allow limited connections but got a stream on limited conn #%d at %v", i, cr.sconn.seq, cr.end.Sub(t0))
			}
			if !cr.sconn.possiblyOpenAt(cr.end) {
				r.fail("caller #%d got a stream at %v on conn #%d which was not open then", i, cr.end.Sub(t0), cr.sconn.seq)
			}
			if cs.allow {
				r.labels["allowed-stream-on-"+cr.sconn.cls.String()] = true
			}
		}
		// D: a non-limited connection is there during the whole call: there is nothing to wait for
		// (a BasicHost caller with force-direct dials first unless the conn is a direct one)
		for _, c := range P {
			ct, closed := c.closedAt()
			if c.cls.limited() || !c.certainlyOpenAt(cr.start) || (closed && !ct.After(cr.end)) || (sc.host && cs.force && c.cls != clsD) {
				continue
			}
			if cr.err != nil || !cr.end.Equal(cr.start) {
				r.fail("caller #%d: non-limited conn #%d (%s) was open from before the call until after it returned, yet NewStream did not return a stream at once (returned at %v: %v)",
					i, c.seq, c.cls, cr.end.Sub(t0), cr.err)
			}
			r.labels["non-limited-conn-present-stream-at-once"] = true
			break
		}
		if cs.allow {
			continue
		}

		// Is it certain (from the recorded history alone) that this caller was waiting for a
		// direct connection, and since when? [twLo, twHi] brackets the start of the wait.
		var twLo, twHi time.Time
		shape := ""
		switch {
		case limCertainAt(cr.start) && !nonLimPossiblyIn(cr.start, cr.start) && !(sc.host && cs.force && !cs.nodia):
			// A: only limited connections at the start (a BasicHost caller with force-direct dials first: excluded)
			twLo, twHi, shape = cr.start, cr.start, "A"
		case !cs.nodia && !cs.force:
			// B: no connection at the start; the first connection that appears is the limited
			// one produced by this caller's own dial through the relay address
			var x *conn
			ok := true
			for _, c := range P {
				if c.possiblyOpenAt(cr.start) {
					ok = false
				}
				if c.added.After(cr.start) && (x == nil || c.added.Before(x.added)) {
					x = c
				}
			}
			if ok && x != nil && !x.inbound && x.cls.limited() && x.certainlyOpenAt(x.added.Add(time.Nanosecond)) &&
				x.added.Before(minTime(ctxEnd, cr.start.Add(T))) && !cr.end.Before(x.added) {
				for _, c := range P {
					if c != x && c.added.Equal(x.added) {
						ok = false
					}
				}
				for _, d := range dials {
					if d.Peer == peerP && d.Addr.Equal(addrR) && d.Done && d.Err != nil && !d.End.After(x.added) {
						ok = false // a failed relay dial may have left a back-off entry
					}
				}
				if ok {
					twLo, twHi, shape = x.added, x.added, "B"
				}
			}
		}
		if shape == "" && cs.nodia {
			// C: no-dial caller seen blocked at a quiescence point while no non-limited
			// connection can have been visible since it started: it can only be waiting
			for _, q := range r.qs {
				if i < len(q.blocked) && q.blocked[i] && !q.at.Before(cr.start) {
					if !nonLimPossiblyIn(cr.start, q.at) {
						twLo, twHi, shape = cr.start, q.at, "C"
					}
					break
				}
			}
		}
		if shape == "" {
			r.labels["not-a-certain-waiter"] = true
			continue
		}
		nCertain++
		r.labels["waiter-shape-"+shape] = true

		xLo, xHi := minTime(ctxEnd, twLo.Add(T)), minTime(ctxEnd, twHi.Add(T))
		// first non-limited connection handed to the swarm after the wait certainly began
		var first *conn
		stable := false
		for _, c := range P {
			if c.cls.limited() || !c.added.After(twHi) {
				continue
			}
			if first == nil || c.added.Before(first.added) {
				first = c
			}
		}
		if first != nil {
			for _, c := range P {
				if !c.cls.limited() && c.added.Equal(first.added) && c.certainlyOpenAt(first.added.Add(time.Nanosecond)) {
					stable = true
				}
			}
			// A non-limited connection that is closed in the very instant of the arrival may be the one
			// that wakes the waiter; finding it gone, the call gives up with ErrLimitedConn even if
			// another one arrives in the same instant. The statement is silent on flapping: not judged.
			for _, c := range P {
				if ct, ok := c.closedAt(); ok && !c.cls.limited() && ct.Equal(first.added) {
					stable = false
				}
			}
		}
		// something happened while it waited?
		for _, c := range P {
			if c.added.After(twHi) && !c.added.After(cr.end) {
				r.nontr = true
				r.labels["conn-added-while-waiting"] = true
			}
			if ct, ok := c.closedAt(); ok && ct.After(twHi) && ct.Before(cr.end) {
				r.nontr = true
				r.labels["conn-closed-while-waiting"] = true
			}
		}
		for j, o := range r.calls {
			if j != i && o.end.After(twHi) && o.end.Before(cr.end) {
				r.nontr = true
				if o.err != nil && o.spec.api == apiNewStream && !o.spec.allow {
					r.labels["other-waiter-gave-up-while-waiting"] = true
				}
			}
		}

		switch {
		case first != nil && first.added.Before(xLo):
			ta := first.added
			if cr.end.Before(ta) {
				if coveredByLimited(P, twLo, cr.end) {
					r.fail("caller #%d (shape %s) was certainly waiting for a direct connection since %v; it returned at %v (%v) although only limited connections existed the whole time, "+
						"its context was alive until %v and the dial-peer timeout could not end before %v", i, shape, twLo.Sub(t0), cr.end.Sub(t0), cr.err, ctxEnd.Sub(t0), xLo.Sub(t0))
				}
				r.labels["early-return-without-any-conn"] = true
				break
			}
			if stable {
				if !cr.end.Equal(ta) {
					r.fail("caller #%d (shape %s) was waiting for a direct connection since %v; non-limited conn #%d appeared at %v and stayed, but the call returned only at %v (%v)",
						i, shape, twLo.Sub(t0), first.seq, ta.Sub(t0), cr.end.Sub(t0), cr.err)
				}
				if cr.err != nil {
					r.fail("caller #%d (shape %s) was waiting for a direct connection; non-limited conn #%d appeared at %v and stayed (context alive until %v), but the call failed: %v",
						i, shape, first.seq, ta.Sub(t0), ctxEnd.Sub(t0), cr.err)
				}
				r.labels["woken-by-"+first.cls.String()+map[bool]string{true: "-inbound", false: "-dialled"}[first.inbound]] = true
			} else {
				r.labels["direct-conn-vanished-at-once"] = true
			}
		case first == nil || first.added.After(xHi):
			// nothing can release it before its context / dial-peer timeout ends
			if cr.end.Before(xLo) {
				if coveredByLimited(P, twLo, cr.end) {
					r.fail("caller #%d (shape %s) was certainly waiting for a direct connection since %v; it returned at %v (%v) although only limited connections existed the whole time, "+
						"its context was alive until %v and the dial-peer timeout could not end before %v", i, shape, twLo.Sub(t0), cr.end.Sub(t0), cr.err, ctxEnd.Sub(t0), xLo.Sub(t0))
				}
				r.labels["early-return-without-any-conn"] = true
				break
			}
			if cr.end.After(xHi) {
				r.fail("caller #%d (shape %s) was waiting for a direct connection since %v; its context ended at %v / its dial-peer timeout at the latest at %v, but it returned only at %v",
					i, shape, twLo.Sub(t0), ctxEnd.Sub(t0), twHi.Add(T).Sub(t0), cr.end.Sub(t0))
			}
			if cr.err == nil {
				r.fail("caller #%d (shape %s): a stream was returned at %v although no non-limited connection ever existed while it waited", i, shape, cr.end.Sub(t0))
			}
			switch {
			case ctxEnd.Before(twLo.Add(T)) && cs.cancelAt > 0 && ctxEnd.Equal(t0.Add(cs.cancelAt)):
				r.labels["waiter-cancelled"] = true
			case ctxEnd.Before(twLo.Add(T)):
				r.labels["waiter-deadline"] = true
			case cs.peerTimeout > 0:
				r.labels["waiter-dial-peer-timeout-custom"] = true
			default:
				r.labels["waiter-dial-peer-timeout-default"] = true
			}
			r.labels["waiter-err-"+strings.TrimPrefix(cr.outcome(), "err:")] = true
		default:
			// a non-limited connection appears at the very instant a timeout may end: either order
			if cr.end.After(xHi) && cr.end.After(first.added) && stable {
				r.fail("caller #%d (shape %s) still waiting at %v although conn #%d appeared at %v and every timeout ended by %v", i, shape, cr.end.Sub(t0), first.seq, first.added.Sub(t0), xHi.Sub(t0))
			}
			r.labels["arrival-races-with-timeout"] = true
		}
	}
	if nCertain >= 2 {
		r.labels["several-certain-waiters"] = true
	}

	// Proxy-transport rule: a dial of a relay address needs a caller that may dial and did not
	// demand a direct connection (merged over callers whose waiting intervals touch, since the
	// dial worker keeps queued addresses while any request is pending).
	type iv struct {
		s, e  time.Time
		plain []time.Time // starts of callers that may dial relay addresses
	}
	var ivs []iv
	var dialers []*callRes
	for _, cr := range r.calls {
		if cr.spec.nodia && cr.spec.api == apiNewStream {
			continue
		}
		dialers = append(dialers, cr)
	}
	sort.Slice(dialers, func(a, b int) bool { return dialers[a].start.Before(dialers[b].start) })
	allForce := len(dialers) > 0
	for _, cr := range dialers {
		if !cr.spec.force {
			allForce = false
		}
		if n := len(ivs); n > 0 && !cr.start.After(ivs[n-1].e) {
			if cr.end.After(ivs[n-1].e) {
				ivs[n-1].e = cr.end
			}
		} else {
			ivs = append(ivs, iv{s: cr.start, e: cr.end})
		}
		if !cr.spec.force {
			ivs[len(ivs)-1].plain = append(ivs[len(ivs)-1].plain, cr.start)
		}
	}
	circuitDials := 0
	for _, d := range dials {
		_, err := d.Addr.ValueForProtocol(ma.P_CIRCUIT)
		isRelay := err == nil
		if isRelay != (d.Transport == "circuit") {
			r.fail("address %s was handed to transport %q", d.Addr, d.Transport)
		}
		if d.Peer == peerP && !d.Addr.Equal(addrD1) && !d.Addr.Equal(addrD2) && !d.Addr.Equal(addrR) {
			r.fail("address %s, which is not an address of the peer, was handed to a transport", d.Addr)
		}
		if !isRelay || d.Peer != peerP {
			continue
		}
		circuitDials++
		if allForce {
			r.fail("every caller demanded a direct connection (force-direct), yet the proxy transport was asked to dial %s at %v", d.Addr, d.Start.Sub(t0))
		}
		for _, v := range ivs {
			if d.Start.Before(v.s) || d.Start.After(v.e) {
				continue
			}
			ok := false
			for _, s := range v.plain {
				if !s.After(d.Start) {
					ok = true
				}
			}
			if !ok {
				r.fail("the proxy transport was asked to dial %s at %v while only force-direct callers had asked for a connection (waiting interval %v..%v)", d.Addr, d.Start.Sub(t0), v.s.Sub(t0), v.e.Sub(t0))
			}
		}
	}
	if circuitDials > 0 {
		r.labels["relay-address-dialled"] = true
		if sc.r.via.resolved() && sc.r.via != viaBoth {
			r.labels["relay-address-dialled:found-by-resolving-"+sc.r.via.String()] = true
		}
	}
	for _, d := range dials {
		if d.Peer == peerP && (d.Addr.Equal(addrD1) && sc.d1.via.resolved() && sc.d1.via != viaBoth || d.Addr.Equal(addrD2) && sc.d2.via.resolved() && sc.d2.via != viaBoth) {
			r.labels["direct-address-dialled:found-by-resolving-a-name"] = true
		}
	}
	if sc.r.present {
		r.labels["relay-addr-known-"+sc.r.via.String()] = true
	}
	if allForce && sc.r.present {
		r.labels["all-callers-force-direct-with-relay-addr-known"] = true
		if sc.r.via.resolved() {
			r.labels["all-callers-force-direct-with-relay-addr-behind-name"] = true
		}
	}
	if sc.r.present && sc.r.via.resolved() {
		for _, cr := range dialers {
			if !cr.spec.force || cr.spec.api != apiDialPeer {
				continue
			}
			if cr.err == nil {
				r.labels["relay-addr-behind-name:force-direct-dial-got-direct"] = true
			} else {
				r.labels["relay-addr-behind-name:force-direct-dial-failed"] = true
			}
		}
	}
	if len(dialers) > 0 && !allForce && sc.r.present {
		for _, cr := range dialers {
			if cr.spec.force {
				r.labels["force-direct-and-plain-callers-mixed"] = true
			}
		}
	}
}

func TestSwarmSchedules(t *testing.T) {
	name := t.Name()
	hx.Check(t, 16000, 600000, 0, func(rt *rapid.T) {
		runScenario(t, rt, name, drawScenario(rt, false))
	})
}

func TestHostSchedules(t *testing.T) {
	name := t.Name()
	hx.Check(t, 8000, 220000, 0, func(rt *rapid.T) {
		runScenario(t, rt, name, drawScenario(rt, true))
	})
}
