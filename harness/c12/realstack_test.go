package c12

import (
	"context"
	"fmt"
	"net"
	"sort"
	"strings"
	"sync"
	"testing"
	"testing/synctest"
	"time"

	"github.com/libp2p/go-libp2p/core/event"
	"github.com/libp2p/go-libp2p/core/network"
	"github.com/libp2p/go-libp2p/core/peer"
	"github.com/libp2p/go-libp2p/core/sec"
	"github.com/libp2p/go-libp2p/core/transport"
	basichost "github.com/libp2p/go-libp2p/p2p/host/basic"
	"github.com/libp2p/go-libp2p/p2p/host/eventbus"
	"github.com/libp2p/go-libp2p/p2p/host/peerstore/pstoremem"
	"github.com/libp2p/go-libp2p/p2p/muxer/yamux"
	"github.com/libp2p/go-libp2p/p2p/net/swarm"
	"github.com/libp2p/go-libp2p/p2p/net/upgrader"
	"github.com/libp2p/go-libp2p/p2p/protocol/circuitv2/client"
	"github.com/libp2p/go-libp2p/p2p/protocol/circuitv2/relay"
	"github.com/libp2p/go-libp2p/p2p/security/noise"
	libp2ptls "github.com/libp2p/go-libp2p/p2p/security/tls"
	ma "github.com/multiformats/go-multiaddr"
	"pgregory.net/rapid"

	"verif/internal/hx"
	"verif/internal/keys"
	"verif/internal/memtpt"
	"verif/internal/stats"
)

// ---------------------------------------------------------------------------
// The host-level statements on the REAL stack: three real BasicHosts over real swarms in one
// bubble (A = local node, B = the peer, R = a real circuit-v2 relay). Only the socket syscalls
// are replaced (internal/memtpt: the real TCP transport over in-memory pipes). Connections are
// made by the real upgrader (private-network wrapping when a pre-shared key is configured,
// Noise or TLS, yamux) and the relayed ones by the real circuit client through the real relay.
//
// Ground truth is configuration, not what the code under test reports: a connection is RELAYED
// iff one of its multiaddrs contains /p2p-circuit, and it is LIMITED iff it is relayed and the
// relay was configured with limits. Everything else is the property's text applied to that.

type rsOpKind int

const (
	rsNewStream    rsOpKind = iota // A: host.NewStream(B)
	rsDialPeer                     // A: Network().DialPeer(B)
	rsConnect                      // A: host.Connect(B)
	rsBNewStream                   // B: host.NewStream(A): the receiving end of the circuit
	rsBDialsDirect                 // B dials A's direct address, demanding a direct connection
	rsCloseDirect                  // the non-relayed connections between A and B are closed
	rsCloseRelayed                 // the relayed connections between A and B are closed
)

func (k rsOpKind) String() string {
	return [...]string{"A.NewStream", "A.DialPeer", "A.Connect", "B.NewStream", "B.dials-direct", "close-direct", "close-relayed"}[k]
}

type rsOp struct {
	kind                 rsOpKind
	allow, force, nodial bool
	deadline             time.Duration
	arrive               time.Duration // while the call is pending B dials A directly after this long (0 = no)
	atB                  bool          // close ops: closed at B's end
}

func (o rsOp) String() string {
	var f []string
	if o.allow {
		f = append(f, "allow")
	}
	if o.force {
		f = append(f, "force")
	}
	if o.nodial {
		f = append(f, "nodial")
	}
	s := fmt.Sprintf("%s[%s]", o.kind, strings.Join(f, ","))
	if o.deadline > 0 {
		s += fmt.Sprintf(" d%v", o.deadline)
	}
	if o.arrive > 0 {
		s += fmt.Sprintf(" direct-arrives+%v", o.arrive)
	}
	if o.atB {
		s += " atB"
	}
	return s
}

type rsScenario struct {
	psk          bool   // every node is a member of the same private network (pre-shared key)
	sec          string // noise | tls
	relayLimited bool   // the relay imposes limits on the circuits (limited relay) or not
	limitDur     time.Duration
	latency      time.Duration
	bListens     bool // B has a direct listen address
	directKnown  bool // A's peerstore holds B's direct address from the start
	directVia    via
	relayVia     via // how A knows B's relay address
	txtPeer      bool
	preconnected bool // A is connected to the relay before the first op
	ops          []rsOp
}

func (sc *rsScenario) String() string {
	var os []string
	for _, o := range sc.ops {
		os = append(os, o.String())
	}
	return fmt.Sprintf("psk=%v sec=%s relay-limited=%v/%v lat=%v b-listens=%v direct-known=%v/%s relay-addr=%s txtpeer=%v preconn=%v ops=[%s]",
		sc.psk, sc.sec, sc.relayLimited, sc.limitDur, sc.latency, sc.bListens, sc.directKnown, sc.directVia, sc.relayVia, sc.txtPeer, sc.preconnected, strings.Join(os, "; "))
}

func drawRSScenario(rt *rapid.T) *rsScenario {
	sc := &rsScenario{}
	sc.psk = rapid.Bool().Draw(rt, "psk")
	sc.sec = rapid.SampledFrom([]string{"noise", "noise", "tls"}).Draw(rt, "sec")
	sc.relayLimited = rapid.IntRange(0, 3).Draw(rt, "relay-limited") != 0
	sc.limitDur = time.Duration(rapid.SampledFrom([]int{120, 120, 8}).Draw(rt, "limit-duration")) * time.Second
	sc.latency = ms(rapid.SampledFrom([]int{0, 0, 1, 20}).Draw(rt, "latency"))
	sc.bListens = rapid.IntRange(0, 2).Draw(rt, "b-listens") == 0
	sc.directKnown = rapid.IntRange(0, 2).Draw(rt, "direct-known") == 0
	sc.relayVia, sc.txtPeer = drawVia(rt, "relay")
	if sc.directKnown {
		sc.directVia, _ = drawVia(rt, "direct")
		if sc.directVia == viaDNSAddrNested || sc.directVia == viaBoth {
			sc.directVia = viaDNSAddrShared
		}
	}
	sc.preconnected = rapid.Bool().Draw(rt, "preconnected")
	n := rapid.IntRange(2, 5).Draw(rt, "nops")
	for i := 0; i < n; i++ {
		o := rsOp{}
		k := rapid.IntRange(0, 13).Draw(rt, "op")
		switch {
		case k <= 4:
			o.kind = rsNewStream
		case k <= 6:
			o.kind = rsDialPeer
		case k == 7:
			o.kind = rsConnect
		case k <= 9:
			o.kind = rsBNewStream
		case k == 10:
			o.kind = rsBDialsDirect
		case k == 11:
			o.kind = rsCloseDirect
		default:
			o.kind = rsCloseRelayed
		}
		switch o.kind {
		case rsNewStream, rsBNewStream:
			o.allow = rapid.IntRange(0, 3).Draw(rt, "allow") == 0
			o.nodial = rapid.IntRange(0, 4).Draw(rt, "nodial") == 0
			o.force = rapid.IntRange(0, 6).Draw(rt, "force") == 0
			o.deadline = ms(rapid.SampledFrom([]int{500, 2000, 5000}).Draw(rt, "deadline"))
			if o.kind == rsNewStream && rapid.IntRange(0, 3).Draw(rt, "arrives") == 0 {
				o.arrive = ms(rapid.SampledFrom([]int{100, 300, 1000, 3000}).Draw(rt, "arrive"))
			}
		case rsDialPeer, rsConnect:
			o.force = rapid.Bool().Draw(rt, "force")
			o.allow = rapid.IntRange(0, 3).Draw(rt, "allow") == 0
			o.deadline = ms(rapid.SampledFrom([]int{500, 2000, 5000}).Draw(rt, "deadline"))
		case rsCloseDirect, rsCloseRelayed:
			o.atB = rapid.Bool().Draw(rt, "atB")
		}
		sc.ops = append(sc.ops, o)
	}
	return sc
}

var rsPSK = func() []byte {
	k := make([]byte, 32)
	for i := range k {
		k[i] = byte(7*i + 3)
	}
	return k
}()

type rsNode struct {
	name  string
	id    *keys.Identity
	sw    *swarm.Swarm
	h     *basichost.BasicHost
	up    transport.Upgrader
	laddr ma.Multiaddr
	sub   event.Subscription
	last  map[peer.ID]network.Connectedness
	once  sync.Once
	// nconn counts the connections the swarm announced (Connected notifications), per peer
	nmu   sync.Mutex
	nconn map[peer.ID]int
}

func (n *rsNode) announced(p peer.ID) int {
	n.nmu.Lock()
	defer n.nmu.Unlock()
	return n.nconn[p]
}

func newRSNode(name string, id *keys.Identity, sc *rsScenario, nw *memtpt.Network, ip net.IP, listen bool, rslv network.MultiaddrDNSResolver) (*rsNode, error) {
	n := &rsNode{name: name, id: id, laddr: ma.StringCast("/ip4/" + ip.String() + "/tcp/4001"), last: map[peer.ID]network.Connectedness{}}
	muxers := []upgrader.StreamMuxer{{ID: yamux.ID, Muxer: yamux.DefaultTransport}}
	var st sec.SecureTransport
	var err error
	if sc.sec == "tls" {
		st, err = libp2ptls.New(libp2ptls.ID, id.Priv, muxers)
	} else {
		st, err = noise.New(noise.ID, id.Priv, muxers)
	}
	if err != nil {
		return nil, err
	}
	var k []byte
	if sc.psk {
		k = rsPSK
	}
	n.up, err = upgrader.New([]sec.SecureTransport{st}, muxers, k, &network.NullResourceManager{}, nil)
	if err != nil {
		return nil, err
	}
	tpt, err := nw.NewTransport(n.up, nil, ip)
	if err != nil {
		return nil, err
	}
	ps, err := pstoremem.NewPeerstore()
	if err != nil {
		return nil, err
	}
	ps.AddPrivKey(id.ID, id.Priv)
	ps.AddPubKey(id.ID, id.Pub)
	bus := eventbus.NewBus()
	n.sub, err = bus.Subscribe(new(event.EvtPeerConnectednessChanged), eventbus.BufSize(4096))
	if err != nil {
		ps.Close()
		return nil, err
	}
	sopts := []swarm.Option{swarm.WithUDPBlackHoleSuccessCounter(nil), swarm.WithIPv6BlackHoleSuccessCounter(nil)}
	if rslv != nil {
		sopts = append(sopts, swarm.WithMultiaddrResolver(rslv))
	}
	n.sw, err = swarm.NewSwarm(id.ID, ps, bus, sopts...)
	if err != nil {
		ps.Close()
		return nil, err
	}
	if err := n.sw.AddTransport(tpt); err != nil {
		n.sw.Close()
		ps.Close()
		return nil, err
	}
	if listen {
		if err := n.sw.Listen(n.laddr); err != nil {
			n.sw.Close()
			ps.Close()
			return nil, err
		}
	}
	n.h, err = basichost.NewHost(n.sw, &basichost.HostOpts{EventBus: bus, DisableSignedPeerRecord: true})
	if err != nil {
		n.sw.Close()
		ps.Close()
		return nil, err
	}
	n.nconn = map[peer.ID]int{}
	n.sw.Notify(&network.NotifyBundle{ConnectedF: func(_ network.Network, c network.Conn) {
		n.nmu.Lock()
		n.nconn[c.RemotePeer()]++
		n.nmu.Unlock()
	}})
	n.h.Start()
	return n, nil
}

func (n *rsNode) close() {
	n.once.Do(func() {
		n.h.Close()
		n.sub.Close()
	})
}

func (n *rsNode) drain() {
	for {
		select {
		case e, ok := <-n.sub.Out():
			if !ok {
				return
			}
			ev := e.(event.EvtPeerConnectednessChanged)
			n.last[ev.Peer] = ev.Connectedness
		default:
			return
		}
	}
}

func relayedAddr(c network.Conn) bool {
	for _, a := range []ma.Multiaddr{c.RemoteMultiaddr(), c.LocalMultiaddr()} {
		if a == nil {
			continue
		}
		if _, err := a.ValueForProtocol(ma.P_CIRCUIT); err == nil {
			return true
		}
	}
	return false
}

type rsRun struct {
	rt      *rapid.T
	sc      *rsScenario
	a, b, r *rsNode
	zone    *zone
	labels  map[string]bool
	nontr   bool
	log     []string
	t0      time.Time
}

func (r *rsRun) fail(format string, args ...any) {
	r.rt.Fatalf("%s\nscenario: %s\nA knows B as: %s\nhistory:\n  %s\nnow (%v): %s %s", fmt.Sprintf(format, args...), r.sc, r.zone, strings.Join(r.log, "\n  "),
		time.Since(r.t0), r.dump(r.a, r.b.id.ID), r.dump(r.b, r.a.id.ID))
}

// limited: ground truth by configuration.
func (r *rsRun) limited(c network.Conn) bool { return relayedAddr(c) && r.sc.relayLimited }

type rsView struct {
	lim, nonLim, relayed int
	ids                  map[string]bool // IDs of the limited connections
}

// view: the open connections from x to p, classified by configuration.
func (r *rsRun) view(x *rsNode, p peer.ID) rsView {
	v := rsView{ids: map[string]bool{}}
	for _, c := range x.sw.ConnsToPeer(p) {
		if c.IsClosed() {
			continue
		}
		if relayedAddr(c) {
			v.relayed++
		}
		if r.limited(c) {
			v.lim++
			v.ids[c.ID()] = true
		} else {
			v.nonLim++
		}
	}
	return v
}

func (r *rsRun) dump(x *rsNode, p peer.ID) string {
	var out []string
	for _, c := range x.sw.ConnsToPeer(p) {
		out = append(out, fmt.Sprintf("%s[%s closed=%v lim=%v %v]", c.ID(), c.RemoteMultiaddr(), c.IsClosed(), c.Stat().Limited, c.Stat().Direction))
	}
	return x.name + ":" + strings.Join(out, " ")
}

func (v rsView) model() network.Connectedness {
	switch {
	case v.nonLim > 0:
		return network.Connected
	case v.lim > 0:
		return network.Limited
	}
	return network.NotConnected
}

// quiesce: nothing runs any more. On both ends: every connection reports Limited exactly when it
// was made through the limited relay; Connectedness (and the last connectedness event) is
// Limited iff only limited connections exist; Conn.NewStream obeys the permission rule.
func (r *rsRun) quiesce(what string) {
	synctest.Wait()
	if r.sc.latency > 0 {
		// bytes are still in flight (the last handshake message of a connection the other end already
		// uses, the FIN of a closed one): let them land and their consequences settle
		time.Sleep(50 * r.sc.latency)
		synctest.Wait()
	}
	for _, x := range []*rsNode{r.a, r.b} {
		x.drain()
		other := r.b
		if x == r.b {
			other = r.a
		}
		for _, c := range x.sw.Conns() {
			if c.IsClosed() {
				continue
			}
			want := r.limited(c)
			if got := c.Stat().Limited; got != want {
				r.fail("%s: at %s the connection %s -> %s (local %s, remote %s; relayed=%v, the relay imposes limits=%v, private network=%v) reports Stat().Limited=%v",
					what, x.name, x.name, c.RemotePeer().ShortString(), c.LocalMultiaddr(), c.RemoteMultiaddr(), relayedAddr(c), r.sc.relayLimited, r.sc.psk, got)
			}
			if c.RemotePeer() != other.id.ID {
				continue
			}
			if want {
				r.nontr = true
				r.labels["limited-relayed-conn-judged"] = true
				if r.sc.psk {
					r.labels["limited-relayed-conn-judged:private-network"] = true
				}
				if c.Stat().Direction == network.DirInbound {
					r.labels["limited-relayed-conn-judged:receiving-end"] = true
				}
				s, err := c.NewStream(context.Background())
				if err == nil {
					s.Reset()
					r.fail("%s: at %s Conn.NewStream on the limited connection %s returned a stream although the context did not allow limited connections", what, x.name, c.RemoteMultiaddr())
				}
			} else if relayedAddr(c) {
				r.labels["unlimited-relayed-conn-judged"] = true
			} else {
				r.labels["direct-conn-judged"] = true
			}
		}
		v := r.view(x, other.id.ID)
		want := v.model()
		if got := x.sw.Connectedness(other.id.ID); got != want {
			r.fail("%s: at %s Connectedness(%s) = %v, but with %d limited and %d non-limited open connections it must be %v", what, x.name, other.name, got, v.lim, v.nonLim, want)
		}
		if got, ok := x.last[other.id.ID]; (ok || want != network.NotConnected) && got != want {
			r.fail("%s: at %s the last EvtPeerConnectednessChanged for %s says %v, but with %d limited and %d non-limited open connections the peer is %v", what, x.name, other.name, got, v.lim, v.nonLim, want)
		}
		r.labels[x.name+"-sees-"+want.String()] = true
		if v.lim > 0 && v.nonLim > 0 {
			r.labels["mixed-limited-and-direct"] = true
		}
	}
}

func (r *rsRun) ctx(o rsOp) (context.Context, context.CancelFunc) {
	ctx, cancel := context.WithTimeout(context.Background(), o.deadline)
	if o.allow {
		ctx = network.WithAllowLimitedConn(ctx, "c12")
	}
	if o.force {
		ctx = network.WithForceDirectDial(ctx, "c12")
	}
	if o.nodial {
		ctx = network.WithNoDial(ctx, "c12")
	}
	return ctx, cancel
}

// bDialsDirect: B opens a direct connection to A (the kind of thing a hole punch or a
// connection reversal does). A dial that demands a direct connection returns no relayed one.
func (r *rsRun) bDialsDirect(what string) error {
	r.b.sw.Peerstore().AddAddr(r.a.id.ID, r.a.laddr, time.Hour)
	ctx, cancel := context.WithTimeout(network.WithForceDirectDial(context.Background(), "c12"), 10*time.Second)
	defer cancel()
	c, err := r.b.sw.DialPeer(ctx, r.a.id.ID)
	if err == nil && (c == nil || relayedAddr(c)) {
		r.fail("%s: B demanded a direct connection to A (force-direct) and DialPeer returned %v", what, c)
	}
	return err
}

func runRS(t *testing.T, rt *rapid.T, name string, sc *rsScenario) {
	r := &rsRun{rt: rt, sc: sc, labels: map[string]bool{}}
	var outcomes []string
	hx.Bubble(t, rt, func() {
		nw := memtpt.NewNetwork()
		nw.Latency = sc.latency
		idA, idB, idR := keys.Ed(30), keys.Ed(31), keys.Ed(32)
		ipA, ipB, ipR := net.IPv4(10, 0, 0, 1), net.IPv4(10, 0, 0, 2), net.IPv4(10, 0, 0, 9)
		rn, err := newRSNode("R", idR, sc, nw, ipR, true, nil)
		if err != nil {
			rt.Fatalf("relay node: %v", err)
		}
		defer rn.close()
		r.r = rn
		// what A knows about B
		z := newZone()
		r.zone = z
		relayAddr := ma.StringCast(fmt.Sprintf("/ip4/%s/tcp/4001/p2p/%s/p2p-circuit", ipR, idR.ID))
		bDirect := ma.StringCast("/ip4/" + ipB.String() + "/tcp/4001")
		z.know(idB.ID, 2, relayAddr, sc.relayVia, sc.txtPeer)
		if sc.directKnown {
			z.know(idB.ID, 0, bDirect, sc.directVia, sc.txtPeer)
		}
		rslv, err := z.resolver()
		if err != nil {
			rt.Fatalf("resolver: %v", err)
		}
		a, err := newRSNode("A", idA, sc, nw, ipA, true, rslv)
		if err != nil {
			rt.Fatalf("node A: %v", err)
		}
		defer a.close()
		b, err := newRSNode("B", idB, sc, nw, ipB, sc.bListens, nil)
		if err != nil {
			rt.Fatalf("node B: %v", err)
		}
		defer b.close()
		r.a, r.b = a, b
		for _, x := range []*rsNode{a, b} {
			if err := client.AddTransport(x.h, x.up); err != nil {
				rt.Fatalf("circuit transport at %s: %v", x.name, err)
			}
		}
		var ropts []relay.Option
		if sc.relayLimited {
			rc := relay.DefaultResources()
			rc.Limit = &relay.RelayLimit{Duration: sc.limitDur, Data: 1 << 20}
			ropts = append(ropts, relay.WithResources(rc))
		} else {
			ropts = append(ropts, relay.WithInfiniteLimits())
		}
		rl, err := relay.New(rn.h, ropts...)
		if err != nil {
			rt.Fatalf("relay: %v", err)
		}
		defer rl.Close()
		for _, x := range []*rsNode{a, b} {
			x.h.SetStreamHandler(testProto, func(s network.Stream) { s.Reset() })
		}
		rinfo := peer.AddrInfo{ID: idR.ID, Addrs: []ma.Multiaddr{rn.laddr}}
		sctx, scancel := context.WithTimeout(context.Background(), time.Minute)
		if _, err := client.Reserve(sctx, b.h, rinfo); err != nil {
			scancel()
			rt.Fatalf("set-up: B's reservation at the relay failed (psk=%v sec=%s): %v", sc.psk, sc.sec, err)
		}
		if sc.preconnected {
			if err := a.h.Connect(sctx, rinfo); err != nil {
				scancel()
				rt.Fatalf("set-up: A cannot connect to the relay: %v", err)
			}
		}
		scancel()
		a.sw.Peerstore().AddAddrs(idB.ID, z.entries, time.Hour)
		r.t0 = time.Now()
		r.quiesce("set-up")

		for i, o := range sc.ops {
			what := fmt.Sprintf("op#%d %s", i, o)
			switch o.kind {
			case rsNewStream, rsBNewStream:
				x, y := a, b
				if o.kind == rsBNewStream {
					x, y = b, a
				}
				before := r.view(x, y.id.ID)
				announcedBefore := x.announced(y.id.ID)
				ctx, cancel := r.ctx(o)
				var wg sync.WaitGroup
				var arriveErr error
				var arrivedAt time.Time
				arrived := false
				if o.arrive > 0 {
					wg.Add(1)
					go func() {
						defer wg.Done()
						time.Sleep(o.arrive)
						arriveErr = r.bDialsDirect(what + " (direct connection arriving)")
						arrivedAt = time.Now()
						arrived = true
					}()
				}
				start := time.Now()
				s, err := x.h.NewStream(ctx, y.id.ID, testProto)
				took := time.Since(start)
				cancel()
				announcedDuring := x.announced(y.id.ID) - announcedBefore
				res := "err"
				if err == nil {
					c := s.Conn()
					lim := r.limited(c)
					res = "stream:direct"
					if relayedAddr(c) {
						res = "stream:relayed"
						if lim {
							res = "stream:limited"
						}
					}
					if lim && !o.allow {
						s.Reset()
						r.fail("%s: the caller did not allow limited connections but got a stream over the limited connection %s after %v", what, c.RemoteMultiaddr(), took)
					}
					if c.Stat().Limited != lim {
						s.Reset()
						r.fail("%s: the stream's connection %s (relayed=%v, relay imposes limits=%v) reports Stat().Limited=%v", what, c.RemoteMultiaddr(), relayedAddr(c), sc.relayLimited, c.Stat().Limited)
					}
					s.Reset()
				}
				wg.Wait()
				r.log = append(r.log, fmt.Sprintf("%s -> %s after %v (%v); before: %d limited / %d non-limited conns", what, res, took, err, before.lim, before.nonLim))
				r.quiesce(what)
				after := r.view(x, y.id.ID)
				// the wait: only limited connections, no permission, and no way a direct connection can appear
				survived := false
				for id := range before.ids {
					if after.ids[id] {
						survived = true
					}
				}
				// (a connection that the swarm announced while the call was pending may have been a direct one)
				directPossible := before.nonLim > 0 || after.nonLim > 0 || o.arrive > 0 || (x == a && sc.bListens) || x == b || announcedDuring > 0
				if !o.allow && !directPossible && before.lim > 0 && survived {
					r.nontr = true
					if err == nil {
						r.fail("%s: only limited connections to the peer existed, none other could appear and the caller did not allow limited ones, yet a stream was returned", what)
					}
					if !o.force && took != o.deadline {
						r.fail("%s: only limited connections to the peer existed during the whole call and the caller did not allow them: the call has to wait for a direct connection until its deadline (%v), but it returned after %v: %v", what, o.deadline, took, err)
					}
					r.labels["waited-for-direct-conn-until-deadline"] = true
				}
				// a direct connection arrives while the caller waits, early enough for what follows the wait
				// (identify and protocol negotiation over the new connection: a few round trips)
				if !o.allow && !o.force && o.arrive > 0 && arrived && arriveErr == nil && arrivedAt.Sub(start)+50*sc.latency < o.deadline && before.lim > 0 && before.nonLim == 0 && survived && after.nonLim > 0 {
					r.nontr = true
					if err != nil || took >= o.deadline {
						r.fail("%s: the caller was waiting for a direct connection; one arrived %v into the call (deadline %v) and stayed, but the call returned after %v: %v", what, o.arrive, o.deadline, took, err)
					}
					r.labels["waiter-released-by-arriving-direct-conn"] = true
				}
				if o.allow && err == nil {
					r.labels["allowed-"+res] = true
				}
				outcomes = append(outcomes, res)
			case rsDialPeer:
				before := r.view(a, b.id.ID)
				ctx, cancel := r.ctx(o)
				c, err := a.sw.DialPeer(ctx, b.id.ID)
				cancel()
				res := "err"
				if err == nil {
					if c == nil || c.RemotePeer() != b.id.ID {
						r.fail("%s: DialPeer(B) returned %v without an error", what, c)
					}
					res = "conn:direct"
					if relayedAddr(c) {
						res = "conn:relayed"
					}
					if o.force && relayedAddr(c) {
						r.fail("%s: the caller demanded a direct connection (force-direct) and DialPeer returned the relayed connection %s", what, c.RemoteMultiaddr())
					}
				}
				r.log = append(r.log, fmt.Sprintf("%s -> %s (%v)", what, res, err))
				r.quiesce(what)
				if o.force {
					if err == nil {
						r.labels["force-direct-dial-got-direct"] = true
					} else {
						r.labels["force-direct-dial-failed"] = true
					}
					if before.relayed > 0 {
						r.labels["force-direct-dial-with-relayed-conn-present"] = true
					}
					if sc.relayVia.resolved() {
						r.labels["force-direct-dial-with-relay-addr-behind-name"] = true
					}
					if err == nil && before.nonLim-(before.relayed-before.lim) <= 0 && !sc.bListens {
						r.fail("%s: force-direct DialPeer succeeded although B has no direct address and no direct connection existed", what)
					}
				}
				outcomes = append(outcomes, res)
			case rsConnect:
				ctx, cancel := r.ctx(o)
				err := a.h.Connect(ctx, peer.AddrInfo{ID: b.id.ID})
				cancel()
				r.log = append(r.log, fmt.Sprintf("%s -> %v", what, err))
				r.quiesce(what)
				if err == nil && o.force {
					ok := false
					for _, c := range a.sw.ConnsToPeer(b.id.ID) {
						if !relayedAddr(c) {
							ok = true
						}
					}
					if !ok {
						r.fail("%s: Connect with force-direct returned nil although no direct connection to the peer exists", what)
					}
					r.labels["host-connect-force-direct-ok"] = true
				}
				outcomes = append(outcomes, fmt.Sprint(err == nil))
			case rsBDialsDirect:
				err := r.bDialsDirect(what)
				r.log = append(r.log, fmt.Sprintf("%s -> %v", what, err))
				r.quiesce(what)
				outcomes = append(outcomes, fmt.Sprint(err == nil))
			case rsCloseDirect, rsCloseRelayed:
				x, y := a, b
				if o.atB {
					x, y = b, a
				}
				n := 0
				for _, c := range x.sw.ConnsToPeer(y.id.ID) {
					if relayedAddr(c) == (o.kind == rsCloseRelayed) {
						c.Close()
						n++
					}
				}
				r.log = append(r.log, fmt.Sprintf("%s: %d closed", what, n))
				r.quiesce(what)
				outcomes = append(outcomes, fmt.Sprint(n))
			}
		}
		time.Sleep(10 * time.Second)
		r.quiesce("end")
	})
	r.labels["private-network="+fmt.Sprint(sc.psk)] = true
	r.labels["relay-limited="+fmt.Sprint(sc.relayLimited)] = true
	r.labels["sec="+sc.sec] = true
	r.labels["relay-addr-known-"+sc.relayVia.String()] = true
	var ls []string
	for l := range r.labels {
		ls = append(ls, l)
	}
	sort.Strings(ls)
	stats.Case(name, sc.String()+"|"+strings.Join(outcomes, ";"), r.nontr, ls...)
	if stats.WantSample(name) {
		stats.Sample(name, map[string]any{"scenario": sc.String(), "history": r.log, "labels": ls})
	}
}

// TestRealStackRelay: see the comment at the top of this file.
func TestRealStackRelay(t *testing.T) {
	name := t.Name()
	hx.Check(t, 240, 20000, 0, func(rt *rapid.T) {
		runRS(t, rt, name, drawRSScenario(rt))
	})
}
