package c12

import (
	"context"
	"testing"
	"testing/synctest"
	"time"

	"github.com/libp2p/go-libp2p/core/network"
	ma "github.com/multiformats/go-multiaddr"

	"github.com/libp2p/go-libp2p/core/peer"
	"verif/internal/scripted"
)

func TestSmoke(t *testing.T) {
	for _, host := range []bool{false, true} {
		synctest.Test(t, func(t *testing.T) {
			w := newWorld(worldOpts{host: host, script: func(addr ma.Multiaddr, p peer.ID, n int) scripted.Script {
				return scripted.Script{Outcome: scripted.Fail}
			}}, t.Fatalf)
			defer w.close()
			c := w.newInbound(peerP, clsL, 1)
			w.deliver(c)
			synctest.Wait()
			t.Logf("host=%v connectedness=%v model=%v", host, w.sw.Connectedness(peerP), w.modelConnectedness(peerP))
			done := make(chan struct{})
			start := time.Now()
			go func() {
				defer close(done)
				var s network.Stream
				var err error
				ctx := context.Background()
				if host {
					w.host.Peerstore().AddProtocols(peerP, "/test/1")
					s, err = w.host.NewStream(ctx, peerP, "/test/1")
				} else {
					s, err = w.sw.NewStream(ctx, peerP)
				}
				t.Logf("returned after %v: err=%v", time.Since(start), err)
				if s != nil {
					mc := connOf(s.Conn())
					t.Logf("stream on %s limited=%v", mc.describe(w.t0), s.Conn().Stat().Limited)
					s.Reset()
				}
			}()
			time.Sleep(3 * time.Second)
			synctest.Wait()
			d := w.newInbound(peerP, clsD, 2)
			w.deliver(d)
			<-done
			synctest.Wait()
			w.drainEvents()
			t.Logf("events %v", w.evtLog)
		})
	}
}
