package c12

import (
	"fmt"
	"net"
	"strings"

	"github.com/libp2p/go-libp2p/core/network"
	"github.com/libp2p/go-libp2p/core/peer"
	"github.com/libp2p/go-libp2p/p2p/net/swarm"
	ma "github.com/multiformats/go-multiaddr"
	madns "github.com/multiformats/go-multiaddr-dns"
	"pgregory.net/rapid"
)

// via: the way an address of the peer is known to the local node. The statement speaks of
// "a relay address" and of "the peer's non-relay addresses" without saying how the node learnt
// them: an address that is only found by resolving a name stored in the peerstore is as much
// a relay (or non-relay) address as one that is stored literally.
type via int

const (
	viaLiteral       via = iota // stored in the peerstore exactly as it is dialled
	viaDNSAddr                  // /dnsaddr/<name of its own>; the TXT record holds the address
	viaDNSAddrShared            // /dnsaddr/<one name for the peer>; its TXT records hold every address of this form
	viaDNSAddrNested            // /dnsaddr/<alias> -> /dnsaddr/<name of its own> -> the address
	viaDNS4                     // the address with a /dns4 host name in place of the IP (A record)
	viaBoth                     // stored literally AND listed under the shared /dnsaddr name
)

func (v via) String() string {
	return [...]string{"lit", "dnsaddr", "dnsaddr-shared", "dnsaddr-nested", "dns4", "lit+dnsaddr-shared"}[v]
}

func (v via) resolved() bool { return v != viaLiteral }

func drawVia(rt *rapid.T, label string) (via, bool) {
	v := rapid.SampledFrom([]via{viaLiteral, viaLiteral, viaLiteral, viaLiteral, viaLiteral,
		viaDNSAddr, viaDNSAddrShared, viaDNSAddrShared, viaDNSAddrNested, viaDNS4, viaBoth}).Draw(rt, label+"-via")
	txtPeer := false
	if v != viaLiteral && v != viaDNS4 {
		// the TXT record names the peer (".../p2p/<peer>") or is the bare address
		txtPeer = rapid.Bool().Draw(rt, label+"-txt-peer")
	}
	return v, txtPeer
}

const (
	zoneShared = "p.c12.test"
)

// zone is the DNS content of one case and the peerstore entries that lead to it.
type zone struct {
	mock    *madns.MockResolver
	entries []ma.Multiaddr
}

func newZone() *zone {
	return &zone{mock: &madns.MockResolver{IP: map[string][]net.IPAddr{}, TXT: map[string][]string{}}}
}

// know makes addr (slot k of the peer's addresses) known to the local node in the given way.
func (z *zone) know(p peer.ID, k int, addr ma.Multiaddr, v via, txtPeer bool) {
	sfx := ""
	if txtPeer {
		sfx = "/p2p/" + p.String()
	}
	txt := func(name, target string) {
		z.mock.TXT["_dnsaddr."+name] = append(z.mock.TXT["_dnsaddr."+name], "dnsaddr="+target+sfx)
	}
	own := fmt.Sprintf("a%d.%s", k, zoneShared)
	switch v {
	case viaLiteral:
		z.entries = append(z.entries, addr)
	case viaDNSAddr:
		txt(own, addr.String())
		z.entries = append(z.entries, ma.StringCast("/dnsaddr/"+own))
	case viaDNSAddrShared, viaBoth:
		if len(z.mock.TXT["_dnsaddr."+zoneShared]) == 0 {
			z.entries = append(z.entries, ma.StringCast("/dnsaddr/"+zoneShared))
		}
		txt(zoneShared, addr.String())
		if v == viaBoth {
			z.entries = append(z.entries, addr)
		}
	case viaDNSAddrNested:
		alias := fmt.Sprintf("n%d.c12.test", k)
		txt(own, addr.String())
		txt(alias, "/dnsaddr/"+own)
		z.entries = append(z.entries, ma.StringCast("/dnsaddr/"+alias))
	case viaDNS4:
		first, rest := ma.SplitFirst(addr)
		host := fmt.Sprintf("h%d.c12.test", k)
		z.mock.IP[host] = []net.IPAddr{{IP: net.ParseIP(first.Value())}}
		named := ma.StringCast("/dns4/" + host)
		if rest != nil {
			named = named.Encapsulate(rest)
		}
		z.entries = append(z.entries, named)
	}
}

func (z *zone) resolver() (network.MultiaddrDNSResolver, error) {
	r, err := madns.NewResolver(madns.WithDefaultResolver(z.mock))
	if err != nil {
		return nil, err
	}
	return swarm.ResolverFromMaDNS{Resolver: r}, nil
}

func (z *zone) String() string {
	var es []string
	for _, e := range z.entries {
		es = append(es, e.String())
	}
	return fmt.Sprintf("peerstore=[%s] txt=%v ip=%v", strings.Join(es, " "), z.mock.TXT, z.mock.IP)
}
