package c12

import (
	"context"
	"errors"
	"fmt"
	"io"
	"net"
	"sort"
	"strings"
	"sync"
	"sync/atomic"
	"time"

	"github.com/libp2p/go-libp2p/core/event"
	"github.com/libp2p/go-libp2p/core/network"
	"github.com/libp2p/go-libp2p/core/peer"
	"github.com/libp2p/go-libp2p/core/protocol"
	"github.com/libp2p/go-libp2p/core/transport"
	basichost "github.com/libp2p/go-libp2p/p2p/host/basic"
	"github.com/libp2p/go-libp2p/p2p/host/eventbus"
	"github.com/libp2p/go-libp2p/p2p/host/peerstore/pstoremem"
	"github.com/libp2p/go-libp2p/p2p/net/swarm"
	ma "github.com/multiformats/go-multiaddr"
	manet "github.com/multiformats/go-multiaddr/net"
	msmux "github.com/multiformats/go-multistream"

	"verif/internal/keys"
	"verif/internal/memnet"
	"verif/internal/scripted"
)

// ---------------------------------------------------------------------------
// Ground truth kept by the harness: every connection that was ever handed to the swarm,
// its class, the virtual instant it was handed over and the instant it was first closed
// (by the harness playing the remote side, or by the code under test).

type class int

const (
	clsD class = iota // direct transport, not limited
	clsL              // proxy (relayed) transport, Stat().Limited
	clsU              // proxy (relayed) transport, not limited (unlimited relay)
)

func (c class) String() string { return [...]string{"D", "L", "U"}[c] }

func (c class) limited() bool { return c == clsL }
func (c class) proxy() bool   { return c != clsD }

// conn wraps a scripted connection: it stamps the instant of the first close and lets
// the harness find it again behind a network.Conn through the public Conn.As hook.
type conn struct {
	*scripted.Conn
	seq      int
	cls      class
	peer     peer.ID
	inbound  bool
	added    time.Time
	closedNS atomic.Int64 // virtual UnixNano of the first close; 0 = still open
	closedBy atomic.Value // string
	// closing: the transport connection already reports IsClosed() (and refuses new streams), but
	// its AcceptStream has not returned yet, so the swarm has not reaped it: it is still listed.
	// The state lasts until release() (or a local Close) really closes the connection.
	closing    atomic.Bool
	releasedNS atomic.Int64 // virtual UnixNano of the real close of a connection that was closing
}

func (c *conn) stamp(by string) {
	if c.closedNS.CompareAndSwap(0, time.Now().UnixNano()) {
		c.closedBy.Store(by)
	}
}

func (c *conn) stampRelease() {
	if c.closing.Load() {
		c.releasedNS.CompareAndSwap(0, time.Now().UnixNano())
	}
}

func (c *conn) Close() error { c.stamp("local"); c.stampRelease(); return c.Conn.Close() }
func (c *conn) CloseWithError(code network.ConnErrorCode) error {
	c.stamp("local")
	c.stampRelease()
	return c.Conn.CloseWithError(code)
}

// remoteClose plays the remote side (or the network) killing the connection.
func (c *conn) remoteClose() { c.stamp("remote"); c.stampRelease(); c.Conn.RemoteClose() }

// markClosing puts the connection into the closing state: from now on the transport reports
// IsClosed() and opens no stream, but nothing tells the swarm (AcceptStream stays blocked).
// For the reference model the connection is closed from this instant on.
func (c *conn) markClosing() { c.stamp("closing"); c.closing.Store(true) }

// release ends the closing state: AcceptStream returns and the swarm reaps the connection.
func (c *conn) release() { c.stampRelease(); c.Conn.RemoteClose() }

// closingListed: in the closing state and not yet really closed (the swarm cannot have reaped it).
func (c *conn) closingListed() bool { return c.closing.Load() && !c.Conn.IsClosed() }

func (c *conn) IsClosed() bool { return c.closing.Load() || c.Conn.IsClosed() }

func (c *conn) OpenStream(ctx context.Context) (network.MuxedStream, error) {
	if c.closing.Load() {
		return nil, errConnClosing
	}
	return c.Conn.OpenStream(ctx)
}

var errConnClosing = errors.New("c12: transport connection is closed (closing, not reaped yet)")

func (c *conn) As(target any) bool {
	if p, ok := target.(**conn); ok {
		*p = c
		return true
	}
	return false
}

func (c *conn) closedAt() (time.Time, bool) {
	ns := c.closedNS.Load()
	if ns == 0 {
		return time.Time{}, false
	}
	return time.Unix(0, ns), true
}

// possiblyOpenAt: the connection may have been visible to the code under test at instant t
// (events at equal virtual instants race for real, hence the inclusive bounds).
func (c *conn) possiblyOpenAt(t time.Time) bool { return c.possiblyOpenIn(t, t) }

func (c *conn) possiblyOpenIn(a, b time.Time) bool {
	if c.added.After(b) {
		return false
	}
	if ct, ok := c.closedAt(); ok && ct.Before(a) {
		return false
	}
	return true
}

// certainlyOpenAt: added strictly before t and not closed up to and including t.
func (c *conn) certainlyOpenAt(t time.Time) bool {
	if !c.added.Before(t) {
		return false
	}
	if ct, ok := c.closedAt(); ok && !ct.After(t) {
		return false
	}
	return true
}

func (c *conn) describe(t0 time.Time) string {
	dir := "out"
	if c.inbound {
		dir = "in"
	}
	s := fmt.Sprintf("#%d %s/%s %s added=%v", c.seq, c.cls, dir, c.RAddr, c.added.Sub(t0))
	if ct, ok := c.closedAt(); ok {
		s += fmt.Sprintf(" closed=%v(%v)", ct.Sub(t0), c.closedBy.Load())
	}
	if c.closing.Load() {
		if ns := c.releasedNS.Load(); ns != 0 {
			s += fmt.Sprintf(" reaped=%v", time.Unix(0, ns).Sub(t0))
		} else {
			s += " not-reaped"
		}
	}
	return s
}

// connOf finds the harness record behind a connection returned by the code under test.
func connOf(nc network.Conn) *conn {
	var c *conn
	if nc == nil || !nc.As(&c) {
		return nil
	}
	return c
}

// ---------------------------------------------------------------------------

// listener is a fake transport.Listener that accepts wrapped connections.
type listener struct {
	addr   ma.Multiaddr
	ch     chan transport.CapableConn
	closed chan struct{}
	once   sync.Once
}

func (l *listener) Accept() (transport.CapableConn, error) {
	select {
	case <-l.closed:
		return nil, transport.ErrListenerClosed
	default:
	}
	select {
	case c := <-l.ch:
		return c, nil
	case <-l.closed:
		return nil, transport.ErrListenerClosed
	}
}
func (l *listener) Close() error { l.once.Do(func() { close(l.closed) }); return nil }
func (l *listener) Addr() net.Addr {
	a, err := manet.ToNetAddr(l.addr)
	if err != nil {
		return &net.TCPAddr{}
	}
	return a
}
func (l *listener) Multiaddr() ma.Multiaddr { return l.addr }

// tpt wraps a scripted transport so that dialled connections are wrapped (and known to
// the world) before the swarm sees them, and so that Listen yields our listener.
type tpt struct {
	*scripted.Transport
	w *world
}

func (t *tpt) Dial(ctx context.Context, raddr ma.Multiaddr, p peer.ID) (transport.CapableConn, error) {
	c, err := t.Transport.Dial(ctx, raddr, p)
	if err != nil {
		return nil, err
	}
	return t.w.wrap(c.(*scripted.Conn), false), nil
}

func (t *tpt) Listen(laddr ma.Multiaddr) (transport.Listener, error) {
	l := &listener{addr: laddr, ch: make(chan transport.CapableConn, 64), closed: make(chan struct{})}
	t.w.mu.Lock()
	t.w.lis = l
	t.w.mu.Unlock()
	return l, nil
}

// ---------------------------------------------------------------------------

// dcutrOpen records a DCUtR stream (or CONNECT message) the local node sent: over which conn, when.
type dcutrOpen struct {
	c  *conn
	at time.Time
}

// world is the environment of one case: a real swarm (optionally under a real BasicHost)
// over scripted transports, plus the harness' own record of everything that went in.
type world struct {
	mu    sync.Mutex
	sw    *swarm.Swarm
	host  *basichost.BasicHost
	bus   event.Bus
	sub   event.Subscription
	sw0   *scripted.World
	set   *scripted.Set
	lis   *listener
	conns []*conn
	t0    time.Time

	respond bool // remote side answers multistream on streams the local node opens
	// onDCUtR, when set, plays the remote side of a DCUtR stream opened by the local node.
	onDCUtR func(c *conn, remote *memnet.Conn)
	dcutr   []dcutrOpen

	lastEvt map[peer.ID]network.Connectedness
	nEvts   int
	evtLog  []string
}

var (
	localID  = keys.Ed(0)
	peerP    = keys.Ed(41).ID
	peerQ    = keys.Ed(42).ID
	relayID  = keys.Ed(99).ID
	relay2ID = keys.Ed(98).ID
)

const (
	dcutrProto = protocol.ID("/libp2p/dcutr")
	testProto  = protocol.ID("/test/1")
)

func (w *world) wrap(sc *scripted.Conn, inbound bool) *conn {
	cls := clsD
	if sc.T.IsProxy {
		cls = clsU
		if sc.Limited {
			cls = clsL
		}
	}
	c := &conn{Conn: sc, cls: cls, peer: sc.Remote, inbound: inbound, added: time.Now()}
	if w.respond {
		sc.OnOpenStream = func(remote *memnet.Conn) { go w.answer(c, remote) }
	}
	w.mu.Lock()
	c.seq = len(w.conns)
	w.conns = append(w.conns, c)
	w.mu.Unlock()
	return c
}

// answer plays the remote end of a stream opened by the local node: multistream
// negotiation that knows only the DCUtR protocol ("na" to everything else, e.g. identify).
func (w *world) answer(c *conn, remote *memnet.Conn) {
	mux := msmux.NewMultistreamMuxer[protocol.ID]()
	mux.AddHandler(dcutrProto, nil)
	mux.AddHandler(testProto, nil)
	proto, _, err := mux.Negotiate(remote)
	if err != nil {
		remote.Reset()
		return
	}
	if proto == testProto {
		io.Copy(io.Discard, remote)
		remote.Reset()
		return
	}
	if proto == dcutrProto {
		w.mu.Lock()
		w.dcutr = append(w.dcutr, dcutrOpen{c: c, at: time.Now()})
		f := w.onDCUtR
		w.mu.Unlock()
		if f != nil {
			f(c, remote)
			return
		}
	}
	remote.Reset()
}

// newInbound creates (but does not deliver) an inbound connection of the given class.
func (w *world) newInbound(p peer.ID, cls class, k int) *conn {
	var sc *scripted.Conn
	switch cls {
	case clsD:
		sc = w.set.TCP.NewConn(p, ma.StringCast(fmt.Sprintf("/ip4/7.0.%d.%d/tcp/%d", k/200, k%200+1, 5000+k)), false)
	default:
		sc = w.set.Circuit.NewConn(p, ma.StringCast(fmt.Sprintf("/ip4/7.1.%d.%d/tcp/%d/p2p/%s/p2p-circuit", k/200, k%200+1, 5000+k, relayID)), cls == clsL)
	}
	return w.wrap(sc, true)
}

// deliver hands an inbound connection to the listening swarm (asynchronously, like a
// real accept loop); the instant is the connection's "added" time.
func (w *world) deliver(c *conn) {
	c.added = time.Now()
	select {
	case w.lis.ch <- c:
	case <-w.lis.closed:
	}
}

func (w *world) snapshotConns() []*conn {
	w.mu.Lock()
	defer w.mu.Unlock()
	return append([]*conn(nil), w.conns...)
}

func (w *world) connsTo(p peer.ID) []*conn {
	var out []*conn
	for _, c := range w.snapshotConns() {
		if c.peer == p {
			out = append(out, c)
		}
	}
	return out
}

// modelConnectedness is the statement's definition applied to the harness' own record.
func (w *world) modelConnectedness(p peer.ID) network.Connectedness {
	lim := false
	for _, c := range w.connsTo(p) {
		if c.IsClosed() {
			continue
		}
		if c.cls.limited() {
			lim = true
		} else {
			return network.Connected
		}
	}
	if lim {
		return network.Limited
	}
	return network.NotConnected
}

func (w *world) drainEvents() {
	for {
		select {
		case e, ok := <-w.sub.Out():
			if !ok {
				return
			}
			ev := e.(event.EvtPeerConnectednessChanged)
			w.lastEvt[ev.Peer] = ev.Connectedness
			w.nEvts++
			if len(w.evtLog) < 64 {
				w.evtLog = append(w.evtLog, fmt.Sprintf("%v:%s=%v", time.Since(w.t0), short(ev.Peer), ev.Connectedness))
			}
		default:
			return
		}
	}
}

func short(p peer.ID) string {
	switch p {
	case peerP:
		return "P"
	case peerQ:
		return "Q"
	}
	return p.ShortString()
}

func (w *world) describeConns() string {
	var b strings.Builder
	cs := w.snapshotConns()
	sort.Slice(cs, func(i, j int) bool { return cs[i].seq < cs[j].seq })
	for _, c := range cs {
		fmt.Fprintf(&b, "\n  %s->%s", c.describe(w.t0), short(c.peer))
	}
	return b.String()
}

func (w *world) describeDials() string {
	var b strings.Builder
	for _, d := range w.sw0.Snapshot() {
		fmt.Fprintf(&b, "\n  dial#%d %s %s start=%v end=%v done=%v err=%v", d.Seq, d.Transport, d.Addr, d.Start.Sub(w.t0), d.End.Sub(w.t0), d.Done, d.Err)
	}
	return b.String()
}

type worldOpts struct {
	host       bool
	negTimeout time.Duration
	respond    bool
	script     func(addr ma.Multiaddr, p peer.ID, n int) scripted.Script
	// resolver, when set, replaces the swarm's DNS resolver (names of the case's own zone)
	resolver network.MultiaddrDNSResolver
}

// newWorld builds the swarm (and host) inside the current bubble. fail reports setup errors.
func newWorld(o worldOpts, fail func(string, ...any)) *world {
	w := &world{sw0: scripted.NewWorld(), lastEvt: map[peer.ID]network.Connectedness{}, respond: o.respond || o.host}
	ps, err := pstoremem.NewPeerstore()
	if err != nil {
		fail("peerstore: %v", err)
	}
	ps.AddPrivKey(localID.ID, localID.Priv)
	ps.AddPubKey(localID.ID, localID.Pub)
	w.bus = eventbus.NewBus()
	w.sub, err = w.bus.Subscribe(new(event.EvtPeerConnectednessChanged), eventbus.BufSize(4096))
	if err != nil {
		fail("subscribe: %v", err)
	}
	w.set = scripted.NewSet(w.sw0, localID.ID, o.script)
	sopts := []swarm.Option{swarm.WithUDPBlackHoleSuccessCounter(nil), swarm.WithIPv6BlackHoleSuccessCounter(nil)}
	if o.resolver != nil {
		sopts = append(sopts, swarm.WithMultiaddrResolver(o.resolver))
	}
	w.sw, err = swarm.NewSwarm(localID.ID, ps, w.bus, sopts...)
	if err != nil {
		fail("swarm: %v", err)
	}
	for _, tr := range []*scripted.Transport{w.set.TCP, w.set.QUIC, w.set.Circuit} {
		if err := w.sw.AddTransport(&tpt{Transport: tr, w: w}); err != nil {
			fail("add transport: %v", err)
		}
	}
	if err := w.sw.Listen(ma.StringCast("/ip4/10.9.8.7/tcp/4001")); err != nil {
		fail("listen: %v", err)
	}
	if w.lis == nil {
		fail("no listener")
	}
	if o.host {
		w.host, err = basichost.NewHost(w.sw, &basichost.HostOpts{EventBus: w.bus, NegotiationTimeout: o.negTimeout, DisableSignedPeerRecord: true})
		if err != nil {
			fail("host: %v", err)
		}
		w.host.Start()
	}
	w.t0 = time.Now()
	return w
}

func (w *world) close() {
	if w.host != nil {
		w.host.Close()
	} else {
		w.sw.Close()
		w.sw.Peerstore().Close()
	}
	w.sub.Close()
}
