package c12

import (
	"context"
	"errors"
	"fmt"
	"io"
	"sort"
	"strings"
	"sync"
	"sync/atomic"
	"testing"
	"testing/synctest"
	"time"

	"github.com/libp2p/go-libp2p/core/host"
	"github.com/libp2p/go-libp2p/core/network"
	"github.com/libp2p/go-libp2p/core/peer"
	"github.com/libp2p/go-libp2p/p2p/protocol/holepunch"
	"github.com/libp2p/go-libp2p/p2p/protocol/holepunch/pb"
	"github.com/libp2p/go-msgio/pbio"
	ma "github.com/multiformats/go-multiaddr"
	msmux "github.com/multiformats/go-multistream"
	"pgregory.net/rapid"

	"verif/internal/hx"
	"verif/internal/kf"
	"verif/internal/memnet"
	"verif/internal/scripted"
	"verif/internal/stats"
)

// ---------------------------------------------------------------------------
// recording host: the only thing the hole punching service is given. Connect calls
// recorded here are exactly the ones issued by the service (BasicHost's own internal
// Connect calls do not pass through the wrapper).

type connectRec struct {
	at, end  time.Time
	done     bool
	id       peer.ID
	addrs    []ma.Multiaddr
	force    bool
	sim      bool
	isClient bool
	err      error
}

type recHost struct {
	host.Host
	mu       sync.Mutex
	connects []*connectRec
}

func (h *recHost) Connect(ctx context.Context, pi peer.AddrInfo) error {
	force, _ := network.GetForceDirectDial(ctx)
	sim, isClient, _ := network.GetSimultaneousConnect(ctx)
	rec := &connectRec{at: time.Now(), id: pi.ID, addrs: append([]ma.Multiaddr(nil), pi.Addrs...), force: force, sim: sim, isClient: isClient}
	h.mu.Lock()
	h.connects = append(h.connects, rec)
	h.mu.Unlock()
	err := h.Host.Connect(ctx, pi)
	h.mu.Lock()
	rec.end, rec.done, rec.err = time.Now(), true, err
	h.mu.Unlock()
	return err
}

func (h *recHost) snapshot() []connectRec {
	h.mu.Lock()
	defer h.mu.Unlock()
	out := make([]connectRec, len(h.connects))
	for i, r := range h.connects {
		out[i] = *r
	}
	return out
}

// ---------------------------------------------------------------------------
// scenario

type akind int

const (
	aPubTCP akind = iota
	aPubQUIC
	aPrivTCP
	aRelay     // <relay>/p2p-circuit
	aRelayPeer // <relay>/p2p-circuit/p2p/<P>
	aGarbage   // bytes that are not a multiaddr
)

func (k akind) relay() bool { return k == aRelay || k == aRelayPeer }

type hpAddr struct {
	kind  akind
	idx   int // globally unique within the case
	out   scripted.Outcome
	delay time.Duration
}

func (a hpAddr) ma() ma.Multiaddr {
	switch a.kind {
	case aPubTCP:
		return ma.StringCast(fmt.Sprintf("/ip4/5.5.%d.1/tcp/4001", a.idx))
	case aPubQUIC:
		return ma.StringCast(fmt.Sprintf("/ip4/5.6.%d.1/udp/4001/quic-v1", a.idx))
	case aPrivTCP:
		return ma.StringCast(fmt.Sprintf("/ip4/192.168.%d.1/tcp/4001", a.idx))
	case aRelay:
		return ma.StringCast(fmt.Sprintf("/ip4/6.6.%d.1/tcp/4001/p2p/%s/p2p-circuit", a.idx, relay2ID))
	case aRelayPeer:
		return ma.StringCast(fmt.Sprintf("/ip4/6.7.%d.1/tcp/4001/p2p/%s/p2p-circuit/p2p/%s", a.idx, relay2ID, peerP))
	}
	return nil
}

func (a hpAddr) bytes() []byte {
	if a.kind == aGarbage {
		return []byte{0xff, 0xfe, byte(a.idx), 0x00, 0x01}
	}
	return a.ma().Bytes()
}

func (a hpAddr) String() string {
	return fmt.Sprintf("%s%d:%s/%v", [...]string{"pubtcp", "pubquic", "privtcp", "relay", "relayp", "garbage"}[a.kind], a.idx, a.out, a.delay)
}

type stepKind int

const (
	stConnect stepKind = iota // CONNECT with ObsAddrs
	stSync
	stStall // wait d before the next step
	stClose
	stReset
)

type step struct {
	kind stepKind
	obs  []hpAddr
	d    time.Duration
}

func (s step) String() string {
	switch s.kind {
	case stConnect:
		return fmt.Sprintf("CONNECT%v", s.obs)
	case stSync:
		return "SYNC"
	case stStall:
		return fmt.Sprintf("stall(%v)", s.d)
	case stClose:
		return "close"
	}
	return "reset"
}

type replyKind int

const (
	rpConnect replyKind = iota
	rpWrongType
	rpReset
	rpStall
	rpClose
)

type reply struct {
	kind replyKind
	obs  []hpAddr
}

func (r reply) String() string {
	return [...]string{"CONNECT", "SYNC-instead", "reset", "stall", "close"}[r.kind] + fmt.Sprint(r.obs)
}

type actKind int

const (
	actInject actKind = iota
	actDirectConnect
	actInboundDirect
	actInboundRelayed
	actCloseDirect
)

type hpAction struct {
	at    time.Duration
	kind  actKind
	conn  int // actInject: index into the initial conns
	steps []step
	cls   class // actInboundRelayed
}

func (a hpAction) String() string {
	switch a.kind {
	case actInject:
		var ss []string
		for _, s := range a.steps {
			ss = append(ss, s.String())
		}
		return fmt.Sprintf("%v:inject(conn%d %s)", a.at, a.conn, strings.Join(ss, ","))
	case actDirectConnect:
		return fmt.Sprintf("%v:DirectConnect", a.at)
	case actInboundDirect:
		return fmt.Sprintf("%v:+D", a.at)
	case actInboundRelayed:
		return fmt.Sprintf("%v:+%s", a.at, a.cls)
	}
	return fmt.Sprintf("%v:-D", a.at)
}

type hpInit struct {
	cls     class
	inbound bool
	redial  scripted.Outcome // how later dials of the setup address behave
}

type hpScenario struct {
	nListen     int
	dialTimeout time.Duration
	initial     []hpInit
	psAddrs     []hpAddr
	replies     []reply
	actions     []hpAction
	nextIdx     int
}

func (sc *hpScenario) drawAddrs(rt *rapid.T, label string, minN int, relayBias bool) []hpAddr {
	n := rapid.IntRange(minN, 4).Draw(rt, label+"-n")
	var out []hpAddr
	for i := 0; i < n; i++ {
		kinds := []int{0, 0, 1, 2, 3, 4, 5}
		if relayBias {
			kinds = []int{0, 1, 2, 3, 3, 4, 4, 5}
		}
		a := hpAddr{kind: akind(rapid.SampledFrom(kinds).Draw(rt, label+"-kind")), idx: sc.nextIdx}
		sc.nextIdx++
		a.out = scripted.Outcome(rapid.SampledFrom([]int{0, 0, 1, 1, 1, 2}).Draw(rt, label+"-out"))
		if a.kind.relay() {
			a.out = scripted.Succeed // a relay address that reaches the proxy transport would even connect
		}
		a.delay = ms(rapid.SampledFrom([]int{0, 20, 500, 2000}).Draw(rt, label+"-delay"))
		out = append(out, a)
	}
	return out
}

func drawHPScenario(rt *rapid.T) *hpScenario {
	sc := &hpScenario{nextIdx: 1}
	sc.nListen = rapid.IntRange(1, 2).Draw(rt, "nListen")
	sc.dialTimeout = ms(rapid.SampledFrom([]int{1000, 5000, 10000}).Draw(rt, "dialTimeout"))
	// initial conns: at most one outbound relayed, at most one outbound direct, inbound ones freely
	shapes := [][]hpInit{
		{{cls: clsL}}, {{cls: clsL}}, {{cls: clsL}}, {{cls: clsU}},
		{{cls: clsD}}, {{cls: clsD}}, {{cls: clsD}},
		{{cls: clsL}, {cls: clsD}}, {{cls: clsU}, {cls: clsD}},
		{{cls: clsL, inbound: true}}, {{cls: clsU, inbound: true}},
		{{cls: clsD, inbound: true}},
		{{cls: clsL}, {cls: clsL, inbound: true}},
		{},
	}
	sc.initial = append([]hpInit(nil), shapes[rapid.IntRange(0, len(shapes)-1).Draw(rt, "initial")]...)
	for i := range sc.initial {
		sc.initial[i].redial = scripted.Outcome(rapid.SampledFrom([]int{0, 1, 1}).Draw(rt, "redial"))
	}
	if rapid.IntRange(0, 2).Draw(rt, "psAddrs") > 0 {
		sc.psAddrs = sc.drawAddrs(rt, "ps", 1, false)
		for i := range sc.psAddrs {
			if sc.psAddrs[i].kind == aGarbage {
				sc.psAddrs[i].kind = aPubTCP
			}
		}
	}
	nr := rapid.IntRange(1, 3).Draw(rt, "nreplies")
	for i := 0; i < nr; i++ {
		rp := reply{kind: replyKind(rapid.SampledFrom([]int{0, 0, 0, 0, 0, 1, 2, 3, 4}).Draw(rt, "reply"))}
		if rp.kind == rpConnect {
			rp.obs = sc.drawAddrs(rt, "reply-obs", 0, true)
		}
		sc.replies = append(sc.replies, rp)
	}
	na := rapid.IntRange(1, 4).Draw(rt, "nactions")
	for i := 0; i < na; i++ {
		a := hpAction{at: ms(rapid.SampledFrom([]int{0, 0, 10, 500, 1000, 2000, 5000, 11000}).Draw(rt, "act-at"))}
		k := rapid.IntRange(0, 11).Draw(rt, "act-kind")
		switch {
		case k <= 4 && len(sc.initial) > 0:
			a.kind = actInject
			a.conn = rapid.IntRange(0, len(sc.initial)-1).Draw(rt, "act-conn")
			switch rapid.IntRange(0, 14).Draw(rt, "dialogue") {
			case 0: // SYNC first
				a.steps = []step{{kind: stSync}, {kind: stConnect, obs: sc.drawAddrs(rt, "obs", 1, true)}}
			case 1: // CONNECT twice
				a.steps = []step{{kind: stConnect, obs: sc.drawAddrs(rt, "obs", 1, true)}, {kind: stConnect, obs: sc.drawAddrs(rt, "obs2", 1, true)}}
			case 2: // CONNECT then hang up
				a.steps = []step{{kind: stConnect, obs: sc.drawAddrs(rt, "obs", 1, true)}, {kind: stClose}}
			case 3:
				a.steps = []step{{kind: stConnect, obs: sc.drawAddrs(rt, "obs", 1, true)}, {kind: stReset}}
			case 4: // slow SYNC
				a.steps = []step{{kind: stConnect, obs: sc.drawAddrs(rt, "obs", 1, true)}, {kind: stStall, d: ms(rapid.SampledFrom([]int{100, 3000, 61000}).Draw(rt, "stall"))}, {kind: stSync}}
			default: // the regular dialogue
				a.steps = []step{{kind: stConnect, obs: sc.drawAddrs(rt, "obs", 0, true)}, {kind: stSync}}
			}
		case k <= 8:
			a.kind = actDirectConnect
		case k == 9:
			a.kind = actInboundDirect
		case k == 10:
			a.kind = actInboundRelayed
			a.cls = rapid.SampledFrom([]class{clsL, clsL, clsU}).Draw(rt, "act-cls")
		default:
			a.kind = actCloseDirect
		}
		sc.actions = append(sc.actions, a)
	}
	sort.SliceStable(sc.actions, func(i, j int) bool { return sc.actions[i].at < sc.actions[j].at })
	return sc
}

func (sc *hpScenario) String() string {
	var in, acts []string
	for _, i := range sc.initial {
		d := "out"
		if i.inbound {
			d = "in"
		}
		in = append(in, fmt.Sprintf("%s/%s/redial-%s", i.cls, d, i.redial))
	}
	for _, a := range sc.actions {
		acts = append(acts, a.String())
	}
	return fmt.Sprintf("listen=%d dt=%v init=%v ps=%v replies=%v actions=[%s]", sc.nListen, sc.dialTimeout, in, sc.psAddrs, sc.replies, strings.Join(acts, " "))
}

// ---------------------------------------------------------------------------
// execution

type injRes struct {
	act       hpAction
	c         *conn
	at        time.Time
	negotiate error
	sent      int          // dialogue steps written without error
	gotReply  atomic.Bool  // the local side answered with a CONNECT
	final     atomic.Value // "reset" | "eof" | error text
	sentSync  atomic.Bool
}

type dcRes struct {
	start, end time.Time
	returned   atomic.Bool
	err        error
}

type hpRun struct {
	rt       *rapid.T
	sc       *hpScenario
	w        *world
	rh       *recHost
	scripts  map[string]hpAddr // by multiaddr string
	setup    map[string]hpInit // setup addresses -> behaviour after the first dial
	setupEnd int               // number of dial records when the setup was over (for the failure text)
	injs     []*injRes
	dcs      []*dcRes
	attempts atomic.Int32
	labels   map[string]bool
	nontr    bool
	mu       sync.Mutex
	sentObs  [][]ma.Multiaddr // ObsAddrs the local initiator put into its CONNECT messages
	gotConn  []dcutrOpen      // CONNECT messages the local initiator sent: over which conn, when
}

func (r *hpRun) label(l string) {
	r.mu.Lock()
	r.labels[l] = true
	r.mu.Unlock()
}

func (r *hpRun) register(as []hpAddr) {
	for _, a := range as {
		if a.kind != aGarbage {
			r.scripts[a.ma().String()] = a
		}
	}
}

func (r *hpRun) script(addr ma.Multiaddr, p peer.ID, n int) scripted.Script {
	if in, ok := r.setup[addr.String()]; ok {
		l := in.cls == clsL
		if n == 0 {
			return scripted.Script{Outcome: scripted.Succeed, Limited: &l}
		}
		return scripted.Script{Outcome: in.redial, Delay: 30 * time.Millisecond, Limited: &l}
	}
	// the swarm strips a trailing /p2p/<peer>
	for _, k := range []string{addr.String(), addr.String() + "/p2p/" + peerP.String()} {
		if a, ok := r.scripts[k]; ok {
			sc := scripted.Script{Outcome: a.out, Delay: a.delay}
			if a.kind.relay() {
				l := true
				sc.Limited = &l
			}
			return sc
		}
	}
	return scripted.Script{Outcome: scripted.Fail}
}

func (r *hpRun) fail(format string, args ...any) {
	var cs []string
	for _, c := range r.rh.snapshot() {
		cs = append(cs, fmt.Sprintf("\n  Connect at=%v end=%v force=%v sim=%v client=%v addrs=%v err=%v", c.at.Sub(r.w.t0), c.end.Sub(r.w.t0), c.force, c.sim, c.isClient, c.addrs, c.err))
	}
	var ds []string
	for i, d := range r.dcs {
		if d.returned.Load() {
			ds = append(ds, fmt.Sprintf("\n  DirectConnect#%d %v..%v err=%v", i, d.start.Sub(r.w.t0), d.end.Sub(r.w.t0), d.err))
		} else {
			ds = append(ds, fmt.Sprintf("\n  DirectConnect#%d %v.. (not returned)", i, d.start.Sub(r.w.t0)))
		}
	}
	var is []string
	for i, in := range r.injs {
		is = append(is, fmt.Sprintf("\n  inject#%d on conn #%d (%s) at %v: negotiate=%v sent=%d reply=%v final=%v", i, in.c.seq, in.c.cls, in.at.Sub(r.w.t0), in.negotiate, in.sent, in.gotReply.Load(), in.final.Load()))
	}
	r.rt.Fatalf("%s\nscenario: %s\nconnects:%s\ndirectconnects:%s\ninjected:%s\nconns:%s\ndials (first %d are setup):%s", fmt.Sprintf(format, args...), r.sc,
		strings.Join(cs, ""), strings.Join(ds, ""), strings.Join(is, ""), r.w.describeConns(), r.setupEnd, r.w.describeDials())
}

func obsBytes(as []hpAddr) [][]byte {
	var out [][]byte
	for _, a := range as {
		out = append(out, a.bytes())
	}
	return out
}

// drain reads until the stream ends and classifies how it ended.
func drain(remote *memnet.Conn) string {
	buf := make([]byte, 256)
	for {
		_, err := remote.Read(buf)
		if err == nil {
			continue
		}
		switch {
		case errors.Is(err, memnet.ErrReset):
			return "reset"
		case errors.Is(err, io.EOF):
			return "eof"
		}
		return err.Error()
	}
}

// playInjected plays the remote (initiator) side of a DCUtR stream towards the local service.
func (r *hpRun) playInjected(in *injRes, remote *memnet.Conn) {
	if err := msmux.SelectProtoOrFail(dcutrProto, remote); err != nil {
		in.negotiate = err
		in.final.Store(drain(remote))
		return
	}
	wr := pbio.NewDelimitedWriter(remote)
	rd := pbio.NewDelimitedReader(remote, 4096)
	for _, s := range in.act.steps {
		var err error
		switch s.kind {
		case stConnect:
			err = wr.WriteMsg(&pb.HolePunch{Type: pb.HolePunch_CONNECT.Enum(), ObsAddrs: obsBytes(s.obs)})
			if err == nil && !in.gotReply.Load() {
				// a conforming responder answers CONNECT with CONNECT before SYNC is sent
				var m pb.HolePunch
				if e := rd.ReadMsg(&m); e == nil && m.GetType() == pb.HolePunch_CONNECT {
					in.gotReply.Store(true)
				} else if e != nil {
					err = e
				}
			}
		case stSync:
			err = wr.WriteMsg(&pb.HolePunch{Type: pb.HolePunch_SYNC.Enum()})
			if err == nil {
				in.sentSync.Store(true)
			}
		case stStall:
			time.Sleep(s.d)
		case stClose:
			remote.Close()
			in.final.Store("closed-by-remote")
			return
		case stReset:
			remote.Reset()
			in.final.Store("reset-by-remote")
			return
		}
		if err != nil {
			break
		}
		in.sent++
	}
	in.final.Store(drain(remote))
}

// playReply plays the remote (responder) side of a DCUtR stream opened by the local service.
func (r *hpRun) playReply(c *conn, remote *memnet.Conn) {
	k := int(r.attempts.Add(1)) - 1
	rp := r.sc.replies[min(k, len(r.sc.replies)-1)]
	wr := pbio.NewDelimitedWriter(remote)
	rd := pbio.NewDelimitedReader(remote, 4096)
	var m pb.HolePunch
	if err := rd.ReadMsg(&m); err != nil {
		remote.Reset()
		return
	}
	var sent []ma.Multiaddr
	for _, b := range m.ObsAddrs {
		if a, err := ma.NewMultiaddrBytes(b); err == nil {
			sent = append(sent, a)
		}
	}
	r.mu.Lock()
	r.sentObs = append(r.sentObs, sent)
	if m.GetType() == pb.HolePunch_CONNECT {
		r.gotConn = append(r.gotConn, dcutrOpen{c: c, at: time.Now()})
	}
	r.mu.Unlock()
	switch rp.kind {
	case rpConnect:
		if err := wr.WriteMsg(&pb.HolePunch{Type: pb.HolePunch_CONNECT.Enum(), ObsAddrs: obsBytes(rp.obs)}); err != nil {
			remote.Reset()
			return
		}
		m.Reset()
		if err := rd.ReadMsg(&m); err == nil && m.GetType() == pb.HolePunch_SYNC {
			r.label("initiator-sent-sync")
		}
	case rpWrongType:
		wr.WriteMsg(&pb.HolePunch{Type: pb.HolePunch_SYNC.Enum()})
	case rpReset:
		remote.Reset()
		return
	case rpClose:
		remote.Close()
		return
	case rpStall:
	}
	drain(remote)
	remote.Reset()
}

const hpPeerHorizon = 260 * time.Second

// kfInitiatorDirect: DirectConnect keeps going after its direct-dial stage timed out although a
// direct connection has arrived meanwhile, and opens the DCUtR stream over that direct connection.
const kfInitiatorDirect = "C12-holepunch-initiator-coordinates-over-direct-conn"

func runHP(t *testing.T, rt *rapid.T, name string, sc *hpScenario) {
	r := &hpRun{rt: rt, sc: sc, scripts: map[string]hpAddr{}, setup: map[string]hpInit{}, labels: map[string]bool{}}
	r.register(sc.psAddrs)
	for _, rp := range sc.replies {
		r.register(rp.obs)
	}
	for _, a := range sc.actions {
		for _, s := range a.steps {
			r.register(s.obs)
		}
	}
	var abstract []string
	hx.Bubble(t, rt, func() {
		w := newWorld(worldOpts{host: true, negTimeout: 0, script: r.script}, rt.Fatalf)
		r.w = w
		defer w.close()
		w.onDCUtR = r.playReply
		r.rh = &recHost{Host: w.host}
		listen := []ma.Multiaddr{ma.StringCast("/ip4/9.9.9.9/tcp/4001"), ma.StringCast("/ip4/9.9.9.9/udp/4001/quic-v1")}[:sc.nListen]
		svc, err := holepunch.NewService(r.rh, w.host.IDService(), func() []ma.Multiaddr { return listen }, holepunch.DirectDialTimeout(sc.dialTimeout))
		if err != nil {
			rt.Fatalf("holepunch.NewService: %v", err)
		}
		closed := false
		defer func() {
			if !closed {
				svc.Close()
			}
		}()
		synctest.Wait()
		ps := w.sw.Peerstore()

		// setup: the initial connections (outbound ones through a real dial of a setup address)
		var initial []*conn
		nk := 0
		for i, in := range sc.initial {
			nk++
			if in.inbound {
				c := w.newInbound(peerP, in.cls, nk)
				w.deliver(c)
				synctest.Wait()
				initial = append(initial, c)
				continue
			}
			var a ma.Multiaddr
			ctx := network.WithAllowLimitedConn(context.Background(), "setup")
			if in.cls == clsD {
				a = ma.StringCast(fmt.Sprintf("/ip4/4.4.4.%d/tcp/4001", i+1))
				ctx = network.WithForceDirectDial(ctx, "setup")
			} else {
				a = ma.StringCast(fmt.Sprintf("/ip4/3.3.3.%d/tcp/4001/p2p/%s/p2p-circuit", i+1, relayID))
			}
			r.setup[a.String()] = in
			ps.AddAddr(peerP, a, time.Hour)
			nc, err := w.sw.DialPeer(ctx, peerP)
			if err != nil {
				rt.Fatalf("setup dial of %s: %v", a, err)
			}
			c := connOf(nc)
			if c == nil || c.cls != in.cls || c.inbound {
				rt.Fatalf("setup dial of %s produced %v", a, nc)
			}
			synctest.Wait()
			initial = append(initial, c)
		}
		for _, a := range sc.psAddrs {
			ps.AddAddr(peerP, a.ma(), time.Hour)
		}
		time.Sleep(time.Second)
		synctest.Wait()
		r.setupEnd = len(w.sw0.Snapshot())
		w.t0 = time.Now()

		var wg sync.WaitGroup
		for i := 0; i < len(sc.actions); {
			at := sc.actions[i].at
			time.Sleep(time.Until(w.t0.Add(at)))
			for ; i < len(sc.actions) && sc.actions[i].at == at; i++ {
				a := sc.actions[i]
				switch a.kind {
				case actInject:
					c := initial[a.conn]
					remote, ok := c.InjectStream()
					if !ok {
						continue
					}
					in := &injRes{act: a, c: c, at: time.Now()}
					in.final.Store("open")
					r.injs = append(r.injs, in)
					wg.Add(1)
					go func() { defer wg.Done(); r.playInjected(in, remote) }()
				case actDirectConnect:
					d := &dcRes{}
					r.dcs = append(r.dcs, d)
					wg.Add(1)
					go func() {
						defer wg.Done()
						d.start = time.Now()
						d.err = svc.DirectConnect(peerP)
						d.end = time.Now()
						d.returned.Store(true)
					}()
				case actInboundDirect:
					nk++
					w.deliver(w.newInbound(peerP, clsD, nk))
				case actInboundRelayed:
					nk++
					w.deliver(w.newInbound(peerP, a.cls, nk))
				case actCloseDirect:
					for _, c := range w.connsTo(peerP) {
						if c.cls == clsD && !c.IsClosed() {
							c.remoteClose()
							break
						}
					}
				}
			}
			synctest.Wait()
		}
		time.Sleep(time.Until(w.t0.Add(hpPeerHorizon)))
		synctest.Wait()
		r.judge()
		svc.Close()
		closed = true
		for _, c := range w.snapshotConns() {
			if !c.IsClosed() {
				c.remoteClose()
			}
		}
		wg.Wait()
		synctest.Wait()
		for _, c := range r.rh.snapshot() {
			abstract = append(abstract, fmt.Sprintf("connect@%v[%d addrs] err=%v", c.at.Sub(w.t0), len(c.addrs), c.err != nil))
		}
		for _, d := range r.dcs {
			abstract = append(abstract, fmt.Sprintf("dc@%v..%v err=%v", d.start.Sub(w.t0), d.end.Sub(w.t0), d.err != nil))
		}
		for _, in := range r.injs {
			abstract = append(abstract, fmt.Sprintf("inj(%s)=%v", in.c.cls, in.final.Load()))
		}
	})
	var ls []string
	for l := range r.labels {
		ls = append(ls, l)
	}
	sort.Strings(ls)
	stats.Case(name, sc.String()+"|"+strings.Join(abstract, ";"), r.nontr, ls...)
	if stats.WantSample(name) {
		stats.Sample(name, map[string]any{"scenario": sc.String(), "observed": abstract, "labels": ls})
	}
}

func isRelay(a ma.Multiaddr) bool {
	_, err := a.ValueForProtocol(ma.P_CIRCUIT)
	return err == nil
}

func (r *hpRun) judge() {
	w, sc := r.w, r.sc
	t0 := w.t0
	connects := r.rh.snapshot()
	P := w.connsTo(peerP)

	// addresses that arrived in a dialogue over a NON-relayed connection must never be used
	tainted := map[string]int{}
	for i, in := range r.injs {
		if in.c.cls.proxy() {
			continue
		}
		for _, s := range in.act.steps {
			for _, a := range s.obs {
				if a.kind != aGarbage {
					tainted[a.ma().String()] = i
				}
			}
		}
	}
	anyRelayed := false
	for _, c := range P {
		if c.cls.proxy() {
			anyRelayed = true
		}
	}

	// 1. every Connect the service issues demands a direct connection, names the peer, and
	//    carries no relay address
	for _, c := range connects {
		if c.id != peerP {
			r.fail("the service called Connect for %s", c.id)
		}
		if !c.force {
			r.fail("the service called Connect at %v without the force-direct option (addrs %v)", c.at.Sub(t0), c.addrs)
		}
		hasRelayMixed := false
		for _, a := range c.addrs {
			if isRelay(a) {
				r.fail("the service called Connect at %v with relay address %s", c.at.Sub(t0), a)
			}
			if i, ok := tainted[a.String()]; ok {
				r.fail("the service called Connect at %v with %s, which it was told in DCUtR stream #%d over the NON-relayed conn #%d", c.at.Sub(t0), a, i, r.injs[i].c.seq)
			}
			if _, ok := r.scripts[a.String()]; !ok {
				r.fail("the service called Connect at %v with an address nobody told it: %s", c.at.Sub(t0), a)
			}
		}
		// which CONNECT produced this address set? relay addresses mixed in?
		if len(c.addrs) > 0 {
			r.label("connect-with-received-addrs")
			src := c.addrs[0].String()
			check := func(obs []hpAddr) {
				mine := false
				for _, a := range obs {
					if a.kind != aGarbage && a.ma().String() == src {
						mine = true
					}
				}
				if mine {
					for _, a := range obs {
						if a.kind.relay() {
							hasRelayMixed = true
						}
					}
				}
			}
			for _, in := range r.injs {
				for _, s := range in.act.steps {
					check(s.obs)
				}
			}
			for _, rp := range sc.replies {
				check(rp.obs)
			}
			if hasRelayMixed {
				r.nontr = true
				r.label("connect-from-obs-with-relay-addrs-mixed-in")
			}
			if c.isClient {
				r.label("connect-as-client")
			} else {
				r.label("connect-as-server")
			}
		} else {
			r.label("connect-direct-dial-stage")
		}
		if c.err == nil {
			r.label("connect-succeeded")
		}
	}
	if !anyRelayed && len(connects) > 0 {
		// without any relayed connection the only remaining source of Connect calls is a
		// DirectConnect invoked by the harness (its direct-dial stage)
		if len(r.dcs) == 0 {
			r.fail("the service called Connect although no relayed connection to the peer ever existed and DirectConnect was never called")
		}
	}

	// 2. DCUtR streams on non-relayed connections are reset and lead nowhere
	for i, in := range r.injs {
		complete := len(in.act.steps) == 2 && in.act.steps[0].kind == stConnect && in.act.steps[1].kind == stSync
		usable := 0
		if complete {
			for _, a := range in.act.steps[0].obs {
				if a.kind != aGarbage && !a.kind.relay() {
					usable++
				}
			}
		}
		if in.c.cls.proxy() {
			r.label("dcutr-stream-on-relayed-conn")
			if in.c.inbound {
				r.label("dcutr-stream-on-inbound-relayed-conn")
			}
			if in.gotReply.Load() {
				r.label("relayed-dialogue-answered")
			}
			if f, _ := in.final.Load().(string); f == "eof" {
				r.label("relayed-dialogue-completed")
			} else if f == "reset" {
				r.label("relayed-dialogue-refused")
			}
			continue
		}
		r.label("dcutr-stream-on-direct-conn")
		if complete && usable > 0 && !in.c.inbound {
			r.nontr = true
			r.label("complete-dialogue-on-outbound-direct-conn")
		}
		ct, wasClosed := in.c.closedAt()
		if wasClosed && !ct.After(in.at) {
			continue
		}
		if in.gotReply.Load() {
			r.fail("DCUtR stream #%d on the NON-relayed conn #%d: the service answered the CONNECT message", i, in.c.seq)
		}
		if f, _ := in.final.Load().(string); f != "reset" && f != "reset-by-remote" && f != "closed-by-remote" {
			r.fail("DCUtR stream #%d on the NON-relayed conn #%d was not reset by the service (state %q)", i, in.c.seq, f)
		}
	}

	// 3. nothing after the setup reaches the proxy transport; no relay address reaches any transport
	seenSetup := map[string]bool{}
	for _, d := range w.sw0.Snapshot() {
		if _, ok := r.setup[d.Addr.String()]; ok && !seenSetup[d.Addr.String()] {
			seenSetup[d.Addr.String()] = true // the harness' own setup dial
			continue
		}
		if d.Transport == "circuit" || isRelay(d.Addr) {
			r.fail("after the setup, relay address %s was handed to transport %q at %v", d.Addr, d.Transport, d.Start.Sub(t0))
		}
		if i, ok := tainted[d.Addr.String()]; ok {
			r.fail("address %s, told in DCUtR stream #%d over a NON-relayed connection, was dialled at %v", d.Addr, i, d.Start.Sub(t0))
		}
		r.label("direct-address-dialled")
		if d.Err == nil && d.Done {
			r.label("direct-dial-succeeded")
		}
	}

	// 4. DirectConnect reports success only when a direct connection exists
	for i, d := range r.dcs {
		if !d.returned.Load() {
			r.label("directconnect-still-running-at-horizon")
			continue
		}
		switch {
		case d.err == nil:
			ok := false
			for _, c := range P {
				if c.cls == clsD && c.possiblyOpenAt(d.end) {
					ok = true
				}
			}
			if !ok {
				r.fail("DirectConnect #%d returned nil at %v although no direct connection to the peer existed then", i, d.end.Sub(t0))
			}
			r.label("directconnect-ok")
			if d.end.After(d.start) {
				r.label("directconnect-ok-after-waiting")
			}
		case errors.Is(d.err, holepunch.ErrHolePunchActive):
			r.label("directconnect-already-active")
		default:
			r.label("directconnect-failed")
		}
	}
	if n := int(r.attempts.Load()); n > 0 {
		r.nontr = true
		r.label(fmt.Sprintf("initiator-attempts-%d", min(n, 4)))
	}
	// 5. the initiator coordinates (sends CONNECT) only over a relayed connection. A direct
	//    connection that appears at the very instant the stream is opened is a genuine race and
	//    is not judged.
	r.mu.Lock()
	got := append([]dcutrOpen(nil), r.gotConn...)
	r.mu.Unlock()
	excluded := false
	for _, o := range got {
		if o.c.cls.proxy() {
			r.label("initiator-connect-over-relayed-conn")
			continue
		}
		if !o.c.added.Before(o.at) {
			r.label("initiator-connect-over-direct-conn-same-instant(not-judged)")
			continue
		}
		if kf.Known(kfInitiatorDirect) {
			excluded = true
			continue
		}
		r.fail("the service sent a DCUtR CONNECT message at %v over the NON-relayed conn #%d (open since %v): hole punching coordinated over a direct connection", o.at.Sub(t0), o.c.seq, o.c.added.Sub(t0))
	}
	if excluded {
		stats.Excluded("TestHolePunch")
	}
}

func TestHolePunch(t *testing.T) {
	name := t.Name()
	hx.Check(t, 6000, 180000, 0, func(rt *rapid.T) {
		runHP(t, rt, name, drawHPScenario(rt))
	})
}
